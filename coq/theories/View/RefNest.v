(* C01 — REFERENCE SEMANTICS, widened to bits blocks, nested structures (with parameters) and
   structure-typed fields of dynamic size.  Written from doc/language-reference.md, independent of
   the generated code.  Definitions only (proofs: View/RefNestProofs.v).

   View/Ref.v gives the reference for FLAT structures as a list of (present, value) facts.  Here the
   facts form a TREE ([rnode]): a field whose type is a structure carries what the reference says
   about that structure -- its Ok, IsComplete, size and the facts of its members -- over the WINDOW
   the field designates:
     window of a nested byte structure   the bytes [start, start+size) of the enclosing window,
                                         clipped to it (what lies outside the message is not there)
     window of a bits block / bits type  the unsigned number its [start, start+size) bytes hold in the
                                         field's byte order, provided all of them are in the window;
                                         a member at [off, off+size) is the decode of bits
                                         off .. off+size-1 of that number:  (n / 2^off) mod 2^size
     no window                           the field does not exist, or its location or one of the
                                         arguments of its type has no value: no member can be read,
                                         and the structure has not been given its parameters
   Everything else is as in View/Ref.v: a field exists iff its condition holds, a virtual field is
   its expression, an alias is the field it names (reached through a path: `blk.member`),
   $size_in_bytes/$size_in_bits is the largest end of a present field, a parameter is the value of
   the argument expression.  The facts of one structure refer to each other, so they are the solution
   of the equations  rho = nround rho  ([is_nref_model]); [nsolve] computes it; [ref_struct] is the
   whole tree (recursion on the nesting depth).  There is no storage object, no clamping arithmetic on
   uint8_t offsets, no evaluation order and no default-constructed view here. *)
From Coq Require Import ZArith List Bool.
Import ListNotations.
Require Import EmbossV.Bounds.Model EmbossV.View.Model EmbossV.View.Ref.
Open Scope Z_scope.

(* ---------- windows ---------- *)
Inductive window :=
| WNone                              (* nothing to look at *)
| WBytes (o l : Z)                   (* the l bytes of the message that start at position o *)
| WBits (n nbits : Z).               (* the number n, seen as nbits bits *)

(* ---------- the facts about one field ---------- *)
Inductive rnode :=
| RN (present : option bool)         (* does the field exist?  None = not defined *)
     (value : option value)          (* what it reads, for scalar/virtual fields that can be read *)
     (ok : bool)                     (* it can be read (scalar) / the nested structure is Ok *)
     (complete : bool)               (* nested structure: its window holds $size units *)
     (size : option Z)               (* nested structure: its $size_in_bytes / $size_in_bits *)
     (members : list rnode).         (* nested structure: the facts about its fields; [] for a scalar *)

Definition n_present (r : rnode) := match r with RN p _ _ _ _ _ => p end.
Definition n_value (r : rnode) := match r with RN _ v _ _ _ _ => v end.
Definition n_ok (r : rnode) := match r with RN _ _ o _ _ _ => o end.
Definition n_complete (r : rnode) := match r with RN _ _ _ c _ _ => c end.
Definition n_size (r : rnode) := match r with RN _ _ _ _ s _ => s end.
Definition n_members (r : rnode) := match r with RN _ _ _ _ _ ms => ms end.

Definition n_undef : rnode := RN None None false false None [].
Definition leaf (p : option bool) (v : option value) : rnode := RN p v (is_some v) false None [].
Definition set_present (p : option bool) (r : rnode) : rnode :=
  match r with RN _ v o c s ms => RN p v o c s ms end.

Definition nassign := list rnode.                      (* by field index *)
Definition nget (rho : nassign) (i : nat) : rnode := nth i rho n_undef.

(* `a.b.c`: member c of member b of field a *)
Fixpoint nlookup (rho : nassign) (p : list nat) {struct p} : rnode :=
  match p with
  | [] => n_undef
  | i :: rest =>
      match rest with
      | [] => nget rho i
      | _ :: _ => nlookup (n_members (nget rho i)) rest
      end
  end.

(* ---------- expressions ---------- *)
Fixpoint nreval (rho : nassign) (self : option value) (x : vx) {struct x} : option value :=
  match x with
  | XK v => Some v
  | XField p => n_value (nlookup rho p)
  | XHas p => option_map VBool (n_present (nlookup rho p))
  | XSelf => self
  | XAdd a b => arith Z.add (nreval rho self a) (nreval rho self b)
  | XSub a b => arith Z.sub (nreval rho self a) (nreval rho self b)
  | XMul a b => arith Z.mul (nreval rho self a) (nreval rho self b)
  | XCmp op a b =>
      match nreval rho self a, nreval rho self b with
      | Some (VInt p), Some (VInt q) => Some (VBool (cmp_eval op p q))
      | _, _ => None
      end
  | XEq ne a b =>
      match nreval rho self a, nreval rho self b with
      | Some p, Some q => Some (VBool (if ne then negb (value_eqb p q) else value_eqb p q))
      | _, _ => None
      end
  | XAnd a b => conj (nreval rho self a) (nreval rho self b)
  | XOr a b => disj (nreval rho self a) (nreval rho self b)
  | XChoice c t f =>
      match nreval rho self c with
      | Some (VBool true) => nreval rho self t
      | Some (VBool false) => nreval rho self f
      | _ => None
      end
  | XMax args =>
      match ints_of (map (nreval rho self) args) with
      | Some (z :: zs) => Some (VInt (fold_left Z.max zs z))
      | _ => None
      end
  end.

(* ---------- one structure over one window ---------- *)
Section NStruct.
  (* what the reference says about structure number tid of the module, given its arguments
     (None = it has not been given any) over a window: supplied by [ref_struct] below *)
  Variable inner : nat -> option (list (option value)) -> window -> rnode.
  Variable d : sdef.
  Variable params : option (list (option value)).
  Variable bytes : list Z.                     (* the message *)
  Variable w : window.

  Definition nholds (rho : nassign) (rq : option vx) (v : value) : bool :=
    match rq with
    | None => true
    | Some x => match nreval rho (Some v) x with Some (VBool true) => true | _ => false end
    end.
  Definition nchecked (rho : nassign) (rq : option vx) (v : option value) : option value :=
    match v with Some vv => if nholds rho rq vv then v else None | None => None end.

  Definition decode_checked (k : skind) (kbits raw : Z) : option value :=
    match k with
    | KBcd => if is_bcd 16 raw then Some (decode_scalar k kbits raw) else None
    | _ => Some (decode_scalar k kbits raw)
    end.

  (* a scalar occupying units [off, off+sz) of the window: bytes of the message in a byte window,
     bits of the container number in a bit window *)
  Definition nscalar (k : skind) (kbits : Z) (bo : border) (off sz : Z) : option value :=
    match w with
    | WBytes o l =>
        if (0 <=? off) && (0 <=? sz) && (off + sz <=? l)
        then decode_checked k kbits (window_uint bytes bo (o + off) sz) else None
    | WBits n nbits =>
        if (0 <=? off) && (0 <=? sz) && (off + sz <=? nbits)
        then decode_checked k kbits ((n / 2 ^ off) mod 2 ^ sz) else None
    | WNone => None
    end.

  (* the window of a structure-typed field at [off, off+sz) *)
  Definition sub_window (off sz : Z) (adapt : option (Z * border)) : window :=
    match w with
    | WBytes o l =>
        let avail := Z.max 0 (Z.min sz (l - off)) in          (* the part of [off, off+sz) inside the window *)
        match adapt with
        | None => WBytes (o + off) avail
        | Some (nbits, bo) =>                                  (* a bits type: all of its bytes must be there *)
            if avail * 8 =? nbits then WBits (window_uint bytes bo (o + off) avail) nbits else WNone
        end
    | _ => WNone
    end.

  Definition nloc (rho : nassign) (start size : vx) : option (Z * Z) :=
    match as_int (nreval rho None start), as_int (nreval rho None size) with
    | Some off, Some sz => Some (off, sz)
    | _, _ => None
    end.

  Fixpoint nends (rho : nassign) (fs : list field) : list (option Z) :=
    match fs with
    | [] => []
    | f :: t =>
        match fbody_of f with
        | Phys start size _ _ =>
            match as_bool (nreval rho None (fcond f)) with
            | Some true => option_map (fun l => fst l + snd l) (nloc rho start size)
            | Some false => Some 0
            | None => None
            end :: nends rho t
        | _ => nends rho t
        end
    end.
  Definition ndynamic_size (rho : nassign) : option Z :=
    option_map (fun ends => fold_left Z.max ends 0) (all_some (nends rho (fields d))).
  Definition nsize (rho : nassign) : option Z :=
    match static_size (fields d) with
    | Some z => Some z
    | None => ndynamic_size rho
    end.

  Definition array_readable (off sz esz : Z) : bool :=
    match w with
    | WBytes _ l => (0 <=? off) && (0 <=? sz) && (off + sz <=? l) && (0 <? esz) && (sz mod esz =? 0)
    | _ => false
    end.

  Definition targs (ty : ftype) : list vx := match ty with FStruct _ a _ => a | _ => [] end.

  (* what the reference says about field number i, given what it says about the others *)
  Definition ndenote (rho : nassign) (i : nat) (f : field) : rnode :=
    let present := as_bool (nreval rho None (fcond f)) in
    if Nat.eqb i (size_field d) then leaf present (option_map VInt (nsize rho))
    else
      match fbody_of f with
      | Param k =>
          (* a parameter is there once the structure has been given its arguments *)
          leaf (Some (is_some params)) (match params with Some ps => nth k ps None | None => None end)
      | Virt rd rq =>
          leaf present (match present with Some true => nchecked rho rq (nreval rho None rd) | _ => None end)
      | Alias p _ =>
          match present with
          | Some true => set_present present (nlookup rho p)       (* the field it names *)
          | _ => leaf present None
          end
      | Phys start size (FScalar k kbits bo) rq =>
          leaf present
            (match present, nloc rho start size with
             | Some true, Some (off, sz) => nchecked rho rq (nscalar k kbits bo off sz)
             | _, _ => None
             end)
      | Phys start size (FStruct tid args adapt) _ =>
          let argvals := map (nreval rho None) args in
          set_present present
            (match present, nloc rho start size with
             | Some true, Some (off, sz) =>
                 if forallb is_some argvals && (0 <=? sz) && (0 <=? off)
                 then inner tid (Some argvals) (sub_window off sz adapt)
                 else inner tid None WNone
             | _, _ => inner tid None WNone
             end)
      | Phys start size (FArray _ esz) _ =>
          (* an array occupies the designated window [off, off+sz): it has sz/esz elements whatever the
             message holds, and can be read when that whole window is there.  Only this much is said about
             arrays (the elements are not treated): the generated code disagrees with it on truncated
             messages -- finding F9, RefNestProofs.gen_agrees_with_ref_refuted_array -- so arrays are
             outside the class of the agreement theorem *)
          match present, nloc rho start size with
          | Some true, Some (off, sz) =>
              RN present None (array_readable off sz esz) false (if 0 <? esz then Some (sz / esz) else None) []
          | _, _ => leaf present None
          end
      end.

  Fixpoint nround_from (rho : nassign) (i : nat) (fs : list field) : nassign :=
    match fs with
    | [] => []
    | f :: t => ndenote rho i f :: nround_from rho (S i) t
    end.
  Definition nround (rho : nassign) : nassign := nround_from rho 0 (fields d).

  (* THE REFERENCE for one structure: an assignment that satisfies every field's equation *)
  Definition is_nref_model (rho : nassign) : Prop := nround rho = rho.

  Fixpoint niterate (n : nat) (rho : nassign) : nassign :=
    match n with O => rho | S n' => nround (niterate n' rho) end.
  Definition nsolve : nassign :=
    niterate (length (fields d)) (map (fun _ => n_undef) (fields d)).

  (* ---------- the structure as a whole ---------- *)
  Definition window_units : option Z :=
    match w with WBytes _ l => Some l | WBits _ nbits => Some nbits | WNone => None end.
  Definition ncomplete (rho : nassign) : bool :=
    match nsize rho, window_units with Some z, Some l => z <=? l | _, _ => false end.
  Definition node_fine (r : rnode) : bool :=
    match n_present r with
    | Some true => n_ok r
    | Some false => true
    | None => false
    end.
  Definition nok (rho : nassign) : bool :=
    ncomplete rho
    && (if (0 <? nparams d)%nat then is_some params else true)
    && forallb node_fine rho
    && match srequires d with
       | None => true
       | Some x => match nreval rho None x with Some (VBool true) => true | _ => false end
       end.

  Definition nsummary (rho : nassign) : rnode :=
    RN None None (nok rho) (ncomplete rho) (nsize rho) rho.
End NStruct.

(* ---------- the whole tree: structure tid of module m; n bounds the nesting depth ---------- *)
Fixpoint ref_struct (m : module) (bytes : list Z) (n : nat) (tid : nat)
         (ps : option (list (option value))) (w : window) {struct n} : rnode :=
  match n with
  | O => n_undef
  | S n' =>
      match nth_error m tid with
      | None => n_undef
      | Some d => nsummary d ps w (nsolve (ref_struct m bytes n') d ps bytes w)
      end
  end.

Definition whole (bytes : list Z) : window := WBytes 0 (Z.of_nat (length bytes)).

(* ---------- observations, in the order the C++ driver prints them ---------- *)
Fixpoint obs_node (r : rnode) : list Z :=
  match r with
  | RN p v ok c sz ms =>
      [obs_mbool p; obs_bool ok]
      ++ (if ok then match v with Some x => [obs_value x] | None => [] end else [])
      ++ match ms with
         | [] => []
         | _ :: _ => obs_bool c :: (match sz with Some z => [1; z] | None => [0] end)
                     ++ flat_map obs_node ms
         end
  end.

Definition ref_observe_n (m : module) (tid : nat) (ps : list (option value)) (bytes : list Z) (n : nat) : list Z :=
  obs_node (ref_struct m bytes n tid (Some ps) (whole bytes)).

(* ---------- reading a result tree of the generated-code model as reference facts ---------- *)
(* forgets the storage object; a value counts only when the view is Ok() *)
Fixpoint node_of (g : fres) : rnode :=
  match g with
  | FR h ok v _ sub _ sc ss _ =>
      RN h (if ok then v else None) ok (match sub with [] => false | _ :: _ => sc end) ss
         (map (fun o => match o with Some g' => node_of g' | None => n_undef end) sub)
  end.

(* g is the result tree of a scalar or of a structure all of whose members have been evaluated,
   hereditarily, within depth n: no array elements, no element count *)
Fixpoint evaluated (n : nat) (g : fres) {struct n} : bool :=
  match n with
  | O => false
  | S n' =>
      match g with
      | FR _ _ _ _ sub _ _ ss els =>
          match els with [] => true | _ :: _ => false end
          && match sub, ss with [], Some _ => false | _, _ => true end
          && forallb (fun o => match o with Some g' => evaluated n' g' | None => false end) sub
      end
  end.

(* ---------- the class of structures for which the agreement theorem is proved ---------- *)
(* every field mentioned by x is (a member of) a direct member accepted by [ok] *)
Fixpoint nrefs_in (ok : nat -> bool) (x : vx) {struct x} : bool :=
  match x with
  | XK _ | XSelf => true
  | XField p | XHas p => match p with i :: _ => ok i | [] => false end
  | XAdd a b | XSub a b | XMul a b | XCmp _ a b | XEq _ a b | XAnd a b | XOr a b =>
      nrefs_in ok a && nrefs_in ok b
  | XChoice c t f => nrefs_in ok c && nrefs_in ok t && nrefs_in ok f
  | XMax args => forallb (nrefs_in ok) args
  end.
Definition onrefs_in (ok : nat -> bool) (x : option vx) : bool :=
  match x with Some y => nrefs_in ok y | None => true end.

Definition nfield_refs_in (ok : nat -> bool) (f : field) : bool :=
  nrefs_in ok (fcond f) &&
  match fbody_of f with
  | Phys start size ty rq =>
      nrefs_in ok start && nrefs_in ok size && onrefs_in ok rq && forallb (nrefs_in ok) (targs ty)
  | Virt rd rq => nrefs_in ok rd && onrefs_in ok rq
  | Alias (j :: _) _ => ok j
  | Alias [] _ => false
  | Param _ => true
  end.

Fixpoint ndeps_ok (fs : list field) (done ord : list nat) : bool :=
  match ord with
  | [] => true
  | i :: t =>
      match nth_error fs i with
      | Some f => nfield_refs_in (fun k => mem k done) f
      | None => false
      end && ndeps_ok fs (i :: done) t
  end.

(* field shapes.  u = 8: scalars of s bytes, 8*s = width; u = 1 (inside a bits type): scalars of s = width
   bits, at most 64.  A structure-typed field (only in byte structures): its type is in the class (rec);
   a byte structure may have ANY size expression (`[+n]` with n a field), a bits type has the constant
   size nbits/8 <= 8 bytes.  Unconditional virtual fields (a conditional one is the known finding
   virtual-ok-ignores-existence), aliases of scalars through paths of any length, parameters. *)
Definition nshape (m : module) (rec : sdef -> bool) (u : Z) (f : field) : bool :=
  match fbody_of f with
  | Phys _ size (FScalar k kbits _) _ =>
      match size with
      | XK (VInt s) =>
          kind_ok k && (0 <? s) && (if u =? 8 then 8 * s =? kbits else (s =? kbits) && (s <=? 64))
      | _ => false
      end
  | Phys _ size (FStruct tid _ adapt) _ =>
      (u =? 8) &&
      match nth_error m tid with
      | Some d' =>
          rec d' &&
          match adapt with
          | None => unit_bits d' =? 8
          | Some (nb, _) =>
              (unit_bits d' =? 1) && (0 <? nb) && (nb <=? 64)
              && match size with XK (VInt s) => 8 * s =? nb | _ => false end
          end
      | None => false
      end
  | Phys _ _ (FArray _ _) _ => false
  | Virt _ _ => match fcond f with XK (VBool true) => true | _ => false end
  | Alias (_ :: _) (FScalar _ _ _) => true
  | Alias _ _ => false
  | Param _ => true
  end.

(* structure d of module m, nesting depth at most n *)
Fixpoint wf_ref_n (m : module) (n : nat) (d : sdef) {struct n} : bool :=
  match n with
  | O => false
  | S n' =>
      ((unit_bits d =? 8) || (unit_bits d =? 1))
      && forallb (nshape m (wf_ref_n m n') (unit_bits d)) (fields d)
      && ndeps_ok (fields d) [] (order d)
      && forallb (fun i => mem i (order d)) (seq 0 (length (fields d)))
      && (length (order d) <=? length (fields d))%nat
      && size_field_ok d
      && onrefs_in (fun k => (k <? length (fields d))%nat) (srequires d)
  end.
