(* C01 — the generated-code model (View/Model.v) agrees with the reference semantics (View/Ref.v). *)
From Coq Require Import ZArith List Bool Lia ZifyBool Arith.
Import ListNotations.
Require Import EmbossV.Bounds.Model EmbossV.View.Model EmbossV.View.Proofs EmbossV.View.Stable EmbossV.View.Ref.
Open Scope Z_scope.

(* ---------- lists ---------- *)
Lemma set_nth_length {A} (x : A) : forall i l, length (set_nth l i x) = length l.
Proof.
  unfold set_nth. induction i as [|i IH]; intros [|a t]; cbn; try reflexivity.
  f_equal. apply IH.
Qed.

Lemma nth_error_set_nth_eq {A} (x : A) : forall i l, (i < length l)%nat -> nth_error (set_nth l i x) i = Some x.
Proof.
  unfold set_nth. induction i as [|i IH]; intros [|a t] H; cbn in *; try lia; [reflexivity|].
  apply IH. lia.
Qed.

Lemma nth_error_set_nth_ne {A} (x : A) : forall i l k, i <> k -> nth_error (set_nth l i x) k = nth_error l k.
Proof.
  unfold set_nth. induction i as [|i IH]; intros [|a t] k H; cbn.
  - reflexivity.
  - destruct k; [congruence|reflexivity].
  - reflexivity.
  - destruct k; [reflexivity|]. cbn. apply IH. congruence.
Qed.

Lemma mem_In k l : mem k l = true <-> In k l.
Proof.
  unfold mem. rewrite existsb_exists. split.
  - intros (x & Hx & E). apply Nat.eqb_eq in E. subst. exact Hx.
  - intros H. exists k. split; [exact H|apply Nat.eqb_refl].
Qed.

Lemma nth_error_nth_none {A} (l : list (option A)) k :
  match nth_error l k with Some v => v | None => None end = nth k l None.
Proof. revert k. induction l as [|a t IH]; intros [|k]; cbn; auto. Qed.

(* ---------- decidable equality of expressions is sound ---------- *)
Lemma value_same_eq a b : value_same a b = true -> a = b.
Proof.
  destruct a, b; cbn; try discriminate; intros H.
  - f_equal. lia.
  - f_equal. apply Bool.eqb_prop. exact H.
  - f_equal. lia.
Qed.
Lemma cmpop_same_eq a b : cmpop_same a b = true -> a = b.
Proof. destruct a, b; cbn; congruence. Qed.
Lemma path_same_eq : forall a b, path_same a b = true -> a = b.
Proof.
  induction a as [|x a IH]; intros [|y b]; cbn; try discriminate; [reflexivity|].
  intros H. apply andb_prop in H. destruct H as [H1 H2]. apply Nat.eqb_eq in H1. f_equal; auto.
Qed.

Lemma vx_same_eq : forall x y, vx_same x y = true -> x = y.
Proof.
  intros x. induction x using vx_ind2; intros y Hy; destruct y; cbn in Hy; try discriminate;
    repeat match goal with
           | H : _ && _ = true |- _ => apply andb_prop in H; destruct H
           end;
    try (f_equal; auto using value_same_eq, cmpop_same_eq, path_same_eq, Bool.eqb_prop; fail).
  f_equal. revert args0 Hy. induction H as [|a t Ha Ht IH]; intros [|a' t'] Hy; try discriminate; [reflexivity|].
    apply andb_prop in Hy. destruct Hy as [H1 H2]. f_equal; [apply Ha; exact H1|apply IH; exact H2].
Qed.

(* ---------- a field result of the generated-code model against a reference fact ---------- *)
Definition flat (g : fres) : Prop := fr_sub g = [] /\ fr_ssize g = None /\ fr_elems g = [].

Definition agree (g : fres) (r : rfield) : Prop :=
  fr_has g = r_present r /\                       (* has_x() *)
  fr_ok g = is_some (r_value r) /\                (* x().Ok() *)
  (fr_ok g = true -> fr_val g = r_value r) /\     (* Read() *)
  flat g.

Lemma agree_read g r : agree g r -> (if fr_ok g then fr_val g else None) = r_value r.
Proof.
  intros (_ & Ho & Hv & _). destruct (fr_ok g); [apply Hv; reflexivity|].
  destruct (r_value r); [discriminate|reflexivity].
Qed.

Lemma agree_with_has h g r :
  agree g r -> forall r', r_present r' = h -> r_value r' = r_value r -> agree (with_has h g) r'.
Proof.
  intros (H1 & H2 & H3 & H4 & H5 & H6) r' Hp Hv. destruct g. cbn in *.
  unfold agree, flat. cbn. rewrite Hp, Hv. repeat split; auto.
Qed.

(* ---------- the two expression evaluators coincide on agreeing environments ---------- *)
Lemma m_all_ints_ints_of l : m_all_ints l = ints_of l.
Proof. induction l as [|[[z|b|z]|] t IH]; cbn; try reflexivity; rewrite IH; reflexivity. Qed.

Section Eval.
  Variable e : env.
  Variable rho : rassign.
  Variable ok : nat -> bool.
  Hypothesis Hok : forall i, ok i = true -> exists g, nth_error e i = Some (Some g) /\ agree g (rget rho i).

  Lemma meval_reval self x : refs_in ok x = true -> meval e self x = reval rho self x.
  Proof.
    induction x using vx_ind2; cbn [refs_in meval reval]; intros Hr;
      repeat match goal with
             | H : _ && _ = true |- _ => apply andb_prop in H; destruct H
             end;
      try (rewrite ?IHx1, ?IHx2, ?IHx3 by assumption; reflexivity).
    - destruct p as [|i [|j p']]; try discriminate.
      destruct (Hok i Hr) as (g & Hn & Ha). cbn [lookup]. rewrite Hn. apply agree_read. exact Ha.
    - destruct p as [|i [|j p']]; try discriminate.
      destruct (Hok i Hr) as (g & Hn & Ha). cbn [lookup]. rewrite Hn.
      destruct Ha as (-> & _). destruct (r_present (rget rho i)); reflexivity.
    - assert (E : map (meval e self) args = map (reval rho self) args).
      { induction H as [|a t Ha Ht IH]; [reflexivity|]. cbn in Hr. apply andb_prop in Hr. destruct Hr as [H1 H2].
        cbn. rewrite (Ha H1), (IH H2). reflexivity. }
      rewrite E, m_all_ints_ints_of. reflexivity.
  Qed.

  Lemma m_bool_as_bool x : refs_in ok x = true -> m_bool (meval e None x) = as_bool (reval rho None x).
  Proof. intros H. rewrite (meval_reval None x H). reflexivity. Qed.

  Lemma m_z_as_int x : refs_in ok x = true -> m_z (meval e None x) = as_int (reval rho None x).
  Proof. intros H. rewrite (meval_reval None x H). reflexivity. Qed.

  Lemma requires_ok_holds rq v : orefs_in ok rq = true -> requires_ok rq e v = holds rho rq v.
  Proof.
    destruct rq as [x|]; cbn; [|reflexivity]. intros H. rewrite (meval_reval (Some v) x H).
    destruct (reval rho (Some v) x) as [[z|[|]|z]|]; reflexivity.
  Qed.
End Eval.

(* ---------- the synthesized $size expression is the reference's "largest end of a present field" ---------- *)
Lemma fold_clause_ref rho c st sz :
  reval rho None (fold_clause c st sz) = reval rho None (XChoice c (XAdd st sz) (XK (VInt 0))).
Proof.
  assert (He : reval rho None (fold_end st sz) = arith Z.add (reval rho None st) (reval rho None sz)).
  { unfold fold_end. destruct st as [[a|a|a]| | | | | | | | | | | |]; try reflexivity.
    destruct sz as [[b|b|b]| | | | | | | | | | | |]; reflexivity. }
  unfold fold_clause.
  destruct c as [[z|[|]|z]| | | | | | | | | | | |]; cbn [reval]; try reflexivity; try (rewrite He; reflexivity).
  rewrite <- He. destruct (fold_end st sz) as [[y|y|y]| | | | | | | | | | | |]; reflexivity.
Qed.

Lemma synth_size_ref d rho :
  reval rho None (synth_size (fields d)) = option_map VInt (ref_size d rho).
Proof.
  unfold synth_size, ref_size. destruct (static_size (fields d)) as [z|]; [reflexivity|].
  unfold dynamic_size. generalize (fields d). intros fs.
  assert (E : ints_of (map (reval rho None) (synth_clauses fs)) = all_some (ref_ends rho fs)).
  { induction fs as [|f t IH]; [reflexivity|]. cbn [synth_clauses ref_ends].
    destruct (fbody_of f) as [start size ty rq| | |]; try exact IH.
    cbn [map ints_of all_some]. rewrite fold_clause_ref. cbn [reval]. rewrite IH. unfold ref_loc.
    destruct (reval rho None (fcond f)) as [[z|[|]|z]|]; cbn; try reflexivity.
    destruct (reval rho None start) as [[a|a|a]|]; cbn; try reflexivity;
      destruct (reval rho None size) as [[b|b|b]|]; cbn; reflexivity. }
  cbn [reval map ints_of]. rewrite E. destruct (all_some (ref_ends rho fs)); reflexivity.
Qed.

(* ---------- a physical scalar: the clamp of GetOffsetStorage against "the window lies in the message" ---------- *)
Lemma scalar_view m bytes f' k kbits bo rq e off s :
  0 < s -> 8 * s = kbits -> 0 <= off ->
  let g := eval_type m bytes (S f') 8 (FScalar k kbits bo) [] true (get_offset (root bytes) off s) rq e in
  fr_ok g = match ref_scalar bytes k kbits bo off s with Some v' => requires_ok rq e v' | None => false end /\
  (forall v', ref_scalar bytes k kbits bo off s = Some v' -> fr_val g = Some v') /\ flat g.
Proof.
  intros Hs Hk Ho. cbn [eval_type get_offset root bstore_offset]. 
  change (8 =? 8) with true. cbn iota.
  unfold mk_bitblock, bitblock_ok, orderer_size. cbn [bstore_ok bstore_size storage_ok storage_size raw_read andb].
  unfold container_value.
  assert (Hd : kbits / 8 = s) by (subst kbits; rewrite Z.mul_comm; apply Z.div_mul; lia).
  rewrite Hd. change (0 + off) with off.
  unfold ref_scalar, window_uint.
  set (raw := match bo with BE => be_value bytes off (Z.to_nat s) 0 | _ => le_value bytes off (Z.to_nat s) end).
  set (len := Z.of_nat (length bytes)).
  assert (Hc : ((if len <? off then 0 else Z.min s (len - off)) * 8 =? kbits) = ((0 <=? off) && (0 <=? s) && (off + s <=? len))).
  { destruct (len <? off) eqn:E; lia. }
  rewrite Hc. cbn [fr_ok fr_val].
  destruct ((0 <=? off) && (0 <=? s) && (off + s <=? len)) eqn:Er; cbn [andb].
  - replace (kbits <=? kbits) with true by lia. cbn [andb].
    split; [|split; [|repeat split]].
    + destruct k; try reflexivity. destruct (is_bcd 16 raw); reflexivity.
    + intros v' Hv. destruct k; try congruence. destruct (is_bcd 16 raw); congruence.
  - split; [reflexivity|]. split; [discriminate|repeat split].
Qed.

Lemma scalar_default m bytes f' k kbits bo ps pinit rq e :
  let g := eval_type m bytes f' 8 (FScalar k kbits bo) ps pinit (null_of (FScalar k kbits bo) m) rq e in
  fr_ok g = false /\ flat g.
Proof.
  destruct f'; cbn; repeat split.
Qed.

(* ---------- the structure view against the reference ---------- *)
Section Agree.
  Variable m : module.
  Variable d : sdef.
  Variable ps : list (maybe value).
  Variable bytes : list Z.
  Variable rho : rassign.
  Hypothesis Hmodel : is_ref_model d ps bytes rho.
  Hypothesis Hunit : unit_bits d = 8.
  Hypothesis Hshape : forallb shape_ok (fields d) = true.
  Hypothesis Hsize : size_field_ok d = true.

  Lemma round_from_nth r : forall fs k i,
    nth_error (round_from d ps bytes r k fs) i = option_map (denote d ps bytes r (k + i)) (nth_error fs i).
  Proof.
    induction fs as [|f t IH]; intros k [|i]; cbn; try reflexivity.
    - rewrite Nat.add_0_r. reflexivity.
    - rewrite IH. rewrite Nat.add_succ_r. reflexivity.
  Qed.

  Lemma model_eq i f : nth_error (fields d) i = Some f -> rget rho i = denote d ps bytes rho i f.
  Proof.
    intros H. unfold rget. apply nth_error_nth. unfold is_ref_model, one_round in Hmodel.
    rewrite <- Hmodel at 1. rewrite round_from_nth, H. reflexivity.
  Qed.

  Lemma round_from_length r : forall fs k, length (round_from d ps bytes r k fs) = length fs.
  Proof. induction fs as [|f t IH]; intros k; cbn; [reflexivity|]. rewrite IH. reflexivity. Qed.

  Lemma model_length : length rho = length (fields d).
  Proof.
    pose proof (f_equal (@length _) Hmodel) as H. unfold one_round in H. rewrite round_from_length in H.
    symmetry. exact H.
  Qed.

  Lemma shape_of i f : nth_error (fields d) i = Some f -> shape_ok f = true.
  Proof. intros H. rewrite forallb_forall in Hshape. apply Hshape. eapply nth_error_In; exact H. Qed.

  Lemma size_field_shape :
    exists f x, nth_error (fields d) (size_field d) = Some f /\ fcond f = XK (VBool true) /\
                fbody_of f = Virt x None /\
                forall r, reval r None x = option_map VInt (ref_size d r).
  Proof.
    unfold size_field_ok in Hsize. destruct (nth_error (fields d) (size_field d)) as [f|]; [|discriminate].
    exists f.
    destruct (fcond f) as [[z|[|]|z]| | | | | | | | | | | |]; try discriminate.
    destruct (fbody_of f) as [| x [q|] | |]; try discriminate.
    exists x. apply vx_same_eq in Hsize. subst x. repeat split. intros r. apply synth_size_ref.
  Qed.

  (* one step of the generated code's evaluation in dependency order produces what the reference says *)
  Lemma step_agree f' e ok i fld :
    (forall k, ok k = true -> exists g, nth_error e k = Some (Some g) /\ agree g (rget rho k)) ->
    nth_error (fields d) i = Some fld -> field_refs_in ok fld = true ->
    exists g, vstep m bytes (S f') d ps true (root bytes) e i = set_nth e i (Some g) /\ agree g (rget rho i).
  Proof.
    intros He Hf Hrefs. unfold vstep. rewrite Hf.
    eexists. split; [reflexivity|].
    rewrite (model_eq i fld Hf). pose proof (shape_of i fld Hf) as Hsh.
    unfold field_refs_in in Hrefs. apply andb_prop in Hrefs. destruct Hrefs as [Hrc Hrb].
    rewrite (m_bool_as_bool e rho ok He _ Hrc).
    unfold denote.
    destruct (Nat.eqb i (size_field d)) eqn:Ei.
    - apply Nat.eqb_eq in Ei. subst i. destruct size_field_shape as (f0 & x & Hf0 & Hc0 & Hb0 & Hx).
      rewrite Hf in Hf0. inversion Hf0; subst f0. rewrite Hb0 in Hrb |- *. rewrite Hc0.
      apply andb_prop in Hrb. destruct Hrb as [Hrd _].
      rewrite (meval_reval e rho ok He None _ Hrd). rewrite Hx.
      destruct (ref_size d rho) as [z|]; cbn; repeat split; reflexivity.
    - unfold shape_ok in Hsh. rewrite Hunit.
      destruct (fbody_of fld) as [start size ty rq | rd rq | p aty | pi] eqn:Eb.
      + (* physical scalar *)
        destruct size as [[s|?|?]| | | | | | | | | | | |]; try discriminate.
        destruct ty as [k kbits bo| |]; try discriminate.
        apply andb_prop in Hsh. destruct Hsh as [Hs Hk]. apply andb_prop in Hs. destruct Hs as [_ Hs].
        apply andb_prop in Hrb. destruct Hrb as [Hrb Hrq]. apply andb_prop in Hrb. destruct Hrb as [Hrs _].
        cbn [args_of map forallb]. unfold locate, ref_loc. cbn [andb meval m_z reval as_int].
        rewrite (m_z_as_int e rho ok He _ Hrs).
        destruct (as_bool (reval rho None (fcond fld))) as [[|]|] eqn:Ep; cbn [value_or_false].
        * destruct (as_int (reval rho None start)) as [off|] eqn:Eo.
          -- replace (0 <=? s) with true by lia. cbn [andb].
             destruct (0 <=? off) eqn:Eoff.
             ++ destruct (scalar_view m bytes f' k kbits bo rq e off s ltac:(lia) ltac:(lia) ltac:(lia)) as (H1 & H2 & H3).
                set (g := eval_type m bytes (S f') 8 (FScalar k kbits bo) [] true (get_offset (root bytes) off s) rq e) in *.
                clearbody g. destruct g as [h o v st sub sok sc ss els]. cbn in H1, H2, H3 |- *.
                unfold agree, checked. cbn [fr_has fr_ok fr_val r_present r_value].
                destruct (ref_scalar bytes k kbits bo off s) as [v'|] eqn:Ev.
                ** rewrite (requires_ok_holds e rho ok He rq v' Hrq) in H1.
                   split; [reflexivity|]. split; [rewrite H1; destruct (holds rho rq v'); reflexivity|].
                   split; [|exact H3]. intros Ho. rewrite (H2 v' eq_refl). rewrite <- H1, Ho. reflexivity.
                ** split; [reflexivity|]. split; [exact H1|]. split; [|exact H3]. intros Ho. congruence.
             ++ destruct (scalar_default m bytes (S f') k kbits bo [] false rq e) as [H1 H3].
                set (g := eval_type m bytes (S f') 8 (FScalar k kbits bo) [] false (null_of (FScalar k kbits bo) m) rq e) in *.
                clearbody g. destruct g as [h o v st sub sok sc ss els]. cbn in H1, H3 |- *. subst o.
                unfold agree. cbn [fr_has fr_ok fr_val r_present r_value].
                assert (Hn : ref_scalar bytes k kbits bo off s = None).
                { unfold ref_scalar. rewrite Eoff. reflexivity. }
                rewrite Hn. cbn. repeat split; try discriminate; apply H3.
          -- destruct (scalar_default m bytes (S f') k kbits bo [] false rq e) as [H1 H3].
             set (g := eval_type m bytes (S f') 8 (FScalar k kbits bo) [] false (null_of (FScalar k kbits bo) m) rq e) in *.
             clearbody g. destruct g as [h o v st sub sok sc ss els]. cbn in H1, H3 |- *. subst o.
             unfold agree. cbn. repeat split; try discriminate; apply H3.
        * destruct (scalar_default m bytes (S f') k kbits bo [] false rq e) as [H1 H3].
          set (g := eval_type m bytes (S f') 8 (FScalar k kbits bo) [] false (null_of (FScalar k kbits bo) m) rq e) in *.
          clearbody g. destruct g as [h o v st sub sok sc ss els]. cbn in H1, H3 |- *. subst o.
          unfold agree. cbn. repeat split; try discriminate; apply H3.
        * destruct (scalar_default m bytes (S f') k kbits bo [] false rq e) as [H1 H3].
          set (g := eval_type m bytes (S f') 8 (FScalar k kbits bo) [] false (null_of (FScalar k kbits bo) m) rq e) in *.
          clearbody g. destruct g as [h o v st sub sok sc ss els]. cbn in H1, H3 |- *. subst o.
          unfold agree. cbn. repeat split; try discriminate; apply H3.
      + (* virtual field *)
        destruct (fcond fld) as [[z|[|]|z]| | | | | | | | | | | |]; try discriminate.
        apply andb_prop in Hrb. destruct Hrb as [Hrd Hrq].
        rewrite (meval_reval e rho ok He None _ Hrd). cbn [reval as_bool].
        unfold agree, checked, flat. cbn [fr_has fr_ok fr_val fr_sub fr_ssize fr_elems r_present r_value].
        destruct (reval rho None rd) as [vv|]; [|repeat split; discriminate].
        rewrite (requires_ok_holds e rho ok He rq vv Hrq).
        destruct (holds rho rq vv); repeat split; try reflexivity; discriminate.
      + (* alias *)
        destruct p as [|j [|j2 p']]; try discriminate.
        destruct aty as [k kbits bo| |]; try discriminate.
        destruct (as_bool (reval rho None (fcond fld))) as [[|]|] eqn:Ep; cbn [value_or_false].
        * destruct (He j Hrb) as (g & Hn & Ha). cbn [lookup]. rewrite Hn.
          apply (agree_with_has _ g (rget rho j) Ha); reflexivity.
        * destruct (scalar_default m bytes (S f') k kbits bo [] false None e) as [H1 H3].
          set (g := eval_type m bytes (S f') 8 (FScalar k kbits bo) [] false (null_of (FScalar k kbits bo) m) None e) in *.
          clearbody g. destruct g as [h o v st sub sok sc ss els]. cbn in H1, H3 |- *. subst o.
          unfold agree. cbn. repeat split; try discriminate; apply H3.
        * destruct (scalar_default m bytes (S f') k kbits bo [] false None e) as [H1 H3].
          set (g := eval_type m bytes (S f') 8 (FScalar k kbits bo) [] false (null_of (FScalar k kbits bo) m) None e) in *.
          clearbody g. destruct g as [h o v st sub sok sc ss els]. cbn in H1, H3 |- *. subst o.
          unfold agree. cbn. repeat split; try discriminate; apply H3.
      + (* parameter *)
        rewrite <- nth_error_nth_none. unfold maybe in *.
        unfold agree, flat. cbn [fr_has fr_ok fr_val fr_sub fr_ssize fr_elems r_present r_value].
        destruct (nth_error ps pi) as [[v|]|]; repeat split; reflexivity.
  Qed.

  Hypothesis Hdeps : deps_ok (fields d) [] (order d) = true.
  Hypothesis Hcover : forallb (fun i => mem i (order d)) (seq 0 (length (fields d))) = true.
  Hypothesis Hreq : orefs_in (fun k => (k <? length (fields d))%nat) (srequires d) = true.

  Definition env_agree (done : list nat) (e : env) : Prop :=
    forall k, mem k done = true -> exists g, nth_error e k = Some (Some g) /\ agree g (rget rho k).

  Lemma fold_agree f' : forall ord done e,
    length e = length (fields d) -> env_agree done e -> deps_ok (fields d) done ord = true ->
    length (fold_left (vstep m bytes (S f') d ps true (root bytes)) ord e) = length (fields d) /\
    env_agree (rev ord ++ done) (fold_left (vstep m bytes (S f') d ps true (root bytes)) ord e).
  Proof.
    induction ord as [|i t IH]; intros done e Hl He Hd; [split; assumption|].
    cbn [deps_ok] in Hd. apply andb_prop in Hd. destruct Hd as [Hi Ht].
    destruct (nth_error (fields d) i) as [fld|] eqn:Ef; [|discriminate].
    destruct (step_agree f' e (fun k => mem k done) i fld He Ef Hi) as (g & Hstep & Hg).
    cbn [fold_left]. rewrite Hstep.
    assert (Hil : (i < length e)%nat).
    { rewrite Hl. apply nth_error_Some. congruence. }
    destruct (IH (i :: done) (set_nth e i (Some g))) as [H1 H2].
    - rewrite set_nth_length. exact Hl.
    - intros k Hk. unfold mem in Hk. cbn [existsb] in Hk. apply orb_prop in Hk.
      destruct (Nat.eq_dec i k) as [->|Hne].
      + exists g. split; [apply nth_error_set_nth_eq; exact Hil|exact Hg].
      + destruct Hk as [Hk|Hk]; [apply Nat.eqb_eq in Hk; congruence|].
        rewrite nth_error_set_nth_ne by exact Hne. apply He. exact Hk.
    - exact Ht.
    - split; [exact H1|]. cbn [rev]. rewrite <- app_assoc. exact H2.
  Qed.

  Definition gen_env (f' : nat) : env :=
    fold_left (vstep m bytes (S f') d ps true (root bytes)) (order d) (map (fun _ => None) (fields d)).

  Lemma order_bound : forall ord done, deps_ok (fields d) done ord = true ->
    forall i, In i ord -> (i < length (fields d))%nat.
  Proof.
    induction ord as [|j t IH]; intros done Hd i Hi; [contradiction|].
    cbn [deps_ok] in Hd. apply andb_prop in Hd. destruct Hd as [Hj Ht].
    destruct Hi as [->|Hi]; [|eapply IH; eassumption].
    apply nth_error_Some. destruct (nth_error (fields d) i); [discriminate|discriminate].
  Qed.

  Lemma covered i : (i < length (fields d))%nat -> In i (order d).
  Proof.
    intros H. rewrite forallb_forall in Hcover. apply mem_In. apply Hcover. apply in_seq. lia.
  Qed.

  Lemma gen_env_agree f' :
    length (gen_env f') = length (fields d) /\
    forall i, (i < length (fields d))%nat ->
      exists g, nth_error (gen_env f') i = Some (Some g) /\ agree g (rget rho i).
  Proof.
    destruct (fold_agree f' (order d) [] (map (fun _ => None) (fields d))) as [H1 H2].
    - apply map_length.
    - intros k Hk. discriminate.
    - exact Hdeps.
    - split; [exact H1|]. intros i Hi. apply H2. apply mem_In. apply in_or_app. left.
      apply -> in_rev. apply covered. exact Hi.
  Qed.

  Lemma field_test_fine e i g :
    nth_error e i = Some (Some g) -> agree g (rget rho i) -> field_test e i = field_fine (rget rho i).
  Proof.
    intros Hn (H1 & H2 & _). unfold field_test, field_fine. rewrite Hn, H1, H2. reflexivity.
  Qed.

  (* the view of the whole structure *)
  Theorem struct_agrees f' :
    let r := eval_struct m bytes (S (S f')) d ps true (root bytes) in
    fr_ssize r = ref_size d rho /\
    fr_scomplete r = ref_complete d bytes rho /\
    fr_ok r = ref_ok d bytes rho /\
    fr_sok r = ref_ok d bytes rho /\
    fr_sub r = gen_env f' /\ fr_has r = None /\ fr_elems r = [] /\ fr_val r = None.
  Proof.
    rewrite eval_struct_S. fold (gen_env f'). destruct (gen_env_agree f') as [Hlen Hall].
    set (e := gen_env f') in *. unfold finish.
    cbn [fr_ssize fr_scomplete fr_ok fr_sok fr_sub fr_has fr_elems fr_val].
    assert (Hsz : isize_of d e = ref_size d rho).
    { destruct size_field_shape as (f0 & x0 & Hf0 & Hc0 & Hb0 & _).
      assert (Hlt : (size_field d < length (fields d))%nat) by (apply nth_error_Some; congruence).
      destruct (Hall _ Hlt) as (g & Hn & Ha). unfold isize_of. rewrite Hn.
      rewrite (model_eq _ _ Hf0) in Ha. unfold denote in Ha. rewrite Nat.eqb_refl in Ha.
      destruct Ha as (_ & H2 & H3 & _). cbn [r_value] in H2, H3.
      destruct (ref_size d rho) as [z|]; cbn in H2, H3 |- *.
      - rewrite H2. rewrite (H3 H2). reflexivity.
      - rewrite H2. reflexivity. }
    assert (Hcomp : storage_ok (root bytes) && match isize_of d e with Some z => z <=? storage_size (root bytes) | None => false end
                    = ref_complete d bytes rho).
    { rewrite Hsz. unfold ref_complete. reflexivity. }
    assert (Hfields : forallb (field_test e) (order d) = forallb field_fine rho).
    { apply Bool.eq_iff_eq_true. rewrite !forallb_forall. split.
      - intros H r Hr. destruct (In_nth _ _ r_undef Hr) as (i & Hi & <-).
        rewrite model_length in Hi. destruct (Hall i Hi) as (g & Hn & Ha).
        fold (rget rho i). rewrite <- (field_test_fine e i g Hn Ha). apply H. apply covered. exact Hi.
      - intros H i Hi. pose proof (order_bound _ _ Hdeps i Hi) as Hlt.
        destruct (Hall i Hlt) as (g & Hn & Ha). rewrite (field_test_fine e i g Hn Ha).
        apply H. unfold rget. apply nth_In. rewrite model_length. exact Hlt. }
    assert (Hrq : match srequires d with None => true | Some x => value_or_false (m_bool (meval e None x)) end =
                  match srequires d with None => true
                  | Some x => match reval rho None x with Some (VBool true) => true | _ => false end end).
    { destruct (srequires d) as [x|]; [|reflexivity]. cbn [orefs_in] in Hreq.
      rewrite (meval_reval e rho (fun k => (k <? length (fields d))%nat)); [|intros k Hk; apply Hall; apply Nat.ltb_lt; exact Hk|exact Hreq].
      destruct (reval rho None x) as [[z|[|]|z]|]; reflexivity. }
    rewrite Hcomp, Hfields, Hrq, Hsz. unfold ref_ok.
    destruct (0 <? nparams d)%nat; rewrite andb_true_r; repeat split; reflexivity.
  Qed.

  Corollary fields_agree f' i :
    (i < length (fields d))%nat ->
    exists g, nth_error (fr_sub (eval_struct m bytes (S (S f')) d ps true (root bytes))) i = Some (Some g) /\
              agree g (rget rho i).
  Proof.
    intros Hi. destruct (struct_agrees f') as (_ & _ & _ & _ & -> & _).
    destruct (gen_env_agree f') as [_ H]. apply H. exact Hi.
  Qed.
End Agree.

(* ---------- the observation vector ---------- *)
Lemma observe_field f g r : agree g r -> observe (S f) g = ref_observe_field r.
Proof.
  intros (H1 & H2 & H3 & H4 & H5 & H6). destruct g as [h o v st sub sok sc ss els]. cbn in *. subst.
  unfold ref_observe_field. destruct (r_value r) as [v'|]; cbn in *.
  - rewrite (H3 eq_refl). reflexivity.
  - reflexivity.
Qed.

Lemma forall2_of_nth : forall (e : env) (rho : rassign),
  length e = length rho ->
  (forall i, (i < length rho)%nat -> exists g, nth_error e i = Some (Some g) /\ agree g (rget rho i)) ->
  Forall2 (fun o r => exists g, o = Some g /\ agree g r) e rho.
Proof.
  induction e as [|o e IH]; intros [|r rho] Hl H; try discriminate; constructor.
  - destruct (H 0%nat ltac:(cbn; lia)) as (g & Hn & Ha). cbn in Hn. inversion Hn; subst. exists g. auto.
  - apply IH; [cbn in Hl; lia|]. intros i Hi. apply (H (S i)). cbn. lia.
Qed.

Lemma flat_map_observe f e rho :
  Forall2 (fun o r => exists g, o = Some g /\ agree g r) e rho ->
  flat_map (fun o => match o with Some r' => observe (S f) r' | None => [-99] end) e = flat_map ref_observe_field rho.
Proof.
  induction 1 as [|o r e rho (g & -> & Ha) HF IH]; [reflexivity|].
  cbn [flat_map]. rewrite IH, (observe_field f g r Ha). reflexivity.
Qed.

(* ---------- the theorems, stated with the decidable class [wf_ref] ---------- *)
Lemma wf_ref_parts d : wf_ref d = true ->
  unit_bits d = 8 /\ forallb shape_ok (fields d) = true /\ deps_ok (fields d) [] (order d) = true /\
  forallb (fun i => mem i (order d)) (seq 0 (length (fields d))) = true /\
  (length (order d) <=? length (fields d))%nat = true /\
  size_field_ok d = true /\
  orefs_in (fun k => (k <? length (fields d))%nat) (srequires d) = true.
Proof.
  unfold wf_ref. intros H.
  repeat match goal with
         | H : _ && _ = true |- _ => apply andb_prop in H; destruct H
         end.
  repeat split; try assumption. lia.
Qed.

Theorem gen_agrees_with_ref m d ps bytes rho fuel :
  wf_ref d = true -> is_ref_model d ps bytes rho -> (2 <= fuel)%nat ->
  let r := eval_struct m bytes fuel d ps true (root bytes) in
  fr_ssize r = ref_size d rho /\
  fr_scomplete r = ref_complete d bytes rho /\
  fr_sok r = ref_ok d bytes rho /\
  forall i, (i < length (fields d))%nat ->
    exists g, nth_error (fr_sub r) i = Some (Some g) /\
      fr_has g = r_present (rget rho i) /\
      fr_ok g = is_some (r_value (rget rho i)) /\
      (fr_ok g = true -> fr_val g = r_value (rget rho i)).
Proof.
  intros Hwf Hm Hf. destruct (wf_ref_parts d Hwf) as (H1 & H2 & H3 & H4 & _ & H6 & H7).
  destruct fuel as [|[|f']]; try lia. intros r.
  destruct (struct_agrees m d ps bytes rho Hm H1 H2 H6 H3 H4 H7 f') as (A & B & _ & D & _).
  split; [exact A|]. split; [exact B|]. split; [exact D|].
  intros i Hi. destruct (fields_agree m d ps bytes rho Hm H1 H2 H6 H3 H4 H7 f' i Hi) as (g & Hn & Ha & Hb & Hc & _).
  exists g. auto.
Qed.

Theorem gen_observations_are_ref m tid d ps bytes rho fuel :
  nth_error m tid = Some d -> wf_ref d = true -> is_ref_model d ps bytes rho -> (2 <= fuel)%nat ->
  run_view m tid ps bytes fuel = ref_observe d bytes rho.
Proof.
  intros Hd Hwf Hm Hf. destruct (wf_ref_parts d Hwf) as (H1 & H2 & H3 & H4 & _ & H6 & H7).
  destruct fuel as [|[|f']]; try lia. unfold run_view. rewrite Hd.
  change (SB (Some (0, Z.of_nat (length bytes)))) with (root bytes).
  destruct (struct_agrees m d ps bytes rho Hm H1 H2 H6 H3 H4 H7 f') as (A & B & C & D & E & F & G & V).
  destruct (gen_env_agree m d ps bytes rho Hm H1 H2 H6 H3 H4 H7 f') as [Hlen Hall].
  destruct (eval_struct m bytes (S (S f')) d ps true (root bytes)) as [h o v st sub sok sc ss els].
  cbn in A, B, C, D, E, F, G, V. subst.
  assert (HF : Forall2 (fun o r => exists g, o = Some g /\ agree g r) (gen_env m d ps bytes f') rho).
  { apply forall2_of_nth.
    - rewrite Hlen. symmetry. apply (model_length d ps bytes rho Hm).
    - intros i Hi. apply Hall. rewrite <- (model_length d ps bytes rho Hm). exact Hi. }
  destruct (size_field_shape d H6) as (f0 & x0 & Hf0 & _).
  pose proof (model_length d ps bytes rho Hm) as Hl.
  destruct rho as [|r0 rho'].
  { cbn in Hl. destruct (fields d); [destruct (size_field d); discriminate|discriminate]. }
  cbn [observe]. unfold ref_observe. rewrite <- (flat_map_observe f' _ _ HF).
  inversion HF as [|o r e' rho'' Ho HF' E1 E2]. 
  destruct (ref_ok d bytes (r0 :: rho')); destruct (ref_size d (r0 :: rho')); cbn; rewrite ?app_nil_r; reflexivity.
Qed.

(* ---------- the reference exists: iterating the equations reaches a solution ---------- *)
Section Ext.
  Variables rho rho' : rassign.
  Variable ok : nat -> bool.
  Hypothesis Hsame : forall k, ok k = true -> rget rho k = rget rho' k.

  Lemma reval_ext self x : refs_in ok x = true -> reval rho self x = reval rho' self x.
  Proof.
    induction x using vx_ind2; cbn [refs_in reval]; intros Hr;
      repeat match goal with
             | H : _ && _ = true |- _ => apply andb_prop in H; destruct H
             end;
      try (rewrite ?IHx1, ?IHx2, ?IHx3 by assumption; reflexivity).
    - destruct p as [|i [|j p']]; try discriminate. rewrite (Hsame i Hr). reflexivity.
    - destruct p as [|i [|j p']]; try discriminate. rewrite (Hsame i Hr). reflexivity.
    - assert (E : map (reval rho self) args = map (reval rho' self) args).
      { induction H as [|a t Ha Ht IH]; [reflexivity|]. cbn in Hr. apply andb_prop in Hr. destruct Hr as [H1 H2].
        cbn. rewrite (Ha H1), (IH H2). reflexivity. }
      rewrite E. reflexivity.
  Qed.

  Lemma holds_ext rq v : orefs_in ok rq = true -> holds rho rq v = holds rho' rq v.
  Proof. destruct rq as [x|]; cbn; [|reflexivity]. intros H. rewrite (reval_ext (Some v) x H). reflexivity. Qed.

  Lemma checked_ext rq v : orefs_in ok rq = true -> checked rho rq v = checked rho' rq v.
  Proof. intros H. unfold checked. destruct v as [vv|]; [|reflexivity]. rewrite (holds_ext rq vv H). reflexivity. Qed.

  Lemma denote_ext d ps bytes i f :
    size_field_ok d = true -> nth_error (fields d) i = Some f ->
    field_refs_in ok f = true -> denote d ps bytes rho i f = denote d ps bytes rho' i f.
  Proof.
    intros Hsz Hf Hr. unfold field_refs_in in Hr. apply andb_prop in Hr. destruct Hr as [Hc Hb].
    unfold denote. rewrite (reval_ext None _ Hc).
    destruct (Nat.eqb i (size_field d)) eqn:Ei.
    - apply Nat.eqb_eq in Ei. subst i. destruct (size_field_shape d Hsz) as (f0 & x & Hf0 & _ & Hb0 & Hx).
      rewrite Hf in Hf0. inversion Hf0; subst f0. rewrite Hb0 in Hb. apply andb_prop in Hb. destruct Hb as [Hb _].
      rewrite <- !Hx. rewrite (reval_ext None x Hb). reflexivity.
    - destruct (fbody_of f) as [start size ty rq | rd rq | p aty | pi].
      + repeat match goal with
               | H : _ && _ = true |- _ => apply andb_prop in H; destruct H
               end.
        unfold ref_loc. rewrite (reval_ext None start), (reval_ext None size) by assumption.
        destruct ty as [k kbits bo| |]; try reflexivity.
        destruct (as_bool (reval rho' None (fcond f))) as [[|]|]; try reflexivity.
        destruct (as_int (reval rho' None start)); try reflexivity.
        destruct (as_int (reval rho' None size)); try reflexivity.
        rewrite (checked_ext rq _ ltac:(assumption)). reflexivity.
      + apply andb_prop in Hb. destruct Hb as [H1 H2].
        rewrite (reval_ext None rd H1), (checked_ext rq _ H2). reflexivity.
      + destruct p as [|j [|j2 p']]; try reflexivity. rewrite (Hsame j Hb). reflexivity.
      + reflexivity.
  Qed.
End Ext.

Section Solve.
  Variable d : sdef.
  Variable ps : list (option value).
  Variable bytes : list Z.
  Hypothesis Hsz : size_field_ok d = true.

  Let bot : rassign := map (fun _ => r_undef) (fields d).
  Let it (t : nat) : rassign := iterate d ps bytes t bot.

  Lemma it_S t : it (S t) = one_round d ps bytes (it t).
  Proof. reflexivity. Qed.

  Lemma rget_round r i f : nth_error (fields d) i = Some f -> rget (one_round d ps bytes r) i = denote d ps bytes r i f.
  Proof.
    intros H. unfold rget, one_round. apply nth_error_nth. rewrite round_from_nth, H. reflexivity.
  Qed.

  Definition stable_from (t : nat) (k : nat) : Prop := forall t', (t <= t')%nat -> rget (it t') k = rget (it t) k.

  Lemma stable_later t t2 k : stable_from t k -> (t <= t2)%nat -> stable_from t2 k.
  Proof. intros H Hle t' Ht'. rewrite (H t') by lia. rewrite (H t2) by lia. reflexivity. Qed.

  Lemma stable_order : forall ord done t0,
    deps_ok (fields d) done ord = true ->
    (forall k, mem k done = true -> stable_from t0 k) ->
    forall k, In k ord -> stable_from (t0 + length ord) k.
  Proof.
    induction ord as [|i t IH]; intros done t0 Hd Hdone k Hk; [contradiction|].
    cbn [deps_ok] in Hd. apply andb_prop in Hd. destruct Hd as [Hi Ht].
    destruct (nth_error (fields d) i) as [f|] eqn:Ef; [|discriminate].
    assert (Hst : stable_from (S t0) i).
    { intros t' Ht'. destruct t' as [|t']; [lia|]. rewrite !it_S, !(rget_round _ i f Ef).
      apply (denote_ext _ _ (fun k => mem k done)); try assumption.
      intros k0 Hk0. apply (Hdone k0 Hk0). lia. }
    cbn [length]. replace (t0 + S (length t))%nat with (S t0 + length t)%nat by lia.
    destruct Hk as [<-|Hk].
    - eapply stable_later; [exact Hst|lia].
    - apply (IH (i :: done)); [exact Ht| |exact Hk].
      intros k0 Hk0. unfold mem in Hk0. cbn [existsb] in Hk0. apply orb_prop in Hk0. destruct Hk0 as [Hk0|Hk0].
      + apply Nat.eqb_eq in Hk0. subst k0. exact Hst.
      + eapply stable_later; [apply Hdone; exact Hk0|lia].
  Qed.

  Lemma it_length t : length (it t) = length (fields d).
  Proof. destruct t; [apply map_length|]. rewrite it_S. apply round_from_length. Qed.

  Theorem ref_solve_is_model :
    deps_ok (fields d) [] (order d) = true ->
    forallb (fun i => mem i (order d)) (seq 0 (length (fields d))) = true ->
    (length (order d) <=? length (fields d))%nat = true ->
    is_ref_model d ps bytes (ref_solve d ps bytes).
  Proof.
    intros Hdeps Hcover Hlen. unfold is_ref_model, ref_solve. fold bot. fold (it (length (fields d))).
    rewrite <- it_S. apply (nth_ext _ _ r_undef r_undef).
    - rewrite !it_length. reflexivity.
    - intros k Hk. rewrite it_length in Hk.
      assert (Hin : In k (order d)).
      { rewrite forallb_forall in Hcover. apply mem_In. apply Hcover. apply in_seq. lia. }
      pose proof (stable_order (order d) [] 0%nat Hdeps ltac:(intros ? ?; discriminate) k Hin) as Hs.
      cbn [Nat.add] in Hs.
      assert (Hs2 : stable_from (length (fields d)) k) by (eapply stable_later; [exact Hs|lia]).
      apply (Hs2 (S (length (fields d)))). lia.
  Qed.
End Solve.

Theorem ref_model_exists d ps bytes : wf_ref d = true -> is_ref_model d ps bytes (ref_solve d ps bytes).
Proof.
  intros Hwf. destruct (wf_ref_parts d Hwf) as (H1 & H2 & H3 & H4 & H5 & H6 & H7).
  apply ref_solve_is_model; assumption.
Qed.

(* ... and is unique: the equations have exactly one solution (it is determined by the generated code's result) *)
Theorem ref_model_unique d ps bytes rho rho' :
  wf_ref d = true -> is_ref_model d ps bytes rho -> is_ref_model d ps bytes rho' -> rho = rho'.
Proof.
  intros Hwf Hm Hm'. apply (nth_ext _ _ r_undef r_undef).
  - rewrite (model_length d ps bytes rho Hm), (model_length d ps bytes rho' Hm'). reflexivity.
  - intros i Hi. rewrite (model_length d ps bytes rho Hm) in Hi.
    destruct (gen_agrees_with_ref [] d ps bytes rho 2 Hwf Hm (le_n 2)) as (_ & _ & _ & H).
    destruct (gen_agrees_with_ref [] d ps bytes rho' 2 Hwf Hm' (le_n 2)) as (_ & _ & _ & H').
    destruct (H i Hi) as (g & Hn & A1 & A2 & A3). destruct (H' i Hi) as (g' & Hn' & B1 & B2 & B3).
    rewrite Hn in Hn'. inversion Hn'; subst g'. fold (rget rho i) (rget rho' i).
    destruct (rget rho i) as [p v], (rget rho' i) as [p' v']. cbn in *.
    f_equal; [congruence|].
    destruct (fr_ok g) eqn:Eo.
    + rewrite <- (A3 eq_refl), <- (B3 eq_refl). reflexivity.
    + destruct v, v'; try discriminate; reflexivity.
Qed.

(* ---------- what is known on a prefix is what the reference says of the whole message ---------- *)
Theorem gen_known_is_ref_of_whole_message m d ps bytes extra rho' fuel :
  wf_stable m = true -> In d m -> wf_ref d = true ->
  is_ref_model d ps (bytes ++ extra) rho' -> (2 <= fuel)%nat ->
  let r := eval_struct m bytes fuel d ps true (root bytes) in
  (fr_sok r = true -> ref_ok d (bytes ++ extra) rho' = true) /\
  (fr_scomplete r = true -> ref_complete d (bytes ++ extra) rho' = true) /\
  (forall z, fr_ssize r = Some z -> ref_size d rho' = Some z) /\
  (forall i g, nth_error (fr_sub r) i = Some (Some g) ->
     (forall b, fr_has g = Some b -> r_present (rget rho' i) = Some b) /\
     (fr_ok g = true -> r_value (rget rho' i) = fr_val g /\ fr_val g <> None)).
Proof.
  intros Hst Hin Hwf Hm Hf. destruct fuel as [|[|f']]; try lia. intros r.
  destruct (prefix_stable_top m d ps (S (S f')) bytes extra Hst Hin) as (P1 & P2 & P3 & P4). fold r in P1, P2, P3, P4.
  destruct (gen_agrees_with_ref m d ps (bytes ++ extra) rho' (S (S f')) Hwf Hm Hf) as (A & B & C & D).
  assert (Hok : fr_ok r = fr_sok r) by (subst r; rewrite eval_struct_S; reflexivity).
  assert (Hok' : fr_ok (eval_struct m (bytes ++ extra) (S (S f')) d ps true (root (bytes ++ extra))) =
                 fr_sok (eval_struct m (bytes ++ extra) (S (S f')) d ps true (root (bytes ++ extra))))
    by (rewrite eval_struct_S; reflexivity).
  split; [intros H; rewrite <- C, <- Hok'; apply P1; rewrite Hok; exact H|].
  split; [intros H; rewrite <- B; apply P2; exact H|].
  split; [intros z H; rewrite <- A; apply P3; exact H|].
  intros i g Hn. destruct (P4 i g Hn) as (g' & Hn' & Q1 & Q2 & _).
  assert (Hi : (i < length (fields d))%nat).
  { destruct (wf_ref_parts d Hwf) as (H1 & H2 & H3 & H4 & _ & H6 & H7).
    destruct (struct_agrees m d ps (bytes ++ extra) rho' Hm H1 H2 H6 H3 H4 H7 f') as (_ & _ & _ & _ & E & _).
    destruct (gen_env_agree m d ps (bytes ++ extra) rho' Hm H1 H2 H6 H3 H4 H7 f') as [Hlen _].
    rewrite <- Hlen. apply nth_error_Some. rewrite <- E. rewrite Hn'. discriminate. }
  destruct (D i Hi) as (g2 & Hn2 & D1 & D2 & D3). rewrite Hn' in Hn2. inversion Hn2; subst g2.
  split.
  - intros b Hb. rewrite <- D1. apply Q1. exact Hb.
  - intros Ho. destruct (Q2 Ho) as [Q3 Q4]. rewrite <- (D3 Q3), Q4. split; [reflexivity|].
    rewrite Q3 in D2. rewrite <- Q4, (D3 Q3). destruct (r_value (rget rho' i)); [discriminate|discriminate].
Qed.

(* ---------- the hypotheses are satisfiable, the conclusion is not vacuous ---------- *)
(* struct Top(tp: UInt:8):
     0 [+1] UInt tag ; 1 [+1] UInt len
     if tag == 1:  2 [+2] UInt x (BigEndian)
     len+2 [+1] Int y [requires: this < 100]          -- dynamic offset
     let v = tag + tp ; let al = x                    -- virtual field, alias *)
Definition fs_ref_ex : list field :=
  [mk_field ktrue (Param 0);
   mk_field ktrue (Phys (kz 0) (kz 1) (FScalar KU 8 LE) None);
   mk_field ktrue (Phys (kz 1) (kz 1) (FScalar KU 8 LE) None);
   mk_field (XCmp CEq (XField [1%nat]) (kz 1)) (Phys (kz 2) (kz 2) (FScalar KU 16 BE) None);
   mk_field ktrue (Phys (XAdd (XField [2%nat]) (kz 2)) (kz 1) (FScalar KI 8 LE) (Some (XCmp CLt XSelf (kz 100))));
   mk_field ktrue (Virt (XAdd (XField [1%nat]) (XField [0%nat])) None);
   mk_field ktrue (Alias [3%nat] (FScalar KU 16 BE))].
Definition d_ref_ex : sdef :=
  mk_sdef 8 1%nat (fs_ref_ex ++ [mk_field ktrue (Virt (synth_size fs_ref_ex) None)])
          [0; 1; 2; 3; 4; 5; 6; 7]%nat 7%nat None.

Example wf_ref_example : wf_ref d_ref_ex = true.
Proof. vm_compute. reflexivity. Qed.

(* a complete message: x = 0x0205, y = 7 at offset len+2 = 5, v = 1+10, size 6, Ok *)
Example wf_ref_example_complete :
  let bytes := [1; 3; 2; 5; 0; 7] in
  let rho := ref_solve d_ref_ex [Some (VInt 10)] bytes in
  is_ref_model d_ref_ex [Some (VInt 10)] bytes rho /\
  r_value (rget rho 3) = Some (VInt 517) /\ r_value (rget rho 4) = Some (VInt 7) /\
  r_value (rget rho 5) = Some (VInt 11) /\ r_value (rget rho 6) = Some (VInt 517) /\
  ref_size d_ref_ex rho = Some 6 /\ ref_complete d_ref_ex bytes rho = true /\ ref_ok d_ref_ex bytes rho = true /\
  run_view [d_ref_ex] 0 [Some (VInt 10)] bytes 8 = ref_observe d_ref_ex bytes rho.
Proof. vm_compute. repeat split; reflexivity. Qed.

(* a truncated message: x exists but cannot be read, the size is already defined, nothing is complete *)
Example wf_ref_example_truncated :
  let bytes := [1; 3; 2] in
  let rho := ref_solve d_ref_ex [Some (VInt 10)] bytes in
  r_present (rget rho 3) = Some true /\ r_value (rget rho 3) = None /\
  ref_size d_ref_ex rho = Some 6 /\ ref_complete d_ref_ex bytes rho = false /\
  run_view [d_ref_ex] 0 [Some (VInt 10)] bytes 8 = ref_observe d_ref_ex bytes rho.
Proof. vm_compute. repeat split; reflexivity. Qed.

(* ---------- a conditional virtual field: the agreement is false of the faithful model ---------- *)
(* struct Top:  0 [+1] UInt x ;  if x < 5: let y = x * 2     -- buffer {200}
   the reference: y does not exist and has no value; the generated code: has_y() == false but
   y().Ok() with value 400 (known finding virtual-ok-ignores-existence) *)
Definition fs_cv : list field :=
  [mk_field ktrue (Phys (kz 0) (kz 1) (FScalar KU 8 LE) None);
   mk_field (XCmp CLt (XField [0%nat]) (kz 5)) (Virt (XMul (XField [0%nat]) (kz 2)) None)].
Definition d_cv : sdef :=
  mk_sdef 8 0%nat (fs_cv ++ [mk_field ktrue (Virt (synth_size fs_cv) None)]) [0; 1; 2]%nat 2%nat None.

Theorem gen_agrees_with_ref_refuted_conditional_virtual :
  exists d ps bytes rho,
    is_ref_model d ps bytes rho /\
    let r := eval_struct [d] bytes 8 d ps true (root bytes) in
    exists g, nth_error (fr_sub r) 1 = Some (Some g) /\
      fr_has g = Some false /\ r_present (rget rho 1) = Some false /\
      fr_ok g = true /\ fr_val g = Some (VInt 400) /\ r_value (rget rho 1) = None.
Proof.
  exists d_cv, [], [200], (ref_solve d_cv [] [200]).
  split; [vm_compute; reflexivity|]. eexists. vm_compute. repeat split; reflexivity.
Qed.

(* ---------- the fixed-size special case never contradicts "largest end of a present field" ---------- *)
Lemma fold_max_ge_acc : forall l acc, acc <= fold_left Z.max l acc.
Proof. induction l as [|x t IH]; intros acc; cbn; [lia|]. specialize (IH (Z.max acc x)). lia. Qed.
Lemma fold_max_ge_in : forall l acc x, In x l -> x <= fold_left Z.max l acc.
Proof.
  induction l as [|y t IH]; intros acc x H; [contradiction|]. cbn. destruct H as [->|H].
  - pose proof (fold_max_ge_acc t (Z.max acc x)). lia.
  - apply IH. exact H.
Qed.
Lemma fold_max_le : forall l acc b, (forall x, In x l -> x <= b) -> acc <= b -> fold_left Z.max l acc <= b.
Proof.
  induction l as [|y t IH]; intros acc b H Ha; cbn; [exact Ha|].
  apply IH; [intros x Hx; apply H; right; exact Hx|]. specialize (H y (or_introl eq_refl)). lia.
Qed.

Definition end_rel (p : bool * Z) (x : Z) : Prop := (fst p = true -> x = snd p) /\ (x = snd p \/ x = 0).

Lemma static_dynamic_ends rho : forall fs l ends,
  static_ends fs = Some l -> all_some (ref_ends rho fs) = Some ends -> Forall2 end_rel l ends.
Proof.
  induction fs as [|f t IH]; intros l ends Hs Hd; cbn in Hs, Hd.
  - inversion Hs; inversion Hd; constructor.
  - destruct (fbody_of f) as [start size ty rq| | |]; try (apply IH; assumption).
    destruct start as [[a|?|?]| | | | | | | | | | | |]; try discriminate.
    destruct size as [[b|?|?]| | | | | | | | | | | |]; try discriminate.
    destruct (static_ends t) as [l'|]; [|discriminate]. inversion Hs; subst l. clear Hs.
    cbn [all_some] in Hd. unfold ref_loc in Hd. cbn [reval as_int option_map fst snd] in Hd.
    destruct (as_bool (reval rho None (fcond f))) as [[|]|] eqn:Ec; cbn in Hd;
      (destruct (all_some (ref_ends rho t)) as [ends'|]; [|discriminate]); inversion Hd; subst ends; clear Hd;
      (constructor; [|apply IH; reflexivity]); unfold end_rel;
      destruct (fcond f) as [[?|[|]|?]| | | | | | | | | | | |]; cbn in Ec |- *; try discriminate; auto;
      (split; [discriminate|auto]).
Qed.

Theorem static_size_consistent d rho z z' :
  static_size (fields d) = Some z -> dynamic_size d rho = Some z' -> z' = z.
Proof.
  unfold static_size, dynamic_size. intros Hs Hd.
  destruct (static_ends (fields d)) as [l|] eqn:El; [|discriminate].
  destruct (all_some (ref_ends rho (fields d))) as [ends|] eqn:Ee; [|discriminate].
  cbn in Hd. inversion Hd; subst z'. clear Hd.
  set (zs := fold_left Z.max (map snd (filter fst l)) 0) in *.
  destruct (forallb (fun p : bool * Z => snd p <=? zs) l) eqn:Ef; [|discriminate]. inversion Hs; subst z. clear Hs.
  pose proof (static_dynamic_ends rho _ _ _ El Ee) as HF. rewrite forallb_forall in Ef.
  assert (H0 : 0 <= zs) by apply fold_max_ge_acc.
  apply Z.le_antisymm.
  - apply fold_max_le; [|exact H0]. intros x Hx.
    clear El Ee. clearbody zs. induction HF as [|p y l ends Hp HF IH]; [contradiction|].
    destruct Hx as [<-|Hx].
    + specialize (Ef p (or_introl eq_refl)). destruct Hp as [_ [->| ->]]; lia.
    + apply IH; [intros q Hq; apply Ef; right; exact Hq|exact Hx].
  - apply fold_max_le; [|apply fold_max_ge_acc]. intros x Hx. apply fold_max_ge_in.
    apply in_map_iff in Hx. destruct Hx as (p & <- & Hp). apply filter_In in Hp. destruct Hp as [Hp Hu].
    clear El Ee Ef H0 zs. induction HF as [|q y l ends Hq HF IH]; [contradiction|].
    destruct Hp as [->|Hp]; [left; destruct Hq as [Hq _]; apply Hq; exact Hu|right; apply IH; exact Hp].
Qed.
