(* C20 — property theorems on the model of Equals() and TryToCopyFrom(). *)
From Coq Require Import ZArith List Bool.
Import ListNotations.
Require Import EmbossV.Bounds.Model EmbossV.View.Model EmbossV.View.Equals.
Open Scope Z_scope.

(* Equals is symmetric, for every module, structure, nesting depth and pair of view results. *)
Theorem equals_symmetric : forall m fuel d e1 e2,
  equals_struct m fuel d e1 e2 = equals_struct m fuel d e2 e1.
Proof. intros m fuel. exact (proj2 (equals_sym m fuel)). Qed.
Print Assumptions equals_symmetric.

Theorem field_equals_symmetric : forall m fuel ty r1 r2,
  equals_type m fuel ty r1 r2 = equals_type m fuel ty r2 r1.
Proof. intros m fuel. exact (proj1 (equals_sym m fuel)). Qed.

(* memmove semantics of the copy: the destination range receives the OLD source bytes even when
   the ranges overlap; every other byte of the allocation is untouched; the length is preserved. *)
Theorem copy_moves_source_bytes : forall mem dst src n i,
  (dst + n <= length mem)%nat -> (src + n <= length mem)%nat -> (i < n)%nat ->
  nth (dst + i) (memmove mem dst src n) 0 = nth (src + i) mem 0.
Proof. exact memmove_copied. Qed.
Print Assumptions copy_moves_source_bytes.

Theorem copy_frame : forall mem dst src n i,
  (dst + n <= length mem)%nat -> (src + n <= length mem)%nat -> (i < dst \/ dst + n <= i)%nat ->
  nth i (memmove mem dst src n) 0 = nth i mem 0.
Proof. exact memmove_frame. Qed.

Theorem copy_preserves_length : forall mem dst src n,
  (dst + n <= length mem)%nat -> (src + n <= length mem)%nat -> length (memmove mem dst src n) = length mem.
Proof. exact memmove_length. Qed.

(* an Ok source is complete, so TryToCopyFrom's size test on the source side is implied by other.Ok() *)
Theorem ok_source_is_complete : forall m bytes fuel d ps pinit st,
  fr_sok (eval_struct m bytes fuel d ps pinit st) = true ->
  fr_scomplete (eval_struct m bytes fuel d ps pinit st) = true.
Proof. exact structure_ok_complete. Qed.
