(* C20 — property theorems on the model of Equals() and TryToCopyFrom(). *)
From Coq Require Import ZArith List Bool.
Import ListNotations.
Require Import EmbossV.Bounds.Model EmbossV.View.Model EmbossV.View.Equals.
Open Scope Z_scope.

(* Equals is symmetric, for every module, structure, nesting depth and pair of view results. *)
Theorem equals_symmetric : forall m fuel d e1 e2,
  equals_struct m fuel d e1 e2 = equals_struct m fuel d e2 e1.
Proof. intros m fuel. exact (proj2 (equals_sym m fuel)). Qed.
Print Assumptions equals_symmetric.

Theorem field_equals_symmetric : forall m fuel ty r1 r2,
  equals_type m fuel ty r1 r2 = equals_type m fuel ty r2 r1.
Proof. intros m fuel. exact (proj1 (equals_sym m fuel)). Qed.

(* memmove semantics of the copy: the destination range receives the OLD source bytes even when
   the ranges overlap; every other byte of the allocation is untouched; the length is preserved. *)
Theorem copy_moves_source_bytes : forall mem dst src n i,
  (dst + n <= length mem)%nat -> (src + n <= length mem)%nat -> (i < n)%nat ->
  nth (dst + i) (memmove mem dst src n) 0 = nth (src + i) mem 0.
Proof. exact memmove_copied. Qed.
Print Assumptions copy_moves_source_bytes.

Theorem copy_frame : forall mem dst src n i,
  (dst + n <= length mem)%nat -> (src + n <= length mem)%nat -> (i < dst \/ dst + n <= i)%nat ->
  nth i (memmove mem dst src n) 0 = nth i mem 0.
Proof. exact memmove_frame. Qed.

Theorem copy_preserves_length : forall mem dst src n,
  (dst + n <= length mem)%nat -> (src + n <= length mem)%nat -> length (memmove mem dst src n) = length mem.
Proof. exact memmove_length. Qed.

(* an Ok source is complete, so TryToCopyFrom's size test on the source side is implied by other.Ok() *)
Theorem ok_source_is_complete : forall m bytes fuel d ps pinit st,
  fr_sok (eval_struct m bytes fuel d ps pinit st) = true ->
  fr_scomplete (eval_struct m bytes fuel d ps pinit st) = true.
Proof. exact structure_ok_complete. Qed.

(* ---------- locality (read-set) and the copy post-condition (proved in View/Local.v) ---------- *)
Require Import EmbossV.View.Stable EmbossV.View.Local.

(* A view only depends on the bytes inside its window: two memories that agree on [o, o+l) give the
   same observations (every module, structure, parameters, nesting depth). *)
Theorem view_reads_only_its_window : forall m mem1 mem2 o l,
  (forall i, o <= i < o + l -> nth_byte mem1 i = nth_byte mem2 i) ->
  forall fuel d ps pinit g,
    observe g (eval_struct m mem1 fuel d ps pinit (SB (Some (o, l)))) =
    observe g (eval_struct m mem2 fuel d ps pinit (SB (Some (o, l)))).
Proof. exact eval_local_observe. Qed.
Print Assumptions view_reads_only_its_window.

(* ... and is translation invariant: a view at offset o of an allocation observes what a view at
   offset 0 of the extracted window observes. *)
Theorem view_translation_invariant : forall m mem o l,
  0 <= o ->
  forall fuel d ps pinit g,
    observe g (eval_struct m mem fuel d ps pinit (SB (Some (o, l)))) =
    observe g (eval_struct m (firstn (Z.to_nat l) (skipn (Z.to_nat o) mem)) fuel d ps pinit (SB (Some (0, l)))).
Proof. exact eval_shift_observe. Qed.

(* Equals of two Ok views only depends on the bytes inside the two windows; together with
   view_reads_only_its_window: bytes no field covers cannot influence it. *)
Theorem equals_depends_only_on_windows : forall m d mem mem' fuel g o1 l1 o2 l2 ps1 pinit1 ps2 pinit2,
  (forall i, o1 <= i < o1 + l1 -> nth_byte mem i = nth_byte mem' i) ->
  (forall i, o2 <= i < o2 + l2 -> nth_byte mem i = nth_byte mem' i) ->
  let v1 := eval_struct m mem fuel d ps1 pinit1 (SB (Some (o1, l1))) in
  let v2 := eval_struct m mem fuel d ps2 pinit2 (SB (Some (o2, l2))) in
  let v1' := eval_struct m mem' fuel d ps1 pinit1 (SB (Some (o1, l1))) in
  let v2' := eval_struct m mem' fuel d ps2 pinit2 (SB (Some (o2, l2))) in
  fr_sok v1 = true -> fr_sok v2 = true ->
  fr_sok v1' = true /\ fr_sok v2' = true /\
  equals_struct m g d (fr_sub v1) (fr_sub v2) = equals_struct m g d (fr_sub v1') (fr_sub v2').
Proof. exact equals_local. Qed.
Print Assumptions equals_depends_only_on_windows.

(* After a successful TryToCopyFrom the destination is Ok, has the source's size and Equals the OLD
   source — also for overlapping windows (memmove semantics); the source re-read from the new memory
   Equals it too when its window was not overwritten.  Hypotheses forced by the proof: the class
   wf_stable (window growth; nested structures may be parameterised), equal parameters, and that the
   source is Ok on its own first n bytes. *)
Theorem copy_then_equals : forall m, wf_stable m = true ->
  forall d ps pinit fuel mem o1 l1 o2 l2 n,
    In d m ->
    0 <= o1 -> o1 + l1 <= Z.of_nat (length mem) ->
    0 <= o2 -> o2 + l2 <= Z.of_nat (length mem) ->
    let src := eval_struct m mem fuel d ps pinit (SB (Some (o2, l2))) in
    fr_sok src = true -> fr_ssize src = Some n -> 0 <= n -> n <= l1 ->
    fr_sok (eval_struct m mem fuel d ps pinit (SB (Some (o2, n)))) = true ->
    exists mem',
      view_try_copy mem (Some (o1, l1)) src = Some mem' /\ length mem' = length mem /\
      let dst' := eval_struct m mem' fuel d ps pinit (SB (Some (o1, l1))) in
      fr_sok dst' = true /\ fr_ssize dst' = Some n /\
      (float_free m = true -> equals_struct m fuel d (fr_sub dst') (fr_sub src) = true) /\
      (forall g, observe g (eval_struct m mem' fuel d ps pinit (SB (Some (o1, n)))) =
                 observe g (eval_struct m mem fuel d ps pinit (SB (Some (o2, n))))) /\
      ((o1 = o2 \/ o1 + n <= o2 \/ o2 + l2 <= o1) ->
       let src' := eval_struct m mem' fuel d ps pinit (SB (Some (o2, l2))) in
       fr_sok src' = true /\
       (float_free m = true -> equals_struct m fuel d (fr_sub dst') (fr_sub src') = true)).
Proof. exact Local.copy_then_equals. Qed.
Print Assumptions copy_then_equals.

(* The same with the precise DATA hypothesis in place of the class hypothesis float_free m: the two Equals
   conclusions hold whenever no present Float field of the SOURCE view holds a NaN pattern
   ([nan_free_struct m fuel d (fr_sub src)], decidable, recursive over the typed result tree through
   nested structures, visiting exactly the members Equals() visits).  The model comparison of Float values
   is reflexive off NaN ([float_equals_reflexive_off_nan]); [copy_then_equals] is the corollary for
   modules without Float fields. *)
Theorem copy_then_equals_nan_free : forall m, wf_stable m = true ->
  forall d ps pinit fuel mem o1 l1 o2 l2 n,
    In d m ->
    0 <= o1 -> o1 + l1 <= Z.of_nat (length mem) ->
    0 <= o2 -> o2 + l2 <= Z.of_nat (length mem) ->
    let src := eval_struct m mem fuel d ps pinit (SB (Some (o2, l2))) in
    fr_sok src = true -> fr_ssize src = Some n -> 0 <= n -> n <= l1 ->
    fr_sok (eval_struct m mem fuel d ps pinit (SB (Some (o2, n)))) = true ->
    exists mem',
      view_try_copy mem (Some (o1, l1)) src = Some mem' /\ length mem' = length mem /\
      let dst' := eval_struct m mem' fuel d ps pinit (SB (Some (o1, l1))) in
      fr_sok dst' = true /\ fr_ssize dst' = Some n /\
      (nan_free_struct m fuel d (fr_sub src) = true -> equals_struct m fuel d (fr_sub dst') (fr_sub src) = true) /\
      (forall g, observe g (eval_struct m mem' fuel d ps pinit (SB (Some (o1, n)))) =
                 observe g (eval_struct m mem fuel d ps pinit (SB (Some (o2, n))))) /\
      ((o1 = o2 \/ o1 + n <= o2 \/ o2 + l2 <= o1) ->
       let src' := eval_struct m mem' fuel d ps pinit (SB (Some (o2, l2))) in
       fr_sok src' = true /\
       (nan_free_struct m fuel d (fr_sub src) = true -> equals_struct m fuel d (fr_sub dst') (fr_sub src') = true)).
Proof. exact Local.copy_then_equals_nan_free. Qed.
Print Assumptions copy_then_equals_nan_free.

Theorem float_equals_reflexive_off_nan : forall kbits x,
  float_is_nan kbits x = false -> float_eqb kbits x x = true.
Proof. exact Local.float_eqb_refl. Qed.

(* a module without Float fields satisfies the data hypothesis on every tree *)
Theorem float_free_is_nan_free : forall m, float_free m = true ->
  forall fuel d e, float_free_sdef d = true -> nan_free_struct m fuel d e = true.
Proof. exact (fun m H fuel => proj2 (Local.float_free_nan_free m H fuel)). Qed.

(* non-vacuity: the Float module of the NaN refutation below (float_free = false) with the source
   holding 1.0f = 0x3f800000: the source is NaN-free and the copy is Equal *)
Example copy_then_equals_float_instance :
  float_free m_float = false /\
  nan_free_struct m_float 4 d_float
    (fr_sub (eval_struct m_float copy_mem_float 4 d_float [] true (SB (Some (0, 4))))) = true /\
  exists mem',
    view_try_copy copy_mem_float (Some (4, 4))
      (eval_struct m_float copy_mem_float 4 d_float [] true (SB (Some (0, 4)))) = Some mem' /\
    length mem' = length copy_mem_float /\
    let dst' := eval_struct m_float mem' 4 d_float [] true (SB (Some (4, 4))) in
    fr_sok dst' = true /\ fr_ssize dst' = Some 4 /\
    equals_struct m_float 4 d_float (fr_sub dst')
      (fr_sub (eval_struct m_float copy_mem_float 4 d_float [] true (SB (Some (0, 4))))) = true.
Proof. exact Local.copy_then_equals_float_instance. Qed.

(* an instance with a parameterised nested structure (Outer { n; Par(n) p; tail } of Stable.m_par) *)
Example copy_then_equals_param_instance :
  wf_stable m_par = true /\
  exists mem',
    view_try_copy copy_mem_par (Some (3, 4)) (eval_struct m_par copy_mem_par 8 d_par [] true (SB (Some (0, 3)))) = Some mem' /\
    length mem' = length copy_mem_par /\
    let dst' := eval_struct m_par mem' 8 d_par [] true (SB (Some (3, 4))) in
    fr_sok dst' = true /\ fr_ssize dst' = Some 3 /\
    equals_struct m_par 8 d_par (fr_sub dst')
      (fr_sub (eval_struct m_par copy_mem_par 8 d_par [] true (SB (Some (0, 3))))) = true.
Proof. exact (conj Stable.wf_stable_example_param Local.copy_then_equals_param_instance). Qed.

(* A hypothesis excluding NaN (float_free on the class, nan_free_struct on the data) on the two Equals
   conclusions is forced: Float fields compare with operator== of the values read, and a NaN does not
   equal itself.  A structure of the
   class wf_stable with one Float:32 field holding a quiet NaN is copied successfully (destination Ok,
   same size, same bytes) and the destination does not Equal the source. *)
Theorem copy_then_equals_refuted_float_nan :
  exists m d mem o1 l1 o2 l2 n fuel mem',
    wf_stable m = true /\ float_free m = false /\ In d m /\
    0 <= o1 /\ o1 + l1 <= Z.of_nat (length mem) /\ 0 <= o2 /\ o2 + l2 <= Z.of_nat (length mem) /\
    let src := eval_struct m mem fuel d [] true (SB (Some (o2, l2))) in
    fr_sok src = true /\ fr_ssize src = Some n /\ n = l2 /\ n <= l1 /\ o2 + l2 <= o1 /\
    view_try_copy mem (Some (o1, l1)) src = Some mem' /\
    let dst' := eval_struct m mem' fuel d [] true (SB (Some (o1, l1))) in
    fr_sok dst' = true /\ fr_ssize dst' = Some n /\
    firstn (Z.to_nat n) (skipn (Z.to_nat o1) mem') = firstn (Z.to_nat n) (skipn (Z.to_nat o2) mem) /\
    equals_struct m fuel d (fr_sub dst') (fr_sub src) = false /\
    equals_struct m fuel d (fr_sub src) (fr_sub src) = false.
Proof. exact Local.copy_then_equals_refuted_float_nan. Qed.
Print Assumptions copy_then_equals_refuted_float_nan.

(* Float fields compare by value: +0.0 and -0.0 are Equal although their bytes differ;
   the comparison is symmetric for every pair of bit patterns. *)
Theorem float_equals_symmetric : forall kbits a b, float_eqb kbits a b = float_eqb kbits b a.
Proof. exact float_eqb_sym. Qed.

(* non-vacuity: two Ok views whose padding bytes differ are Equal; changing a covered byte breaks it *)
Example equals_ignores_padding_instance :
  let v1 := eval_struct m_ex pad_mem 8 d_ex [] true (SB (Some (0, 7))) in
  let v2 := eval_struct m_ex pad_mem 8 d_ex [] true (SB (Some (7, 7))) in
  let w2 := eval_struct m_ex ([0; 9; 9; 5; 1; 2; 165] ++ [0; 7; 7; 6; 1; 2; 165]) 8 d_ex [] true (SB (Some (7, 7))) in
  fr_sok v1 = true /\ fr_sok v2 = true /\ fr_sok w2 = true /\
  nth_byte pad_mem 1 <> nth_byte pad_mem 8 /\
  equals_struct m_ex 8 d_ex (fr_sub v1) (fr_sub v2) = true /\
  equals_struct m_ex 8 d_ex (fr_sub v1) (fr_sub w2) = false.
Proof. exact equals_ignores_padding. Qed.

(* What "reads equal" means for a Float field: [float_eqb], the model of FloatView::Equals on the bit patterns
   the view model carries, decides equality of the IEEE 754 VALUES of the two patterns (operator== on float /
   double: a NaN equals nothing, +0 = -0, otherwise the same real number (-1)^s * m * 2^e), for every pair of
   32-bit and every pair of 64-bit patterns.  The IEEE decoding is View/FloatSpec.v (no floating-point library). *)
Require Import EmbossV.View.FloatSpec.
Theorem float_equals_is_ieee_equality : forall kbits a b,
  kbits = 32 \/ kbits = 64 -> 0 <= a < 2 ^ kbits -> 0 <= b < 2 ^ kbits ->
  float_eqb kbits a b = ieee_eq (decode kbits a) (decode kbits b).
Proof. intros kbits a b Hk. exact (float_eqb_is_ieee_eq kbits Hk a b). Qed.
Print Assumptions float_equals_is_ieee_equality.
