(* C01 — prefix stability ("anything reported as known from a prefix of a message keeps
   its value when more bytes arrive") of the executable model of the generated C++ views.

   Proved here:
     prefix_stable_partial            r ⊑ r' (hereditary information order [fle]) under [wf_stable m]
     prefix_stable_refuted_array      F9: ElementCount / array Ok() come from the clamped storage
     prefix_stable_refuted_null_order "null-byte-order-short-buffer": a Null-ordered 1-byte field
                                      past the end of the buffer is Ok and its value changes
     prefix_stable_refuted_param_flag has_p() of a parameter of a NESTED view is
                                      Maybe<bool>(parameters_initialized_): Known(false) on the
                                      default-constructed view, Known(true) once the field is located
     const_size_hypothesis_forced     (model only) a scalar with a dynamic [+n] size goes Ok -> not Ok
     prefix_stable_top                readable corollary: Ok / IsComplete / size / has_x / x().Ok() / Read()
     wf_stable_example*               the hypotheses are satisfiable and the conclusion not vacuous
   Nothing is missing from the mutual induction: [both_stable] closes eval_struct and eval_type
   simultaneously for every fuel; the only restrictions are those of [wf_stable].

   Hypotheses of [wf_stable] and why each is forced:
     * no FArray                      refuted (F9)
     * no NullBO                      refuted (null-byte-order-short-buffer)
     * scalar in a byte structure has a constant size s with 8*s = kbits; a field adapted to a
       BitBlock (adapt = Some (n, bo)) has constant size s with 8*s = n:
                                      BitBlock::Ok() is "clamped size * 8 == n" — with a dynamic
                                      [+k] size the clamped size can pass through n on a prefix and
                                      be larger afterwards, so Ok would go true -> false.
     * a structure used as a field type has no Param fields
                                      refuted (param flag); the accessor is private in the
                                      generated code, the harness sees it through
                                      "#define private public".
     * an Alias field's type is a scalar
                                      MODEL ARTEFACT, not a finding: the default-constructed view
                                      "decltype(aliased)()" is evaluated with the fuel of the
                                      aliasing structure, the aliased view (reached through a path
                                      of length 2 for anonymous bits) with two units less; for a
                                      structure-typed alias the two trees can differ in depth when
                                      the fuel runs out.
   NOT needed (so not required): "a bits-typed field of a byte structure has adapt = Some";
   nothing about [order], [size_field], path well-formedness, or fuel adequacy. *)
From Coq Require Import ZArith List Bool Lia ZifyBool.
Import ListNotations.
Require Import EmbossV.Bounds.Model EmbossV.View.Model EmbossV.View.Proofs.
Open Scope Z_scope.

(* ---------- the hereditary information order on result trees ---------- *)
Section ListLe.
  Variable A : Type.
  Variable R : A -> A -> Prop.
  (* pointwise; an entry not yet evaluated on the left is below anything *)
  Fixpoint olist_le (l l' : list (option A)) {struct l} : Prop :=
    match l with
    | [] => True
    | x :: t =>
        match l' with
        | [] => False
        | x' :: t' =>
            match x with
            | None => True
            | Some a => match x' with Some a' => R a a' | None => False end
            end /\ olist_le t t'
        end
    end.
  Fixpoint list_le (l l' : list A) {struct l} : Prop :=
    match l with
    | [] => True
    | a :: t => match l' with [] => False | a' :: t' => R a a' /\ list_le t t' end
    end.
End ListLe.
Arguments olist_le {A} R l l'.
Arguments list_le {A} R l l'.

Fixpoint fle (r r' : fres) {struct r} : Prop :=
  match r with
  | FR h o v st sub sok sc ss els =>
      mle h (fr_has r') /\                                   (* has_x known => same *)
      (o = true -> fr_ok r' = true /\ fr_val r' = v) /\      (* x().Ok() => Ok, same value *)
      (sok = true -> fr_sok r' = true) /\                    (* nested view Ok() *)
      (sc = true -> fr_scomplete r' = true) /\               (* IsComplete() *)
      mle ss (fr_ssize r') /\                                (* IntrinsicSize / ElementCount *)
      olist_le fle sub (fr_sub r') /\                        (* fields of the nested view *)
      list_le fle els (fr_elems r')                          (* array elements *)
  end.

Definition env_rel (e e' : env) : Prop := olist_le fle e e'.

(* ---------- the model's local [step], named ---------- *)
Definition with_has (h : maybe bool) (r : fres) : fres :=
  match r with FR _ ok v s sub sok sc ss els => FR h ok v s sub sok sc ss els end.

Definition locate (st : storage) (e : env) (has : maybe bool) (args_known : bool) (start size : vx) : option storage :=
  if args_known && value_or_false has then
    match m_z (meval e None size), m_z (meval e None start) with
    | Some sz, Some off =>
        if (0 <=? sz) && (0 <=? off) then Some (get_offset st off sz) else None
    | _, _ => None
    end
  else None.

Definition known {A} (a : option A) : bool := match a with Some _ => true | None => false end.
Definition args_of (ty : ftype) : list vx :=
  match ty with FStruct _ a _ => a | FArray (FStruct _ a _) _ => a | _ => [] end.

Definition vstep (m : module) (bytes : list Z) (fuel' : nat) (d : sdef)
           (params : list (maybe value)) (pinit : bool) (st : storage) (e : env) (i : nat) : env :=
  match nth_error d.(fields) i with
  | None => e
  | Some f =>
      let has := m_bool (meval e None f.(fcond)) in
      let r :=
        match f.(fbody_of) with
        | Param pi =>
            let v := if pinit then match nth_error params pi with Some v => v | None => None end else None in
            FR (Some pinit) (known v) v (SB None) [] true true None []
        | Virt rd rq =>
            let v := meval e None rd in
            let ok := match v with Some vv => requires_ok rq e vv | None => false end in
            FR has ok v (SB None) [] ok true None []
        | Alias p aty =>
            match (if value_or_false has then lookup e p else None) with
            | Some r => with_has has r
            | None => with_has has (eval_type m bytes fuel' d.(unit_bits) aty [] false (null_of aty m) None e)
            end
        | Phys start size ty rq =>
            let argvals := map (meval e None) (args_of ty) in
            match locate st e has (forallb known argvals) start size with
            | Some s' => with_has has (eval_type m bytes fuel' d.(unit_bits) ty argvals true s' rq e)
            | None => with_has has (eval_type m bytes fuel' d.(unit_bits) ty [] false (null_of ty m) rq e)
            end
        end in
      set_nth e i (Some r)
  end.

Definition field_test (e : env) (i : nat) : bool :=
  match nth_error e i with
  | Some (Some r) =>
      match fr_has r with
      | Some true => fr_ok r
      | Some false => true
      | None => false
      end
  | _ => false
  end.

Definition isize_of (d : sdef) (e : env) : maybe Z :=
  match (match nth_error e d.(size_field) with Some (Some r) => Some r | _ => None end) with
  | Some r => if fr_ok r then m_z (fr_val r) else None
  | None => None
  end.

Definition finish (d : sdef) (pinit : bool) (st : storage) (e : env) : fres :=
  let isize := isize_of d e in
  let complete := storage_ok st && match isize with Some z => z <=? storage_size st | None => false end in
  let req := match d.(srequires) with
             | None => true
             | Some x => value_or_false (m_bool (meval e None x))
             end in
  let ok := complete && (if (0 <? d.(nparams))%nat then pinit else true) && forallb (field_test e) d.(order) && req in
  FR None ok None st e ok complete isize [].

Lemma eval_struct_S m bytes f d ps pinit st :
  eval_struct m bytes (S f) d ps pinit st =
  finish d pinit st (fold_left (vstep m bytes f d ps pinit st) d.(order) (map (fun _ => None) d.(fields))).
Proof. reflexivity. Qed.

(* ---------- well-formedness (decidable) ---------- *)
Definition is_const_size (size : vx) (bits : Z) : bool :=
  match size with XK (VInt s) => 8 * s =? bits | _ => false end.
Definition bo_ok (bo : border) : bool := match bo with NullBO => false | _ => true end.
Definition no_params (d : sdef) : bool :=
  forallb (fun f => match f.(fbody_of) with Param _ => false | _ => true end) d.(fields).

Definition wf_ftype (m : module) (u : Z) (size : vx) (ty : ftype) : bool :=
  match ty with
  | FScalar _ kbits bo => bo_ok bo && (if u =? 8 then is_const_size size kbits else true)
  | FStruct tid _ adapt =>
      match adapt with Some (nb, bo) => bo_ok bo && is_const_size size nb | None => true end
      && match nth_error m tid with Some d => no_params d | None => true end
  | FArray _ _ => false
  end.

Definition wf_field (m : module) (u : Z) (f : field) : bool :=
  match f.(fbody_of) with
  | Phys _ size ty _ => wf_ftype m u size ty
  | Alias _ aty => match aty with FScalar _ _ _ => true | _ => false end
  | Virt _ _ | Param _ => true
  end.

Definition wf_sdef (m : module) (d : sdef) : bool := forallb (wf_field m d.(unit_bits)) d.(fields).
Definition wf_stable (m : module) : bool := forallb (wf_sdef m) m.

(* ---------- the statement ---------- *)
Definition root (bytes : list Z) : storage := SB (Some (0, Z.of_nat (length bytes))).

Definition prefix_stable_at (m : module) (d : sdef) (ps : list (maybe value)) (fuel : nat) (bytes extra : list Z) : Prop :=
  fle (eval_struct m bytes fuel d ps true (root bytes))
      (eval_struct m (bytes ++ extra) fuel d ps true (root (bytes ++ extra))).

(* ---------- basic facts about the order ---------- *)
Definition fle_body (r r' : fres) : Prop :=
  mle (fr_has r) (fr_has r') /\
  (fr_ok r = true -> fr_ok r' = true /\ fr_val r' = fr_val r) /\
  (fr_sok r = true -> fr_sok r' = true) /\
  (fr_scomplete r = true -> fr_scomplete r' = true) /\
  mle (fr_ssize r) (fr_ssize r') /\
  olist_le fle (fr_sub r) (fr_sub r') /\
  list_le fle (fr_elems r) (fr_elems r').

Lemma fle_eq r r' : fle r r' = fle_body r r'.
Proof. destruct r; reflexivity. Qed.

Lemma olist_le_nth {A} (R : A -> A -> Prop) l : forall l' i a,
  olist_le R l l' -> nth_error l i = Some (Some a) ->
  exists a', nth_error l' i = Some (Some a') /\ R a a'.
Proof.
  induction l as [|x t IH]; intros l' i a H Hn; [destruct i; discriminate|].
  destruct l' as [|x' t']; [contradiction|]. destruct H as [Hx Ht].
  destruct i as [|i]; cbn in Hn |- *.
  - inversion Hn; subst x. destruct x' as [a'|]; [|contradiction]. exists a'; auto.
  - eapply IH; eauto.
Qed.

Lemma fle_sub_nth r r' i f :
  fle r r' -> nth_error (fr_sub r) i = Some (Some f) ->
  exists f', nth_error (fr_sub r') i = Some (Some f') /\ fle f f'.
Proof.
  rewrite fle_eq. intros (_ & _ & _ & _ & _ & H & _). apply olist_le_nth. exact H.
Qed.

Lemma fle_has r r' b : fle r r' -> fr_has r = Some b -> fr_has r' = Some b.
Proof. rewrite fle_eq. intros (H & _). apply H. Qed.
Lemma fle_ok r r' : fle r r' -> fr_ok r = true -> fr_ok r' = true /\ fr_val r' = fr_val r.
Proof. rewrite fle_eq. intros (_ & H & _). exact H. Qed.
Lemma fle_ssize r r' z : fle r r' -> fr_ssize r = Some z -> fr_ssize r' = Some z.
Proof. rewrite fle_eq. intros (_ & _ & _ & _ & H & _). apply H. Qed.

(* ---------- refutations of the unrestricted statement ---------- *)
Definition size_virt (fs : list (vx * vx * vx)) : field :=
  mk_field (XK (VBool true)) (Virt (size_expr fs) None).
Definition ktrue := XK (VBool true).
Definition kz (z : Z) := XK (VInt z).

(* struct A:  0 [+1] UInt n ;  1 [+n] UInt:8[] payload *)
Definition m_array : module :=
  [mk_sdef 8 0%nat
     [mk_field ktrue (Phys (kz 0) (kz 1) (FScalar KU 8 LE) None);
      mk_field ktrue (Phys (kz 1) (XField [0%nat]) (FArray (FScalar KU 8 LE) 1) None);
      size_virt [(ktrue, kz 0, kz 1); (ktrue, kz 1, XField [0%nat])]]
     [0; 1; 2]%nat 2%nat None].

Theorem prefix_stable_refuted_array :
  exists m d ps fuel bytes extra,
    In d m /\
    let r := eval_struct m bytes fuel d ps true (root bytes) in
    let r' := eval_struct m (bytes ++ extra) fuel d ps true (root (bytes ++ extra)) in
    (exists f f', nth_error (fr_sub r) 1 = Some (Some f) /\ nth_error (fr_sub r') 1 = Some (Some f') /\
                  fr_has f = Some true /\ fr_has f' = Some true /\
                  fr_ok f = true /\ fr_ok f' = true /\
                  fr_scomplete f = true /\
                  fr_ssize f = Some 1 /\ fr_ssize f' = Some 3) /\          (* ElementCount 1, then 3 *)
    nth_error (run_view m 0 ps bytes fuel) 10 = Some 1 /\
    nth_error (run_view m 0 ps (bytes ++ extra) fuel) 10 = Some 3 /\
    ~ prefix_stable_at m d ps fuel bytes extra.
Proof.
  exists m_array, (nth 0 m_array (mk_sdef 8 0 [] [] 0 None)), [], 8%nat, [3; 7], [8; 9].
  split; [left; reflexivity|].
  split; [|split; [vm_compute; reflexivity|split; [vm_compute; reflexivity|]]].
  - eexists; eexists. vm_compute. repeat split; reflexivity.
  - unfold prefix_stable_at. intros H.
    destruct (fle_sub_nth _ _ 1%nat _ H ltac:(vm_compute; reflexivity)) as (f' & Hn & Hf).
    vm_compute in Hn. inversion Hn; subst f'; clear Hn.
    specialize (fle_ssize _ _ 1 Hf eq_refl). vm_compute. discriminate.
Qed.

(* (The Null-byte-order refutation that stood here described the runtime before fix c90547c:
   NullByteOrderer::SizeInBytes() ignored the buffer size.  The model now follows the repaired
   runtime; [wf_stable] still excludes NullBO, which is stronger than needed.) *)

(* struct P(k: UInt:8):  0 [+1] UInt a
   struct O:  0 [+1] UInt n ;  1 [+n] P(n) p      -- p().has_k() *)
Definition m_param : module :=
  [mk_sdef 8 0%nat
     [mk_field ktrue (Phys (kz 0) (kz 1) (FScalar KU 8 LE) None);
      mk_field ktrue (Phys (kz 1) (XField [0%nat]) (FStruct 1 [XField [0%nat]] None) None);
      size_virt [(ktrue, kz 0, kz 1); (ktrue, kz 1, XField [0%nat])]]
     [0; 1; 2]%nat 2%nat None;
   mk_sdef 8 1%nat
     [mk_field ktrue (Param 0);
      mk_field ktrue (Phys (kz 0) (kz 1) (FScalar KU 8 LE) None);
      size_virt [(ktrue, kz 0, kz 1)]]
     [0; 1; 2]%nat 2%nat None].

Theorem prefix_stable_refuted_param_flag :
  exists m d ps fuel bytes extra,
    In d m /\
    let r := eval_struct m bytes fuel d ps true (root bytes) in
    let r' := eval_struct m (bytes ++ extra) fuel d ps true (root (bytes ++ extra)) in
    (exists f f' k k', nth_error (fr_sub r) 1 = Some (Some f) /\ nth_error (fr_sub r') 1 = Some (Some f') /\
                  nth_error (fr_sub f) 0 = Some (Some k) /\ nth_error (fr_sub f') 0 = Some (Some k') /\
                  fr_has k = Some false /\ fr_has k' = Some true) /\       (* p().has_k() *)
    ~ prefix_stable_at m d ps fuel bytes extra.
Proof.
  exists m_param, (nth 0 m_param (mk_sdef 8 0 [] [] 0 None)), [], 8%nat, [], [1; 7].
  split; [left; reflexivity|]. split.
  - do 4 eexists. vm_compute. repeat split; reflexivity.
  - unfold prefix_stable_at. intros H.
    destruct (fle_sub_nth _ _ 1%nat _ H ltac:(vm_compute; reflexivity)) as (f' & Hn & Hf).
    vm_compute in Hn. inversion Hn; subst f'; clear Hn.
    destruct (fle_sub_nth _ _ 0%nat _ Hf ltac:(vm_compute; reflexivity)) as (k' & Hn & Hk).
    vm_compute in Hn. inversion Hn; subst k'; clear Hn.
    specialize (fle_has _ _ false Hk eq_refl). vm_compute. discriminate.
Qed.

(* ====================================================================== *)
(* ---------- proof of the partial theorem ---------- *)

Lemma olist_le_set_nth {A} (R : A -> A -> Prop) a a' : forall i l l',
  olist_le R l l' -> R a a' -> olist_le R (set_nth l i (Some a)) (set_nth l' i (Some a')).
Proof.
  unfold set_nth.
  induction i as [|i IH]; intros l l' H Ha.
  - destruct l as [|x t]; [exact I|]. destruct l' as [|x' t']; [contradiction|].
    cbn in *. tauto.
  - destruct l as [|x t]; [exact I|]. destruct l' as [|x' t']; [contradiction|].
    destruct H as [Hx Ht]. cbn [firstn skipn app olist_le]. split; [exact Hx|]. apply IH; assumption.
Qed.

Lemma olist_le_none {A B} (R : A -> A -> Prop) (l : list B) :
  olist_le R (map (fun _ => None) l) (map (fun _ => None) l).
Proof. induction l; cbn; auto. Qed.

Lemma env_rel_lookup : forall p e e' r,
  env_rel e e' -> lookup e p = Some r -> exists r', lookup e' p = Some r' /\ fle r r'.
Proof.
  induction p as [|i rest IH]; intros e e' r He H; [discriminate|].
  destruct rest as [|j rest'].
  - cbn in H |- *. destruct (nth_error e i) as [[r0|]|] eqn:E; try discriminate.
    inversion H; subst r0.
    destruct (olist_le_nth _ _ _ _ _ He E) as (r' & E' & Hr). rewrite E'. eauto.
  - cbn [lookup] in H |- *. destruct (nth_error e i) as [[r0|]|] eqn:E; try discriminate.
    destruct (olist_le_nth _ _ _ _ _ He E) as (r0' & E' & Hr). rewrite E'.
    rewrite fle_eq in Hr. destruct Hr as (_ & _ & _ & _ & _ & Hs & _).
    exact (IH _ _ _ Hs H).
Qed.

Lemma fle_fres_le r r' : fle r r' -> fres_le r r'.
Proof. rewrite fle_eq. intros (H1 & H2 & _). split; assumption. Qed.

Lemma env_rel_le e e' : env_rel e e' -> env_le e e'.
Proof.
  intros He p r H. destruct (env_rel_lookup _ _ _ _ He H) as (r' & H' & Hr).
  exists r'. split; [exact H'|apply fle_fres_le; exact Hr].
Qed.

Lemma meval_rel e e' s x v : env_rel e e' -> meval e s x = Some v -> meval e' s x = Some v.
Proof. intros He. apply (meval_mono e e' s s x (env_rel_le _ _ He) (mle_refl s)). Qed.

Lemma m_bool_rel e e' x : env_rel e e' -> mle (m_bool (meval e None x)) (m_bool (meval e' None x)).
Proof.
  intros He b H. destruct (meval e None x) as [[| |]|] eqn:E; try discriminate.
  rewrite (meval_rel _ _ _ _ _ He E). exact H.
Qed.

Lemma requires_ok_rel rq e e' v : env_rel e e' -> requires_ok rq e v = true -> requires_ok rq e' v = true.
Proof.
  intros He. destruct rq as [x|]; cbn; [|auto].
  destruct (meval e (Some v) x) as [[| b |]|] eqn:E; cbn; try discriminate.
  rewrite (meval_rel _ _ _ _ _ He E). auto.
Qed.

Lemma fle_with_has r r' h h' : fle r r' -> mle h h' -> fle (with_has h r) (with_has h' r').
Proof.
  rewrite !fle_eq. destruct r, r'. unfold fle_body; cbn. tauto.
Qed.

(* a view that reports nothing *)
Definition is_bot (r : fres) : Prop :=
  fr_ok r = false /\ fr_sok r = false /\ fr_scomplete r = false /\ fr_ssize r = None /\
  fr_sub r = [] /\ fr_elems r = [].

Lemma fle_bot r r' h h' : is_bot r -> mle h h' -> fle (with_has h r) (with_has h' r').
Proof.
  intros (H1 & H2 & H3 & H4 & H5 & H6) Hh. rewrite fle_eq. destruct r, r'. cbn in *. subst.
  unfold fle_body; cbn. repeat split; try discriminate; try exact Hh. 
Qed.

(* ---------- storages of the short and the long buffer ---------- *)
Section Storage.
  Variable n : Z.                       (* length of the short buffer *)

  (* an Ok bit block sits on a byte range of exactly nbits/8 bytes inside the short buffer *)
  Definition sbit_inv (s : storage) : Prop :=
    match s with
    | SB _ => False
    | SBit b bo nbits _ _ _ ok =>
        ok = true /\ bo <> NullBO /\ exists o l, b = Some (o, l) /\ l * 8 = nbits /\ bstore_in n b
    end.

  (* left: view over the short buffer, right: over the long one *)
  Definition st_rel (s s' : storage) : Prop :=
    storage_ok s = false \/
    match s with
    | SB (Some (o, l)) => exists l', s' = SB (Some (o, l')) /\ l <= l' /\ bstore_in n (Some (o, l))
    | SB None => False
    | SBit _ _ _ _ _ _ _ => s' = s /\ sbit_inv s
    end.

  Definition exact_for (kb : Z) (s s' : storage) : Prop :=
    forall o l l', s = SB (Some (o, l)) -> s' = SB (Some (o, l')) -> l * 8 = kb -> l' = l.

  Lemma get_offset_not_ok s off sz : storage_ok s = false -> storage_ok (get_offset s off sz) = false.
  Proof.
    destruct s as [[[o l]|]|b bo nbits direct bitoff bitsize ok]; cbn; intros H; try discriminate; [reflexivity|].
    subst ok. destruct direct; cbn; apply andb_false_r.
  Qed.

  Lemma st_rel_get_offset s s' off sz :
    st_rel s s' -> 0 <= off -> 0 <= sz -> st_rel (get_offset s off sz) (get_offset s' off sz).
  Proof.
    intros [H|H] Ho Hs; [left; apply get_offset_not_ok; exact H|].
    destruct s as [[[o l]|]|b bo nbits direct bitoff bitsize ok]; [| contradiction |].
    - destruct H as (l' & -> & Hl & Hin). right. cbn [get_offset bstore_offset].
      eexists. split; [reflexivity|]. split.
      + destruct (l <? off) eqn:E1; destruct (l' <? off) eqn:E2; lia.
      + exact (bstore_offset_in n (Some (o, l)) off sz Hin Ho Hs).
    - destruct H as (-> & Hinv).
      destruct (storage_ok (get_offset (SBit b bo nbits direct bitoff bitsize ok) off sz)) eqn:E;
        [right|left; exact E].
      cbn [get_offset] in E |- *. split; [reflexivity|]. cbn in E. cbn [sbit_inv].
      destruct Hinv as (_ & Hbo & Hex). split; [exact E|]. split; assumption.
  Qed.

  Lemma st_rel_ok s s' :
    st_rel s s' -> storage_ok s = true -> storage_ok s' = true /\ storage_size s <= storage_size s'.
  Proof.
    intros [H|H] Hok; [congruence|].
    destruct s as [[[o l]|]|b bo nbits direct bitoff bitsize ok]; [| contradiction |].
    - destruct H as (l' & -> & Hl & _). cbn. split; [reflexivity|exact Hl].
    - destruct H as (-> & _). split; [exact Hok|lia].
  Qed.

  Lemma exact_get_offset st st' off sz kb :
    st_rel st st' -> 0 <= off -> 0 <= sz -> 8 * sz = kb ->
    exact_for kb (get_offset st off sz) (get_offset st' off sz).
  Proof.
    intros Hr Ho Hs Hk o l l' E E' Hl.
    destruct st as [[[o0 l0]|]|]; cbn in E; try discriminate.
    destruct Hr as [Hr|Hr]; [discriminate|]. destruct Hr as (l0' & -> & Hle & Hin).
    cbn in E'. inversion E; inversion E'; subst. clear E E'.
    destruct (l0 <? off) eqn:E1; destruct (l0' <? off) eqn:E2; lia.
  Qed.

  Lemma st_rel_mk_bitblock s s' bo nb :
    st_rel s s' -> bo <> NullBO -> exact_for nb s s' ->
    forall b b', s = SB b -> s' = SB b' -> st_rel (mk_bitblock b bo nb) (mk_bitblock b' bo nb).
  Proof.
    intros Hr Hbo Hex b b' -> ->.
    destruct b as [[o l]|]; [|left; reflexivity].
    destruct Hr as [Hr|Hr]; [discriminate|]. destruct Hr as (l' & E & Hle & Hin). inversion E; subst b'. clear E.
    destruct (l * 8 =? nb) eqn:Ek.
    - assert (l' = l) by (eapply Hex; [reflexivity|reflexivity|lia]). subst l'.
      right. unfold mk_bitblock. split; [reflexivity|]. cbn [sbit_inv].
      split. { unfold bitblock_ok. cbn [bstore_ok andb]. destruct bo; [exact Ek|exact Ek|contradiction]. }
      split; [exact Hbo|]. exists o, l. split; [reflexivity|]. split; [lia|exact Hin].
    - left. unfold mk_bitblock. cbn [storage_ok]. unfold bitblock_ok. cbn [bstore_ok andb].
      destruct bo; [exact Ek|exact Ek|contradiction].
  Qed.
End Storage.

(* ---------- reads inside the short buffer do not see the extra bytes ---------- *)
Section Reads.
  Variables bytes extra : list Z.
  Let n := Z.of_nat (length bytes).

  Lemma nth_byte_app i : 0 <= i < n -> nth_byte (bytes ++ extra) i = nth_byte bytes i.
  Proof. intros H. rewrite !nth_byte_nth. apply app_nth1. subst n. lia. Qed.

  Lemma le_value_app k : forall o, 0 <= o -> o + Z.of_nat k <= n ->
    le_value (bytes ++ extra) o k = le_value bytes o k.
  Proof.
    induction k as [|k IH]; intros o Ho Hk; [reflexivity|].
    cbn [le_value]. rewrite nth_byte_app by lia. rewrite IH by lia. reflexivity.
  Qed.

  Lemma be_value_app k : forall o acc, 0 <= o -> o + Z.of_nat k <= n ->
    be_value (bytes ++ extra) o k acc = be_value bytes o k acc.
  Proof.
    induction k as [|k IH]; intros o acc Ho Hk; [reflexivity|].
    cbn [be_value]. rewrite nth_byte_app by lia. rewrite IH by lia. reflexivity.
  Qed.

  Lemma raw_read_app s : sbit_inv n s -> raw_read (bytes ++ extra) s = raw_read bytes s.
  Proof.
    destruct s as [b|b bo nbits direct bitoff bitsize ok]; [contradiction|].
    intros (_ & _ & o & l & -> & Hl & Hl0 & Hin).
    assert (Hc : container_value (bytes ++ extra) (Some (o, l)) bo nbits =
                 container_value bytes (Some (o, l)) bo nbits).
    { unfold container_value. subst nbits. rewrite Z.div_mul by lia.
      destruct (Z.eq_dec l 0) as [->|Hnz]; [destruct bo; reflexivity|].
      destruct Hin as [->|Hin]; [lia|].
      destruct bo; [apply le_value_app|apply be_value_app|apply le_value_app]; lia. }
    cbn [raw_read]. rewrite Hc. reflexivity.
  Qed.

  Lemma raw_read_rel s s' : st_rel n s s' -> storage_ok s = true ->
    raw_read (bytes ++ extra) s' = raw_read bytes s.
  Proof.
    intros [H|H] Hok; [congruence|].
    destruct s as [[[o l]|]|b bo nbits direct bitoff bitsize ok]; [| contradiction |].
    - destruct H as (l' & -> & _). reflexivity.
    - destruct H as (-> & Hinv). apply raw_read_app. exact Hinv.
  Qed.
End Reads.

(* ---------- the simultaneous induction ---------- *)
Definition exact_bits (u : Z) (ty : ftype) : option Z :=
  match ty with
  | FScalar _ kb _ => if u =? 8 then Some kb else None
  | FStruct _ _ (Some (nb, _)) => Some nb
  | _ => None
  end.

Lemma exact_for_not_ok kb s s' : storage_ok s = false -> exact_for kb s s'.
Proof. intros H o l l' -> _ _. discriminate. Qed.

Lemma null_of_not_ok ty m : storage_ok (null_of ty m) = false.
Proof.
  destruct ty as [| tid a ad |]; try reflexivity. cbn.
  destruct (nth_error m tid) as [d|]; [|reflexivity]. destruct (unit_bits d =? 8); reflexivity.
Qed.

Lemma bo_ok_ne bo : bo_ok bo = true -> bo <> NullBO.
Proof. destruct bo; cbn; congruence. Qed.

Definition pvals_rel (pinit : bool) (ps : list (maybe value)) (pinit' : bool) (ps' : list (maybe value)) : Prop :=
  pinit = true ->
  pinit' = true /\ forall i v, nth_error ps i = Some (Some v) -> nth_error ps' i = Some (Some v).

Lemma locate_rel st e has ak start size sl e' :
  env_rel e e' -> locate st e has ak start size = Some sl ->
  exists off sz, 0 <= off /\ 0 <= sz /\ sl = get_offset st off sz /\
    meval e None size = Some (VInt sz) /\ ak = true /\
    forall st' has' ak', mle has has' -> ak' = true ->
      locate st' e' has' ak' start size = Some (get_offset st' off sz).
Proof.
  intros He H. unfold locate in H.
  destruct ak; [|discriminate]. destruct has as [[|]|]; try discriminate. cbn [andb value_or_false] in H.
  destruct (meval e None size) as [[sz| |]|] eqn:Es; try discriminate.
  destruct (meval e None start) as [[off| |]|] eqn:Eo; try discriminate. cbn [m_z] in H.
  destruct ((0 <=? sz) && (0 <=? off)) eqn:Eb; [|discriminate]. inversion H; subst sl.
  exists off, sz. repeat split; try lia.
  intros st' has' ak' Hh ->. unfold locate. rewrite (Hh true eq_refl). cbn [andb value_or_false].
  rewrite (meval_rel _ _ _ _ _ He Es), (meval_rel _ _ _ _ _ He Eo). cbn [m_z]. rewrite Eb. reflexivity.
Qed.

Lemma argvals_known e e' args :
  env_rel e e' -> forallb known (map (meval e None) args) = true ->
  forallb known (map (meval e' None) args) = true /\
  forall i v, nth_error (map (meval e None) args) i = Some (Some v) ->
              nth_error (map (meval e' None) args) i = Some (Some v).
Proof.
  intros He. induction args as [|a t IH]; cbn [map forallb]; intros H.
  - split; [reflexivity|]. intros [|i] v Hn; discriminate.
  - apply andb_prop in H. destruct H as [Ha Ht]. destruct (IH Ht) as [IH1 IH2].
    destruct (meval e None a) as [va|] eqn:Ea; [|discriminate].
    rewrite (meval_rel _ _ _ _ _ He Ea). split; [exact IH1|].
    intros [|i] v Hn; cbn in Hn |- *; [exact Hn|apply IH2; exact Hn].
Qed.

Section Main.
  Variable m : module.
  Hypothesis Hwf : wf_stable m = true.
  Variables bytes extra : list Z.
  Let n := Z.of_nat (length bytes).

  Definition struct_stable (f : nat) : Prop :=
    forall d ps ps' pinit pinit' st st',
      wf_sdef m d = true -> st_rel n st st' -> pvals_rel pinit ps pinit' ps' ->
      (pinit = pinit' \/ no_params d = true) ->
      fle (eval_struct m bytes f d ps pinit st) (eval_struct m (bytes ++ extra) f d ps' pinit' st').

  Definition type_stable (f : nat) : Prop :=
    forall u size ty ps ps' pinit pinit' s s' rq e e',
      wf_ftype m u size ty = true -> st_rel n s s' ->
      (forall kb, exact_bits u ty = Some kb -> exact_for kb s s') ->
      env_rel e e' -> pvals_rel pinit ps pinit' ps' ->
      fle (eval_type m bytes f u ty ps pinit s rq e) (eval_type m (bytes ++ extra) f u ty ps' pinit' s' rq e').

  Lemma fle_exhausted s s' : fle (FR None false None s [] false false None []) (FR None false None s' [] false false None []).
  Proof. rewrite fle_eq. unfold fle_body; cbn. repeat split; try discriminate; apply mle_none. Qed.

  Lemma scalar_stable f u k kbits bo ps ps' pinit pinit' s s' rq e e' :
    bo <> NullBO -> st_rel n s s' -> (u = 8 -> exact_for kbits s s') -> env_rel e e' ->
    fle (eval_type m bytes (S f) u (FScalar k kbits bo) ps pinit s rq e)
        (eval_type m (bytes ++ extra) (S f) u (FScalar k kbits bo) ps' pinit' s' rq e').
  Proof.
    intros Hbo Hr Hex He. cbn [eval_type].
    set (s2 := match s with SB b => if u =? 8 then mk_bitblock b bo kbits else s | _ => s end).
    set (s2' := match s' with SB b => if u =? 8 then mk_bitblock b bo kbits else s' | _ => s' end).
    assert (Hr2 : st_rel n s2 s2').
    { destruct s as [b|b0 bo0 nb0 d0 o0 z0 ok0].
      - destruct (u =? 8) eqn:Eu.
        + destruct Hr as [Hr|Hr].
          * left. destruct b as [[? ?]|]; [discriminate|reflexivity].
          * destruct b as [[o l]|]; [|contradiction]. destruct Hr as (l' & -> & Hl & Hin).
            subst s2 s2'.
            eapply st_rel_mk_bitblock; try reflexivity; [|exact Hbo|apply Hex; lia].
            right. exists l'. auto.
        + subst s2 s2'. destruct Hr as [Hr|Hr]; [left; exact Hr|].
          destruct b as [[o l]|]; [|contradiction]. destruct Hr as (l' & -> & Hl & Hin).
          right. exists l'. auto.
      - subst s2 s2'. destruct Hr as [Hr|Hr]; [left; exact Hr|]. destruct Hr as (-> & Hinv). right. auto. }
    clearbody s2 s2'.
    rewrite fle_eq. unfold fle_body. cbn [fr_has fr_ok fr_val fr_sok fr_scomplete fr_ssize fr_sub fr_elems olist_le list_le].
    assert (Hc : storage_ok s2 && (kbits <=? storage_size s2) = true ->
                 storage_ok s2' && (kbits <=? storage_size s2') = true /\
                 raw_read (bytes ++ extra) s2' = raw_read bytes s2).
    { intros H. apply andb_prop in H. destruct H as [H1 H2].
      destruct (st_rel_ok _ _ _ Hr2 H1) as [H3 H4]. split; [rewrite H3; cbn; lia|].
      apply raw_read_rel; assumption. }
    assert (Hmain :
      storage_ok s2 && (kbits <=? storage_size s2)
        && match k with KBcd => is_bcd 16 (raw_read bytes s2) | _ => true end
        && requires_ok rq e (decode_scalar k kbits (raw_read bytes s2)) = true ->
      storage_ok s2' && (kbits <=? storage_size s2')
        && match k with KBcd => is_bcd 16 (raw_read (bytes ++ extra) s2') | _ => true end
        && requires_ok rq e' (decode_scalar k kbits (raw_read (bytes ++ extra) s2')) = true /\
      Some (decode_scalar k kbits (raw_read (bytes ++ extra) s2')) = Some (decode_scalar k kbits (raw_read bytes s2))).
    { intros H. apply andb_prop in H. destruct H as [H H3]. apply andb_prop in H. destruct H as [H1 H2].
      destruct (Hc H1) as [H1' Hraw]. rewrite Hraw, H1', H2. cbn [andb].
      split; [|reflexivity]. eapply requires_ok_rel; eassumption. }
    split; [apply mle_none|]. split; [exact Hmain|].
    split; [intros H; apply Hmain in H; tauto|].
    split; [intros H; apply Hc in H; tauto|].
    split; [apply mle_none|]. split; exact I.
  Qed.

  Lemma wf_sdef_of tid d : nth_error m tid = Some d -> wf_sdef m d = true.
  Proof.
    intros H. apply nth_error_In in H. unfold wf_stable in Hwf.
    rewrite forallb_forall in Hwf. apply Hwf. exact H.
  Qed.

  Lemma type_stable_0 : type_stable 0.
  Proof. intros u size ty ps ps' pinit pinit' s s' rq e e' _ _ _ _ _. apply fle_exhausted. Qed.

  Lemma type_stable_S f : struct_stable f -> type_stable (S f).
  Proof.
    intros IH u size ty ps ps' pinit pinit' s s' rq e e' Hty Hr Hex He Hp.
    destruct ty as [k kbits bo | tid args adapt | el esz]; [| |discriminate].
    - cbn [wf_ftype] in Hty. apply andb_prop in Hty. destruct Hty as [Hbo _].
      apply scalar_stable; [apply bo_ok_ne; exact Hbo|exact Hr| |exact He].
      intros ->. apply Hex. reflexivity.
    - cbn [eval_type]. cbn [wf_ftype] in Hty. apply andb_prop in Hty. destruct Hty as [Had Hnp].
      destruct (nth_error m tid) as [d|] eqn:Ed; [|apply fle_exhausted].
      apply IH; [eapply wf_sdef_of; exact Ed| |exact Hp|right; exact Hnp].
      destruct adapt as [[nb bo]|].
      + apply andb_prop in Had. destruct Had as [Hbo _]. apply bo_ok_ne in Hbo.
        specialize (Hex nb eq_refl).
        destruct s as [b|b0 bo0 nb0 d0 o0 z0 ok0].
        * destruct Hr as [Hr|Hr].
          { left. destruct b as [[? ?]|]; [discriminate|reflexivity]. }
          destruct b as [[o l]|]; [|contradiction]. destruct Hr as (l' & -> & Hl & Hin).
          eapply st_rel_mk_bitblock; try reflexivity; [|exact Hbo|exact Hex].
          right. exists l'. auto.
        * destruct Hr as [Hr|Hr]; [left; exact Hr|]. destruct Hr as (-> & Hinv). right. auto.
      + destruct s as [b|b0 bo0 nb0 d0 o0 z0 ok0]; [|].
        * destruct Hr as [Hr|Hr]; [left; exact Hr|].
          destruct b as [[o l]|]; [|contradiction]. destruct Hr as (l' & -> & Hl & Hin). right. exists l'. auto.
        * destruct Hr as [Hr|Hr]; [left; exact Hr|]. destruct Hr as (-> & Hinv). right. auto.
  Qed.

  (* ----- the final assembly of a structure view ----- *)
  Lemma isize_rel d e e' : env_rel e e' -> mle (isize_of d e) (isize_of d e').
  Proof.
    intros He z H. unfold isize_of in *.
    destruct (nth_error e (size_field d)) as [[r|]|] eqn:E; try discriminate.
    destruct (olist_le_nth _ _ _ _ _ He E) as (r' & E' & Hr). rewrite E'.
    destruct (fr_ok r) eqn:Eo; [|discriminate].
    destruct (fle_ok _ _ Hr Eo) as [-> ->]. exact H.
  Qed.

  Lemma field_test_rel e e' i : env_rel e e' -> field_test e i = true -> field_test e' i = true.
  Proof.
    intros He H. unfold field_test in *.
    destruct (nth_error e i) as [[r|]|] eqn:E; try discriminate.
    destruct (olist_le_nth _ _ _ _ _ He E) as (r' & E' & Hr). rewrite E'.
    destruct (fr_has r) as [[|]|] eqn:Eh; try discriminate.
    - rewrite (fle_has _ _ _ Hr Eh). apply (fle_ok _ _ Hr H).
    - rewrite (fle_has _ _ _ Hr Eh). reflexivity.
  Qed.

  Lemma finish_stable d pinit pinit' st st' e e' :
    env_rel e e' -> st_rel n st st' -> (pinit = true -> pinit' = true) ->
    fle (finish d pinit st e) (finish d pinit' st' e').
  Proof.
    intros He Hr Hp. rewrite fle_eq. unfold fle_body, finish.
    cbn [fr_has fr_ok fr_val fr_sok fr_scomplete fr_ssize fr_sub fr_elems list_le].
    pose proof (isize_rel d e e' He) as Hi.
    assert (Hc : storage_ok st && match isize_of d e with Some z => z <=? storage_size st | None => false end = true ->
                 storage_ok st' && match isize_of d e' with Some z => z <=? storage_size st' | None => false end = true).
    { intros H. apply andb_prop in H. destruct H as [H1 H2].
      destruct (st_rel_ok _ _ _ Hr H1) as [H3 H4]. rewrite H3.
      destruct (isize_of d e) as [z|]; [|discriminate]. rewrite (Hi z eq_refl). cbn. lia. }
    assert (Hok : forall c c', (c = true -> c' = true) ->
      c && (if (0 <? nparams d)%nat then pinit else true) && forallb (field_test e) (order d)
        && match srequires d with None => true | Some x => value_or_false (m_bool (meval e None x)) end = true ->
      c' && (if (0 <? nparams d)%nat then pinit' else true) && forallb (field_test e') (order d)
        && match srequires d with None => true | Some x => value_or_false (m_bool (meval e' None x)) end = true).
    { intros c c' Hcc H. apply andb_prop in H. destruct H as [H H4]. apply andb_prop in H. destruct H as [H H3].
      apply andb_prop in H. destruct H as [H1 H2]. rewrite (Hcc H1). cbn [andb].
      assert (H2' : (if (0 <? nparams d)%nat then pinit' else true) = true).
      { destruct (0 <? nparams d)%nat; [apply Hp; exact H2|reflexivity]. }
      rewrite H2'. cbn [andb].
      assert (H3' : forallb (field_test e') (order d) = true).
      { rewrite forallb_forall in H3 |- *. intros i Hi'. eapply field_test_rel; [exact He|apply H3; exact Hi']. }
      rewrite H3'. cbn [andb].
      destruct (srequires d) as [x|]; [|reflexivity].
      destruct (m_bool (meval e None x)) as [b|] eqn:Eb; [|discriminate]. cbn in H4. subst b.
      rewrite (m_bool_rel e e' x He true Eb). reflexivity. }
    split; [apply mle_none|].
    split; [intros H; split; [exact (Hok _ _ Hc H)|reflexivity]|].
    split; [exact (Hok _ _ Hc)|].
    split; [exact Hc|].
    split; [exact Hi|]. split; [exact He|exact I].
  Qed.

  (* ----- one step of the fold over the dependency order ----- *)
  Lemma wf_exact u size ty kb e sz :
    wf_ftype m u size ty = true -> exact_bits u ty = Some kb ->
    meval e None size = Some (VInt sz) -> 8 * sz = kb.
  Proof.
    intros Hty Hk Hs.
    assert (Hc : is_const_size size kb = true).
    { destruct ty as [k kbits bo | tid args [[nb bo]|] | el esz]; cbn in Hty, Hk; try discriminate.
      - destruct (u =? 8); [|discriminate]. inversion Hk; subst kb.
        apply andb_prop in Hty. tauto.
      - inversion Hk; subst kb. apply andb_prop in Hty. destruct Hty as [Hty _].
        apply andb_prop in Hty. tauto. }
    unfold is_const_size in Hc. destruct size as [[s| |]| | | | | | | | | | | |]; try discriminate.
    cbn in Hs. inversion Hs; subst. lia.
  Qed.

  Lemma scalar_null_bot f u k kb bo ps pinit rq e :
    is_bot (eval_type m bytes f u (FScalar k kb bo) ps pinit (null_of (FScalar k kb bo) m) rq e).
  Proof.
    destruct f; cbn; [repeat split|]. destruct (u =? 8); cbn; repeat split.
  Qed.

  Lemma step_stable f d ps ps' pinit pinit' st st' e e' i :
    type_stable f -> wf_sdef m d = true -> st_rel n st st' -> pvals_rel pinit ps pinit' ps' ->
    (pinit = pinit' \/ no_params d = true) -> env_rel e e' ->
    env_rel (vstep m bytes f d ps pinit st e i) (vstep m (bytes ++ extra) f d ps' pinit' st' e' i).
  Proof.
    intros IH Hd Hr Hp Hnp He. unfold vstep.
    destruct (nth_error (fields d) i) as [fld|] eqn:Ef; [|exact He].
    assert (Hfld : wf_field m (unit_bits d) fld = true).
    { unfold wf_sdef in Hd. rewrite forallb_forall in Hd. apply Hd. eapply nth_error_In; exact Ef. }
    pose proof (m_bool_rel e e' (fcond fld) He) as Hh.
    remember (m_bool (meval e None (fcond fld))) as has eqn:Ehas.
    remember (m_bool (meval e' None (fcond fld))) as has' eqn:Ehas'.
    clear Ehas Ehas'.
    apply olist_le_set_nth; [exact He|].
    unfold wf_field in Hfld.
    destruct (fbody_of fld) as [start size ty rq | rd rq | p aty | pi] eqn:Eb.
    - (* physical field *)
      destruct (locate st e has (forallb known (map (meval e None) (args_of ty))) start size) as [sl|] eqn:EL.
      + destruct (locate_rel _ _ _ _ _ _ _ _ He EL) as (off & sz & Ho & Hs & -> & Esz & Hak & Hloc).
        destruct (argvals_known e e' (args_of ty) He Hak) as [Hak' Hargs].
        rewrite (Hloc st' has' _ Hh Hak').
        apply fle_with_has; [|exact Hh].
        apply (IH (unit_bits d) size); [exact Hfld|apply st_rel_get_offset; assumption| |exact He|].
        * intros kb Hkb. eapply exact_get_offset; try eassumption.
          eapply wf_exact; eassumption.
        * intros _. split; [reflexivity|exact Hargs].
      + assert (Hnull : storage_ok (null_of ty m) = false) by apply null_of_not_ok.
        destruct (locate st' e' has' (forallb known (map (meval e' None) (args_of ty))) start size) as [sl'|];
          (apply fle_with_has; [|exact Hh]);
          (apply (IH (unit_bits d) size);
           [exact Hfld|left; exact Hnull|intros kb _; apply exact_for_not_ok; exact Hnull|exact He|intros Hx; discriminate]).
    - (* virtual field *)
      rewrite fle_eq. unfold fle_body.
      cbn [fr_has fr_ok fr_val fr_sok fr_scomplete fr_ssize fr_sub fr_elems olist_le list_le].
      split; [exact Hh|].
      destruct (meval e None rd) as [vv|] eqn:Ev.
      + rewrite (meval_rel _ _ _ _ _ He Ev).
        split; [intros H; split; [eapply requires_ok_rel; eassumption|reflexivity]|].
        split; [intros H; eapply requires_ok_rel; eassumption|].
        split; [auto|]. split; [apply mle_none|]. split; exact I.
      + split; [discriminate|]. split; [discriminate|]. split; [auto|]. split; [apply mle_none|]. split; exact I.
    - (* alias *)
      destruct aty as [k kb bo| |]; try discriminate.
      destruct (if value_or_false has then lookup e p else None) as [r|] eqn:EL.
      + destruct has as [[|]|]; try discriminate. rewrite (Hh true eq_refl). cbn [value_or_false] in EL |- *.
        destruct (env_rel_lookup _ _ _ _ He EL) as (r' & -> & Hr').
        apply fle_with_has; [exact Hr'|]. intros x Hx. exact Hx.
      + destruct (if value_or_false has' then lookup e' p else None) as [r'|];
          (apply fle_bot; [apply scalar_null_bot|exact Hh]).
    - (* parameter *)
      assert (pinit = pinit').
      { destruct Hnp as [Hnp|Hnp]; [exact Hnp|]. unfold no_params in Hnp. rewrite forallb_forall in Hnp.
        specialize (Hnp fld (nth_error_In _ _ Ef)). rewrite Eb in Hnp. discriminate. }
      subst pinit'.
      rewrite fle_eq. unfold fle_body.
      cbn [fr_has fr_ok fr_val fr_sok fr_scomplete fr_ssize fr_sub fr_elems olist_le list_le].
      split; [apply mle_refl|].
      split.
      { intros H. destruct pinit; [|discriminate]. destruct (Hp eq_refl) as [_ Hps].
        destruct (nth_error ps pi) as [[v|]|] eqn:En; try discriminate.
        rewrite (Hps _ _ En). split; reflexivity. }
      split; [auto|]. split; [auto|]. split; [apply mle_none|]. split; exact I.
  Qed.

  Lemma fold_stable f d ps ps' pinit pinit' st st' :
    type_stable f -> wf_sdef m d = true -> st_rel n st st' -> pvals_rel pinit ps pinit' ps' ->
    (pinit = pinit' \/ no_params d = true) ->
    forall ord e e', env_rel e e' ->
      env_rel (fold_left (vstep m bytes f d ps pinit st) ord e)
              (fold_left (vstep m (bytes ++ extra) f d ps' pinit' st') ord e').
  Proof.
    intros IH Hd Hr Hp Hnp. induction ord as [|i t IHo]; intros e e' He; [exact He|].
    cbn [fold_left]. apply IHo. apply step_stable; assumption.
  Qed.

  Lemma struct_stable_S f : type_stable f -> struct_stable (S f).
  Proof.
    intros IH d ps ps' pinit pinit' st st' Hd Hr Hp Hnp.
    rewrite !eval_struct_S. apply finish_stable; [|exact Hr|intros H; apply (Hp H)].
    apply fold_stable; try assumption. apply olist_le_none.
  Qed.

  Lemma struct_stable_0 : struct_stable 0.
  Proof. intros d ps ps' pinit pinit' st st' _ _ _ _. apply fle_exhausted. Qed.

  Lemma both_stable f : struct_stable f /\ type_stable f.
  Proof.
    induction f as [|f [IHs IHt]].
    - split; [apply struct_stable_0|apply type_stable_0].
    - split; [apply struct_stable_S; exact IHt|apply type_stable_S; exact IHs].
  Qed.
End Main.

(* ---------- the theorem ---------- *)
Theorem prefix_stable_partial m :
  wf_stable m = true ->
  forall d ps fuel bytes extra, In d m -> prefix_stable_at m d ps fuel bytes extra.
Proof.
  intros Hwf d ps fuel bytes extra Hd. unfold prefix_stable_at, root.
  destruct (both_stable m Hwf bytes extra fuel) as [Hs _].
  apply Hs.
  - unfold wf_stable in Hwf. rewrite forallb_forall in Hwf. apply Hwf. exact Hd.
  - right. exists (Z.of_nat (length (bytes ++ extra))). split; [reflexivity|].
    rewrite app_length. cbn. lia.
  - intros _. split; [reflexivity|auto].
  - left. reflexivity.
Qed.
Print Assumptions prefix_stable_partial.

(* readable consequences for the top-level view and its fields *)
Corollary prefix_stable_top m d ps fuel bytes extra :
  wf_stable m = true -> In d m ->
  let r := eval_struct m bytes fuel d ps true (root bytes) in
  let r' := eval_struct m (bytes ++ extra) fuel d ps true (root (bytes ++ extra)) in
  (fr_ok r = true -> fr_ok r' = true) /\                                   (* Ok() *)
  (fr_scomplete r = true -> fr_scomplete r' = true) /\                     (* IsComplete() *)
  (forall z, fr_ssize r = Some z -> fr_ssize r' = Some z) /\               (* SizeIsKnown / size *)
  (forall i f, nth_error (fr_sub r) i = Some (Some f) ->
     exists f', nth_error (fr_sub r') i = Some (Some f') /\
       (forall b, fr_has f = Some b -> fr_has f' = Some b) /\              (* has_x() *)
       (fr_ok f = true -> fr_ok f' = true /\ fr_val f' = fr_val f) /\      (* x().Ok(), Read() *)
       fle f f').                                                          (* and hereditarily *)
Proof.
  intros Hwf Hd r r'. pose proof (prefix_stable_partial m Hwf d ps fuel bytes extra Hd) as H.
  unfold prefix_stable_at in H. fold r r' in H.
  split; [intros Ho; apply (fle_ok _ _ H Ho)|].
  split; [rewrite fle_eq in H; apply H|].
  split; [intros z; apply (fle_ssize _ _ z H)|].
  intros i f Hn. destruct (fle_sub_nth _ _ _ _ H Hn) as (f' & Hn' & Hf).
  exists f'. split; [exact Hn'|]. split; [intros b; apply (fle_has _ _ b Hf)|].
  split; [apply (fle_ok _ _ Hf)|exact Hf].
Qed.

(* The constant-size hypothesis is forced in the MODEL (the compiler never emits a scalar
   with a dynamic size, so this is not a finding):  0 [+1] UInt n ; 1 [+n] UInt:8 x *)
Definition m_dyn : module :=
  [mk_sdef 8 0%nat
     [mk_field ktrue (Phys (kz 0) (kz 1) (FScalar KU 8 LE) None);
      mk_field ktrue (Phys (kz 1) (XField [0%nat]) (FScalar KU 8 LE) None);
      size_virt [(ktrue, kz 0, kz 1); (ktrue, kz 1, XField [0%nat])]]
     [0; 1; 2]%nat 2%nat None].

Lemma const_size_hypothesis_forced :
  exists d, In d m_dyn /\ ~ prefix_stable_at m_dyn d [] 8 [2; 7] [9].
Proof.
  exists (nth 0 m_dyn (mk_sdef 8 0 [] [] 0 None)). split; [left; reflexivity|].
  unfold prefix_stable_at. intros H.
  destruct (fle_sub_nth _ _ 1%nat _ H ltac:(vm_compute; reflexivity)) as (f' & Hn & Hf).
  vm_compute in Hn. inversion Hn; subst f'; clear Hn.
  destruct (fle_ok _ _ Hf eq_refl) as [Hv _]. vm_compute in Hv. discriminate.
Qed.

(* ---------- the hypotheses are satisfiable, the conclusion is not vacuous ---------- *)
(* struct Outer:
     0 [+1] UInt tag
     if tag == 1:  1 [+2] UInt x (BigEndian)
     tag+3 [+1] Int y  [requires: this < 100]         -- dynamic offset
     4 [+2] Inner inner                               -- nested struct
     6 [+1] bits: 0 [+4] UInt lo ; 4 [+4] UInt hi     -- bits block (BitBlock adaptation) + alias lo
     let v = tag + 1                                  -- virtual field *)
Definition m_ex : module :=
  [mk_sdef 8 0%nat
     [mk_field ktrue (Phys (kz 0) (kz 1) (FScalar KU 8 LE) None);
      mk_field (XCmp CEq (XField [0%nat]) (kz 1)) (Phys (kz 1) (kz 2) (FScalar KU 16 BE) None);
      mk_field ktrue (Phys (XAdd (XField [0%nat]) (kz 3)) (kz 1) (FScalar KI 8 LE) (Some (XCmp CLt XSelf (kz 100))));
      mk_field ktrue (Phys (kz 4) (kz 2) (FStruct 1 [] None) None);
      mk_field ktrue (Phys (kz 6) (kz 1) (FStruct 2 [] (Some (8, LE))) None);
      mk_field ktrue (Virt (XAdd (XField [0%nat]) (kz 1)) None);
      mk_field (XAnd (XHas [4%nat]) (XHas [4%nat; 0%nat])) (Alias [4%nat; 0%nat] (FScalar KU 4 LE));
      size_virt [(ktrue, kz 0, kz 1); (XCmp CEq (XField [0%nat]) (kz 1), kz 1, kz 2);
                 (ktrue, XAdd (XField [0%nat]) (kz 3), kz 1); (ktrue, kz 4, kz 2); (ktrue, kz 6, kz 1)]]
     [0; 1; 2; 3; 4; 5; 6; 7]%nat 7%nat None;
   mk_sdef 8 0%nat
     [mk_field ktrue (Phys (kz 0) (kz 1) (FScalar KU 8 LE) None);
      mk_field ktrue (Phys (kz 1) (kz 1) (FScalar KU 8 LE) None);
      size_virt [(ktrue, kz 0, kz 1); (ktrue, kz 1, kz 1)]]
     [0; 1; 2]%nat 2%nat None;
   mk_sdef 1 0%nat
     [mk_field ktrue (Phys (kz 0) (kz 4) (FScalar KU 4 LE) None);
      mk_field ktrue (Phys (kz 4) (kz 4) (FScalar KU 4 LE) None);
      size_virt [(ktrue, kz 0, kz 4); (ktrue, kz 4, kz 4)]]
     [0; 1; 2]%nat 2%nat None].

Example wf_stable_example : wf_stable m_ex = true.
Proof. reflexivity. Qed.

Definition d_ex : sdef := nth 0 m_ex (mk_sdef 8 0 [] [] 0 None).

(* On the 2-byte prefix: tag is Ok (= 1), has_x is Known(true) but x is not yet Ok, v = 2 and the
   size (7) are known, the view is neither complete nor Ok; with 5 more bytes everything is Ok
   and the values known before are unchanged. *)
Example wf_stable_example_instance :
  prefix_stable_at m_ex d_ex [] 8 [1; 2] [3; 4; 5; 6; 165].
Proof. apply (prefix_stable_partial m_ex wf_stable_example). left; reflexivity. Qed.

Example wf_stable_example_nonvacuous :
  let r := eval_struct m_ex [1; 2] 8 d_ex [] true (root [1; 2]) in
  let r' := eval_struct m_ex ([1; 2] ++ [3; 4; 5; 6; 165]) 8 d_ex [] true (root ([1; 2] ++ [3; 4; 5; 6; 165])) in
  (exists tag x v, nth_error (fr_sub r) 0 = Some (Some tag) /\ nth_error (fr_sub r) 1 = Some (Some x) /\
                   nth_error (fr_sub r) 5 = Some (Some v) /\
                   fr_ok tag = true /\ fr_val tag = Some (VInt 1) /\
                   fr_has x = Some true /\ fr_ok x = false /\
                   fr_ok v = true /\ fr_val v = Some (VInt 2)) /\
  fr_ssize r = Some 7 /\ fr_scomplete r = false /\ fr_ok r = false /\
  (exists x' lo', nth_error (fr_sub r') 1 = Some (Some x') /\ nth_error (fr_sub r') 6 = Some (Some lo') /\
                  fr_ok x' = true /\ fr_val x' = Some (VInt 515) /\
                  fr_ok lo' = true /\ fr_val lo' = Some (VInt 5)) /\
  fr_ok r' = true.
Proof.
  vm_compute. split; [do 3 eexists; repeat split; reflexivity|].
  repeat split; try reflexivity. do 2 eexists; repeat split; reflexivity.
Qed.
