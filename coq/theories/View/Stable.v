(* C01 — prefix stability ("anything reported as known from a prefix of a message keeps
   its value when more bytes arrive") of the executable model of the generated C++ views.

   Proved here:
     prefix_stable_partial            r ⊑ r' (typed hereditary information order [flet]) under [wf_stable m];
                                      nested structures may be PARAMETERISED (Par(x) p)
     prefix_stable_strict             r ⊑ r' in the strict order [fle] (every has flag kept) when, in
                                      addition, no structure used as a field type has parameters
     prefix_stable_refuted_array      F9: ElementCount / array Ok() come from the clamped storage
     prefix_stable_refuted_param_flag the strict order fails inside the class: has_p() of a parameter of a
                                      NESTED view is Maybe<bool>(parameters_initialized_): Known(false) on
                                      the default-constructed view, Known(true) once the field is located.
                                      The accessor is private in the generated code (the harness sees it
                                      through "#define private public"); [flet] lets exactly this flag of
                                      the parameter slots of a nested view go false -> true, nothing else.
     const_size_hypothesis_forced     (model only) a scalar with a dynamic [+n] size goes Ok -> not Ok
     present_of_parameter_hypothesis_forced
                                      (model only) a field of a nested view conditioned on
                                      $present(parameter) has has_y() Known(false) -> Known(true)
     prefix_stable_top                readable corollary: Ok / IsComplete / size / has_x / x().Ok() / Read()
     wf_stable_example*               the hypotheses are satisfiable and the conclusion not vacuous
                                      (wf_stable_example_param*: a parameterised nested structure)
   Nothing is missing from the mutual induction: [both_stable] closes eval_struct and eval_type
   simultaneously for every fuel; the only restrictions are those of [wf_stable].

   The order.  [fle] is the strict hereditary order on result trees.  [flet m w od r r'] types the
   entries of a view by the fields of its structure definition od: an entry of a Phys field is compared
   by [flet m true (its target)], of a Virt / Alias field by [fle], of a Param field by [ple w]: strict
   when w = false (top level, or both sides initialised alike), and "has: Known(true) stays; ok/value
   as usual" when w = true (a nested view).  The arguments of a nested view are [meval]-ed in the
   parent's environment: a known argument keeps its value, an unknown one may become known
   ([argvals_known_t], [pvals_rel]).

   Hypotheses of [wf_stable] and why each is forced:
     * no FArray                      refuted (F9)
     * no NullBO                      stronger than needed since fix c90547c
     * scalar in a byte structure has a constant size s with 8*s = kbits; a field adapted to a
       BitBlock (adapt = Some (n, bo)) has constant size s with 8*s = n:
                                      BitBlock::Ok() is "clamped size * 8 == n" — with a dynamic
                                      [+k] size the clamped size can pass through n on a prefix and
                                      be larger afterwards, so Ok would go true -> false.
     * no XHas path that designates a parameter slot ([vx_ok], [has_weak])
                                      forced in the model (present_of_parameter_hypothesis_forced); the
                                      front end folds $present(parameter) to true, so no translated
                                      module contains it.
     * a structure with Param fields has 0 < nparams
                                      (the translator emits exactly nparams Param fields) — otherwise an
                                      uninitialised view could be Ok.
     * an Alias field's type is a scalar and its path does not designate a structure-typed field
                                      MODEL ARTEFACT, not a finding: the default-constructed view
                                      "decltype(aliased)()" is evaluated with the fuel of the
                                      aliasing structure, the aliased view (reached through a path
                                      of length 2 for anonymous bits) with two units less; for a
                                      structure-typed alias the two trees can differ in depth when
                                      the fuel runs out.  (The translator takes the alias type from the
                                      aliased field, so the two conditions coincide on translated modules.)
   NOT needed (so not required): "a structure used as a field type has no Param fields" (required by the
   earlier version), "a bits-typed field of a byte structure has adapt = Some";
   nothing about [order], [size_field], argument counts, or fuel adequacy. *)
From Coq Require Import ZArith List Bool Lia ZifyBool.
Import ListNotations.
Require Import EmbossV.Bounds.Model EmbossV.View.Model EmbossV.View.Proofs.
Open Scope Z_scope.

(* ---------- the hereditary information order on result trees ---------- *)
Section ListLe.
  Variable A : Type.
  Variable R : A -> A -> Prop.
  (* pointwise; an entry not yet evaluated on the left is below anything *)
  Fixpoint olist_le (l l' : list (option A)) {struct l} : Prop :=
    match l with
    | [] => True
    | x :: t =>
        match l' with
        | [] => False
        | x' :: t' =>
            match x with
            | None => True
            | Some a => match x' with Some a' => R a a' | None => False end
            end /\ olist_le t t'
        end
    end.
  Fixpoint list_le (l l' : list A) {struct l} : Prop :=
    match l with
    | [] => True
    | a :: t => match l' with [] => False | a' :: t' => R a a' /\ list_le t t' end
    end.
End ListLe.
Arguments olist_le {A} R l l'.
Arguments list_le {A} R l l'.

Fixpoint fle (r r' : fres) {struct r} : Prop :=
  match r with
  | FR h o v st sub sok sc ss els =>
      mle h (fr_has r') /\                                   (* has_x known => same *)
      (o = true -> fr_ok r' = true /\ fr_val r' = v) /\      (* x().Ok() => Ok, same value *)
      (sok = true -> fr_sok r' = true) /\                    (* nested view Ok() *)
      (sc = true -> fr_scomplete r' = true) /\               (* IsComplete() *)
      mle ss (fr_ssize r') /\                                (* IntrinsicSize / ElementCount *)
      olist_le fle sub (fr_sub r') /\                        (* fields of the nested view *)
      list_le fle els (fr_elems r')                          (* array elements *)
  end.

Definition env_rel (e e' : env) : Prop := olist_le fle e e'.

(* ---------- the model's local [step], named ---------- *)
Definition with_has (h : maybe bool) (r : fres) : fres :=
  match r with FR _ ok v s sub sok sc ss els => FR h ok v s sub sok sc ss els end.

Definition locate (st : storage) (e : env) (has : maybe bool) (args_known : bool) (start size : vx) : option storage :=
  if args_known && value_or_false has then
    match m_z (meval e None size), m_z (meval e None start) with
    | Some sz, Some off =>
        if (0 <=? sz) && (0 <=? off) then Some (get_offset st off sz) else None
    | _, _ => None
    end
  else None.

Definition known {A} (a : option A) : bool := match a with Some _ => true | None => false end.
Definition args_of (ty : ftype) : list vx :=
  match ty with FStruct _ a _ => a | FArray (FStruct _ a _) _ => a | _ => [] end.

Definition vstep (m : module) (bytes : list Z) (fuel' : nat) (d : sdef)
           (params : list (maybe value)) (pinit : bool) (st : storage) (e : env) (i : nat) : env :=
  match nth_error d.(fields) i with
  | None => e
  | Some f =>
      let has := m_bool (meval e None f.(fcond)) in
      let r :=
        match f.(fbody_of) with
        | Param pi =>
            let v := if pinit then match nth_error params pi with Some v => v | None => None end else None in
            FR (Some pinit) (known v) v (SB None) [] true true None []
        | Virt rd rq =>
            let v := meval e None rd in
            let ok := match v with Some vv => requires_ok rq e vv | None => false end in
            FR has ok v (SB None) [] ok true None []
        | Alias p aty =>
            match (if value_or_false has then lookup e p else None) with
            | Some r => with_has has r
            | None => with_has has (eval_type m bytes fuel' d.(unit_bits) aty [] false (null_of aty m) None e)
            end
        | Phys start size ty rq =>
            let argvals := map (meval e None) (args_of ty) in
            match locate st e has (forallb known argvals) start size with
            | Some s' => with_has has (eval_type m bytes fuel' d.(unit_bits) ty argvals true s' rq e)
            | None => with_has has (eval_type m bytes fuel' d.(unit_bits) ty [] false (null_of ty m) rq e)
            end
        end in
      set_nth e i (Some r)
  end.

Definition field_test (e : env) (i : nat) : bool :=
  match nth_error e i with
  | Some (Some r) =>
      match fr_has r with
      | Some true => fr_ok r
      | Some false => true
      | None => false
      end
  | _ => false
  end.

Definition isize_of (d : sdef) (e : env) : maybe Z :=
  match (match nth_error e d.(size_field) with Some (Some r) => Some r | _ => None end) with
  | Some r => if fr_ok r then m_z (fr_val r) else None
  | None => None
  end.

Definition finish (d : sdef) (pinit : bool) (st : storage) (e : env) : fres :=
  let isize := isize_of d e in
  let complete := storage_ok st && match isize with Some z => z <=? storage_size st | None => false end in
  let req := match d.(srequires) with
             | None => true
             | Some x => value_or_false (m_bool (meval e None x))
             end in
  let ok := complete && (if (0 <? d.(nparams))%nat then pinit else true) && forallb (field_test e) d.(order) && req in
  FR None ok None st e ok complete isize [].

Lemma eval_struct_S m bytes f d ps pinit st :
  eval_struct m bytes (S f) d ps pinit st =
  finish d pinit st (fold_left (vstep m bytes f d ps pinit st) d.(order) (map (fun _ => None) d.(fields))).
Proof. reflexivity. Qed.

(* ---------- the typed order: parameter slots of a nested view ---------- *)
(* has_p() of a parameter of a NESTED view is Maybe<bool>(parameters_initialized_): Known(false) on the
   default-constructed view, Known(true) once the field is located ([prefix_stable_refuted_param_flag];
   the accessor is private in the generated code).  [flet] is [fle] except that this one flag of the
   parameter slots of a nested view may go from Known(false) to Known(true); the entries of a view
   are typed by the fields of its structure definition, so every other has_x() flag stays strict. *)
Definition sub_of_ty (m : module) (ty : ftype) : option sdef :=
  match ty with FStruct tid _ _ => nth_error m tid | _ => None end.
Definition odfields (od : option sdef) : list field :=
  match od with Some d => fields d | None => [] end.

(* everything but the has flag *)
Definition fle0 (r r' : fres) : Prop := fle (with_has None r) r'.
(* the entry of a Param field; w: the view may still be default-constructed on the left *)
Definition ple (w : bool) (a a' : fres) : Prop :=
  if w then (fr_has a = Some true -> fr_has a' = Some true) /\ fle0 a a' else fle a a'.

Section TList.
  Variable m : module.
  Variable R : option sdef -> fres -> fres -> Prop.
  Variable w : bool.
  Definition krel (of : option field) (a a' : fres) : Prop :=
    match of with
    | Some f =>
        match fbody_of f with
        | Param _ => ple w a a'
        | Phys _ _ ty _ => R (sub_of_ty m ty) a a'
        | _ => fle a a'
        end
    | None => fle a a'
    end.
  Fixpoint tlist_le (fs : list field) (l l' : list (option fres)) {struct l} : Prop :=
    match l with
    | [] => True
    | x :: t =>
        match l' with
        | [] => False
        | x' :: t' =>
            match x with
            | None => True
            | Some a => match x' with Some a' => krel (hd_error fs) a a' | None => False end
            end /\ tlist_le (tl fs) t t'
        end
    end.
End TList.

(* w = false: the view is initialised on both sides or on neither (top level: same pinit) *)
Fixpoint flet (m : module) (w : bool) (od : option sdef) (r r' : fres) {struct r} : Prop :=
  match r with
  | FR h o v st sub sok sc ss els =>
      mle h (fr_has r') /\
      (o = true -> fr_ok r' = true /\ fr_val r' = v) /\
      (sok = true -> fr_sok r' = true) /\
      (sc = true -> fr_scomplete r' = true) /\
      mle ss (fr_ssize r') /\
      tlist_le m (flet m true) w (odfields od) sub (fr_sub r') /\
      list_le fle els (fr_elems r')
  end.

Definition env_relt (m : module) (w : bool) (fs : list field) (e e' : env) : Prop :=
  tlist_le m (flet m true) w fs e e'.

(* the field a path designates (through structure-typed physical fields) *)
Fixpoint resolve (m : module) (fs : list field) (p : list nat) {struct p} : option field :=
  match p with
  | [] => None
  | i :: rest =>
      match rest with
      | [] => nth_error fs i
      | _ :: _ =>
          match nth_error fs i with
          | Some f =>
              match fbody_of f with
              | Phys _ _ ty _ => resolve m (odfields (sub_of_ty m ty)) rest
              | _ => None
              end
          | None => None
          end
      end
  end.

Definition is_param (f : field) : bool := match fbody_of f with Param _ => true | _ => false end.
(* the path designates a parameter slot *)
Definition has_weak (m : module) (fs : list field) (p : list nat) : bool :=
  match resolve m fs p with Some f => is_param f | None => false end.
(* the path does not designate a structure-typed field *)
Definition path_plain (m : module) (fs : list field) (p : list nat) : bool :=
  match resolve m fs p with
  | Some f => match fbody_of f with
              | Phys _ _ ty _ => match sub_of_ty m ty with None => true | Some _ => false end
              | _ => true
              end
  | None => true
  end.

(* no $present() of a parameter slot (the front end folds $present(parameter) to true) *)
Fixpoint vx_ok (m : module) (fs : list field) (x : vx) {struct x} : bool :=
  match x with
  | XK _ | XField _ | XSelf => true
  | XHas p => negb (has_weak m fs p)
  | XAdd a b | XSub a b | XMul a b | XAnd a b | XOr a b => vx_ok m fs a && vx_ok m fs b
  | XCmp _ a b | XEq _ a b => vx_ok m fs a && vx_ok m fs b
  | XChoice c t f => vx_ok m fs c && vx_ok m fs t && vx_ok m fs f
  | XMax args => forallb (vx_ok m fs) args
  end.
Definition ovx_ok (m : module) (fs : list field) (o : option vx) : bool :=
  match o with Some x => vx_ok m fs x | None => true end.

(* ---------- well-formedness (decidable) ---------- *)
Definition is_const_size (size : vx) (bits : Z) : bool :=
  match size with XK (VInt s) => 8 * s =? bits | _ => false end.
Definition bo_ok (bo : border) : bool := match bo with NullBO => false | _ => true end.
Definition no_params (d : sdef) : bool :=
  forallb (fun f => match f.(fbody_of) with Param _ => false | _ => true end) d.(fields).

(* a structure-typed field may have a parameterised target: [FStruct tid args adapt], any args *)
Definition wf_ftype (m : module) (u : Z) (size : vx) (ty : ftype) : bool :=
  match ty with
  | FScalar _ kbits bo => bo_ok bo && (if u =? 8 then is_const_size size kbits else true)
  | FStruct tid _ adapt =>
      match adapt with Some (nb, bo) => bo_ok bo && is_const_size size nb | None => true end
  | FArray _ _ => false
  end.

Definition wf_field (m : module) (d : sdef) (f : field) : bool :=
  let fs := d.(fields) in
  match f.(fbody_of) with
  | Phys start size ty rq =>
      wf_ftype m d.(unit_bits) size ty &&
      (vx_ok m fs f.(fcond) && vx_ok m fs start && vx_ok m fs size && ovx_ok m fs rq
       && forallb (vx_ok m fs) (args_of ty))
  | Virt rd rq => vx_ok m fs f.(fcond) && vx_ok m fs rd && ovx_ok m fs rq
  | Alias p aty =>
      match aty with FScalar _ _ _ => true | _ => false end
      && (vx_ok m fs f.(fcond) && path_plain m fs p)
  | Param _ => (0 <? d.(nparams))%nat
  end.

Definition wf_sdef (m : module) (d : sdef) : bool :=
  forallb (wf_field m d) d.(fields) && ovx_ok m d.(fields) d.(srequires).
Definition wf_stable (m : module) : bool := forallb (wf_sdef m) m.

(* ---------- the statement ---------- *)
Definition root (bytes : list Z) : storage := SB (Some (0, Z.of_nat (length bytes))).

Definition prefix_stable_at (m : module) (d : sdef) (ps : list (maybe value)) (fuel : nat) (bytes extra : list Z) : Prop :=
  flet m false (Some d) (eval_struct m bytes fuel d ps true (root bytes))
       (eval_struct m (bytes ++ extra) fuel d ps true (root (bytes ++ extra))).

(* ---------- basic facts about the order ---------- *)
Definition fle_body (r r' : fres) : Prop :=
  mle (fr_has r) (fr_has r') /\
  (fr_ok r = true -> fr_ok r' = true /\ fr_val r' = fr_val r) /\
  (fr_sok r = true -> fr_sok r' = true) /\
  (fr_scomplete r = true -> fr_scomplete r' = true) /\
  mle (fr_ssize r) (fr_ssize r') /\
  olist_le fle (fr_sub r) (fr_sub r') /\
  list_le fle (fr_elems r) (fr_elems r').

Lemma fle_eq r r' : fle r r' = fle_body r r'.
Proof. destruct r; reflexivity. Qed.

Lemma olist_le_nth {A} (R : A -> A -> Prop) l : forall l' i a,
  olist_le R l l' -> nth_error l i = Some (Some a) ->
  exists a', nth_error l' i = Some (Some a') /\ R a a'.
Proof.
  induction l as [|x t IH]; intros l' i a H Hn; [destruct i; discriminate|].
  destruct l' as [|x' t']; [contradiction|]. destruct H as [Hx Ht].
  destruct i as [|i]; cbn in Hn |- *.
  - inversion Hn; subst x. destruct x' as [a'|]; [|contradiction]. exists a'; auto.
  - eapply IH; eauto.
Qed.

Lemma fle_sub_nth r r' i f :
  fle r r' -> nth_error (fr_sub r) i = Some (Some f) ->
  exists f', nth_error (fr_sub r') i = Some (Some f') /\ fle f f'.
Proof.
  rewrite fle_eq. intros (_ & _ & _ & _ & _ & H & _). apply olist_le_nth. exact H.
Qed.

Lemma fle_has r r' b : fle r r' -> fr_has r = Some b -> fr_has r' = Some b.
Proof. rewrite fle_eq. intros (H & _). apply H. Qed.
Lemma fle_ok r r' : fle r r' -> fr_ok r = true -> fr_ok r' = true /\ fr_val r' = fr_val r.
Proof. rewrite fle_eq. intros (_ & H & _). exact H. Qed.
Lemma fle_ssize r r' z : fle r r' -> fr_ssize r = Some z -> fr_ssize r' = Some z.
Proof. rewrite fle_eq. intros (_ & _ & _ & _ & H & _). apply H. Qed.

(* ---------- basic facts about the typed order ---------- *)
Definition flet_body (m : module) (w : bool) (od : option sdef) (r r' : fres) : Prop :=
  mle (fr_has r) (fr_has r') /\
  (fr_ok r = true -> fr_ok r' = true /\ fr_val r' = fr_val r) /\
  (fr_sok r = true -> fr_sok r' = true) /\
  (fr_scomplete r = true -> fr_scomplete r' = true) /\
  mle (fr_ssize r) (fr_ssize r') /\
  env_relt m w (odfields od) (fr_sub r) (fr_sub r') /\
  list_le fle (fr_elems r) (fr_elems r').

Lemma flet_eq m w od r r' : flet m w od r r' = flet_body m w od r r'.
Proof. destruct r; reflexivity. Qed.

Lemma tlist_nil m R w : forall l l', tlist_le m R w [] l l' <-> olist_le fle l l'.
Proof.
  induction l as [|x t IH]; intros l'; [cbn; tauto|].
  destruct l' as [|x' t']; [cbn; tauto|]. cbn [tlist_le olist_le tl hd_error krel].
  rewrite IH. tauto.
Qed.

Lemma flet_none m w r r' : flet m w None r r' <-> fle r r'.
Proof.
  rewrite flet_eq, fle_eq. unfold flet_body, fle_body, env_relt. cbn [odfields].
  rewrite tlist_nil. tauto.
Qed.

Lemma nth_error_nil {A} i : nth_error (@nil A) i = None.
Proof. destruct i; reflexivity. Qed.

Lemma tlist_le_nth m R w : forall l fs l' i a,
  tlist_le m R w fs l l' -> nth_error l i = Some (Some a) ->
  exists a', nth_error l' i = Some (Some a') /\ krel m R w (nth_error fs i) a a'.
Proof.
  induction l as [|x t IH]; intros fs l' i a H Hn; [destruct i; discriminate|].
  destruct l' as [|x' t']; [contradiction|]. destruct H as [Hx Ht].
  destruct i as [|i]; cbn [nth_error] in Hn |- *.
  - inversion Hn; subst x. destruct x' as [a'|]; [|contradiction]. exists a'. split; [reflexivity|].
    destruct fs; exact Hx.
  - destruct (IH _ _ _ _ Ht Hn) as (a' & E & K). exists a'. split; [exact E|].
    destruct fs as [|f0 fs0]; cbn [tl nth_error] in K |- *; rewrite ?nth_error_nil in K; exact K.
Qed.

Lemma tlist_le_set_nth m R w a a' : forall i fs l l',
  tlist_le m R w fs l l' -> krel m R w (nth_error fs i) a a' ->
  tlist_le m R w fs (set_nth l i (Some a)) (set_nth l' i (Some a')).
Proof.
  unfold set_nth.
  induction i as [|i IH]; intros fs l l' H Ha.
  - destruct l as [|x t]; [exact I|]. destruct l' as [|x' t']; [contradiction|].
    destruct H as [Hx Ht]. cbn [firstn skipn app tlist_le]. split; [|exact Ht]. destruct fs; exact Ha.
  - destruct l as [|x t]; [exact I|]. destruct l' as [|x' t']; [contradiction|].
    destruct H as [Hx Ht]. cbn [firstn skipn app tlist_le]. split; [exact Hx|]. apply IH; [exact Ht|].
    destruct fs as [|f0 fs0]; cbn [tl nth_error] in Ha |- *; rewrite ?nth_error_nil; exact Ha.
Qed.

Lemma tlist_le_none {B} m R w fs (l : list B) :
  tlist_le m R w fs (map (fun _ => None) l) (map (fun _ => None) l).
Proof. revert fs. induction l; intros fs; cbn; auto. Qed.

Lemma flet_has m w od r r' b : flet m w od r r' -> fr_has r = Some b -> fr_has r' = Some b.
Proof. rewrite flet_eq. intros (H & _). apply H. Qed.
Lemma flet_ok m w od r r' : flet m w od r r' -> fr_ok r = true -> fr_ok r' = true /\ fr_val r' = fr_val r.
Proof. rewrite flet_eq. intros (_ & H & _). exact H. Qed.
Lemma flet_ssize m w od r r' z : flet m w od r r' -> fr_ssize r = Some z -> fr_ssize r' = Some z.
Proof. rewrite flet_eq. intros (_ & _ & _ & _ & H & _). apply H. Qed.
Lemma flet_sub_nth m w od r r' i f :
  flet m w od r r' -> nth_error (fr_sub r) i = Some (Some f) ->
  exists f', nth_error (fr_sub r') i = Some (Some f') /\
             krel m (flet m true) w (nth_error (odfields od) i) f f'.
Proof.
  rewrite flet_eq. intros (_ & _ & _ & _ & _ & H & _). apply tlist_le_nth. exact H.
Qed.

(* everything but the has flag *)
Lemma fle_fle0 r r' : fle r r' -> fle0 r r'.
Proof.
  unfold fle0. destruct r, r'. rewrite !fle_eq. unfold fle_body; cbn.
  intros (_ & H). split; [apply mle_none|exact H].
Qed.
Lemma fle0_with_has r r' h h' : fle0 r r' -> mle h h' -> fle (with_has h r) (with_has h' r').
Proof.
  unfold fle0. destruct r, r'. rewrite !fle_eq. unfold fle_body; cbn. tauto.
Qed.
Lemma fle0_has r r' : fle0 r r' -> mle (fr_has r) (fr_has r') -> fle r r'.
Proof.
  unfold fle0. destruct r, r'. rewrite !fle_eq. unfold fle_body; cbn. tauto.
Qed.
Lemma fle0_ok r r' : fle0 r r' -> fr_ok r = true -> fr_ok r' = true /\ fr_val r' = fr_val r.
Proof. unfold fle0. destruct r, r'. rewrite !fle_eq. unfold fle_body; cbn. tauto. Qed.
Lemma fle0_sub r r' : fle0 r r' -> olist_le fle (fr_sub r) (fr_sub r').
Proof. unfold fle0. destruct r, r'. rewrite !fle_eq. unfold fle_body; cbn. tauto. Qed.

Lemma ple_fle0 w r r' : ple w r r' -> fle0 r r'.
Proof. destruct w; cbn; [tauto|apply fle_fle0]. Qed.

Definition wle (r r' : fres) : Prop := fr_ok r = true -> fr_ok r' = true /\ fr_val r' = fr_val r.

Lemma krel_wle m w of r r' : krel m (flet m true) w of r r' -> wle r r'.
Proof.
  unfold krel. destruct of as [f|]; [destruct (fbody_of f)|]; intros K.
  - exact (flet_ok _ _ _ _ _ K).
  - exact (fle_ok _ _ K).
  - exact (fle_ok _ _ K).
  - exact (fle0_ok _ _ (ple_fle0 _ _ _ K)).
  - exact (fle_ok _ _ K).
Qed.

(* the has flag is strict except at a parameter slot *)
Lemma krel_has m w of r r' :
  match of with Some f => is_param f | None => false end = false ->
  krel m (flet m true) w of r r' -> mle (fr_has r) (fr_has r').
Proof.
  unfold krel, is_param. destruct of as [f|]; [destruct (fbody_of f)|]; intros Hp K b Hb; try discriminate.
  - exact (flet_has _ _ _ _ _ _ K Hb).
  - exact (fle_has _ _ _ K Hb).
  - exact (fle_has _ _ _ K Hb).
  - exact (fle_has _ _ _ K Hb).
Qed.

Lemma krel_has_true m w of r r' :
  krel m (flet m true) w of r r' -> fr_has r = Some true -> fr_has r' = Some true.
Proof.
  unfold krel. destruct of as [f|]; [destruct (fbody_of f)|]; intros K Hb.
  - exact (flet_has _ _ _ _ _ _ K Hb).
  - exact (fle_has _ _ _ K Hb).
  - exact (fle_has _ _ _ K Hb).
  - unfold ple in K. destruct w; [apply K; exact Hb|exact (fle_has _ _ _ K Hb)].
  - exact (fle_has _ _ _ K Hb).
Qed.

Lemma krel_sub m w of r r' : krel m (flet m true) w of r r' ->
  env_relt m true (match of with
                   | Some f => match fbody_of f with Phys _ _ ty _ => odfields (sub_of_ty m ty) | _ => [] end
                   | None => []
                   end) (fr_sub r) (fr_sub r').
Proof.
  unfold krel, env_relt. destruct of as [f|]; [destruct (fbody_of f)|]; intros K.
  - rewrite flet_eq in K. apply K.
  - apply tlist_nil. rewrite fle_eq in K. apply K.
  - apply tlist_nil. rewrite fle_eq in K. apply K.
  - apply tlist_nil. exact (fle0_sub _ _ (ple_fle0 _ _ _ K)).
  - apply tlist_nil. rewrite fle_eq in K. apply K.
Qed.

(* ---------- refutations of the unrestricted statement ---------- *)
Definition size_virt (fs : list (vx * vx * vx)) : field :=
  mk_field (XK (VBool true)) (Virt (size_expr fs) None).
Definition ktrue := XK (VBool true).
Definition kz (z : Z) := XK (VInt z).

(* struct A:  0 [+1] UInt n ;  1 [+n] UInt:8[] payload *)
Definition m_array : module :=
  [mk_sdef 8 0%nat
     [mk_field ktrue (Phys (kz 0) (kz 1) (FScalar KU 8 LE) None);
      mk_field ktrue (Phys (kz 1) (XField [0%nat]) (FArray (FScalar KU 8 LE) 1) None);
      size_virt [(ktrue, kz 0, kz 1); (ktrue, kz 1, XField [0%nat])]]
     [0; 1; 2]%nat 2%nat None].

Theorem prefix_stable_refuted_array :
  exists m d ps fuel bytes extra,
    In d m /\
    let r := eval_struct m bytes fuel d ps true (root bytes) in
    let r' := eval_struct m (bytes ++ extra) fuel d ps true (root (bytes ++ extra)) in
    (exists f f', nth_error (fr_sub r) 1 = Some (Some f) /\ nth_error (fr_sub r') 1 = Some (Some f') /\
                  fr_has f = Some true /\ fr_has f' = Some true /\
                  fr_ok f = true /\ fr_ok f' = true /\
                  fr_scomplete f = true /\
                  fr_ssize f = Some 1 /\ fr_ssize f' = Some 3) /\          (* ElementCount 1, then 3 *)
    nth_error (run_view m 0 ps bytes fuel) 10 = Some 1 /\
    nth_error (run_view m 0 ps (bytes ++ extra) fuel) 10 = Some 3 /\
    ~ prefix_stable_at m d ps fuel bytes extra.
Proof.
  exists m_array, (nth 0 m_array (mk_sdef 8 0 [] [] 0 None)), [], 8%nat, [3; 7], [8; 9].
  split; [left; reflexivity|].
  split; [|split; [vm_compute; reflexivity|split; [vm_compute; reflexivity|]]].
  - eexists; eexists. vm_compute. repeat split; reflexivity.
  - unfold prefix_stable_at. intros H.
    destruct (flet_sub_nth _ _ _ _ _ 1%nat _ H ltac:(vm_compute; reflexivity)) as (f' & Hn & Hf).
    vm_compute in Hn. inversion Hn; subst f'; clear Hn.
    vm_compute in Hf. destruct Hf as (_ & _ & _ & _ & Hs & _). specialize (Hs 1 eq_refl). discriminate.
Qed.

(* (The Null-byte-order refutation that stood here described the runtime before fix c90547c:
   NullByteOrderer::SizeInBytes() ignored the buffer size.  The model now follows the repaired
   runtime; [wf_stable] still excludes NullBO, which is stronger than needed.) *)

(* struct P(k: UInt:8):  0 [+1] UInt a
   struct O:  0 [+1] UInt n ;  1 [+n] P(n) p      -- p().has_k() *)
Definition m_param : module :=
  [mk_sdef 8 0%nat
     [mk_field ktrue (Phys (kz 0) (kz 1) (FScalar KU 8 LE) None);
      mk_field ktrue (Phys (kz 1) (XField [0%nat]) (FStruct 1 [XField [0%nat]] None) None);
      size_virt [(ktrue, kz 0, kz 1); (ktrue, kz 1, XField [0%nat])]]
     [0; 1; 2]%nat 2%nat None;
   mk_sdef 8 1%nat
     [mk_field ktrue (Param 0);
      mk_field ktrue (Phys (kz 0) (kz 1) (FScalar KU 8 LE) None);
      size_virt [(ktrue, kz 0, kz 1)]]
     [0; 1; 2]%nat 2%nat None].

(* The strict order [fle] (every has flag kept) fails on a module of the class: p().has_k() *)
Theorem prefix_stable_refuted_param_flag :
  exists m d ps fuel bytes extra,
    wf_stable m = true /\ In d m /\
    let r := eval_struct m bytes fuel d ps true (root bytes) in
    let r' := eval_struct m (bytes ++ extra) fuel d ps true (root (bytes ++ extra)) in
    (exists f f' k k', nth_error (fr_sub r) 1 = Some (Some f) /\ nth_error (fr_sub r') 1 = Some (Some f') /\
                  nth_error (fr_sub f) 0 = Some (Some k) /\ nth_error (fr_sub f') 0 = Some (Some k') /\
                  fr_has k = Some false /\ fr_has k' = Some true) /\       (* p().has_k() *)
    ~ fle r r'.
Proof.
  exists m_param, (nth 0 m_param (mk_sdef 8 0 [] [] 0 None)), [], 8%nat, [], [1; 7].
  split; [vm_compute; reflexivity|].
  split; [left; reflexivity|]. split.
  - do 4 eexists. vm_compute. repeat split; reflexivity.
  - intros H.
    destruct (fle_sub_nth _ _ 1%nat _ H ltac:(vm_compute; reflexivity)) as (f' & Hn & Hf).
    vm_compute in Hn. inversion Hn; subst f'; clear Hn.
    destruct (fle_sub_nth _ _ 0%nat _ Hf ltac:(vm_compute; reflexivity)) as (k' & Hn & Hk).
    vm_compute in Hn. inversion Hn; subst k'; clear Hn.
    specialize (fle_has _ _ false Hk eq_refl). vm_compute. discriminate.
Qed.

(* ====================================================================== *)
(* ---------- proof of the partial theorem ---------- *)

Lemma olist_le_set_nth {A} (R : A -> A -> Prop) a a' : forall i l l',
  olist_le R l l' -> R a a' -> olist_le R (set_nth l i (Some a)) (set_nth l' i (Some a')).
Proof.
  unfold set_nth.
  induction i as [|i IH]; intros l l' H Ha.
  - destruct l as [|x t]; [exact I|]. destruct l' as [|x' t']; [contradiction|].
    cbn in *. tauto.
  - destruct l as [|x t]; [exact I|]. destruct l' as [|x' t']; [contradiction|].
    destruct H as [Hx Ht]. cbn [firstn skipn app olist_le]. split; [exact Hx|]. apply IH; assumption.
Qed.

Lemma olist_le_none {A B} (R : A -> A -> Prop) (l : list B) :
  olist_le R (map (fun _ => None) l) (map (fun _ => None) l).
Proof. induction l; cbn; auto. Qed.

Lemma env_rel_lookup : forall p e e' r,
  env_rel e e' -> lookup e p = Some r -> exists r', lookup e' p = Some r' /\ fle r r'.
Proof.
  induction p as [|i rest IH]; intros e e' r He H; [discriminate|].
  destruct rest as [|j rest'].
  - cbn in H |- *. destruct (nth_error e i) as [[r0|]|] eqn:E; try discriminate.
    inversion H; subst r0.
    destruct (olist_le_nth _ _ _ _ _ He E) as (r' & E' & Hr). rewrite E'. eauto.
  - cbn [lookup] in H |- *. destruct (nth_error e i) as [[r0|]|] eqn:E; try discriminate.
    destruct (olist_le_nth _ _ _ _ _ He E) as (r0' & E' & Hr). rewrite E'.
    rewrite fle_eq in Hr. destruct Hr as (_ & _ & _ & _ & _ & Hs & _).
    exact (IH _ _ _ Hs H).
Qed.

Lemma fle_fres_le r r' : fle r r' -> fres_le r r'.
Proof. rewrite fle_eq. intros (H1 & H2 & _). split; assumption. Qed.

Lemma env_rel_le e e' : env_rel e e' -> env_le e e'.
Proof.
  intros He p r H. destruct (env_rel_lookup _ _ _ _ He H) as (r' & H' & Hr).
  exists r'. split; [exact H'|apply fle_fres_le; exact Hr].
Qed.

Lemma meval_rel e e' s x v : env_rel e e' -> meval e s x = Some v -> meval e' s x = Some v.
Proof. intros He. apply (meval_mono e e' s s x (env_rel_le _ _ He) (mle_refl s)). Qed.

Lemma m_bool_rel e e' x : env_rel e e' -> mle (m_bool (meval e None x)) (m_bool (meval e' None x)).
Proof.
  intros He b H. destruct (meval e None x) as [[| |]|] eqn:E; try discriminate.
  rewrite (meval_rel _ _ _ _ _ He E). exact H.
Qed.

Lemma requires_ok_rel rq e e' v : env_rel e e' -> requires_ok rq e v = true -> requires_ok rq e' v = true.
Proof.
  intros He. destruct rq as [x|]; cbn; [|auto].
  destruct (meval e (Some v) x) as [[| b |]|] eqn:E; cbn; try discriminate.
  rewrite (meval_rel _ _ _ _ _ He E). auto.
Qed.

Lemma fle_with_has r r' h h' : fle r r' -> mle h h' -> fle (with_has h r) (with_has h' r').
Proof.
  rewrite !fle_eq. destruct r, r'. unfold fle_body; cbn. tauto.
Qed.

(* a view that reports nothing *)
Definition is_bot (r : fres) : Prop :=
  fr_ok r = false /\ fr_sok r = false /\ fr_scomplete r = false /\ fr_ssize r = None /\
  fr_sub r = [] /\ fr_elems r = [].

Lemma fle_bot r r' h h' : is_bot r -> mle h h' -> fle (with_has h r) (with_has h' r').
Proof.
  intros (H1 & H2 & H3 & H4 & H5 & H6) Hh. rewrite fle_eq. destruct r, r'. cbn in *. subst.
  unfold fle_body; cbn. repeat split; try discriminate; try exact Hh. 
Qed.

(* ---------- lookups and expressions under the typed relation ---------- *)
Lemma resolve_nil m p : resolve m [] p = None.
Proof. destruct p as [|i [|j rest]]; cbn [resolve]; rewrite ?nth_error_nil; reflexivity. Qed.

Lemma lookup_resolve m : forall p w fs e e' r,
  env_relt m w fs e e' -> lookup e p = Some r ->
  exists r' w', lookup e' p = Some r' /\ krel m (flet m true) w' (resolve m fs p) r r'.
Proof.
  induction p as [|i rest IH]; intros w fs e e' r He H; [discriminate|].
  destruct rest as [|j rest'].
  - cbn in H |- *. destruct (nth_error e i) as [[r0|]|] eqn:E; try discriminate.
    inversion H; subst r0.
    destruct (tlist_le_nth _ _ _ _ _ _ _ _ He E) as (r' & E' & K). rewrite E'.
    exists r', w. split; [reflexivity|exact K].
  - cbn [lookup] in H |- *. destruct (nth_error e i) as [[r0|]|] eqn:E; try discriminate.
    destruct (tlist_le_nth _ _ _ _ _ _ _ _ He E) as (r0' & E' & K). rewrite E'.
    apply krel_sub in K. revert K. cbn [resolve].
    destruct (nth_error fs i) as [f|]; [destruct (fbody_of f)|]; intros K; cbn beta iota in K;
      destruct (IH _ _ _ _ _ K H) as (r' & w' & L & K'); exists r', w'; (split; [exact L|]);
      rewrite ?resolve_nil in K'; exact K'.
Qed.

Lemma lookup_wle m w fs e e' p r :
  env_relt m w fs e e' -> lookup e p = Some r -> exists r', lookup e' p = Some r' /\ wle r r'.
Proof.
  intros He H. destruct (lookup_resolve m p w fs e e' r He H) as (r' & w' & L & K).
  exists r'. split; [exact L|]. eapply krel_wle; exact K.
Qed.

Lemma lookup_has m w fs e e' p r :
  env_relt m w fs e e' -> has_weak m fs p = false -> lookup e p = Some r ->
  exists r', lookup e' p = Some r' /\ mle (fr_has r) (fr_has r').
Proof.
  intros He Hw H. destruct (lookup_resolve m p w fs e e' r He H) as (r' & w' & L & K).
  exists r'. split; [exact L|]. eapply krel_has; [exact Hw|exact K].
Qed.

Lemma lookup_fle0 m w fs e e' p r :
  env_relt m w fs e e' -> path_plain m fs p = true -> lookup e p = Some r ->
  exists r', lookup e' p = Some r' /\ fle0 r r'.
Proof.
  intros He Hp H. destruct (lookup_resolve m p w fs e e' r He H) as (r' & w' & L & K).
  exists r'. split; [exact L|]. unfold path_plain in Hp. unfold krel in K. revert Hp K.
  destruct (resolve m fs p) as [f|]; [destruct (fbody_of f) as [a b ty rq| | |]|]; intros Hp K.
  - revert Hp K. destruct (sub_of_ty m ty); intros Hp K; [discriminate|].
    apply fle_fle0. apply (flet_none m true). exact K.
  - apply fle_fle0; exact K.
  - apply fle_fle0; exact K.
  - eapply ple_fle0; exact K.
  - apply fle_fle0; exact K.
Qed.

Lemma meval_relt m w fs e e' s x :
  env_relt m w fs e e' -> vx_ok m fs x = true -> mle (meval e s x) (meval e' s x).
Proof.
  intros He. induction x using vx_ind2; cbn [meval vx_ok]; intros Hx.
  - apply mle_refl.
  - intros v H. destruct (lookup e p) as [r|] eqn:E; [|discriminate].
    destruct (lookup_wle _ _ _ _ _ _ _ He E) as (r' & E' & Hok). rewrite E'.
    destruct (fr_ok r) eqn:Eo; [|discriminate]. destruct (Hok Eo) as [-> ->]. exact H.
  - intros v H. destruct (lookup e p) as [r|] eqn:E; [|discriminate].
    apply negb_true_iff in Hx.
    destruct (lookup_has _ _ _ _ _ _ _ He Hx E) as (r' & E' & Hh). rewrite E'.
    destruct (fr_has r) as [b|] eqn:Eh; [|discriminate]. rewrite (Hh _ eq_refl). exact H.
  - apply mle_refl.
  - apply andb_prop in Hx. destruct Hx as [H1 H2]. apply m_int2_mono; auto.
  - apply andb_prop in Hx. destruct Hx as [H1 H2]. apply m_int2_mono; auto.
  - apply andb_prop in Hx. destruct Hx as [H1 H2]. apply m_int2_mono; auto.
  - apply andb_prop in Hx. destruct Hx as [H1 H2]. specialize (IHx1 H1). specialize (IHx2 H2).
    intros v H. destruct (meval e s x1) as [[p| |]|] eqn:E1; try discriminate.
    destruct (meval e s x2) as [[q| |]|] eqn:E2; try discriminate.
    rewrite (mle_some _ _ IHx1), (mle_some _ _ IHx2). exact H.
  - apply andb_prop in Hx. destruct Hx as [H1 H2]. specialize (IHx1 H1). specialize (IHx2 H2).
    intros v H. destruct (meval e s x1) as [p|] eqn:E1; try discriminate.
    destruct (meval e s x2) as [q|] eqn:E2; try discriminate.
    rewrite (mle_some _ _ IHx1), (mle_some _ _ IHx2). exact H.
  - apply andb_prop in Hx. destruct Hx as [H1 H2]. apply m_and_mono; auto.
  - apply andb_prop in Hx. destruct Hx as [H1 H2]. apply m_or_mono; auto.
  - apply andb_prop in Hx. destruct Hx as [Hx H3]. apply andb_prop in Hx. destruct Hx as [H1 H2].
    specialize (IHx1 H1). specialize (IHx2 H2). specialize (IHx3 H3).
    intros v H. destruct (meval e s x1) as [[|[|]|]|] eqn:E1; try discriminate;
      rewrite (mle_some _ _ IHx1); [apply IHx2|apply IHx3]; exact H.
  - intros v Hv.
    destruct (m_all_ints (map (meval e s) args)) as [zs|] eqn:E; [|discriminate].
    assert (HF : Forall2 mle (map (meval e s) args) (map (meval e' s) args)).
    { clear E Hv. induction H as [|y t Hy Ht IH]; cbn [map]; constructor.
      - apply Hy. cbn [forallb] in Hx. apply andb_prop in Hx. tauto.
      - apply IH. cbn [forallb] in Hx. apply andb_prop in Hx. tauto. }
    rewrite (m_all_ints_mono _ _ _ HF E). exact Hv.
Qed.

Lemma meval_relt_some m w fs e e' s x v :
  env_relt m w fs e e' -> vx_ok m fs x = true -> meval e s x = Some v -> meval e' s x = Some v.
Proof. intros He Hx. apply (meval_relt m w fs e e' s x He Hx). Qed.

Lemma m_bool_relt m w fs e e' x : env_relt m w fs e e' -> vx_ok m fs x = true ->
  mle (m_bool (meval e None x)) (m_bool (meval e' None x)).
Proof.
  intros He Hx b H. destruct (meval e None x) as [[| |]|] eqn:E; try discriminate.
  rewrite (meval_relt_some _ _ _ _ _ _ _ _ He Hx E). exact H.
Qed.

Lemma requires_ok_relt m w fs rq e e' v : env_relt m w fs e e' -> ovx_ok m fs rq = true ->
  requires_ok rq e v = true -> requires_ok rq e' v = true.
Proof.
  intros He Hx. destruct rq as [x|]; cbn; [|auto].
  destruct (meval e (Some v) x) as [[| b |]|] eqn:E; cbn; try discriminate.
  rewrite (meval_relt_some _ _ _ _ _ _ _ _ He Hx E). auto.
Qed.

Lemma flet_with_has m w od r r' h h' :
  flet m w od r r' -> mle h h' -> flet m w od (with_has h r) (with_has h' r').
Proof.
  rewrite !flet_eq. destruct r, r'. unfold flet_body; cbn. tauto.
Qed.

(* ---------- storages of the short and the long buffer ---------- *)
Section Storage.
  Variable n : Z.                       (* length of the short buffer *)

  (* an Ok bit block sits on a byte range of exactly nbits/8 bytes inside the short buffer *)
  Definition sbit_inv (s : storage) : Prop :=
    match s with
    | SB _ => False
    | SBit b bo nbits _ _ _ ok =>
        ok = true /\ bo <> NullBO /\ exists o l, b = Some (o, l) /\ l * 8 = nbits /\ bstore_in n b
    end.

  (* left: view over the short buffer, right: over the long one *)
  Definition st_rel (s s' : storage) : Prop :=
    storage_ok s = false \/
    match s with
    | SB (Some (o, l)) => exists l', s' = SB (Some (o, l')) /\ l <= l' /\ bstore_in n (Some (o, l))
    | SB None => False
    | SBit _ _ _ _ _ _ _ => s' = s /\ sbit_inv s
    end.

  Definition exact_for (kb : Z) (s s' : storage) : Prop :=
    forall o l l', s = SB (Some (o, l)) -> s' = SB (Some (o, l')) -> l * 8 = kb -> l' = l.

  Lemma get_offset_not_ok s off sz : storage_ok s = false -> storage_ok (get_offset s off sz) = false.
  Proof.
    destruct s as [[[o l]|]|b bo nbits direct bitoff bitsize ok]; cbn; intros H; try discriminate; [reflexivity|].
    subst ok. destruct direct; cbn; apply andb_false_r.
  Qed.

  Lemma st_rel_get_offset s s' off sz :
    st_rel s s' -> 0 <= off -> 0 <= sz -> st_rel (get_offset s off sz) (get_offset s' off sz).
  Proof.
    intros [H|H] Ho Hs; [left; apply get_offset_not_ok; exact H|].
    destruct s as [[[o l]|]|b bo nbits direct bitoff bitsize ok]; [| contradiction |].
    - destruct H as (l' & -> & Hl & Hin). right. cbn [get_offset bstore_offset].
      eexists. split; [reflexivity|]. split.
      + destruct (l <? off) eqn:E1; destruct (l' <? off) eqn:E2; lia.
      + exact (bstore_offset_in n (Some (o, l)) off sz Hin Ho Hs).
    - destruct H as (-> & Hinv).
      destruct (storage_ok (get_offset (SBit b bo nbits direct bitoff bitsize ok) off sz)) eqn:E;
        [right|left; exact E].
      cbn [get_offset] in E |- *. split; [reflexivity|]. cbn in E. cbn [sbit_inv].
      destruct Hinv as (_ & Hbo & Hex). split; [exact E|]. split; assumption.
  Qed.

  Lemma st_rel_ok s s' :
    st_rel s s' -> storage_ok s = true -> storage_ok s' = true /\ storage_size s <= storage_size s'.
  Proof.
    intros [H|H] Hok; [congruence|].
    destruct s as [[[o l]|]|b bo nbits direct bitoff bitsize ok]; [| contradiction |].
    - destruct H as (l' & -> & Hl & _). cbn. split; [reflexivity|exact Hl].
    - destruct H as (-> & _). split; [exact Hok|lia].
  Qed.

  Lemma exact_get_offset st st' off sz kb :
    st_rel st st' -> 0 <= off -> 0 <= sz -> 8 * sz = kb ->
    exact_for kb (get_offset st off sz) (get_offset st' off sz).
  Proof.
    intros Hr Ho Hs Hk o l l' E E' Hl.
    destruct st as [[[o0 l0]|]|]; cbn in E; try discriminate.
    destruct Hr as [Hr|Hr]; [discriminate|]. destruct Hr as (l0' & -> & Hle & Hin).
    cbn in E'. inversion E; inversion E'; subst. clear E E'.
    destruct (l0 <? off) eqn:E1; destruct (l0' <? off) eqn:E2; lia.
  Qed.

  Lemma st_rel_mk_bitblock s s' bo nb :
    st_rel s s' -> bo <> NullBO -> exact_for nb s s' ->
    forall b b', s = SB b -> s' = SB b' -> st_rel (mk_bitblock b bo nb) (mk_bitblock b' bo nb).
  Proof.
    intros Hr Hbo Hex b b' -> ->.
    destruct b as [[o l]|]; [|left; reflexivity].
    destruct Hr as [Hr|Hr]; [discriminate|]. destruct Hr as (l' & E & Hle & Hin). inversion E; subst b'. clear E.
    destruct (l * 8 =? nb) eqn:Ek.
    - assert (l' = l) by (eapply Hex; [reflexivity|reflexivity|lia]). subst l'.
      right. unfold mk_bitblock. split; [reflexivity|]. cbn [sbit_inv].
      split. { unfold bitblock_ok. cbn [bstore_ok andb]. destruct bo; [exact Ek|exact Ek|contradiction]. }
      split; [exact Hbo|]. exists o, l. split; [reflexivity|]. split; [lia|exact Hin].
    - left. unfold mk_bitblock. cbn [storage_ok]. unfold bitblock_ok. cbn [bstore_ok andb].
      destruct bo; [exact Ek|exact Ek|contradiction].
  Qed.
End Storage.

(* ---------- reads inside the short buffer do not see the extra bytes ---------- *)
Section Reads.
  Variables bytes extra : list Z.
  Let n := Z.of_nat (length bytes).

  Lemma nth_byte_app i : 0 <= i < n -> nth_byte (bytes ++ extra) i = nth_byte bytes i.
  Proof. intros H. rewrite !nth_byte_nth. apply app_nth1. subst n. lia. Qed.

  Lemma le_value_app k : forall o, 0 <= o -> o + Z.of_nat k <= n ->
    le_value (bytes ++ extra) o k = le_value bytes o k.
  Proof.
    induction k as [|k IH]; intros o Ho Hk; [reflexivity|].
    cbn [le_value]. rewrite nth_byte_app by lia. rewrite IH by lia. reflexivity.
  Qed.

  Lemma be_value_app k : forall o acc, 0 <= o -> o + Z.of_nat k <= n ->
    be_value (bytes ++ extra) o k acc = be_value bytes o k acc.
  Proof.
    induction k as [|k IH]; intros o acc Ho Hk; [reflexivity|].
    cbn [be_value]. rewrite nth_byte_app by lia. rewrite IH by lia. reflexivity.
  Qed.

  Lemma raw_read_app s : sbit_inv n s -> raw_read (bytes ++ extra) s = raw_read bytes s.
  Proof.
    destruct s as [b|b bo nbits direct bitoff bitsize ok]; [contradiction|].
    intros (_ & _ & o & l & -> & Hl & Hl0 & Hin).
    assert (Hc : container_value (bytes ++ extra) (Some (o, l)) bo nbits =
                 container_value bytes (Some (o, l)) bo nbits).
    { unfold container_value. subst nbits. rewrite Z.div_mul by lia.
      destruct (Z.eq_dec l 0) as [->|Hnz]; [destruct bo; reflexivity|].
      destruct Hin as [->|Hin]; [lia|].
      destruct bo; [apply le_value_app|apply be_value_app|apply le_value_app]; lia. }
    cbn [raw_read]. rewrite Hc. reflexivity.
  Qed.

  Lemma raw_read_rel s s' : st_rel n s s' -> storage_ok s = true ->
    raw_read (bytes ++ extra) s' = raw_read bytes s.
  Proof.
    intros [H|H] Hok; [congruence|].
    destruct s as [[[o l]|]|b bo nbits direct bitoff bitsize ok]; [| contradiction |].
    - destruct H as (l' & -> & _). reflexivity.
    - destruct H as (-> & Hinv). apply raw_read_app. exact Hinv.
  Qed.
End Reads.

(* ---------- the simultaneous induction ---------- *)
Definition exact_bits (u : Z) (ty : ftype) : option Z :=
  match ty with
  | FScalar _ kb _ => if u =? 8 then Some kb else None
  | FStruct _ _ (Some (nb, _)) => Some nb
  | _ => None
  end.

Lemma exact_for_not_ok kb s s' : storage_ok s = false -> exact_for kb s s'.
Proof. intros H o l l' -> _ _. discriminate. Qed.

Lemma null_of_not_ok ty m : storage_ok (null_of ty m) = false.
Proof.
  destruct ty as [| tid a ad |]; try reflexivity. cbn.
  destruct (nth_error m tid) as [d|]; [|reflexivity]. destruct (unit_bits d =? 8); reflexivity.
Qed.

Lemma bo_ok_ne bo : bo_ok bo = true -> bo <> NullBO.
Proof. destruct bo; cbn; congruence. Qed.

Definition pvals_rel (pinit : bool) (ps : list (maybe value)) (pinit' : bool) (ps' : list (maybe value)) : Prop :=
  pinit = true ->
  pinit' = true /\ forall i v, nth_error ps i = Some (Some v) -> nth_error ps' i = Some (Some v).

Lemma locate_relt m w fs st e has ak start size sl e' :
  env_relt m w fs e e' -> vx_ok m fs start = true -> vx_ok m fs size = true ->
  locate st e has ak start size = Some sl ->
  exists off sz, 0 <= off /\ 0 <= sz /\ sl = get_offset st off sz /\
    meval e None size = Some (VInt sz) /\ ak = true /\
    forall st' has' ak', mle has has' -> ak' = true ->
      locate st' e' has' ak' start size = Some (get_offset st' off sz).
Proof.
  intros He Hst Hsz H. unfold locate in H.
  destruct ak; [|discriminate]. destruct has as [[|]|]; try discriminate. cbn [andb value_or_false] in H.
  destruct (meval e None size) as [[sz| |]|] eqn:Es; try discriminate.
  destruct (meval e None start) as [[off| |]|] eqn:Eo; try discriminate. cbn [m_z] in H.
  destruct ((0 <=? sz) && (0 <=? off)) eqn:Eb; [|discriminate]. inversion H; subst sl.
  exists off, sz. repeat split; try lia.
  intros st' has' ak' Hh ->. unfold locate. rewrite (Hh true eq_refl). cbn [andb value_or_false].
  rewrite (meval_relt_some _ _ _ _ _ _ _ _ He Hsz Es), (meval_relt_some _ _ _ _ _ _ _ _ He Hst Eo).
  cbn [m_z]. rewrite Eb. reflexivity.
Qed.

(* the arguments of a nested view are evaluated in the parent's environment: known ones stay *)
Lemma argvals_known_t m w fs e e' args :
  env_relt m w fs e e' -> forallb (vx_ok m fs) args = true ->
  forallb known (map (meval e None) args) = true ->
  forallb known (map (meval e' None) args) = true /\
  forall i v, nth_error (map (meval e None) args) i = Some (Some v) ->
              nth_error (map (meval e' None) args) i = Some (Some v).
Proof.
  intros He. induction args as [|a t IH]; cbn [map forallb]; intros Hx H.
  - split; [reflexivity|]. intros [|i] v Hn; discriminate.
  - apply andb_prop in H. destruct H as [Ha Ht]. apply andb_prop in Hx. destruct Hx as [Hxa Hxt].
    destruct (IH Hxt Ht) as [IH1 IH2].
    destruct (meval e None a) as [va|] eqn:Ea; [|discriminate].
    rewrite (meval_relt_some _ _ _ _ _ _ _ _ He Hxa Ea). split; [exact IH1|].
    intros [|i] v Hn; cbn in Hn |- *; [exact Hn|apply IH2; exact Hn].
Qed.

Lemma set_nth_inv {A} (x : A) : forall i l j y,
  nth_error (set_nth l i x) j = Some y -> (j = i /\ y = x) \/ nth_error l j = Some y.
Proof.
  unfold set_nth. induction i as [|i IH]; intros [|a t] j y H; cbn in H.
  - right. exact H.
  - destruct j; cbn in H |- *; [inversion H; left; auto|right; exact H].
  - right. exact H.
  - destruct j as [|j]; cbn in H |- *; [right; exact H|].
    apply IH in H. destruct H as [[-> ->]|H]; [left; auto|right; exact H].
Qed.

Lemma all_none_absurd {A B} (l : list B) j (r : A) :
  nth_error (map (fun _ => @None A) l) j = Some (Some r) -> False.
Proof. revert j. induction l as [|a t IH]; intros [|j] H; cbn in H; try discriminate. eapply IH; exact H. Qed.

(* the has flag of a parameter slot is parameters_initialized_ *)
Definition pinv (d : sdef) (pinit : bool) (e : env) : Prop :=
  forall i r fd, nth_error e i = Some (Some r) -> nth_error (fields d) i = Some fd ->
                 is_param fd = true -> fr_has r = Some pinit.

Lemma step_pinv m bs f d ps pinit st e i : pinv d pinit e -> pinv d pinit (vstep m bs f d ps pinit st e i).
Proof.
  intros Hinv. unfold vstep. destruct (nth_error (fields d) i) as [fld|] eqn:Ef; [|exact Hinv].
  intros j r fd Hj Hfd Hp. apply set_nth_inv in Hj. destruct Hj as [[-> Hr]|Hj]; [|eapply Hinv; eassumption].
  rewrite Ef in Hfd. inversion Hfd; subst fd. unfold is_param in Hp.
  destruct (fbody_of fld); try discriminate. inversion Hr; subst r. reflexivity.
Qed.

Lemma fold_pinv m bs f d ps pinit st : forall ord e,
  pinv d pinit e -> pinv d pinit (fold_left (vstep m bs f d ps pinit st) ord e).
Proof.
  induction ord as [|i t IHo]; intros e He; [exact He|]. cbn [fold_left]. apply IHo. apply step_pinv. exact He.
Qed.

Lemma krel_false_has m of r r' : krel m (flet m true) false of r r' -> mle (fr_has r) (fr_has r').
Proof.
  unfold krel. destruct of as [f|]; [destruct (fbody_of f)|]; intros K b Hb;
    [exact (flet_has _ _ _ _ _ _ K Hb)|exact (fle_has _ _ _ K Hb)..].
Qed.

Lemma param_fle0 ps ps' pinit pinit' pi : pvals_rel pinit ps pinit' ps' ->
  fle0 (FR (Some pinit)
           (known (if pinit then match nth_error ps pi with Some v => v | None => None end else None))
           (if pinit then match nth_error ps pi with Some v => v | None => None end else None)
           (SB None) [] true true None [])
       (FR (Some pinit')
           (known (if pinit' then match nth_error ps' pi with Some v => v | None => None end else None))
           (if pinit' then match nth_error ps' pi with Some v => v | None => None end else None)
           (SB None) [] true true None []).
Proof.
  intros Hp. unfold fle0. cbn [with_has]. rewrite fle_eq. unfold fle_body.
  cbn [fr_has fr_ok fr_val fr_sok fr_scomplete fr_ssize fr_sub fr_elems olist_le list_le].
  split; [apply mle_none|].
  split.
  { intros H. destruct pinit; [|discriminate]. destruct (Hp eq_refl) as [-> Hps].
    destruct (nth_error ps pi) as [[v|]|] eqn:En; try discriminate.
    rewrite (Hps _ _ En). split; reflexivity. }
  split; [auto|]. split; [auto|]. split; [apply mle_none|]. split; exact I.
Qed.

Section Main.
  Variable m : module.
  Hypothesis Hwf : wf_stable m = true.
  Variables bytes extra : list Z.
  Let n := Z.of_nat (length bytes).

  (* w = false: both views initialised alike (the top level); w = true: a nested view, which may be
     default-constructed on the prefix and located on the extension *)
  Definition struct_stable (f : nat) : Prop :=
    forall d ps ps' pinit pinit' st st' w,
      wf_sdef m d = true -> st_rel n st st' -> pvals_rel pinit ps pinit' ps' ->
      (w = false -> pinit = pinit') ->
      flet m w (Some d) (eval_struct m bytes f d ps pinit st) (eval_struct m (bytes ++ extra) f d ps' pinit' st').

  Definition type_stable (f : nat) : Prop :=
    forall u size ty ps ps' pinit pinit' s s' rq e e' w fs,
      wf_ftype m u size ty = true -> st_rel n s s' ->
      (forall kb, exact_bits u ty = Some kb -> exact_for kb s s') ->
      env_relt m w fs e e' -> ovx_ok m fs rq = true -> pvals_rel pinit ps pinit' ps' ->
      flet m true (sub_of_ty m ty) (eval_type m bytes f u ty ps pinit s rq e)
           (eval_type m (bytes ++ extra) f u ty ps' pinit' s' rq e').

  Lemma fle_exhausted s s' : fle (FR None false None s [] false false None []) (FR None false None s' [] false false None []).
  Proof. rewrite fle_eq. unfold fle_body; cbn. repeat split; try discriminate; apply mle_none. Qed.

  Lemma flet_exhausted w od s s' :
    flet m w od (FR None false None s [] false false None []) (FR None false None s' [] false false None []).
  Proof.
    rewrite flet_eq. unfold flet_body, env_relt.
    cbn [fr_has fr_ok fr_val fr_sok fr_scomplete fr_ssize fr_sub fr_elems tlist_le list_le].
    repeat split; try discriminate; apply mle_none.
  Qed.

  Lemma scalar_stable f u k kbits bo ps ps' pinit pinit' s s' rq e e' w fs :
    bo <> NullBO -> st_rel n s s' -> (u = 8 -> exact_for kbits s s') -> env_relt m w fs e e' ->
    ovx_ok m fs rq = true ->
    fle (eval_type m bytes (S f) u (FScalar k kbits bo) ps pinit s rq e)
        (eval_type m (bytes ++ extra) (S f) u (FScalar k kbits bo) ps' pinit' s' rq e').
  Proof.
    intros Hbo Hr Hex He Hrq. cbn [eval_type].
    set (s2 := match s with SB b => if u =? 8 then mk_bitblock b bo kbits else s | _ => s end).
    set (s2' := match s' with SB b => if u =? 8 then mk_bitblock b bo kbits else s' | _ => s' end).
    assert (Hr2 : st_rel n s2 s2').
    { destruct s as [b|b0 bo0 nb0 d0 o0 z0 ok0].
      - destruct (u =? 8) eqn:Eu.
        + destruct Hr as [Hr|Hr].
          * left. destruct b as [[? ?]|]; [discriminate|reflexivity].
          * destruct b as [[o l]|]; [|contradiction]. destruct Hr as (l' & -> & Hl & Hin).
            subst s2 s2'.
            eapply st_rel_mk_bitblock; try reflexivity; [|exact Hbo|apply Hex; lia].
            right. exists l'. auto.
        + subst s2 s2'. destruct Hr as [Hr|Hr]; [left; exact Hr|].
          destruct b as [[o l]|]; [|contradiction]. destruct Hr as (l' & -> & Hl & Hin).
          right. exists l'. auto.
      - subst s2 s2'. destruct Hr as [Hr|Hr]; [left; exact Hr|]. destruct Hr as (-> & Hinv). right. auto. }
    clearbody s2 s2'.
    rewrite fle_eq. unfold fle_body. cbn [fr_has fr_ok fr_val fr_sok fr_scomplete fr_ssize fr_sub fr_elems olist_le list_le].
    assert (Hc : storage_ok s2 && (kbits <=? storage_size s2) = true ->
                 storage_ok s2' && (kbits <=? storage_size s2') = true /\
                 raw_read (bytes ++ extra) s2' = raw_read bytes s2).
    { intros H. apply andb_prop in H. destruct H as [H1 H2].
      destruct (st_rel_ok _ _ _ Hr2 H1) as [H3 H4]. split; [rewrite H3; cbn; lia|].
      apply raw_read_rel; assumption. }
    assert (Hmain :
      storage_ok s2 && (kbits <=? storage_size s2)
        && match k with KBcd => is_bcd 16 (raw_read bytes s2) | _ => true end
        && requires_ok rq e (decode_scalar k kbits (raw_read bytes s2)) = true ->
      storage_ok s2' && (kbits <=? storage_size s2')
        && match k with KBcd => is_bcd 16 (raw_read (bytes ++ extra) s2') | _ => true end
        && requires_ok rq e' (decode_scalar k kbits (raw_read (bytes ++ extra) s2')) = true /\
      Some (decode_scalar k kbits (raw_read (bytes ++ extra) s2')) = Some (decode_scalar k kbits (raw_read bytes s2))).
    { intros H. apply andb_prop in H. destruct H as [H H3]. apply andb_prop in H. destruct H as [H1 H2].
      destruct (Hc H1) as [H1' Hraw]. rewrite Hraw, H1', H2. cbn [andb].
      split; [|reflexivity]. eapply requires_ok_relt; eassumption. }
    split; [apply mle_none|]. split; [exact Hmain|].
    split; [intros H; apply Hmain in H; tauto|].
    split; [intros H; apply Hc in H; tauto|].
    split; [apply mle_none|]. split; exact I.
  Qed.

  Lemma wf_sdef_of tid d : nth_error m tid = Some d -> wf_sdef m d = true.
  Proof.
    intros H. apply nth_error_In in H. unfold wf_stable in Hwf.
    rewrite forallb_forall in Hwf. apply Hwf. exact H.
  Qed.

  Lemma wf_field_of d fd : wf_sdef m d = true -> In fd (fields d) -> wf_field m d fd = true.
  Proof.
    intros Hd Hin. unfold wf_sdef in Hd. apply andb_prop in Hd. destruct Hd as [Hd _].
    rewrite forallb_forall in Hd. apply Hd. exact Hin.
  Qed.

  Lemma type_stable_0 : type_stable 0.
  Proof. intros u size ty ps ps' pinit pinit' s s' rq e e' w fs _ _ _ _ _ _. apply flet_exhausted. Qed.

  Lemma type_stable_S f : struct_stable f -> type_stable (S f).
  Proof.
    intros IH u size ty ps ps' pinit pinit' s s' rq e e' w fs Hty Hr Hex He Hrq Hp.
    destruct ty as [k kbits bo | tid args adapt | el esz]; [| |discriminate].
    - cbn [wf_ftype] in Hty. apply andb_prop in Hty. destruct Hty as [Hbo _].
      cbn [sub_of_ty]. apply flet_none.
      apply scalar_stable with (w := w) (fs := fs); [apply bo_ok_ne; exact Hbo|exact Hr| |exact He|exact Hrq].
      intros ->. apply Hex. reflexivity.
    - cbn [eval_type sub_of_ty]. cbn [wf_ftype] in Hty. rename Hty into Had.
      destruct (nth_error m tid) as [d|] eqn:Ed; [|apply flet_exhausted].
      apply IH; [eapply wf_sdef_of; exact Ed| |exact Hp|discriminate].
      destruct adapt as [[nb bo]|].
      + apply andb_prop in Had. destruct Had as [Hbo _]. apply bo_ok_ne in Hbo.
        specialize (Hex nb eq_refl).
        destruct s as [b|b0 bo0 nb0 d0 o0 z0 ok0].
        * destruct Hr as [Hr|Hr].
          { left. destruct b as [[? ?]|]; [discriminate|reflexivity]. }
          destruct b as [[o l]|]; [|contradiction]. destruct Hr as (l' & -> & Hl & Hin).
          eapply st_rel_mk_bitblock; try reflexivity; [|exact Hbo|exact Hex].
          right. exists l'. auto.
        * destruct Hr as [Hr|Hr]; [left; exact Hr|]. destruct Hr as (-> & Hinv). right. auto.
      + destruct s as [b|b0 bo0 nb0 d0 o0 z0 ok0]; [|].
        * destruct Hr as [Hr|Hr]; [left; exact Hr|].
          destruct b as [[o l]|]; [|contradiction]. destruct Hr as (l' & -> & Hl & Hin). right. exists l'. auto.
        * destruct Hr as [Hr|Hr]; [left; exact Hr|]. destruct Hr as (-> & Hinv). right. auto.
  Qed.

  (* ----- the final assembly of a structure view ----- *)
  Lemma isize_relt d w fs e e' : env_relt m w fs e e' -> mle (isize_of d e) (isize_of d e').
  Proof.
    intros He z H. unfold isize_of in *.
    destruct (nth_error e (size_field d)) as [[r|]|] eqn:E; try discriminate.
    destruct (tlist_le_nth _ _ _ _ _ _ _ _ He E) as (r' & E' & K). rewrite E'. apply krel_wle in K.
    destruct (fr_ok r) eqn:Eo; [|discriminate].
    destruct (K Eo) as [-> ->]. exact H.
  Qed.

  Lemma field_test_relt d w e e' i pinit :
    wf_sdef m d = true -> env_relt m w (fields d) e e' -> pinv d pinit e ->
    (if (0 <? nparams d)%nat then pinit else true) = true ->
    field_test e i = true -> field_test e' i = true.
  Proof.
    intros Hd He Hpin H2 H. unfold field_test in *.
    destruct (nth_error e i) as [[r|]|] eqn:E; try discriminate.
    destruct (tlist_le_nth _ _ _ _ _ _ _ _ He E) as (r' & E' & K). rewrite E'.
    assert (Hh : mle (fr_has r) (fr_has r')).
    { destruct (nth_error (fields d) i) as [fd|] eqn:Ef; [|exact (krel_has m w None r r' eq_refl K)].
      destruct (is_param fd) eqn:Ep; [|exact (krel_has m w (Some fd) r r' Ep K)].
      (* a parameter slot of an Ok view: the parameters are initialised *)
      assert (Hpi : pinit = true).
      { pose proof (wf_field_of d fd Hd (nth_error_In _ _ Ef)) as Hf. unfold wf_field in Hf. unfold is_param in Ep.
        destruct (fbody_of fd); try discriminate. rewrite Hf in H2. exact H2. }
      pose proof (Hpin i r fd E Ef Ep) as Hr. subst pinit.
      unfold krel in K. unfold is_param in Ep. destruct (fbody_of fd); try discriminate.
      intros b Hb. rewrite Hr in Hb. inversion Hb; subst b.
      unfold ple in K. destruct w; [apply K; exact Hr|apply (fle_has _ _ _ K Hr)]. }
    apply krel_wle in K.
    destruct (fr_has r) as [[|]|] eqn:Eh; try discriminate.
    - rewrite (Hh _ eq_refl). apply K. exact H.
    - rewrite (Hh _ eq_refl). reflexivity.
  Qed.

  Lemma finish_stable d pinit pinit' st st' e e' w :
    wf_sdef m d = true -> env_relt m w (fields d) e e' -> st_rel n st st' ->
    (pinit = true -> pinit' = true) -> pinv d pinit e ->
    flet m w (Some d) (finish d pinit st e) (finish d pinit' st' e').
  Proof.
    intros Hd He Hr Hp Hpin. rewrite flet_eq. unfold flet_body, finish.
    cbn [fr_has fr_ok fr_val fr_sok fr_scomplete fr_ssize fr_sub fr_elems list_le odfields].
    pose proof (isize_relt d w (fields d) e e' He) as Hi.
    assert (Hsr : ovx_ok m (fields d) (srequires d) = true).
    { unfold wf_sdef in Hd. apply andb_prop in Hd. tauto. }
    assert (Hc : storage_ok st && match isize_of d e with Some z => z <=? storage_size st | None => false end = true ->
                 storage_ok st' && match isize_of d e' with Some z => z <=? storage_size st' | None => false end = true).
    { intros H. apply andb_prop in H. destruct H as [H1 H2].
      destruct (st_rel_ok _ _ _ Hr H1) as [H3 H4]. rewrite H3.
      destruct (isize_of d e) as [z|]; [|discriminate]. rewrite (Hi z eq_refl). cbn. lia. }
    assert (Hok : forall c c', (c = true -> c' = true) ->
      c && (if (0 <? nparams d)%nat then pinit else true) && forallb (field_test e) (order d)
        && match srequires d with None => true | Some x => value_or_false (m_bool (meval e None x)) end = true ->
      c' && (if (0 <? nparams d)%nat then pinit' else true) && forallb (field_test e') (order d)
        && match srequires d with None => true | Some x => value_or_false (m_bool (meval e' None x)) end = true).
    { intros c c' Hcc H. apply andb_prop in H. destruct H as [H H4]. apply andb_prop in H. destruct H as [H H3].
      apply andb_prop in H. destruct H as [H1 H2]. rewrite (Hcc H1). cbn [andb].
      assert (H2' : (if (0 <? nparams d)%nat then pinit' else true) = true).
      { destruct (0 <? nparams d)%nat; [apply Hp; exact H2|reflexivity]. }
      rewrite H2'. cbn [andb].
      assert (H3' : forallb (field_test e') (order d) = true).
      { rewrite forallb_forall in H3 |- *. intros i Hi'.
        eapply field_test_relt; [exact Hd|exact He|exact Hpin|exact H2|apply H3; exact Hi']. }
      rewrite H3'. cbn [andb].
      destruct (srequires d) as [x|]; [|reflexivity]. cbn [ovx_ok] in Hsr.
      destruct (m_bool (meval e None x)) as [b|] eqn:Eb; [|discriminate]. cbn in H4. subst b.
      rewrite (m_bool_relt m w (fields d) e e' x He Hsr true Eb). reflexivity. }
    split; [apply mle_none|].
    split; [intros H; split; [exact (Hok _ _ Hc H)|reflexivity]|].
    split; [exact (Hok _ _ Hc)|].
    split; [exact Hc|].
    split; [exact Hi|]. split; [exact He|exact I].
  Qed.

  (* ----- one step of the fold over the dependency order ----- *)
  Lemma wf_exact u size ty kb e sz :
    wf_ftype m u size ty = true -> exact_bits u ty = Some kb ->
    meval e None size = Some (VInt sz) -> 8 * sz = kb.
  Proof.
    intros Hty Hk Hs.
    assert (Hc : is_const_size size kb = true).
    { destruct ty as [k kbits bo | tid args [[nb bo]|] | el esz]; cbn in Hty, Hk; try discriminate.
      - destruct (u =? 8); [|discriminate]. inversion Hk; subst kb.
        apply andb_prop in Hty. tauto.
      - inversion Hk; subst kb. apply andb_prop in Hty. tauto. }
    unfold is_const_size in Hc. destruct size as [[s| |]| | | | | | | | | | | |]; try discriminate.
    cbn in Hs. inversion Hs; subst. lia.
  Qed.

  Lemma scalar_null_bot f u k kb bo ps pinit rq e :
    is_bot (eval_type m bytes f u (FScalar k kb bo) ps pinit (null_of (FScalar k kb bo) m) rq e).
  Proof.
    destruct f; cbn; [repeat split|]. destruct (u =? 8); cbn; repeat split.
  Qed.

  Lemma step_stable f d ps ps' pinit pinit' st st' e e' i w :
    type_stable f -> wf_sdef m d = true -> st_rel n st st' -> pvals_rel pinit ps pinit' ps' ->
    (w = false -> pinit = pinit') -> env_relt m w (fields d) e e' ->
    env_relt m w (fields d) (vstep m bytes f d ps pinit st e i) (vstep m (bytes ++ extra) f d ps' pinit' st' e' i).
  Proof.
    intros IH Hd Hr Hp Hw He. unfold vstep.
    destruct (nth_error (fields d) i) as [fld|] eqn:Ef; [|exact He].
    pose proof (wf_field_of d fld Hd (nth_error_In _ _ Ef)) as Hfld.
    unfold env_relt. apply tlist_le_set_nth; [exact He|]. rewrite Ef. unfold krel.
    unfold wf_field in Hfld. cbv zeta in Hfld |- *.
    destruct (fbody_of fld) as [start size ty rq | rd rq | p aty | pi] eqn:Eb.
    - (* physical field *)
      apply andb_prop in Hfld. destruct Hfld as [Hty Hx].
      apply andb_prop in Hx. destruct Hx as [Hx Hargs]. apply andb_prop in Hx. destruct Hx as [Hx Hrq].
      apply andb_prop in Hx. destruct Hx as [Hx Hsz]. apply andb_prop in Hx. destruct Hx as [Hc Hst].
      pose proof (m_bool_relt m w (fields d) e e' (fcond fld) He Hc) as Hh.
      remember (m_bool (meval e None (fcond fld))) as has eqn:Ehas.
      remember (m_bool (meval e' None (fcond fld))) as has' eqn:Ehas'.
      clear Ehas Ehas'.
      destruct (locate st e has (forallb known (map (meval e None) (args_of ty))) start size) as [sl|] eqn:EL.
      + destruct (locate_relt _ _ _ _ _ _ _ _ _ _ _ He Hst Hsz EL) as (off & sz & Ho & Hs & -> & Esz & Hak & Hloc).
        destruct (argvals_known_t m w (fields d) e e' (args_of ty) He Hargs Hak) as [Hak' Hargv].
        rewrite (Hloc st' has' _ Hh Hak').
        apply flet_with_has; [|exact Hh].
        apply (IH (unit_bits d) size) with (w := w) (fs := fields d);
          [exact Hty|apply st_rel_get_offset; assumption| |exact He|exact Hrq|].
        * intros kb Hkb. eapply exact_get_offset; try eassumption.
          eapply wf_exact; eassumption.
        * intros _. split; [reflexivity|exact Hargv].
      + assert (Hnull : storage_ok (null_of ty m) = false) by apply null_of_not_ok.
        destruct (locate st' e' has' (forallb known (map (meval e' None) (args_of ty))) start size) as [sl'|];
          (apply flet_with_has; [|exact Hh]);
          (apply (IH (unit_bits d) size) with (w := w) (fs := fields d);
           [exact Hty|left; exact Hnull|intros kb _; apply exact_for_not_ok; exact Hnull|exact He|exact Hrq
           |intros Hx'; discriminate]).
    - (* virtual field *)
      apply andb_prop in Hfld. destruct Hfld as [Hx Hrq]. apply andb_prop in Hx. destruct Hx as [Hc Hrd].
      pose proof (m_bool_relt m w (fields d) e e' (fcond fld) He Hc) as Hh.
      rewrite fle_eq. unfold fle_body.
      cbn [fr_has fr_ok fr_val fr_sok fr_scomplete fr_ssize fr_sub fr_elems olist_le list_le].
      split; [exact Hh|].
      destruct (meval e None rd) as [vv|] eqn:Ev.
      + rewrite (meval_relt_some _ _ _ _ _ _ _ _ He Hrd Ev).
        split; [intros H; split; [eapply requires_ok_relt; eassumption|reflexivity]|].
        split; [intros H; eapply requires_ok_relt; eassumption|].
        split; [auto|]. split; [apply mle_none|]. split; exact I.
      + split; [discriminate|]. split; [discriminate|]. split; [auto|]. split; [apply mle_none|]. split; exact I.
    - (* alias *)
      destruct aty as [k kb bo| |]; cbn [andb] in Hfld; try discriminate.
      apply andb_prop in Hfld. destruct Hfld as [Hc Hpp].
      pose proof (m_bool_relt m w (fields d) e e' (fcond fld) He Hc) as Hh.
      remember (m_bool (meval e None (fcond fld))) as has eqn:Ehas.
      remember (m_bool (meval e' None (fcond fld))) as has' eqn:Ehas'.
      clear Ehas Ehas'.
      destruct (if value_or_false has then lookup e p else None) as [r|] eqn:EL.
      + destruct has as [[|]|]; try discriminate. rewrite (Hh true eq_refl). cbn [value_or_false] in EL |- *.
        destruct (lookup_fle0 _ _ _ _ _ _ _ He Hpp EL) as (r' & -> & Hr').
        apply fle0_with_has; [exact Hr'|]. intros x Hx. exact Hx.
      + destruct (if value_or_false has' then lookup e' p else None) as [r'|];
          (apply fle_bot; [apply scalar_null_bot|exact Hh]).
    - (* parameter slot *)
      unfold ple. destruct w.
      + split; [|apply param_fle0; exact Hp].
        cbn [fr_has]. intros H. inversion H; subst pinit. destruct (Hp eq_refl) as [-> _]. reflexivity.
      + apply fle0_has; [apply param_fle0; exact Hp|].
        cbn [fr_has]. rewrite (Hw eq_refl). apply mle_refl.
  Qed.

  Lemma fold_stable f d ps ps' pinit pinit' st st' w :
    type_stable f -> wf_sdef m d = true -> st_rel n st st' -> pvals_rel pinit ps pinit' ps' ->
    (w = false -> pinit = pinit') ->
    forall ord e e', env_relt m w (fields d) e e' ->
      env_relt m w (fields d) (fold_left (vstep m bytes f d ps pinit st) ord e)
              (fold_left (vstep m (bytes ++ extra) f d ps' pinit' st') ord e').
  Proof.
    intros IH Hd Hr Hp Hw. induction ord as [|i t IHo]; intros e e' He; [exact He|].
    cbn [fold_left]. apply IHo. apply step_stable; assumption.
  Qed.

  Lemma struct_stable_S f : type_stable f -> struct_stable (S f).
  Proof.
    intros IH d ps ps' pinit pinit' st st' w Hd Hr Hp Hw.
    rewrite !eval_struct_S. apply finish_stable; [exact Hd| |exact Hr|intros H; apply (Hp H)|].
    - apply fold_stable; try assumption. apply tlist_le_none.
    - apply fold_pinv. intros i r fd Hn. exfalso. eapply all_none_absurd; exact Hn.
  Qed.

  Lemma struct_stable_0 : struct_stable 0.
  Proof. intros d ps ps' pinit pinit' st st' w _ _ _ _. apply flet_exhausted. Qed.

  Lemma both_stable f : struct_stable f /\ type_stable f.
  Proof.
    induction f as [|f [IHs IHt]].
    - split; [apply struct_stable_0|apply type_stable_0].
    - split; [apply struct_stable_S; exact IHt|apply type_stable_S; exact IHs].
  Qed.
End Main.

(* ---------- the theorem ---------- *)
Theorem prefix_stable_partial m :
  wf_stable m = true ->
  forall d ps fuel bytes extra, In d m -> prefix_stable_at m d ps fuel bytes extra.
Proof.
  intros Hwf d ps fuel bytes extra Hd. unfold prefix_stable_at, root.
  destruct (both_stable m Hwf bytes extra fuel) as [Hs _].
  apply Hs.
  - unfold wf_stable in Hwf. rewrite forallb_forall in Hwf. apply Hwf. exact Hd.
  - right. exists (Z.of_nat (length (bytes ++ extra))). split; [reflexivity|].
    rewrite app_length. cbn. lia.
  - intros _. split; [reflexivity|auto].
  - reflexivity.
Qed.
Print Assumptions prefix_stable_partial.

(* readable consequences for the top-level view and its fields (every has flag of the top-level
   view is kept, those of its parameters included; inside a nested view the typed order applies) *)
Corollary prefix_stable_top m d ps fuel bytes extra :
  wf_stable m = true -> In d m ->
  let r := eval_struct m bytes fuel d ps true (root bytes) in
  let r' := eval_struct m (bytes ++ extra) fuel d ps true (root (bytes ++ extra)) in
  (fr_ok r = true -> fr_ok r' = true) /\                                   (* Ok() *)
  (fr_scomplete r = true -> fr_scomplete r' = true) /\                     (* IsComplete() *)
  (forall z, fr_ssize r = Some z -> fr_ssize r' = Some z) /\               (* SizeIsKnown / size *)
  (forall i f, nth_error (fr_sub r) i = Some (Some f) ->
     exists f', nth_error (fr_sub r') i = Some (Some f') /\
       (forall b, fr_has f = Some b -> fr_has f' = Some b) /\              (* has_x() *)
       (fr_ok f = true -> fr_ok f' = true /\ fr_val f' = fr_val f) /\      (* x().Ok(), Read() *)
       krel m (flet m true) false (nth_error (fields d) i) f f').          (* and hereditarily *)
Proof.
  intros Hwf Hd r r'. pose proof (prefix_stable_partial m Hwf d ps fuel bytes extra Hd) as H.
  unfold prefix_stable_at in H. fold r r' in H.
  split; [intros Ho; apply (flet_ok _ _ _ _ _ H Ho)|].
  split; [rewrite flet_eq in H; apply H|].
  split; [intros z; apply (flet_ssize _ _ _ _ _ z H)|].
  intros i f Hn. destruct (flet_sub_nth _ _ _ _ _ _ _ H Hn) as (f' & Hn' & Hf).
  exists f'. split; [exact Hn'|]. split; [exact (krel_false_has _ _ _ _ Hf)|].
  split; [exact (krel_wle _ _ _ _ _ Hf)|exact Hf].
Qed.

(* ---------- the strict order, where no nested structure has parameters ---------- *)
(* When every structure used as a field type is parameter-free (the class of the earlier version of
   this file), the typed order is the strict hereditary order [fle]: every has flag is kept. *)
Definition strict_targets (m : module) : bool :=
  forallb (fun d =>
    forallb (fun f => match fbody_of f with
                      | Phys _ _ ty _ => match sub_of_ty m ty with Some d' => no_params d' | None => true end
                      | _ => true
                      end) (fields d)) m.

Lemma flet_strict m : strict_targets m = true ->
  forall r r' od w,
    (forall d, od = Some d -> In d m /\ (w = false \/ no_params d = true)) ->
    flet m w od r r' -> fle r r'.
Proof.
  intros Hst. fix IH 1. intros [h o v st sub sok sc ss els] r' od w Hod H.
  rewrite flet_eq in H. rewrite fle_eq. unfold flet_body, fle_body, env_relt in *.
  cbn [fr_has fr_ok fr_val fr_sok fr_scomplete fr_ssize fr_sub fr_elems] in *.
  destruct H as (H1 & H2 & H3 & H4 & H5 & H6 & H7).
  repeat (split; [assumption|]). split; [|exact H7].
  assert (Hfs : forall f, In f (odfields od) -> exists d, od = Some d /\ In f (fields d)).
  { destruct od as [d|]; cbn; [intros f Hf; exists d; auto|contradiction]. }
  revert Hfs H6. generalize (odfields od) as fs. generalize (fr_sub r') as sub'.
  induction sub as [|x t IHl]; intros sub' fs Hfs Hs; [exact I|].
  destruct sub' as [|x' t']; [contradiction|]. destruct Hs as [Hx Ht]. cbn [olist_le]. split.
  - destruct x as [a|]; [|exact I]. destruct x' as [a'|]; [|contradiction].
    destruct fs as [|f fs']; cbn [hd_error] in Hx; [exact Hx|].
    destruct (Hfs f (or_introl eq_refl)) as (d & Ed & Hin). destruct (Hod d Ed) as [Hdm Hw].
    unfold krel in Hx. destruct (fbody_of f) as [st0 sz0 ty rq| | |pi] eqn:Eb.
    + apply (IH a a' (sub_of_ty m ty) true); [|exact Hx].
      intros d' Ed'. split.
      * destruct ty as [| tid args ad |]; cbn in Ed'; try discriminate. eapply nth_error_In; exact Ed'.
      * right. unfold strict_targets in Hst. rewrite forallb_forall in Hst. specialize (Hst d Hdm).
        rewrite forallb_forall in Hst. specialize (Hst f Hin). rewrite Eb, Ed' in Hst. exact Hst.
    + exact Hx.
    + exact Hx.
    + unfold ple in Hx. destruct w; [|exact Hx]. destruct Hw as [Hw|Hw]; [discriminate|].
      unfold no_params in Hw. rewrite forallb_forall in Hw. specialize (Hw f Hin). rewrite Eb in Hw. discriminate.
  - apply (IHl t' (tl fs)); [|exact Ht]. intros f Hf. apply Hfs. destruct fs; [contradiction|right; exact Hf].
Qed.

Theorem prefix_stable_strict m :
  wf_stable m = true -> strict_targets m = true ->
  forall d ps fuel bytes extra, In d m ->
    fle (eval_struct m bytes fuel d ps true (root bytes))
        (eval_struct m (bytes ++ extra) fuel d ps true (root (bytes ++ extra))).
Proof.
  intros Hwf Hst d ps fuel bytes extra Hd.
  apply (flet_strict m Hst _ _ (Some d) false).
  - intros d0 E. inversion E; subst d0. split; [exact Hd|left; reflexivity].
  - apply (prefix_stable_partial m Hwf d ps fuel bytes extra Hd).
Qed.
Print Assumptions prefix_stable_strict.

(* The constant-size hypothesis is forced in the MODEL (the compiler never emits a scalar
   with a dynamic size, so this is not a finding):  0 [+1] UInt n ; 1 [+n] UInt:8 x *)
Definition m_dyn : module :=
  [mk_sdef 8 0%nat
     [mk_field ktrue (Phys (kz 0) (kz 1) (FScalar KU 8 LE) None);
      mk_field ktrue (Phys (kz 1) (XField [0%nat]) (FScalar KU 8 LE) None);
      size_virt [(ktrue, kz 0, kz 1); (ktrue, kz 1, XField [0%nat])]]
     [0; 1; 2]%nat 2%nat None].

Lemma const_size_hypothesis_forced :
  exists d, In d m_dyn /\ ~ prefix_stable_at m_dyn d [] 8 [2; 7] [9].
Proof.
  exists (nth 0 m_dyn (mk_sdef 8 0 [] [] 0 None)). split; [left; reflexivity|].
  unfold prefix_stable_at. intros H.
  destruct (flet_sub_nth _ _ _ _ _ 1%nat _ H ltac:(vm_compute; reflexivity)) as (f' & Hn & Hf).
  vm_compute in Hn. inversion Hn; subst f'; clear Hn.
  destruct (krel_wle _ _ _ _ _ Hf eq_refl) as [Hv _]. vm_compute in Hv. discriminate.
Qed.

(* "no $present() of a parameter slot" is forced in the MODEL (the front end folds $present(parameter)
   to the constant true, so the translated modules never contain it; not a finding):
   struct P(k: UInt:8):  0 [+1] UInt a ;  if $present(k): 1 [+1] UInt y
   struct O:  0 [+1] UInt n ;  1 [+n] P(n) p        -- p().has_y() goes Known(false) -> Known(true) *)
Definition m_hasp : module :=
  [mk_sdef 8 0%nat
     [mk_field ktrue (Phys (kz 0) (kz 1) (FScalar KU 8 LE) None);
      mk_field ktrue (Phys (kz 1) (XField [0%nat]) (FStruct 1 [XField [0%nat]] None) None);
      size_virt [(ktrue, kz 0, kz 1); (ktrue, kz 1, XField [0%nat])]]
     [0; 1; 2]%nat 2%nat None;
   mk_sdef 8 1%nat
     [mk_field ktrue (Param 0);
      mk_field ktrue (Phys (kz 0) (kz 1) (FScalar KU 8 LE) None);
      mk_field (XHas [0%nat]) (Phys (kz 1) (kz 1) (FScalar KU 8 LE) None);
      size_virt [(ktrue, kz 0, kz 1); (XHas [0%nat], kz 1, kz 1)]]
     [0; 1; 2; 3]%nat 3%nat None].

Example m_hasp_not_in_class : wf_stable m_hasp = false.
Proof. reflexivity. Qed.

Lemma present_of_parameter_hypothesis_forced :
  exists d, In d m_hasp /\ ~ prefix_stable_at m_hasp d [] 8 [] [2; 7; 9].
Proof.
  exists (nth 0 m_hasp (mk_sdef 8 0 [] [] 0 None)). split; [left; reflexivity|].
  unfold prefix_stable_at. intros H.
  destruct (flet_sub_nth _ _ _ _ _ 1%nat _ H ltac:(vm_compute; reflexivity)) as (f' & Hn & Hf).
  vm_compute in Hn. inversion Hn; subst f'; clear Hn.
  change (flet m_hasp true (nth_error m_hasp 1)) with (flet m_hasp true (Some (nth 1 m_hasp (mk_sdef 8 0 [] [] 0 None)))) in Hf.
  unfold krel in Hf. cbn [nth_error odfields fields nth m_hasp fbody_of sub_of_ty] in Hf.
  destruct (flet_sub_nth _ _ _ _ _ 2%nat _ Hf ltac:(vm_compute; reflexivity)) as (y' & Hn & Hy).
  vm_compute in Hn. inversion Hn; subst y'; clear Hn.
  apply krel_has in Hy; [|reflexivity]. specialize (Hy false eq_refl). vm_compute in Hy. discriminate.
Qed.

(* ---------- the hypotheses are satisfiable, the conclusion is not vacuous ---------- *)
(* struct Outer:
     0 [+1] UInt tag
     if tag == 1:  1 [+2] UInt x (BigEndian)
     tag+3 [+1] Int y  [requires: this < 100]         -- dynamic offset
     4 [+2] Inner inner                               -- nested struct
     6 [+1] bits: 0 [+4] UInt lo ; 4 [+4] UInt hi     -- bits block (BitBlock adaptation) + alias lo
     let v = tag + 1                                  -- virtual field *)
Definition m_ex : module :=
  [mk_sdef 8 0%nat
     [mk_field ktrue (Phys (kz 0) (kz 1) (FScalar KU 8 LE) None);
      mk_field (XCmp CEq (XField [0%nat]) (kz 1)) (Phys (kz 1) (kz 2) (FScalar KU 16 BE) None);
      mk_field ktrue (Phys (XAdd (XField [0%nat]) (kz 3)) (kz 1) (FScalar KI 8 LE) (Some (XCmp CLt XSelf (kz 100))));
      mk_field ktrue (Phys (kz 4) (kz 2) (FStruct 1 [] None) None);
      mk_field ktrue (Phys (kz 6) (kz 1) (FStruct 2 [] (Some (8, LE))) None);
      mk_field ktrue (Virt (XAdd (XField [0%nat]) (kz 1)) None);
      mk_field (XAnd (XHas [4%nat]) (XHas [4%nat; 0%nat])) (Alias [4%nat; 0%nat] (FScalar KU 4 LE));
      size_virt [(ktrue, kz 0, kz 1); (XCmp CEq (XField [0%nat]) (kz 1), kz 1, kz 2);
                 (ktrue, XAdd (XField [0%nat]) (kz 3), kz 1); (ktrue, kz 4, kz 2); (ktrue, kz 6, kz 1)]]
     [0; 1; 2; 3; 4; 5; 6; 7]%nat 7%nat None;
   mk_sdef 8 0%nat
     [mk_field ktrue (Phys (kz 0) (kz 1) (FScalar KU 8 LE) None);
      mk_field ktrue (Phys (kz 1) (kz 1) (FScalar KU 8 LE) None);
      size_virt [(ktrue, kz 0, kz 1); (ktrue, kz 1, kz 1)]]
     [0; 1; 2]%nat 2%nat None;
   mk_sdef 1 0%nat
     [mk_field ktrue (Phys (kz 0) (kz 4) (FScalar KU 4 LE) None);
      mk_field ktrue (Phys (kz 4) (kz 4) (FScalar KU 4 LE) None);
      size_virt [(ktrue, kz 0, kz 4); (ktrue, kz 4, kz 4)]]
     [0; 1; 2]%nat 2%nat None].

Example wf_stable_example : wf_stable m_ex = true.
Proof. reflexivity. Qed.

Definition d_ex : sdef := nth 0 m_ex (mk_sdef 8 0 [] [] 0 None).

(* On the 2-byte prefix: tag is Ok (= 1), has_x is Known(true) but x is not yet Ok, v = 2 and the
   size (7) are known, the view is neither complete nor Ok; with 5 more bytes everything is Ok
   and the values known before are unchanged. *)
Example wf_stable_example_instance :
  prefix_stable_at m_ex d_ex [] 8 [1; 2] [3; 4; 5; 6; 165].
Proof. apply (prefix_stable_partial m_ex wf_stable_example). left; reflexivity. Qed.

Example wf_stable_example_nonvacuous :
  let r := eval_struct m_ex [1; 2] 8 d_ex [] true (root [1; 2]) in
  let r' := eval_struct m_ex ([1; 2] ++ [3; 4; 5; 6; 165]) 8 d_ex [] true (root ([1; 2] ++ [3; 4; 5; 6; 165])) in
  (exists tag x v, nth_error (fr_sub r) 0 = Some (Some tag) /\ nth_error (fr_sub r) 1 = Some (Some x) /\
                   nth_error (fr_sub r) 5 = Some (Some v) /\
                   fr_ok tag = true /\ fr_val tag = Some (VInt 1) /\
                   fr_has x = Some true /\ fr_ok x = false /\
                   fr_ok v = true /\ fr_val v = Some (VInt 2)) /\
  fr_ssize r = Some 7 /\ fr_scomplete r = false /\ fr_ok r = false /\
  (exists x' lo', nth_error (fr_sub r') 1 = Some (Some x') /\ nth_error (fr_sub r') 6 = Some (Some lo') /\
                  fr_ok x' = true /\ fr_val x' = Some (VInt 515) /\
                  fr_ok lo' = true /\ fr_val lo' = Some (VInt 5)) /\
  fr_ok r' = true.
Proof.
  vm_compute. split; [do 3 eexists; repeat split; reflexivity|].
  repeat split; try reflexivity. do 2 eexists; repeat split; reflexivity.
Qed.

(* ---------- a parameterised nested structure is in the class ---------- *)
(* struct Par(k: UInt:8):
     0 [+1] UInt a  [requires: this < 100]
     let s = a + k
   struct Outer:
     0 [+1] UInt n
     1 [+n] Par(n) p
     if p.s == 8:  n+1 [+1] UInt tail           -- reads a virtual field of the parameterised view *)
Definition m_par : module :=
  [mk_sdef 8 0%nat
     [mk_field ktrue (Phys (kz 0) (kz 1) (FScalar KU 8 LE) None);
      mk_field ktrue (Phys (kz 1) (XField [0%nat]) (FStruct 1 [XField [0%nat]] None) None);
      mk_field (XCmp CEq (XField [1; 2]%nat) (kz 8))
               (Phys (XAdd (XField [0%nat]) (kz 1)) (kz 1) (FScalar KU 8 LE) None);
      size_virt [(ktrue, kz 0, kz 1); (ktrue, kz 1, XField [0%nat]);
                 (XCmp CEq (XField [1; 2]%nat) (kz 8), XAdd (XField [0%nat]) (kz 1), kz 1)]]
     [0; 1; 2; 3]%nat 3%nat None;
   mk_sdef 8 1%nat
     [mk_field ktrue (Param 0);
      mk_field ktrue (Phys (kz 0) (kz 1) (FScalar KU 8 LE) (Some (XCmp CLt XSelf (kz 100))));
      mk_field ktrue (Virt (XAdd (XField [1%nat]) (XField [0%nat])) None);
      size_virt [(ktrue, kz 0, kz 1)]]
     [0; 1; 2; 3]%nat 3%nat None].

Example wf_stable_example_param : wf_stable m_par = true.
Proof. reflexivity. Qed.
Example wf_stable_example_param_not_strict : strict_targets m_par = false.
Proof. reflexivity. Qed.
Example wf_stable_example_strict : strict_targets m_ex = true.
Proof. reflexivity. Qed.

Definition d_par : sdef := nth 0 m_par (mk_sdef 8 0 [] [] 0 None).

(* On the empty prefix n is unknown, so p is the default-constructed view: its parameter k is not
   initialised (has_k Known(false)), nothing is Ok.  With the bytes [1; 7; 5] p is located with k = 1,
   a = 7, s = 8, the conditional field tail is present and reads 5, the whole view is Ok. *)
Example wf_stable_example_param_instance :
  prefix_stable_at m_par d_par [] 8 [] [1; 7; 5].
Proof. apply (prefix_stable_partial m_par wf_stable_example_param). left; reflexivity. Qed.

(* a second instance: on the prefix [1] the view p is located (k = 1 known, has_k Known(true)) but
   its field a lies beyond the buffer *)
Example wf_stable_example_param_instance2 :
  prefix_stable_at m_par d_par [] 8 [1] [7; 5].
Proof. apply (prefix_stable_partial m_par wf_stable_example_param). left; reflexivity. Qed.

Example wf_stable_example_param_nonvacuous :
  let r := eval_struct m_par [] 8 d_par [] true (root []) in
  let r1 := eval_struct m_par [1] 8 d_par [] true (root [1]) in
  let r' := eval_struct m_par [1; 7; 5] 8 d_par [] true (root [1; 7; 5]) in
  (exists p k, nth_error (fr_sub r) 1 = Some (Some p) /\ nth_error (fr_sub p) 0 = Some (Some k) /\
               fr_has p = Some true /\ fr_ok p = false /\
               fr_has k = Some false /\ fr_ok k = false) /\
  fr_ok r = false /\ fr_ssize r = None /\
  (exists p k a, nth_error (fr_sub r1) 1 = Some (Some p) /\ nth_error (fr_sub p) 0 = Some (Some k) /\
               nth_error (fr_sub p) 1 = Some (Some a) /\
               fr_has k = Some true /\ fr_ok k = true /\ fr_val k = Some (VInt 1) /\ fr_ok a = false) /\
  (exists p k a sv tail, nth_error (fr_sub r') 1 = Some (Some p) /\ nth_error (fr_sub r') 2 = Some (Some tail) /\
               nth_error (fr_sub p) 0 = Some (Some k) /\ nth_error (fr_sub p) 1 = Some (Some a) /\
               nth_error (fr_sub p) 2 = Some (Some sv) /\
               fr_ok p = true /\ fr_has k = Some true /\ fr_val k = Some (VInt 1) /\
               fr_val a = Some (VInt 7) /\ fr_ok sv = true /\ fr_val sv = Some (VInt 8) /\
               fr_has tail = Some true /\ fr_ok tail = true /\ fr_val tail = Some (VInt 5)) /\
  fr_ok r' = true /\ fr_ssize r' = Some 3.
Proof.
  vm_compute. split; [do 2 eexists; repeat split; reflexivity|].
  split; [reflexivity|]. split; [reflexivity|].
  split; [do 3 eexists; repeat split; reflexivity|].
  split; [do 5 eexists; repeat split; reflexivity|].
  split; reflexivity.
Qed.
