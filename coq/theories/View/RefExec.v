(* Executable glue for the correspondence of the reference semantics (View/Ref.v) with the
   observations of the real generated C++ (harness/view_ref.py). *)
From Coq Require Import ZArith List Bool.
Import ListNotations.
Require Import EmbossV.Bounds.Model EmbossV.View.Model EmbossV.View.Ref.
Open Scope Z_scope.

(* [1] when the structure is in the class of the agreement theorem, [0] otherwise *)
Definition ref_in_class (mods : list (module * nat * list (maybe value))) (k : nat) : list Z :=
  match nth_error mods k with
  | Some (m, tid, ps) =>
      match nth_error m tid with
      | Some d => [obs_bool (wf_ref d)]
      | None => []
      end
  | None => []
  end.

(* the reference's observation vector of structure k over a buffer, in the C++ driver's order *)
Definition run_ref_case (mods : list (module * nat * list (maybe value))) (c : nat * list Z) : list Z :=
  match nth_error mods (fst c) with
  | Some (m, tid, ps) =>
      match nth_error m tid with
      | Some d => if wf_ref d then ref_observe d (snd c) (ref_solve d ps (snd c)) else [-555]
      | None => []
      end
  | None => []
  end.
