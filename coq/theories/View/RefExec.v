(* Executable glue for the correspondence of the reference semantics (View/Ref.v) with the
   observations of the real generated C++ (harness/view_ref.py). *)
From Coq Require Import ZArith List Bool.
Import ListNotations.
Require Import EmbossV.Bounds.Model EmbossV.View.Model EmbossV.View.Ref.
Open Scope Z_scope.

(* [1] when the structure is in the class of the agreement theorem, [0] otherwise *)
Definition ref_in_class (mods : list (module * nat * list (maybe value))) (k : nat) : list Z :=
  match nth_error mods k with
  | Some (m, tid, ps) =>
      match nth_error m tid with
      | Some d => [obs_bool (wf_ref d)]
      | None => []
      end
  | None => []
  end.

(* the reference's observation vector of structure k over a buffer, in the C++ driver's order *)
Definition run_ref_case (mods : list (module * nat * list (maybe value))) (c : nat * list Z) : list Z :=
  match nth_error mods (fst c) with
  | Some (m, tid, ps) =>
      match nth_error m tid with
      | Some d => if wf_ref d then ref_observe d (snd c) (ref_solve d ps (snd c)) else [-555]
      | None => []
      end
  | None => []
  end.

(* ---------- the widened reference (View/RefNest.v): bits blocks, nested structures, dynamic sizes ---------- *)
Require Import EmbossV.View.RefNest.

(* a nesting depth that suffices for every structure of the module *)
Definition nest_depth (m : module) : nat := S (length m).

Definition in_nested_class (m : module) (d : sdef) : bool :=
  (unit_bits d =? 8) && wf_ref_n m (nest_depth m) d.

(* features of a structure, hereditarily: a bits-typed field, a nested byte structure, a nested structure
   with arguments, a structure-typed field whose size is not a constant *)
Definition or4 (a b : bool * bool * bool * bool) : bool * bool * bool * bool :=
  match a, b with (a1, a2, a3, a4), (b1, b2, b3, b4) => (a1 || b1, a2 || b2, a3 || b3, a4 || b4) end.
Fixpoint features (m : module) (n : nat) (d : sdef) {struct n} : bool * bool * bool * bool :=
  match n with
  | O => (false, false, false, false)
  | S n' =>
      fold_left (fun acc f =>
                   match fbody_of f with
                   | Phys _ size (FStruct tid args adapt) _ =>
                       let own := (match adapt with Some _ => true | None => false end,
                                   match adapt with Some _ => false | None => true end,
                                   match args with [] => false | _ :: _ => true end,
                                   match size with XK _ => false | _ => true end) in
                       or4 (or4 acc own)
                           (match nth_error m tid with Some d' => features m n' d' | None => (false, false, false, false) end)
                   | _ => acc
                   end) (fields d) (false, false, false, false)
  end.

(* [flat class; nested class; bits; nested; nested with arguments; dynamic size] *)
Definition ref_in_class_n (mods : list (module * nat * list (maybe value))) (k : nat) : list Z :=
  match nth_error mods k with
  | Some (m, tid, ps) =>
      match nth_error m tid with
      | Some d =>
          match features m (nest_depth m) d with
          | (f1, f2, f3, f4) =>
              [obs_bool (wf_ref d); obs_bool (in_nested_class m d); obs_bool f1; obs_bool f2; obs_bool f3; obs_bool f4]
          end
      | None => []
      end
  | None => []
  end.

Definition run_nref_case (mods : list (module * nat * list (maybe value))) (c : nat * list Z) : list Z :=
  match nth_error mods (fst c) with
  | Some (m, tid, ps) =>
      match nth_error m tid with
      | Some d => if in_nested_class m d then ref_observe_n m tid ps (snd c) (nest_depth m) else [-555]
      | None => []
      end
  | None => []
  end.

Definition ref_flag (mods : list (module * nat * list (maybe value))) (c : nat * nat) : list Z :=
  match nth_error (ref_in_class_n mods (fst c)) (snd c) with Some z => [z] | None => [] end.

(* what the reference says about field i of the top structure: [present; can be read; size / element count or -1] *)
Definition run_nref_field_probe (mods : list (module * nat * list (maybe value))) (c : nat * (nat * list Z)) : list Z :=
  match nth_error mods (fst c) with
  | Some (m, tid, ps) =>
      let bytes := snd (snd c) in
      let t := ref_struct m bytes (nest_depth m) tid (Some ps) (whole bytes) in
      let r := nget (n_members t) (fst (snd c)) in
      [obs_mbool (n_present r); obs_bool (n_ok r); match n_size r with Some z => z | None => -1 end]
  | None => []
  end.
