(* Executable glue for the view correspondence harness. *)
From Coq Require Import ZArith List Bool.
Import ListNotations.
Require Import EmbossV.Bounds.Model EmbossV.View.Model.
Open Scope Z_scope.

Fixpoint zlist_eqb (a b : list Z) : bool :=
  match a, b with
  | [], [] => true
  | x :: a', y :: b' => (x =? y) && zlist_eqb a' b'
  | _, _ => false
  end.

Definition run_case (mods : list (module * nat * list (maybe value))) (c : nat * list Z) : list Z :=
  match nth_error mods (fst c) with
  | Some (m, tid, ps) => run_view m tid ps (snd c) 8
  | None => []
  end.

(* ---- C20: Equals / TryToCopyFrom on two views over one allocation ---- *)
Require Import EmbossV.View.Equals.

Definition run_pair (mods : list (module * nat * list (maybe value)))
           (c : nat * (list Z * (Z * Z) * (Z * Z))) : list Z :=
  match nth_error mods (fst c) with
  | None => []
  | Some (m, tid, ps) =>
      match nth_error m tid with
      | None => []
      | Some d =>
          let '(mem, (o1, l1), (o2, l2)) := snd c in
          let fuel := 8%nat in
          let v1 := eval_struct m mem fuel d ps true (SB (Some (o1, l1))) in
          let v2 := eval_struct m mem fuel d ps true (SB (Some (o2, l2))) in
          let both := fr_sok v1 && fr_sok v2 in
          [obs_bool (fr_sok v1); obs_bool (fr_sok v2)]
          ++ (if both then [obs_bool (equals_struct m fuel d (fr_sub v1) (fr_sub v2));
                            obs_bool (equals_struct m fuel d (fr_sub v2) (fr_sub v1))] else [])
          ++ match view_try_copy mem (Some (o1, l1)) v2 with
             | None => 0 :: mem
             | Some mem' =>
                 let w1 := eval_struct m mem' fuel d ps true (SB (Some (o1, l1))) in
                 let w2 := eval_struct m mem' fuel d ps true (SB (Some (o2, l2))) in
                 1 :: mem' ++ [obs_bool (fr_sok w1)]
                   ++ (if fr_sok w1 && fr_sok w2
                       then [obs_bool (equals_struct m fuel d (fr_sub w1) (fr_sub w2))] else [])
             end
      end
  end.
