(* Executable glue for the view correspondence harness. *)
From Coq Require Import ZArith List Bool.
Import ListNotations.
Require Import EmbossV.Bounds.Model EmbossV.View.Model.
Open Scope Z_scope.

Fixpoint zlist_eqb (a b : list Z) : bool :=
  match a, b with
  | [], [] => true
  | x :: a', y :: b' => (x =? y) && zlist_eqb a' b'
  | _, _ => false
  end.

Definition run_case (mods : list (module * nat * list (maybe value))) (c : nat * list Z) : list Z :=
  match nth_error mods (fst c) with
  | Some (m, tid, ps) => run_view m tid ps (snd c) 8
  | None => []
  end.
