(* Executable glue for the view correspondence harness. *)
From Coq Require Import ZArith List Bool.
Import ListNotations.
Require Import EmbossV.Bounds.Model EmbossV.View.Model.
Open Scope Z_scope.

Fixpoint zlist_eqb (a b : list Z) : bool :=
  match a, b with
  | [], [] => true
  | x :: a', y :: b' => (x =? y) && zlist_eqb a' b'
  | _, _ => false
  end.

Definition run_case (mods : list (module * nat * list (maybe value))) (c : nat * list Z) : list Z :=
  match nth_error mods (fst c) with
  | Some (m, tid, ps) => run_view m tid ps (snd c) 8
  | None => []
  end.

(* ---- C20: Equals / TryToCopyFrom on two views over one allocation ---- *)
Require Import EmbossV.View.Equals.

Definition run_pair (mods : list (module * nat * list (maybe value)))
           (c : nat * (list Z * (Z * Z) * (Z * Z))) : list Z :=
  match nth_error mods (fst c) with
  | None => []
  | Some (m, tid, ps) =>
      match nth_error m tid with
      | None => []
      | Some d =>
          let '(mem, (o1, l1), (o2, l2)) := snd c in
          let fuel := 8%nat in
          let v1 := eval_struct m mem fuel d ps true (SB (Some (o1, l1))) in
          let v2 := eval_struct m mem fuel d ps true (SB (Some (o2, l2))) in
          let both := fr_sok v1 && fr_sok v2 in
          [obs_bool (fr_sok v1); obs_bool (fr_sok v2)]
          ++ (if both then [obs_bool (equals_struct m fuel d (fr_sub v1) (fr_sub v2));
                            obs_bool (equals_struct m fuel d (fr_sub v2) (fr_sub v1))] else [])
          ++ match view_try_copy mem (Some (o1, l1)) v2 with
             | None => 0 :: mem
             | Some mem' =>
                 let w1 := eval_struct m mem' fuel d ps true (SB (Some (o1, l1))) in
                 let w2 := eval_struct m mem' fuel d ps true (SB (Some (o2, l2))) in
                 1 :: mem' ++ [obs_bool (fr_sok w1)]
                   ++ (if fr_sok w1 && fr_sok w2
                       then [obs_bool (equals_struct m fuel d (fr_sub w1) (fr_sub w2))] else [])
             end
      end
  end.

(* ---- C01: executable check of prefix stability on the model's result trees ---- *)
Definition mle_b {A} (eqb : A -> A -> bool) (a b : maybe A) : bool :=
  match a, b with
  | None, _ => true
  | Some x, Some y => eqb x y
  | Some _, None => false
  end.

Fixpoint stable_b (fuel : nat) (r r' : fres) {struct fuel} : bool :=
  match fuel with
  | O => true
  | S f =>
      mle_b Bool.eqb (fr_has r) (fr_has r')
      && (if fr_ok r then fr_ok r' && opt_value_eqb (fr_val r) (fr_val r') else true)
      && mle_b Z.eqb (fr_ssize r) (fr_ssize r')
      && implb (fr_sok r) (fr_sok r') && implb (fr_scomplete r) (fr_scomplete r')
      && forallb2 (fun a b => match a, b with
                              | Some x, Some y => stable_b f x y
                              | None, None => true
                              | _, _ => false
                              end) (fr_sub r) (fr_sub r')
      && (if fr_ok r then forallb2 (stable_b f) (fr_elems r) (fr_elems r') else true)
  end.

(* 1 = everything known on the prefix is kept; 0 = some known observation changed *)
Definition run_stable (mods : list (module * nat * list (maybe value))) (c : nat * (list Z * list Z)) : list Z :=
  match nth_error mods (fst c) with
  | None => []
  | Some (m, tid, ps) =>
      match nth_error m tid with
      | None => []
      | Some d =>
          let b := fst (snd c) in
          let b' := b ++ snd (snd c) in
          let r := eval_struct m b 8 d ps true (SB (Some (0, Z.of_nat (length b)))) in
          let r' := eval_struct m b' 8 d ps true (SB (Some (0, Z.of_nat (length b')))) in
          [obs_bool (stable_b 8 r r')]
      end
  end.
