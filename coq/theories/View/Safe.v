(* C04 — byte accesses of checked scalar reads stay inside the root buffer. *)
From Coq Require Import ZArith List Bool Lia ZifyBool.
Import ListNotations.
Require Import EmbossV.Bounds.Model EmbossV.View.Model EmbossV.View.Proofs.
Open Scope Z_scope.

(* the byte indices a BitBlock over byte storage b touches when it is read or written *)
Definition touched (b : bstore) (nbits : Z) : option (Z * Z) :=
  match b with
  | Some (o, _) => Some (o, o + nbits / 8)      (* [o, o + nbits/8) *)
  | None => None
  end.

(* An Ok() BitBlock (any byte orderer) only touches bytes of the root allocation. *)
Lemma bitblock_ok_in_bounds n b bo nbits :
  bstore_in n b -> 0 < nbits -> bitblock_ok b bo nbits = true ->
  match touched b nbits with
  | Some (lo, hi) => 0 <= lo /\ hi <= n /\ lo < hi
  | None => False
  end.
Proof.
  intros Hin Hn Hok. unfold bitblock_ok in Hok. apply andb_prop in Hok. destruct Hok as [H1 H2].
  destruct b as [[o l]|]; [|discriminate]. cbn [touched].
  assert (Hsz : orderer_size bo (Some (o, l)) = l) by reflexivity.
  rewrite Hsz in H2. cbn in Hin. destruct Hin as (Hl & [->|Hin]); [lia|].
  assert (nbits / 8 = l) by (apply Z.eqb_eq in H2; subst nbits; apply Z.div_mul; lia).
  lia.
Qed.

(* Before fix c90547c the Null byte orderer reported SizeInBytes() = 1 for every non-null buffer and
   the statement above was false for it (finding null-byte-order-short-buffer); the model follows
   the repaired runtime, and a regression shows up as a correspondence failure in C01/C02/C04. *)

(* Reads through an Ok() OffsetBitBlock use only bits of its container. *)
Lemma offset_block_reads_container s off size :
  bits_in s -> 0 <= off -> 0 <= size -> storage_ok (get_offset s off size) = true ->
  match get_offset s off size with
  | SBit _ _ nbits _ bitoff bitsize _ => 0 <= bitoff /\ bitoff + bitsize <= nbits
  | SB _ => True
  end.
Proof.
  intros H Ho Hs Hok. pose proof (get_offset_bits_in s off size H Ho Hs) as K.
  destruct (get_offset s off size) as [b|b bo nbits direct bitoff bitsize ok]; [exact I|].
  cbn in Hok, K. specialize (K Hok). lia.
Qed.
