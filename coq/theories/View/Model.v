(* C01 / C04 / C20 — executable model of the generated C++ views ("Gen"): the
   Maybe<> expression semantics of emboss_arithmetic.h, the storage classes of
   emboss_memory_util.h (ContiguousBuffer, BitBlock, OffsetBitBlock with the
   GetOffsetStorage clamp), the scalar views of emboss_prelude.h, array views,
   and the structure view template of generated_code_templates (has_x, x(),
   IsComplete, Ok with the switch-optimised body, virtual fields, aliases,
   parameters).  Definitions only. *)
From Coq Require Import ZArith List Bool.
Import ListNotations.
Require Import EmbossV.Bounds.Model.   (* value, cmpop, cmp_eval *)
Open Scope Z_scope.

(* ---------- values and Maybe ---------- *)
Definition maybe (A : Type) := option A.   (* None = not Known() *)

Definition value_eqb (a b : value) : bool :=
  match a, b with
  | VInt x, VInt y | VEnum x, VEnum y => x =? y
  | VBool x, VBool y => Bool.eqb x y
  | _, _ => false
  end.

(* ---------- expressions as rendered by header_generator._render_expression ---------- *)
Inductive vx :=
| XK (v : value)                 (* literal, or any sub-expression whose annotation is constant *)
| XField (path : list nat)       (* (v.Ok() ? Maybe(v.UncheckedRead()) : Maybe()) for v = a().b()... *)
| XHas (path : list nat)         (* a().has_b() *)
| XSelf                          (* emboss_reserved_local_value inside a [requires] validator *)
| XAdd (a b : vx) | XSub (a b : vx) | XMul (a b : vx)
| XCmp (op : cmpop) (a b : vx)
| XEq (ne : bool) (a b : vx)     (* == / != on booleans or enums *)
| XAnd (a b : vx) | XOr (a b : vx)
| XChoice (c t f : vx)
| XMax (args : list vx).

Inductive border := LE | BE | NullBO.
Inductive skind := KU | KI | KBcd | KFlag | KEnum (signed : bool)
  | KFloat.   (* FloatView: Read() is the IEEE 754 value of the bit pattern; the model carries the bit pattern *)

Inductive ftype :=
| FScalar (k : skind) (kbits : Z) (bo : border)
| FStruct (tid : nat) (args : list vx) (adapt : option (Z * border))   (* BitBlock adaptation for a bits type inside a struct *)
| FArray (elem : ftype) (elem_size : Z).

Inductive fbody :=
| Phys (start size : vx) (ty : ftype) (requires : option vx)
| Virt (read : vx) (requires : option vx)
| Alias (path : list nat) (ty : ftype)   (* ty: the aliased physical field's type (for the default view) *)
| Param (i : nat).                (* runtime parameter exposed as a field of the view *)

Record field := mk_field { fcond : vx; fbody_of : fbody }.

Record sdef := mk_sdef {
  unit_bits : Z;                  (* 8 = struct, 1 = bits *)
  nparams : nat;
  fields : list field;            (* IR order; parameters first *)
  order : list nat;               (* fields_in_dependency_order (indices into fields) *)
  size_field : nat;               (* index of $size_in_bytes / $size_in_bits *)
  srequires : option vx
}.

Definition module := list sdef.

(* ---------- storage ---------- *)
Definition bstore := option (Z * Z).       (* None = nullptr; Some (offset in root, size) *)

Inductive storage :=
| SB (b : bstore)                                            (* ContiguousBuffer *)
| SBit (b : bstore) (bo : border) (nbits : Z) (direct : bool)
       (bitoff bitsize : Z) (ok : bool).                     (* BitBlock (direct) / OffsetBitBlock *)

Definition bstore_ok (b : bstore) : bool := match b with Some _ => true | None => false end.
Definition bstore_size (b : bstore) : Z := match b with Some (_, l) => l | None => 0 end.

(* ContiguousBuffer::GetOffsetStorage *)
Definition bstore_offset (b : bstore) (off size : Z) : bstore :=
  match b with
  | None => None
  | Some (o, l) => Some (o + off, if l <? off then 0 else Z.min size (l - off))
  end.

(* ByteOrderer::SizeInBytes: the size of the underlying buffer, for every orderer (the Null orderer
   reported 1 for every non-null buffer until fix c90547c) *)
Definition orderer_size (bo : border) (b : bstore) : Z := bstore_size b.

(* BitBlock<Orderer<ContiguousBuffer>, nbits>::Ok *)
Definition bitblock_ok (b : bstore) (bo : border) (nbits : Z) : bool :=
  bstore_ok b && (orderer_size bo b * 8 =? nbits).

Definition mk_bitblock (b : bstore) (bo : border) (nbits : Z) : storage :=
  SBit b bo nbits true 0 nbits (bitblock_ok b bo nbits).

Definition storage_ok (s : storage) : bool :=
  match s with
  | SB b => bstore_ok b
  | SBit _ _ _ _ _ _ ok => ok
  end.

(* SizeInBytes / SizeInBits in the unit of the owning structure *)
Definition storage_size (s : storage) : Z :=
  match s with
  | SB b => bstore_size b
  | SBit _ _ nbits direct _ bitsize _ => if direct then nbits else bitsize
  end.

(* GetOffsetStorage on any storage *)
Definition get_offset (s : storage) (off size : Z) : storage :=
  match s with
  | SB b => SB (bstore_offset b off size)
  | SBit b bo nbits direct bitoff bitsize ok =>
      let noff := if direct then off else bitoff + off in
      let inner_ok := if direct then ok && (off + size <=? nbits)
                      else ok && (off + size <=? bitsize) in
      (* OffsetBitBlock stores offset and size as uint8_t and checks the round trip *)
      SBit b bo nbits false (noff mod 256) (size mod 256)
           ((noff <? 256) && (size <? 256) && inner_ok)
  end.

(* ---------- reading scalars ---------- *)
(* the byte at index i, 0 outside the list; the bound is tested on Z first so that evaluating a read
   at an absurd offset (a 64-bit field used as an offset) never builds a unary number of that size *)
Definition nth_byte (bytes : list Z) (i : Z) : Z :=
  if Z.of_nat (length bytes) <=? i then 0 else nth (Z.to_nat i) bytes 0.

Fixpoint le_value (bytes : list Z) (o : Z) (n : nat) : Z :=
  match n with
  | O => 0
  | S n' => nth_byte bytes o + 256 * le_value bytes (o + 1) n'
  end.
Fixpoint be_value (bytes : list Z) (o : Z) (n : nat) (acc : Z) : Z :=
  match n with
  | O => acc
  | S n' => be_value bytes (o + 1) n' (acc * 256 + nth_byte bytes o)
  end.

Definition container_value (bytes : list Z) (b : bstore) (bo : border) (nbits : Z) : Z :=
  match b with
  | None => 0
  | Some (o, _) =>
      let n := Z.to_nat (nbits / 8) in
      match bo with
      | BE => be_value bytes o n 0
      | _ => le_value bytes o n
      end
  end.

(* UncheckedReadUInt of a BitBlock / OffsetBitBlock *)
Definition raw_read (bytes : list Z) (s : storage) : Z :=
  match s with
  | SB _ => 0
  | SBit b bo nbits direct bitoff bitsize _ =>
      let cv := container_value bytes b bo nbits in
      if direct then cv else (cv mod 2 ^ (bitoff + bitsize)) / 2 ^ bitoff
  end.

Fixpoint bcd_digits (fuel : nat) (x : Z) : Z :=
  match fuel with
  | O => 0
  | S f => (x mod 16) + 10 * bcd_digits f (x / 16)
  end.
Fixpoint is_bcd (fuel : nat) (x : Z) : bool :=
  match fuel with
  | O => true
  | S f => (x mod 16 <=? 9) && is_bcd f (x / 16)
  end.

(* value delivered by UncheckedRead of the scalar views (EnumView: plain cast, no sign extension) *)
Definition decode_scalar (k : skind) (kbits : Z) (raw : Z) : value :=
  match k with
  | KU => VInt raw
  | KI => VInt (if raw <? 2 ^ (kbits - 1) then raw else raw - 2 ^ kbits)
  | KBcd => VInt (bcd_digits 16 raw)
  | KFlag => VBool (negb (raw =? 0))
  | KEnum _ => VEnum raw
  | KFloat => VInt raw
  end.

(* ---------- results of evaluating a view ---------- *)
Inductive fres :=
| FR (has : maybe bool) (ok : bool) (val : maybe value) (st : storage)
     (sub : list (option fres)) (sok : bool) (scomplete : bool) (ssize : maybe Z)
     (elems : list fres).
(* has/ok/val: has_x(), x().Ok(), and the Maybe the field contributes to expressions;
   sub: for structure-typed fields, the results of the nested view's fields (IR order);
   sok/scomplete/ssize: nested view Ok()/IsComplete()/IntrinsicSize; elems: array elements. *)

Definition fr_has (r : fres) := match r with FR h _ _ _ _ _ _ _ _ => h end.
Definition fr_ok (r : fres) := match r with FR _ o _ _ _ _ _ _ _ => o end.
Definition fr_val (r : fres) := match r with FR _ _ v _ _ _ _ _ _ => v end.
Definition fr_st (r : fres) := match r with FR _ _ _ s _ _ _ _ _ => s end.
Definition fr_sub (r : fres) := match r with FR _ _ _ _ s _ _ _ _ => s end.
Definition fr_sok (r : fres) := match r with FR _ _ _ _ _ o _ _ _ => o end.
Definition fr_scomplete (r : fres) := match r with FR _ _ _ _ _ _ c _ _ => c end.
Definition fr_ssize (r : fres) := match r with FR _ _ _ _ _ _ _ z _ => z end.
Definition fr_elems (r : fres) := match r with FR _ _ _ _ _ _ _ _ e => e end.

Definition env := list (option fres).      (* by IR field index; None = not yet evaluated *)

Fixpoint lookup (e : env) (path : list nat) : option fres :=
  match path with
  | [] => None
  | [i] => match nth_error e i with Some r => r | None => None end
  | i :: rest =>
      match nth_error e i with
      | Some (Some r) => lookup (fr_sub r) rest
      | _ => None
      end
  end.

(* ---------- Maybe<> arithmetic (emboss_arithmetic.h) ---------- *)
Definition m_int2 (f : Z -> Z -> Z) (a b : maybe value) : maybe value :=
  match a, b with Some (VInt x), Some (VInt y) => Some (VInt (f x y)) | _, _ => None end.

Definition m_and (a b : maybe value) : maybe value :=
  match a, b with
  | Some (VBool false), _ | _, Some (VBool false) => Some (VBool false)
  | Some (VBool true), Some (VBool true) => Some (VBool true)
  | _, _ => None
  end.
Definition m_or (a b : maybe value) : maybe value :=
  match a, b with
  | Some (VBool true), _ | _, Some (VBool true) => Some (VBool true)
  | Some (VBool false), Some (VBool false) => Some (VBool false)
  | _, _ => None
  end.

Fixpoint m_all_ints (l : list (maybe value)) : option (list Z) :=
  match l with
  | [] => Some []
  | Some (VInt z) :: t => match m_all_ints t with Some zs => Some (z :: zs) | None => None end
  | _ :: _ => None
  end.

Fixpoint meval (e : env) (self : maybe value) (x : vx) {struct x} : maybe value :=
  match x with
  | XK v => Some v
  | XField p => match lookup e p with Some r => if fr_ok r then fr_val r else None | None => None end
  | XHas p => match lookup e p with
              | Some r => match fr_has r with Some b => Some (VBool b) | None => None end
              | None => None
              end
  | XSelf => self
  | XAdd a b => m_int2 Z.add (meval e self a) (meval e self b)
  | XSub a b => m_int2 Z.sub (meval e self a) (meval e self b)
  | XMul a b => m_int2 Z.mul (meval e self a) (meval e self b)
  | XCmp op a b =>
      match meval e self a, meval e self b with
      | Some (VInt p), Some (VInt q) => Some (VBool (cmp_eval op p q))
      | _, _ => None
      end
  | XEq ne a b =>
      match meval e self a, meval e self b with
      | Some p, Some q => Some (VBool (if ne then negb (value_eqb p q) else value_eqb p q))
      | _, _ => None
      end
  | XAnd a b => m_and (meval e self a) (meval e self b)
  | XOr a b => m_or (meval e self a) (meval e self b)
  | XChoice c t f =>
      match meval e self c with
      | Some (VBool true) => meval e self t
      | Some (VBool false) => meval e self f
      | _ => None
      end
  | XMax args =>
      match m_all_ints (map (meval e self) args) with
      | Some (z :: zs) => Some (VInt (fold_left Z.max zs z))
      | _ => None
      end
  end.

Definition m_bool (m : maybe value) : maybe bool :=
  match m with Some (VBool b) => Some b | _ => None end.
Definition m_z (m : maybe value) : maybe Z :=
  match m with Some (VInt z) => Some z | _ => None end.
Definition value_or_false (m : maybe bool) : bool := match m with Some b => b | None => false end.

(* Parameters::ValueIsOk(value): the [requires] validator; ValueOr(false) *)
Definition requires_ok (rq : option vx) (e : env) (v : value) : bool :=
  match rq with
  | None => true
  | Some x => value_or_false (m_bool (meval e (Some v) x))
  end.

(* ---------- the structure view ---------- *)
Definition set_nth {A} (l : list A) (i : nat) (x : A) : list A :=
  firstn i l ++ match skipn i l with [] => [] | _ :: t => x :: t end.

Definition null_of (ty : ftype) (m : module) : storage :=
  match ty with
  | FStruct tid _ _ =>
      match nth_error m tid with
      | Some d => if d.(unit_bits) =? 8 then SB None else SBit None LE 0 false 0 0 false
      | None => SB None
      end
  | _ => SB None
  end.

(* the Ok() body of _generate_optimized_ok_method_body over already evaluated fields:
   switch groups (discriminant expression, first field per label) and if-groups. *)
Definition eq_candidate (c : vx) : option (vx * value) :=
  match c with
  | XCmp CEq a (XK v) => match a with XK _ => None | _ => Some (a, v) end
  | XCmp CEq (XK v) b => Some (b, v)
  | XEq false a (XK v) => match a with XK _ => None | _ => match v with VEnum _ => Some (a, v) | _ => None end end
  | XEq false (XK v) b => match v with VEnum _ => Some (b, v) | _ => None end
  | _ => None
  end.

Section ViewEval.
  Variable m : module.
  Variable bytes : list Z.

  (* the view of a field of type ty over the storage st handed out by the parent;
     parent_unit = 8 for struct parents, 1 for bits parents *)
  Fixpoint eval_type (fuel : nat) (parent_unit : Z) (ty : ftype) (params : list (maybe value))
           (pinit : bool) (st : storage) (rq : option vx) (penv : env) {struct fuel} : fres :=
    match fuel with
    | O => FR None false None st [] false false None []
    | S fuel' =>
        match ty with
        | FScalar k kbits bo =>
            let s := match st with
                     | SB b => if parent_unit =? 8 then mk_bitblock b bo kbits else st
                     | _ => st
                     end in
            let complete := storage_ok s && (kbits <=? storage_size s) in
            let v := decode_scalar k kbits (raw_read bytes s) in
            let bcd_ok := match k with KBcd => is_bcd 16 (raw_read bytes s) | _ => true end in
            let ok := complete && bcd_ok && requires_ok rq penv v in
            FR None ok (Some v) s [] ok complete None []
        | FStruct tid args adapt =>
            match nth_error m tid with
            | None => FR None false None st [] false false None []
            | Some d =>
                let s := match st, adapt with
                         | SB b, Some (n, bo) => mk_bitblock b bo n
                         | _, _ => st
                         end in
                eval_struct fuel' d params pinit s
            end
        | FArray elem esize =>
            let total := storage_size st in
            let n := if esize <=? 0 then 0 else total / esize in
            let els := map (fun i => eval_type fuel' parent_unit elem params pinit
                                       (get_offset st (Z.of_nat i * esize) esize) None penv)
                           (seq 0 (Z.to_nat n)) in
            let ok := storage_ok st && (if esize <=? 0 then false else total mod esize =? 0)
                      && forallb fr_ok els in
            FR None ok None st [] ok (storage_ok st) (Some n) els
        end
    end

  with eval_struct (fuel : nat) (d : sdef) (params : list (maybe value)) (pinit : bool)
                   (st : storage) {struct fuel} : fres :=
    match fuel with
    | O => FR None false None st [] false false None []
    | S fuel' =>
        let step (e : env) (i : nat) : env :=
          match nth_error d.(fields) i with
          | None => e
          | Some f =>
              let has := m_bool (meval e None f.(fcond)) in
              let r :=
                match f.(fbody_of) with
                | Param pi =>
                    let v := if pinit then match nth_error params pi with Some v => v | None => None end else None in
                    FR (Some pinit) (match v with Some _ => true | None => false end) v (SB None) [] true true None []
                | Virt rd rq =>
                    let v := meval e None rd in
                    let ok := match v with Some vv => requires_ok rq e vv | None => false end in
                    FR has ok v (SB None) [] ok true None []
                | Alias p aty =>
                    match (if value_or_false has then lookup e p else None) with
                    | Some (FR _ ok v s sub sok sc ss els) => FR has ok v s sub sok sc ss els
                    | None =>
                        (* decltype(aliased)(): a default-constructed view of the aliased type *)
                        match eval_type fuel' d.(unit_bits) aty [] false (null_of aty m) None e with
                        | FR _ ok v s sub sok sc ss els => FR has ok v s sub sok sc ss els
                        end
                    end
                | Phys start size ty rq =>
                    let args := match ty with FStruct _ a _ => a | FArray (FStruct _ a _) _ => a | _ => [] end in
                    let argvals := map (meval e None) args in
                    let args_known := forallb (fun a => match a with Some _ => true | None => false end) argvals in
                    let located :=
                      if args_known && value_or_false has then
                        match m_z (meval e None size), m_z (meval e None start) with
                        | Some sz, Some off =>
                            if (0 <=? sz) && (0 <=? off) then Some (get_offset st off sz) else None
                        | _, _ => None
                        end
                      else None in
                    match located with
                    | Some s' =>
                        match eval_type fuel' d.(unit_bits) ty argvals true s' rq e with
                        | FR _ ok v s sub sok sc ss els => FR has ok v s sub sok sc ss els
                        end
                    | None =>
                        (* default-constructed view: null storage, parameters not initialised *)
                        match eval_type fuel' d.(unit_bits) ty [] false (null_of ty m) rq e with
                        | FR _ ok v s sub sok sc ss els => FR has ok v s sub sok sc ss els
                        end
                    end
                end in
              set_nth e i (Some r)
          end in
        let e0 : env := map (fun _ => None) d.(fields) in
        let e := fold_left step d.(order) e0 in
        let size_r := match nth_error e d.(size_field) with Some (Some r) => Some r | _ => None end in
        let isize := match size_r with Some r => if fr_ok r then m_z (fr_val r) else None | None => None end in
        let complete :=
          storage_ok st &&
          match isize with Some z => z <=? storage_size st | None => false end in
        let fields_ok :=
          forallb (fun i => match nth_error e i with
                            | Some (Some r) =>
                                match fr_has r with
                                | Some true => fr_ok r
                                | Some false => true
                                | None => false
                                end
                            | _ => false
                            end) d.(order) in
        let req := match d.(srequires) with
                   | None => true
                   | Some x => value_or_false (m_bool (meval e None x))
                   end in
        let ok := complete && (if (0 <? d.(nparams))%nat then pinit else true) && fields_ok && req in
        FR None ok None st e ok complete isize []
    end.
End ViewEval.

(* ---------- observations, flattened for comparison with the C++ driver ---------- *)
Definition obs_bool (b : bool) : Z := if b then 1 else 0.
Definition obs_mbool (b : maybe bool) : Z := match b with Some true => 1 | Some false => 0 | None => -1 end.
Definition obs_value (v : value) : Z :=
  match v with VInt z | VEnum z => z | VBool b => obs_bool b end.

Fixpoint observe (fuel : nat) (r : fres) {struct fuel} : list Z :=
  match fuel with
  | O => []
  | S f =>
      match r with
      | FR has ok val st sub sok sc ss els =>
          [obs_mbool has; obs_bool ok]
          ++ (if ok then match val with Some v => [obs_value v] | None => [] end else [])
          ++ (match sub with
              | [] => []
              | _ => obs_bool sc :: (match ss with Some z => [1; z] | None => [0] end)
                     ++ flat_map (fun o => match o with Some r' => observe f r' | None => [-99] end) sub
              end)
          ++ (match els, ss with
              | [], Some n => match sub with [] => [n] | _ => [] end
              | _ :: _, Some n => n :: flat_map (observe f) els
              | _, None => []
              end)
      end
  end.

Definition run_view (m : module) (tid : nat) (params : list (maybe value)) (bytes : list Z) (fuel : nat) : list Z :=
  match nth_error m tid with
  | None => []
  | Some d =>
      let st := SB (Some (0, Z.of_nat (length bytes))) in
      observe fuel (eval_struct m bytes fuel d params true st)
  end.
