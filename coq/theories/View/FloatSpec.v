(* C20 / C02 — what "two Float fields read equal" means.

   [Equals.float_eqb] is the model of FloatView::Equals on the bit patterns the view model carries.  This file
   gives the IEEE 754 reading of a bit pattern (binary32 and binary64) as a sign, an integer significand and an
   exponent, defines equality of the VALUES (operator== of C++ on float/double: a NaN equals nothing, the two
   zeros are equal, otherwise the real numbers must be the same), and proves that [float_eqb] decides exactly
   that, for every pair of bit patterns of the width.  No floating-point library and no axiom is used: the real
   number of a finite pattern is  (-1)^s * m * 2^e  with  e >= emin, and two such numbers are compared after
   scaling by 2^(-emin), i.e. as integers. *)
From Coq Require Import ZArith List Bool Lia ZifyBool.
Require Import EmbossV.View.Equals.
Open Scope Z_scope.
Ltac Zify.zify_post_hook ::= Z.div_mod_to_equations.

Definition fbits (kbits : Z) : Z := if kbits =? 32 then 23 else 52.
Definition ebits (kbits : Z) : Z := if kbits =? 32 then 8 else 11.

(* the three fields of a pattern *)
Definition f_frac (kbits raw : Z) : Z := raw mod 2 ^ fbits kbits.
Definition f_exp (kbits raw : Z) : Z := (raw / 2 ^ fbits kbits) mod 2 ^ ebits kbits.
Definition f_neg (kbits raw : Z) : bool := negb ((raw / 2 ^ (fbits kbits + ebits kbits)) mod 2 =? 0).

Inductive fval :=
| FNaN
| FInf (neg : bool)
| FFin (neg : bool) (m : Z) (e : Z).     (* (-1)^neg * m * 2^(e + emin): e counts binades above the smallest *)

(* IEEE 754 decoding.  emin = 1 - bias - fbits is the exponent of the denormals' unit in the last place; a normal
   number with biased exponent ex >= 1 is (2^fbits + frac) * 2^(ex - 1 + emin).  The exponent is kept relative to
   emin, which is all equality of values needs. *)
Definition decode (kbits raw : Z) : fval :=
  let ex := f_exp kbits raw in
  if ex =? 2 ^ ebits kbits - 1 then (if f_frac kbits raw =? 0 then FInf (f_neg kbits raw) else FNaN)
  else if ex =? 0 then FFin (f_neg kbits raw) (f_frac kbits raw) 0
  else FFin (f_neg kbits raw) (2 ^ fbits kbits + f_frac kbits raw) (ex - 1).

(* the value of a finite number, scaled by 2^(-emin): an integer *)
Definition scaled (neg : bool) (m e : Z) : Z := (if neg then -1 else 1) * (m * 2 ^ e).

(* operator== on the values *)
Definition ieee_eq (x y : fval) : bool :=
  match x, y with
  | FNaN, _ | _, FNaN => false
  | FInf s, FInf t => Bool.eqb s t
  | FFin s m e, FFin t n f => scaled s m e =? scaled t n f
  | _, _ => false
  end.

Ltac boolprop :=
  repeat match goal with
  | H : _ && _ = true |- _ => apply andb_prop in H; destruct H
  | H : _ && _ = false |- _ => apply andb_false_iff in H
  | H : negb _ = true |- _ => apply negb_true_iff in H
  | H : negb _ = false |- _ => apply negb_false_iff in H
  | H : (_ =? _) = true |- _ => apply Z.eqb_eq in H
  | H : (_ =? _) = false |- _ => apply Z.eqb_neq in H
  | H : _ \/ _ |- _ => destruct H
  end.

(* ---------- arithmetic ---------- *)
Lemma pow2_pos e : 0 <= e -> 0 < 2 ^ e.
Proof. intros H. apply Z.pow_pos_nonneg; lia. Qed.

(* binades do not overlap: a significand in [2^p, 2^(p+1)) shifted by e determines e *)
Lemma binade_unique p m n e f :
  0 <= p -> 0 <= e -> 0 <= f ->
  2 ^ p <= m < 2 ^ (p + 1) -> 2 ^ p <= n < 2 ^ (p + 1) ->
  m * 2 ^ e = n * 2 ^ f -> e = f /\ m = n.
Proof.
  intros Hp He Hf Hm Hn H.
  assert (L : forall a b x y, 0 <= x -> x < y -> 2 ^ p <= a < 2 ^ (p + 1) -> 2 ^ p <= b < 2 ^ (p + 1) ->
                              a * 2 ^ x <> b * 2 ^ y).
  { intros a b x y Hx Hxy Ha Hb E.
    assert (Hy : y = x + 1 + (y - x - 1)) by lia.
    rewrite Hy in E. rewrite !Z.pow_add_r in E by lia.
    pose proof (pow2_pos x Hx) as Px. pose proof (pow2_pos (y - x - 1) ltac:(lia)) as Pd.
    pose proof (pow2_pos p Hp) as Pp.
    rewrite Z.pow_add_r in Ha, Hb by lia. change (2 ^ 1) with 2 in *.
    assert (a * 2 ^ x < 2 ^ p * 2 * 2 ^ x) by (apply Z.mul_lt_mono_pos_r; lia).
    assert (2 ^ p * (2 ^ x * 2 * 2 ^ (y - x - 1)) <= b * (2 ^ x * 2 * 2 ^ (y - x - 1))).
    { apply Z.mul_le_mono_nonneg_r; [|lia]. nia. }
    assert (2 ^ p * 2 * 2 ^ x * 1 <= 2 ^ p * 2 * 2 ^ x * 2 ^ (y - x - 1)).
    { apply Z.mul_le_mono_nonneg_l; [nia|lia]. }
    nia. }
  destruct (Z.lt_trichotomy e f) as [Hlt|[Heq|Hgt]].
  - exfalso. eapply L; [exact He|exact Hlt|exact Hm|exact Hn|exact H].
  - subst f. split; [reflexivity|]. pose proof (pow2_pos e He). nia.
  - exfalso. eapply L; [exact Hf|exact Hgt|exact Hn|exact Hm|symmetry; exact H].
Qed.

(* a denormal (below 2^p, exponent 0) is never equal to a normal number *)
Lemma denormal_below p m n f : 0 <= p -> 0 <= f -> 0 <= m < 2 ^ p -> 2 ^ p <= n -> m * 2 ^ 0 <> n * 2 ^ f.
Proof.
  intros Hp Hf Hm Hn E. pose proof (pow2_pos f Hf). change (2 ^ 0) with 1 in E. nia.
Qed.

(* ---------- the magnitude of a finite pattern determines its exponent and fraction fields ---------- *)
Section Width.
  Variable kbits : Z.
  Hypothesis Hk : kbits = 32 \/ kbits = 64.

  Let fb := fbits kbits.
  Let eb := ebits kbits.

  Lemma fb_eb : (fb = 23 /\ eb = 8 /\ kbits = 32) \/ (fb = 52 /\ eb = 11 /\ kbits = 64).
  Proof. unfold fb, eb, fbits, ebits. destruct Hk as [->| ->]; cbn; auto. Qed.

  Definition mag (raw : Z) : Z * Z :=
    if f_exp kbits raw =? 0 then (f_frac kbits raw, 0) else (2 ^ fb + f_frac kbits raw, f_exp kbits raw - 1).

  Lemma frac_range raw : 0 <= f_frac kbits raw < 2 ^ fb.
  Proof. unfold f_frac. apply Z.mod_pos_bound. apply pow2_pos. destruct fb_eb as [(->&_)|(->&_)]; lia. Qed.
  Lemma exp_range raw : 0 <= f_exp kbits raw < 2 ^ eb.
  Proof. unfold f_exp. apply Z.mod_pos_bound. apply pow2_pos. destruct fb_eb as [(_&->&_)|(_&->&_)]; lia. Qed.

  (* a pattern of the width is its three fields *)
  Lemma fields_of raw : 0 <= raw < 2 ^ kbits ->
    raw = (if f_neg kbits raw then 1 else 0) * 2 ^ (kbits - 1) + f_exp kbits raw * 2 ^ fb + f_frac kbits raw.
  Proof.
    intros Hr. unfold f_neg, f_exp, f_frac. fold fb eb.
    destruct fb_eb as [(Ef&Ee&Ek)|(Ef&Ee&Ek)]; rewrite Ef, Ee, Ek in *; cbn [Z.add Z.sub Z.pos_sub Pos.add Pos.succ Z.opp Pos.pred_double] in *.
    - change (2 ^ 32) with 4294967296 in Hr. change (2 ^ 31) with 2147483648. change (2 ^ 23) with 8388608.
      change (2 ^ 8) with 256. change (23 + 8) with 31. change (2 ^ 31) with 2147483648.
      destruct ((raw / 2147483648) mod 2 =? 0) eqn:E; cbn [negb]; lia.
    - change (2 ^ 64) with 18446744073709551616 in Hr. change (2 ^ 63) with 9223372036854775808.
      change (2 ^ 52) with 4503599627370496. change (2 ^ 11) with 2048. change (52 + 11) with 63.
      change (2 ^ 63) with 9223372036854775808.
      destruct ((raw / 9223372036854775808) mod 2 =? 0) eqn:E; cbn [negb]; lia.
  Qed.

  Lemma low_bits raw : 0 <= raw < 2 ^ kbits ->
    raw mod 2 ^ (kbits - 1) = f_exp kbits raw * 2 ^ fb + f_frac kbits raw.
  Proof.
    intros Hr. unfold f_exp, f_frac. fold fb eb.
    destruct fb_eb as [(Ef&Ee&Ek)|(Ef&Ee&Ek)]; rewrite Ef, Ee, Ek in *.
    - change (2 ^ 32) with 4294967296 in Hr. change (32 - 1) with 31. change (2 ^ 31) with 2147483648.
      change (2 ^ 23) with 8388608. change (2 ^ 8) with 256. lia.
    - change (2 ^ 64) with 18446744073709551616 in Hr. change (64 - 1) with 63. change (2 ^ 63) with 9223372036854775808.
      change (2 ^ 52) with 4503599627370496. change (2 ^ 11) with 2048. lia.
  Qed.

  (* equal magnitudes (as scaled integers) = equal exponent and fraction fields *)
  Lemma mag_injective a b :
    fst (mag a) * 2 ^ snd (mag a) = fst (mag b) * 2 ^ snd (mag b) <->
    f_exp kbits a = f_exp kbits b /\ f_frac kbits a = f_frac kbits b.
  Proof.
    pose proof (frac_range a) as Fa. pose proof (frac_range b) as Fb.
    pose proof (exp_range a) as Xa. pose proof (exp_range b) as Xb.
    assert (Hfb : 0 <= fb) by (destruct fb_eb as [(->&_)|(->&_)]; lia).
    assert (P1 : 2 ^ (fb + 1) = 2 ^ fb + 2 ^ fb) by (rewrite Z.pow_add_r by lia; change (2 ^ 1) with 2; lia).
    unfold mag. split.
    - destruct (f_exp kbits a =? 0) eqn:Ea, (f_exp kbits b =? 0) eqn:Eb; cbn [fst snd]; intros H.
      + change (2 ^ 0) with 1 in H. lia.
      + exfalso. assert (X1 : 0 <= f_exp kbits b - 1) by lia. assert (X2 : 2 ^ fb <= 2 ^ fb + f_frac kbits b) by lia.
        exact (denormal_below fb _ _ _ Hfb X1 Fa X2 H).
      + exfalso. assert (X1 : 0 <= f_exp kbits a - 1) by lia. assert (X2 : 2 ^ fb <= 2 ^ fb + f_frac kbits a) by lia.
        exact (denormal_below fb _ _ _ Hfb X1 Fb X2 (eq_sym H)).
      + destruct (binade_unique fb (2 ^ fb + f_frac kbits a) (2 ^ fb + f_frac kbits b) (f_exp kbits a - 1) (f_exp kbits b - 1))
          as [E1 E2]; try lia; try exact H.
    - intros [E1 E2]. rewrite E1, E2. reflexivity.
  Qed.

  Lemma mag_zero a : fst (mag a) * 2 ^ snd (mag a) = 0 <-> f_exp kbits a = 0 /\ f_frac kbits a = 0.
  Proof.
    pose proof (frac_range a) as Fa. pose proof (exp_range a) as Xa.
    assert (Hfb : 0 <= fb) by (destruct fb_eb as [(->&_)|(->&_)]; lia).
    pose proof (pow2_pos fb Hfb) as Pf.
    unfold mag. destruct (f_exp kbits a =? 0) eqn:Ea; cbn [fst snd].
    - change (2 ^ 0) with 1. lia.
    - pose proof (pow2_pos (f_exp kbits a - 1) ltac:(lia)). split; [nia|lia].
  Qed.

  Lemma mag_nonneg a : 0 <= fst (mag a) * 2 ^ snd (mag a).
  Proof.
    pose proof (frac_range a) as Fa. pose proof (exp_range a) as Xa.
    assert (Hfb : 0 <= fb) by (destruct fb_eb as [(->&_)|(->&_)]; lia).
    pose proof (pow2_pos fb Hfb) as Pf.
    unfold mag. destruct (f_exp kbits a =? 0) eqn:Ea; cbn [fst snd].
    - change (2 ^ 0) with 1. lia.
    - pose proof (pow2_pos (f_exp kbits a - 1) ltac:(lia)). nia.
  Qed.

  (* ---------- the model's tests, field by field ---------- *)
  Lemma is_nan_fields raw :
    float_is_nan kbits raw = (f_exp kbits raw =? 2 ^ eb - 1) && negb (f_frac kbits raw =? 0).
  Proof. unfold float_is_nan, f_exp, f_frac, eb, fb, ebits, fbits. reflexivity. Qed.

  Lemma is_zero_fields raw : 0 <= raw < 2 ^ kbits ->
    float_is_zero kbits raw = (f_exp kbits raw =? 0) && (f_frac kbits raw =? 0).
  Proof.
    intros Hr. unfold float_is_zero. rewrite (low_bits raw Hr).
    pose proof (frac_range raw) as F. pose proof (exp_range raw) as X.
    assert (Hfb : 0 <= fb) by (destruct fb_eb as [(->&_)|(->&_)]; lia).
    pose proof (pow2_pos fb Hfb) as Pf.
    destruct (f_exp kbits raw =? 0) eqn:E1, (f_frac kbits raw =? 0) eqn:E2; cbn [andb]; nia.
  Qed.

  Lemma eqb_fields a b : 0 <= a < 2 ^ kbits -> 0 <= b < 2 ^ kbits ->
    (a =? b) = Bool.eqb (f_neg kbits a) (f_neg kbits b) && (f_exp kbits a =? f_exp kbits b) && (f_frac kbits a =? f_frac kbits b).
  Proof.
    intros Ha Hb. pose proof (fields_of a Ha) as Da. pose proof (fields_of b Hb) as Db.
    pose proof (frac_range a) as Fa. pose proof (frac_range b) as Fb.
    pose proof (exp_range a) as Xa. pose proof (exp_range b) as Xb.
    assert (Hfb : 0 <= fb) by (destruct fb_eb as [(->&_)|(->&_)]; lia).
    pose proof (pow2_pos fb Hfb) as Pf.
    assert (Hk1 : 2 ^ (kbits - 1) = 2 ^ eb * 2 ^ fb).
    { destruct fb_eb as [(->&->&->)|(->&->&->)]; reflexivity. }
    destruct (f_neg kbits a) eqn:Na, (f_neg kbits b) eqn:Nb; cbn [Bool.eqb andb];
      destruct (f_exp kbits a =? f_exp kbits b) eqn:E1; destruct (f_frac kbits a =? f_frac kbits b) eqn:E2; cbn [andb]; nia.
  Qed.

  (* ---------- the theorem ---------- *)
  Definition is_inf (raw : Z) : bool := (f_exp kbits raw =? 2 ^ eb - 1) && (f_frac kbits raw =? 0).

  Lemma decode_class raw :
    decode kbits raw = if float_is_nan kbits raw then FNaN
                       else if is_inf raw then FInf (f_neg kbits raw)
                       else FFin (f_neg kbits raw) (fst (mag raw)) (snd (mag raw)).
  Proof.
    rewrite is_nan_fields. unfold decode, is_inf, mag. fold eb. fold fb.
    destruct (f_exp kbits raw =? 2 ^ eb - 1); destruct (f_frac kbits raw =? 0); cbn [andb negb]; try reflexivity;
      destruct (f_exp kbits raw =? 0); reflexivity.
  Qed.

  Lemma eb_big : 2 <= 2 ^ eb - 1.
  Proof. destruct fb_eb as [(_&->&_)|(_&->&_)]; cbn; lia. Qed.

  Theorem float_eqb_is_ieee_eq a b : 0 <= a < 2 ^ kbits -> 0 <= b < 2 ^ kbits ->
    float_eqb kbits a b = ieee_eq (decode kbits a) (decode kbits b).
  Proof.
    intros Ha Hb. rewrite !decode_class. unfold float_eqb.
    destruct (float_is_nan kbits a) eqn:Na; [reflexivity|].
    destruct (float_is_nan kbits b) eqn:Nb; [cbn [negb andb]; destruct (is_inf a); reflexivity|].
    cbn [negb andb].
    rewrite (is_zero_fields a Ha), (is_zero_fields b Hb), (eqb_fields a b Ha Hb).
    rewrite is_nan_fields in Na, Nb.
    pose proof (mag_injective a b) as MI. pose proof (mag_zero a) as Za. pose proof (mag_zero b) as Zb.
    pose proof (mag_nonneg a) as Pa. pose proof (mag_nonneg b) as Pb.
    pose proof eb_big as Big.
    clear Ha Hb. unfold is_inf.
    destruct (f_neg kbits a), (f_neg kbits b);
      destruct ((f_exp kbits a =? 2 ^ eb - 1) && (f_frac kbits a =? 0)) eqn:Ia;
      destruct ((f_exp kbits b =? 2 ^ eb - 1) && (f_frac kbits b =? 0)) eqn:Ib;
      cbn [ieee_eq Bool.eqb andb orb]; unfold scaled;
      set (top := 2 ^ eb - 1) in *; set (ma := fst (mag a) * 2 ^ snd (mag a)) in *; set (mb := fst (mag b) * 2 ^ snd (mag b)) in *;
      set (xa := f_exp kbits a) in *; set (xb := f_exp kbits b) in *;
      set (ra := f_frac kbits a) in *; set (rb := f_frac kbits b) in *;
      clearbody top ma mb xa xb ra rb; clearbody eb fb; clear Hk;
      apply eq_true_iff_eq; rewrite ?orb_true_iff, ?andb_true_iff, ?Z.eqb_eq; boolprop;
      (split; intro; try discriminate; intuition lia).
  Qed.
End Width.

(* non-vacuity and sanity: the decoding of the usual constants *)
Example decode_one_32 : decode 32 1065353216 = FFin false (2 ^ 23) 126.      (* 0x3f800000 = 1.0f = 2^23 * 2^(126 - 149) *)
Proof. reflexivity. Qed.
Example decode_minus_zero_64 : decode 64 (2 ^ 63) = FFin true 0 0.
Proof. reflexivity. Qed.
Example decode_nan_32 : decode 32 2143289344 = FNaN.                          (* 0x7fc00000 *)
Proof. reflexivity. Qed.
Example decode_inf_32 : decode 32 4286578688 = FInf true.                     (* 0xff800000 *)
Proof. reflexivity. Qed.
Example zeros_equal_values : ieee_eq (decode 32 0) (decode 32 (2 ^ 31)) = true.
Proof. reflexivity. Qed.
