(* C12 — proofs about definitions and canonical names: duplicate detection, the dicts
   built by the construction, ir_util.find_object. *)
From Coq Require Import List Bool String NArith Arith Lia.
Import ListNotations.
Require Import EmbossV.Scope.Model EmbossV.Scope.Spec.
Open Scope string_scope.
Open Scope list_scope.

(* ---- induction over nested type definitions ---- *)

Section TyInd.
  Variable P : tydef -> Prop.
  Hypothesis Hstep : forall nm line params body subs, Forall P subs -> P (TyDef nm line params body subs).
  Fixpoint tydef_ind' (t : tydef) : P t :=
    match t with
    | TyDef nm line params body subs =>
      Hstep nm line params body subs
            ((fix go (l : list tydef) : Forall P l :=
                match l with
                | [] => Forall_nil P
                | x :: r => Forall_cons x (tydef_ind' x) (go r)
                end) subs)
    end.
End TyInd.

Lemma wf_names_unfold : forall nm line params body subs,
  wf_names (TyDef nm line params body subs) <->
  NoDup (map td_name subs ++ body_names body ++ map pd_name params) /\ Forall wf_names subs.
Proof.
  intros. simpl. split; intros [H1 H2]; split; try exact H1.
  - clear H1. induction subs as [|s r IH]; [constructor|]. destruct H2 as [Ha Hb]. constructor; [exact Ha | apply IH; exact Hb].
  - clear H1. induction subs as [|s r IH]; [exact I|]. inversion H2; subst. split; [assumption | apply IH; assumption].
Qed.

(* ---- generic list facts ---- *)

Lemma flat_map_nil_iff : forall {A B} (f : A -> list B) l, flat_map f l = [] <-> Forall (fun x => f x = []) l.
Proof.
  induction l as [|x l IH]; simpl; split; intro H; try constructor; try reflexivity.
  - apply app_eq_nil in H. tauto.
  - apply IH. apply app_eq_nil in H. tauto.
  - inversion H; subst. rewrite H2. apply IH in H3. rewrite H3. reflexivity.
Qed.

Lemma NoDup_app_iff : forall {A} (a b : list A),
  NoDup (a ++ b) <-> NoDup a /\ NoDup b /\ (forall x, In x a -> ~ In x b).
Proof.
  induction a as [|x a IH]; intro b; simpl.
  - split; [intro H; split; [constructor|split; [exact H|intros ? []]] | tauto].
  - split.
    + intro H. inversion H as [|? ? Hn Hnd]; subst. apply IH in Hnd. destruct Hnd as [Ha [Hb Hd]].
      split; [constructor; [intro Hi; apply Hn; apply in_or_app; left; exact Hi | exact Ha]|].
      split; [exact Hb|]. intros y [Hy|Hy]; [subst; intro Hi; apply Hn; apply in_or_app; right; exact Hi | apply Hd; exact Hy].
    + intros [Ha [Hb Hd]]. inversion Ha as [|? ? Hn Hnd]; subst. constructor.
      * intro Hi. apply in_app_or in Hi. destruct Hi as [Hi|Hi]; [contradiction | apply (Hd x); [left; reflexivity | exact Hi]].
      * apply IH. split; [exact Hnd|]. split; [exact Hb|]. intros y Hy. apply Hd. right. exact Hy.
Qed.

Lemma NoDup_map_of_comp : forall {A B C} (f : A -> B) (h : B -> C) l,
  NoDup (map (fun x => h (f x)) l) -> NoDup (map f l).
Proof.
  induction l as [|x l IH]; simpl; intro H; [constructor|]. inversion H as [|? ? Hn Hnd]; subst.
  constructor; [|apply IH; exact Hnd]. intro Hi. apply Hn. apply in_map_iff in Hi. destruct Hi as [y [Hy Hin]].
  apply in_map_iff. exists y. split; [rewrite Hy; reflexivity | exact Hin].
Qed.

Lemma NoDup_map_inj : forall {A B} (f : A -> B) l,
  (forall x y, f x = f y -> x = y) -> NoDup l -> NoDup (map f l).
Proof.
  induction l as [|x l IH]; simpl; intros Hinj H; [constructor|]. inversion H; subst. constructor; [|apply IH; assumption].
  intro Hi. apply in_map_iff in Hi. destruct Hi as [y [Hy Hin]]. apply Hinj in Hy. subst. contradiction.
Qed.

(* ---- duplicate errors = repeated names ---- *)

Definition cand_name (c : cand) : name := fst (fst c).

Lemma lookup_cons_none : forall {A} n k (v : A) l, lookup n ((k, v) :: l) = None <-> k <> n /\ lookup n l = None.
Proof.
  intros. simpl. destruct (String.eqb k n) eqn:E.
  - apply String.eqb_eq in E. split; [discriminate | intros [H _]; contradiction].
  - apply String.eqb_neq in E. tauto.
Qed.

Lemma dup_errors_aux_nil : forall file l seen,
  dup_errors_aux file seen l = [] <->
  NoDup (map cand_name l) /\ (forall n, In n (map cand_name l) -> lookup n seen = None).
Proof.
  induction l as [|[[n ln] s] r IH]; intro seen; simpl.
  - split; [intros _; split; [constructor | intros ? []] | reflexivity].
  - destruct (lookup n seen) as [orig|] eqn:E.
    + split; [discriminate|]. intros [_ H]. rewrite (H n) in E; [discriminate | left; reflexivity].
    + rewrite IH. split.
      * intros [Hnd Hs]. split.
        -- constructor; [|exact Hnd]. intro Hi. apply Hs in Hi. apply lookup_cons_none in Hi. destruct Hi as [Hi _]. apply Hi. reflexivity.
        -- intros m [Hm|Hm]; [unfold cand_name in Hm; simpl in Hm; subst; exact E|].
           apply Hs in Hm. apply lookup_cons_none in Hm. tauto.
      * intros [Hnd Hs]. inversion Hnd as [|? ? Hn Hnd']; subst. split; [exact Hnd'|].
        intros m Hm. apply lookup_cons_none. split.
        -- intro Heq. subst m. apply Hn. exact Hm.
        -- apply Hs. right. exact Hm.
Qed.

Lemma dup_errors_nil_iff : forall file l, dup_errors file l = [] <-> NoDup (map cand_name l).
Proof.
  intros. unfold dup_errors. rewrite dup_errors_aux_nil. split; [tauto|]. intro H. split; [exact H|]. reflexivity.
Qed.

Lemma field_cands_names : forall cn f,
  map cand_name (field_cands cn f) = fd_name f :: match fd_abbr f with Some (a, _) => [a] | None => [] end.
Proof. intros. unfold field_cands. destruct (fd_abbr f) as [[a l]|]; reflexivity. Qed.

Lemma body_cands_names : forall cn b, map cand_name (body_cands cn b) = body_names b.
Proof.
  intros cn [fs|vs|]; unfold body_cands, body_names; [| |reflexivity].
  - induction fs as [|f fs IH]; [reflexivity|]. cbn [flat_map]. rewrite map_app, IH, field_cands_names. reflexivity.
  - rewrite map_map. reflexivity.
Qed.

Lemma cands_names : forall parent t, map cand_name (cands_of_type parent t) = member_names t.
Proof.
  intros parent t. unfold cands_of_type, member_names, sub_cands. rewrite !map_app, body_cands_names, !map_map. reflexivity.
Qed.

Lemma all_errors_unfold : forall parent t,
  all_errors parent t =
  dup_errors (cn_mod (nested parent (td_name t))) (cands_of_type parent t)
  ++ flat_map (all_errors (nested parent (td_name t))) (td_subs t).
Proof. intros parent [nm line params body subs]. reflexivity. Qed.

Lemma all_errors_nil_wf : forall t parent, all_errors parent t = [] -> wf_names t.
Proof.
  induction t as [nm line params body subs IH] using tydef_ind'. intros parent H.
  rewrite all_errors_unfold in H. apply app_eq_nil in H. destruct H as [H1 H2].
  apply wf_names_unfold. split.
  - apply dup_errors_nil_iff in H1. rewrite cands_names in H1. exact H1.
  - simpl in H2. apply flat_map_nil_iff in H2. rewrite Forall_forall in *. intros s Hs. eapply IH; [exact Hs | apply H2; exact Hs].
Qed.

Lemma no_duplicate_errors_wf : forall mods, no_duplicate_errors mods -> Forall wf_module mods.
Proof.
  intros mods [H1 H2]. apply flat_map_nil_iff in H1. apply flat_map_nil_iff in H2.
  rewrite Forall_forall in *. intros m Hm. split.
  - specialize (H1 m Hm). unfold module_type_errors in H1. apply app_eq_nil in H1. destruct H1 as [H1 _].
    apply dup_errors_nil_iff in H1. unfold sub_cands in H1. rewrite map_map in H1. exact H1.
  - specialize (H2 m Hm). unfold module_member_errors in H2. apply flat_map_nil_iff in H2.
    rewrite Forall_forall in *. intros t Ht. eapply all_errors_nil_wf. apply H2. exact Ht.
Qed.

(* conversely: no repeated name => the construction reports nothing *)
Lemma type_errors_unfold : forall parent t,
  type_errors parent t =
  dup_errors (cn_mod (nested parent (td_name t))) (sub_cands (nested parent (td_name t)) (td_subs t))
  ++ flat_map (type_errors (nested parent (td_name t))) (td_subs t).
Proof. intros parent [nm line params body subs]. reflexivity. Qed.

Lemma wf_all_errors_nil : forall t parent, wf_names t -> all_errors parent t = [].
Proof.
  induction t as [nm line params body subs IH] using tydef_ind'. intros parent H.
  apply wf_names_unfold in H. destruct H as [H1 H2]. rewrite all_errors_unfold.
  assert (E1 : dup_errors (cn_mod (nested parent nm)) (cands_of_type parent (TyDef nm line params body subs)) = []).
  { apply dup_errors_nil_iff. rewrite cands_names. exact H1. }
  simpl td_name. simpl td_subs. rewrite E1. simpl. apply flat_map_nil_iff. rewrite Forall_forall in *.
  intros s Hs. apply IH; [exact Hs | apply H2; exact Hs].
Qed.

Lemma wf_type_errors_nil : forall t parent, wf_names t -> type_errors parent t = [].
Proof.
  induction t as [nm line params body subs IH] using tydef_ind'. intros parent H.
  apply wf_names_unfold in H. destruct H as [H1 H2]. rewrite type_errors_unfold. simpl td_name. simpl td_subs.
  assert (E1 : dup_errors (cn_mod (nested parent nm)) (sub_cands (nested parent nm) subs) = []).
  { apply dup_errors_nil_iff. unfold sub_cands. rewrite map_map. simpl. apply NoDup_app_iff in H1. tauto. }
  rewrite E1. simpl. apply flat_map_nil_iff. rewrite Forall_forall in *.
  intros s Hs. apply IH; [exact Hs | apply H2; exact Hs].
Qed.

Lemma wf_no_duplicate_errors : forall mods, Forall wf_module mods -> no_duplicate_errors mods.
Proof.
  intros mods H. rewrite Forall_forall in H. split; apply flat_map_nil_iff; rewrite Forall_forall; intros m Hm;
    destruct (H m Hm) as [H1 H2]; rewrite Forall_forall in H2.
  - unfold module_type_errors.
    assert (E : dup_errors (m_file m) (sub_cands (module_cn m) (m_types m)) = []).
    { apply dup_errors_nil_iff. unfold sub_cands. rewrite map_map. exact H1. }
    rewrite E. simpl. apply flat_map_nil_iff. rewrite Forall_forall. intros t Ht. apply wf_type_errors_nil. apply H2. exact Ht.
  - unfold module_member_errors. apply flat_map_nil_iff. rewrite Forall_forall. intros t Ht. apply wf_all_errors_nil. apply H2. exact Ht.
Qed.

(* ---- the dict of a scope: first insertion wins, keys unique ---- *)

Fixpoint cand_lookup (n : name) (l : list cand) : option scope :=
  match l with
  | [] => None
  | (k, _, s) :: r => if String.eqb k n then Some s else cand_lookup n r
  end.

Lemma mem_true_iff : forall n l, mem n l = true <-> In n l.
Proof.
  induction l as [|k l IH]; simpl; [split; [discriminate|tauto]|].
  rewrite orb_true_iff, IH, String.eqb_eq. reflexivity.
Qed.

Lemma lookup_dedup_aux : forall n l seen,
  lookup n (dedup_aux seen l) = if mem n seen then None else cand_lookup n l.
Proof.
  induction l as [|[[k ln] s] r IH]; intro seen; simpl.
  - destruct (mem n seen); reflexivity.
  - destruct (mem k seen) eqn:Ek.
    + rewrite IH. destruct (mem n seen) eqn:En; [reflexivity|].
      destruct (String.eqb k n) eqn:E; [|reflexivity]. apply String.eqb_eq in E. subst. congruence.
    + simpl. rewrite IH. simpl. destruct (String.eqb k n) eqn:E.
      * apply String.eqb_eq in E. subst. rewrite Ek. reflexivity.
      * simpl. reflexivity.
Qed.

Lemma lookup_dedup : forall n l, lookup n (dedup l) = cand_lookup n l.
Proof. intros. unfold dedup. rewrite lookup_dedup_aux. reflexivity. Qed.

Lemma dedup_aux_keys : forall l seen,
  NoDup (map fst (dedup_aux seen l)) /\ (forall k, In k (map fst (dedup_aux seen l)) -> ~ In k seen).
Proof.
  induction l as [|[[k ln] s] r IH]; intro seen; simpl.
  - split; [constructor | intros ? []].
  - destruct (mem k seen) eqn:Ek; [apply IH|].
    destruct (IH (k :: seen)) as [H1 H2]. simpl. split.
    + constructor; [|exact H1]. intro Hi. apply H2 in Hi. apply Hi. left. reflexivity.
    + intros k' [Hk|Hk].
      * subst. intro Hi. apply mem_true_iff in Hi. congruence.
      * intro Hi. apply (H2 k' Hk). right. exact Hi.
Qed.

(* the dict of every scope has unique keys *)
Lemma dedup_keys_unique : forall l, NoDup (map fst (dedup l)).
Proof. intro l. apply (dedup_aux_keys l []). Qed.

Lemma scope_of_type_entries : forall parent t n,
  lookup n (sc_ents (scope_of_type parent t)) = cand_lookup n (cands_of_type parent t).
Proof. intros parent [nm line params body subs] n. simpl. apply lookup_dedup. Qed.

Lemma scope_of_type_cn : forall parent t, sc_cn (scope_of_type parent t) = nested parent (td_name t).
Proof. intros parent [nm line params body subs]. reflexivity. Qed.

Lemma scope_of_type_vis : forall parent t, sc_vis (scope_of_type parent t) = SEARCHABLE.
Proof. intros parent [nm line params body subs]. reflexivity. Qed.

Lemma cand_lookup_app : forall n a b,
  cand_lookup n (a ++ b) = match cand_lookup n a with Some s => Some s | None => cand_lookup n b end.
Proof.
  induction a as [|[[k ln] s] a IH]; intro b; simpl; [reflexivity|].
  destruct (String.eqb k n); [reflexivity | apply IH].
Qed.

Lemma cand_lookup_none : forall n l, ~ In n (map cand_name l) -> cand_lookup n l = None.
Proof.
  induction l as [|[[k ln] s] l IH]; simpl; intro H; [reflexivity|].
  destruct (String.eqb k n) eqn:E; [apply String.eqb_eq in E; subst; exfalso; apply H; left; reflexivity|].
  apply IH. intro Hi. apply H. right. exact Hi.
Qed.

Lemma cand_lookup_sub : forall cn subs t,
  NoDup (map td_name subs) -> In t subs ->
  cand_lookup (td_name t) (sub_cands cn subs) = Some (scope_of_type cn t).
Proof.
  induction subs as [|s subs IH]; intros t Hnd Hin; [destruct Hin|]. simpl in *.
  inversion Hnd as [|? ? Hn Hnd']; subst. destruct Hin as [Hin|Hin].
  - subst. rewrite String.eqb_refl. reflexivity.
  - destruct (String.eqb (td_name s) (td_name t)) eqn:E.
    + apply String.eqb_eq in E. exfalso. apply Hn. rewrite E. apply in_map. exact Hin.
    + apply IH; assumption.
Qed.

(* a subtype is held by its parent's dict under its name, SEARCHABLE, with its canonical name *)
Lemma subtype_entry : forall parent T t,
  wf_names T -> In t (td_subs T) ->
  lookup (td_name t) (sc_ents (scope_of_type parent T)) = Some (scope_of_type (nested parent (td_name T)) t).
Proof.
  intros parent [nm line params body subs] t Hwf Hin. rewrite scope_of_type_entries.
  apply wf_names_unfold in Hwf. destruct Hwf as [Hnd _]. apply NoDup_app_iff in Hnd. destruct Hnd as [Hnd _].
  unfold cands_of_type. simpl td_name. simpl td_subs. rewrite cand_lookup_app.
  simpl in Hin. rewrite (cand_lookup_sub _ _ _ Hnd Hin). reflexivity.
Qed.

(* an abbreviation is held as a PRIVATE entry carrying the canonical name of its field *)
Lemma abbreviation_entry_private_lem : forall cn f a l c,
  fd_abbr f = Some (a, l) -> In c (field_cands cn f) -> cand_name c = a -> a <> fd_name f ->
  sc_vis (snd c) = PRIVATE /\ sc_cn (snd c) = nested cn (fd_name f).
Proof.
  intros cn f a l c Ha Hin Hc Hne. unfold field_cands in Hin. rewrite Ha in Hin.
  destruct Hin as [Hin|[Hin|[]]]; subst c; unfold cand_name in Hc; simpl in Hc.
  - congruence.
  - simpl. split; reflexivity.
Qed.

(* ---- ir_util.find_object ---- *)

Lemma find_in_type_cons : forall nm line params body subs n rest,
  find_in_type (TyDef nm line params body subs) (n :: rest) =
  match (if is_nil rest then option_map OParam (find_param n params) else None) with
  | Some o => Some o
  | None =>
    match (match body with
           | BStruct fs => match find_field n fs with
                           | Some f => if is_nil rest then Some (OField f) else None
                           | None => None
                           end
           | BEnum vs => if is_nil rest then option_map OValue (find_value n vs) else None
           | BExternal => None
           end) with
    | Some o => Some o
    | None => find_in_types subs n rest
    end
  end.
Proof.
  intros. cbn [find_in_type].
  destruct (if is_nil rest then option_map OParam (find_param n params) else None); [reflexivity|].
  match goal with |- match ?b with Some o => Some o | None => _ end = _ => destruct b; [reflexivity|] end.
  induction subs as [|s subs IH]; [reflexivity|]. cbn [find_in_types].
  destruct (String.eqb (td_name s) n); [reflexivity | exact IH].
Qed.

Lemma find_param_in : forall ps p, NoDup (map pd_name ps) -> In p ps -> find_param (pd_name p) ps = Some p.
Proof.
  induction ps as [|q ps IH]; intros p Hnd Hin; [destruct Hin|]. simpl in *. inversion Hnd as [|? ? Hn Hnd']; subst.
  destruct Hin as [Hin|Hin]; [subst; rewrite String.eqb_refl; reflexivity|].
  destruct (String.eqb (pd_name q) (pd_name p)) eqn:E; [|apply IH; assumption].
  apply String.eqb_eq in E. exfalso. apply Hn. rewrite E. apply in_map. exact Hin.
Qed.
Lemma find_field_in : forall fs f, NoDup (map fd_name fs) -> In f fs -> find_field (fd_name f) fs = Some f.
Proof.
  induction fs as [|q fs IH]; intros f Hnd Hin; [destruct Hin|]. simpl in *. inversion Hnd as [|? ? Hn Hnd']; subst.
  destruct Hin as [Hin|Hin]; [subst; rewrite String.eqb_refl; reflexivity|].
  destruct (String.eqb (fd_name q) (fd_name f)) eqn:E; [|apply IH; assumption].
  apply String.eqb_eq in E. exfalso. apply Hn. rewrite E. apply in_map. exact Hin.
Qed.
Lemma find_value_in : forall vs v, NoDup (map vd_name vs) -> In v vs -> find_value (vd_name v) vs = Some v.
Proof.
  induction vs as [|q vs IH]; intros v Hnd Hin; [destruct Hin|]. simpl in *. inversion Hnd as [|? ? Hn Hnd']; subst.
  destruct Hin as [Hin|Hin]; [subst; rewrite String.eqb_refl; reflexivity|].
  destruct (String.eqb (vd_name q) (vd_name v)) eqn:E; [|apply IH; assumption].
  apply String.eqb_eq in E. exfalso. apply Hn. rewrite E. apply in_map. exact Hin.
Qed.
Lemma find_in_types_in : forall ts t rest, NoDup (map td_name ts) -> In t ts ->
  find_in_types ts (td_name t) rest = find_in_type t rest.
Proof.
  induction ts as [|q ts IH]; intros t rest Hnd Hin; [destruct Hin|]. simpl in *. inversion Hnd as [|? ? Hn Hnd']; subst.
  destruct Hin as [Hin|Hin]; [subst; rewrite String.eqb_refl; reflexivity|].
  destruct (String.eqb (td_name q) (td_name t)) eqn:E; [|apply IH; assumption].
  apply String.eqb_eq in E. exfalso. apply Hn. rewrite E. apply in_map. exact Hin.
Qed.

Lemma find_param_none : forall n ps, ~ In n (map pd_name ps) -> find_param n ps = None.
Proof.
  induction ps as [|q ps IH]; simpl; intro H; [reflexivity|].
  destruct (String.eqb (pd_name q) n) eqn:E; [apply String.eqb_eq in E; exfalso; apply H; left; exact E|].
  apply IH. intro Hi. apply H. right. exact Hi.
Qed.
Lemma find_field_none : forall n fs, ~ In n (map fd_name fs) -> find_field n fs = None.
Proof.
  induction fs as [|q fs IH]; simpl; intro H; [reflexivity|].
  destruct (String.eqb (fd_name q) n) eqn:E; [apply String.eqb_eq in E; exfalso; apply H; left; exact E|].
  apply IH. intro Hi. apply H. right. exact Hi.
Qed.
Lemma find_value_none : forall n vs, ~ In n (map vd_name vs) -> find_value n vs = None.
Proof.
  induction vs as [|q vs IH]; simpl; intro H; [reflexivity|].
  destruct (String.eqb (vd_name q) n) eqn:E; [apply String.eqb_eq in E; exfalso; apply H; left; exact E|].
  apply IH. intro Hi. apply H. right. exact Hi.
Qed.

Lemma field_names_in_body_names : forall fs n, In n (map fd_name fs) -> In n (body_names (BStruct fs)).
Proof.
  induction fs as [|f fs IH]; simpl; intros n H; [exact H|]. destruct H as [H|H].
  - left. exact H.
  - right. apply in_or_app. right. apply IH. exact H.
Qed.

Lemma body_names_nodup_fields : forall fs, NoDup (body_names (BStruct fs)) -> NoDup (map fd_name fs).
Proof.
  induction fs as [|f fs IH]; simpl; intro H; [constructor|].
  inversion H as [|? ? Hn Hnd]; subst. apply NoDup_app_iff in Hnd. destruct Hnd as [_ [Hnd _]].
  constructor; [|apply IH; exact Hnd]. intro Hi. apply Hn. apply in_or_app. right. apply field_names_in_body_names. exact Hi.
Qed.

Lemma body_rdefs_names : forall b p d, In (p, d) (body_rdefs b) -> exists n, p = [n] /\ In n (body_names b) /\ obj_name d = Some n.
Proof.
  intros [fs|vs|] p d H; simpl in H; [| |destruct H].
  - apply in_map_iff in H. destruct H as [f [Hf Hin]]. inversion Hf; subst. exists (fd_name f).
    split; [reflexivity|]. split; [|reflexivity]. apply field_names_in_body_names. apply in_map. exact Hin.
  - apply in_map_iff in H. destruct H as [v [Hv Hin]]. inversion Hv; subst. exists (vd_name v).
    split; [reflexivity|]. split; [|reflexivity]. simpl. apply in_map. exact Hin.
Qed.

(* canonical_name_roundtrip, inside one type definition *)
Lemma find_in_type_roundtrip : forall t, wf_names t ->
  forall p d, In (p, d) (rdefs t) -> exists q, p = td_name t :: q /\ find_in_type t q = Some d.
Proof.
  induction t as [nm line params body subs IH] using tydef_ind'. intros Hwf p d Hin.
  apply wf_names_unfold in Hwf. destruct Hwf as [Hnd Hsubs].
  apply NoDup_app_iff in Hnd. destruct Hnd as [Hnd_s [Hnd_bp Hdis_s]].
  apply NoDup_app_iff in Hnd_bp. destruct Hnd_bp as [Hnd_b [Hnd_p Hdis_b]].
  cbn [rdefs] in Hin. simpl td_name. destruct Hin as [Hin|Hin].
  { inversion Hin; subst. exists []. split; reflexivity. }
  apply in_app_or in Hin. destruct Hin as [Hin|Hin].
  { apply in_map_iff in Hin. destruct Hin as [pp [Hpp Hin]]. inversion Hpp; subst. exists [pd_name pp]. split; [reflexivity|].
    rewrite find_in_type_cons. simpl is_nil. cbv iota. rewrite (find_param_in _ _ Hnd_p Hin). reflexivity. }
  apply in_app_or in Hin. destruct Hin as [Hin|Hin].
  { apply in_map_iff in Hin. destruct Hin as [[p0 d0] [Hpd Hin]]. simpl in Hpd. inversion Hpd; subst.
    destruct (body_rdefs_names _ _ _ Hin) as [n [Hp0 [Hn _]]]. subst p0. exists [n]. split; [reflexivity|].
    rewrite find_in_type_cons. simpl is_nil. cbv iota.
    rewrite (find_param_none n params) by (intro Hi; apply (Hdis_b n Hn); exact Hi). simpl option_map. cbv iota.
    destruct body as [fs|vs|]; simpl in Hin; [| |destruct Hin].
    - apply in_map_iff in Hin. destruct Hin as [f [Hf Hin]]. inversion Hf; subst.
      rewrite (find_field_in _ _ (body_names_nodup_fields _ Hnd_b) Hin). reflexivity.
    - apply in_map_iff in Hin. destruct Hin as [v [Hv Hin]]. inversion Hv; subst.
      rewrite (find_value_in _ _ Hnd_b Hin). reflexivity. }
  apply in_flat_map in Hin. destruct Hin as [s [Hs Hin]]. apply in_map_iff in Hin. destruct Hin as [[p0 d0] [Hpd Hin]].
  simpl in Hpd. inversion Hpd; subst. rewrite Forall_forall in IH, Hsubs.
  destruct (IH s Hs (Hsubs s Hs) p0 d Hin) as [q [Hp0 Hf]]. subst p0. exists (td_name s :: q). split; [reflexivity|].
  rewrite find_in_type_cons.
  assert (Hsn : In (td_name s) (map td_name subs)) by (apply in_map; exact Hs).
  assert (Hnot_bp : ~ In (td_name s) (body_names body ++ map pd_name params)) by (apply Hdis_s; exact Hsn).
  assert (Hp : (if is_nil q then option_map OParam (find_param (td_name s) params) else None) = None).
  { destruct (is_nil q); [|reflexivity]. rewrite find_param_none; [reflexivity|].
    intro Hi. apply Hnot_bp. apply in_or_app. right. exact Hi. }
  rewrite Hp.
  assert (Hb : match body with
               | BStruct fs => match find_field (td_name s) fs with
                               | Some f => if is_nil q then Some (OField f) else None
                               | None => None
                               end
               | BEnum vs => if is_nil q then option_map OValue (find_value (td_name s) vs) else None
               | BExternal => None
               end = None).
  { destruct body as [fs|vs|]; [| |reflexivity].
    - rewrite find_field_none; [reflexivity|]. intro Hi. apply Hnot_bp. apply in_or_app. left.
      apply field_names_in_body_names. exact Hi.
    - destruct (is_nil q); [|reflexivity]. rewrite find_value_none; [reflexivity|].
      intro Hi. apply Hnot_bp. apply in_or_app. left. exact Hi. }
  rewrite Hb. rewrite (find_in_types_in _ _ _ Hnd_s Hs). exact Hf.
Qed.

(* every relative path starts with the type's own name *)
Lemma rdefs_head : forall t p d, In (p, d) (rdefs t) -> exists q, p = td_name t :: q.
Proof.
  intros [nm line params body subs] p d Hin. cbn [rdefs] in Hin. simpl td_name.
  destruct Hin as [Hin|Hin]; [inversion Hin; subst; eexists; reflexivity|].
  apply in_app_or in Hin. destruct Hin as [Hin|Hin].
  { apply in_map_iff in Hin. destruct Hin as [pp [Hpp _]]. inversion Hpp; subst. eexists; reflexivity. }
  apply in_app_or in Hin. destruct Hin as [Hin|Hin].
  { apply in_map_iff in Hin. destruct Hin as [[p0 d0] [Hpd _]]. simpl in Hpd. inversion Hpd; subst. eexists; reflexivity. }
  apply in_flat_map in Hin. destruct Hin as [s [_ Hin]]. apply in_map_iff in Hin. destruct Hin as [[p0 d0] [Hpd _]].
  simpl in Hpd. inversion Hpd; subst. eexists; reflexivity.
Qed.

Definition rpaths (t : tydef) : list (list name) := map fst (rdefs t).

Lemma rpaths_head : forall t p, In p (rpaths t) -> exists q, p = td_name t :: q.
Proof.
  intros t p H. unfold rpaths in H. apply in_map_iff in H. destruct H as [[p0 d] [Hp Hin]]. simpl in Hp. subst.
  eapply rdefs_head. exact Hin.
Qed.

Lemma NoDup_flat_map_by_head : forall (ts : list tydef),
  NoDup (map td_name ts) -> Forall (fun t => NoDup (rpaths t)) ts -> NoDup (flat_map rpaths ts).
Proof.
  induction ts as [|t ts IH]; simpl; intros Hnd Hall; [constructor|].
  inversion Hnd as [|? ? Hn Hnd']; subst. inversion Hall as [|? ? Ht Hall']; subst.
  apply NoDup_app_iff. split; [exact Ht|]. split; [apply IH; assumption|].
  intros p Hp Hq. apply rpaths_head in Hp. destruct Hp as [q Hp]. subst p.
  apply in_flat_map in Hq. destruct Hq as [t' [Ht' Hq]]. apply rpaths_head in Hq. destruct Hq as [q' Hq].
  inversion Hq as [Heq]. apply Hn. rewrite Heq. apply in_map. exact Ht'.
Qed.

Lemma rpaths_unfold : forall nm line params body subs,
  rpaths (TyDef nm line params body subs) =
  [nm] :: map (cons nm) (map (fun p => [pd_name p]) params ++ map fst (body_rdefs body) ++ flat_map rpaths subs).
Proof.
  intros. unfold rpaths. cbn [rdefs]. simpl map. f_equal. rewrite !map_app, !map_map. f_equal. f_equal.
  induction subs as [|s subs IH]; [reflexivity|]. simpl. rewrite !map_app, IH, !map_map. reflexivity.
Qed.

Lemma body_rdefs_paths : forall b, map fst (body_rdefs b) = map (fun n => [n]) (match b with BStruct fs => map fd_name fs | BEnum vs => map vd_name vs | BExternal => [] end).
Proof. intros [fs|vs|]; simpl; rewrite ?map_map; reflexivity. Qed.

(* canonical names are unique inside one type definition *)
Lemma rpaths_nodup : forall t, wf_names t -> NoDup (rpaths t).
Proof.
  induction t as [nm line params body subs IH] using tydef_ind'. intro Hwf.
  apply wf_names_unfold in Hwf. destruct Hwf as [Hnd Hsubs].
  apply NoDup_app_iff in Hnd. destruct Hnd as [Hnd_s [Hnd_bp Hdis_s]].
  apply NoDup_app_iff in Hnd_bp. destruct Hnd_bp as [Hnd_b [Hnd_p Hdis_b]].
  rewrite rpaths_unfold. constructor.
  - intro Hi. apply in_map_iff in Hi. destruct Hi as [q [Hq Hin]]. inversion Hq as [Hq']. subst q.
    apply in_app_or in Hin. destruct Hin as [Hin|Hin].
    { apply in_map_iff in Hin. destruct Hin as [? [Hx _]]. discriminate. }
    apply in_app_or in Hin. destruct Hin as [Hin|Hin].
    { rewrite body_rdefs_paths in Hin. apply in_map_iff in Hin. destruct Hin as [? [Hx _]]. discriminate. }
    apply in_flat_map in Hin. destruct Hin as [s [_ Hin]]. apply rpaths_head in Hin. destruct Hin as [? Hx]. discriminate.
  - apply NoDup_map_inj; [intros x y Hxy; inversion Hxy; reflexivity|].
    set (bn := match body with BStruct fs => map fd_name fs | BEnum vs => map vd_name vs | BExternal => [] end).
    assert (Hbn_sub : forall n, In n bn -> In n (body_names body)).
    { intros n Hn. destruct body as [fs|vs|]; [apply field_names_in_body_names; exact Hn | exact Hn | destruct Hn]. }
    assert (Hbn_nd : NoDup bn).
    { destruct body as [fs|vs|]; [apply body_names_nodup_fields; exact Hnd_b | exact Hnd_b | constructor]. }
    apply NoDup_app_iff. split; [|split].
    + replace (map (fun p => [pd_name p]) params) with (map (fun n : name => [n]) (map pd_name params))
        by (rewrite map_map; reflexivity).
      apply NoDup_map_inj; [intros x y Hxy; inversion Hxy; reflexivity | exact Hnd_p].
    + apply NoDup_app_iff. split; [|split].
      * rewrite body_rdefs_paths. fold bn. apply NoDup_map_inj; [intros x y Hxy; inversion Hxy; reflexivity | exact Hbn_nd].
      * apply NoDup_flat_map_by_head; [exact Hnd_s|]. rewrite Forall_forall in *. intros s Hs. apply IH; [exact Hs | apply Hsubs; exact Hs].
      * intros p Hp Hq. rewrite body_rdefs_paths in Hp. fold bn in Hp. apply in_map_iff in Hp. destruct Hp as [n [Hn Hin]]. subst p.
        apply in_flat_map in Hq. destruct Hq as [s [Hs Hq]]. apply rpaths_head in Hq. destruct Hq as [q Hq]. inversion Hq; subst.
        apply (Hdis_s (td_name s)); [apply in_map; exact Hs|]. apply in_or_app. left. apply Hbn_sub. exact Hin.
    + intros p Hp Hq. apply in_map_iff in Hp. destruct Hp as [pp [Hpp Hin]]. subst p.
      apply in_app_or in Hq. destruct Hq as [Hq|Hq].
      * rewrite body_rdefs_paths in Hq. fold bn in Hq. apply in_map_iff in Hq. destruct Hq as [n [Hn Hin']]. inversion Hn; subst.
        apply (Hdis_b (pd_name pp)); [apply Hbn_sub; exact Hin' | apply in_map; exact Hin].
      * apply in_flat_map in Hq. destruct Hq as [s [Hs Hq]]. apply rpaths_head in Hq. destruct Hq as [q Hq]. inversion Hq as [Heq].
        apply (Hdis_s (td_name s)); [apply in_map; exact Hs|]. apply in_or_app. right. rewrite <- Heq. apply in_map. exact Hin.
Qed.

(* ---- whole IR ---- *)

Lemma find_module_in : forall mods m, NoDup (map m_file mods) -> In m mods -> find_module (m_file m) mods = Some m.
Proof.
  induction mods as [|q mods IH]; intros m Hnd Hin; [destruct Hin|]. simpl in *. inversion Hnd as [|? ? Hn Hnd']; subst.
  destruct Hin as [Hin|Hin]; [subst; rewrite String.eqb_refl; reflexivity|].
  destruct (String.eqb (m_file q) (m_file m)) eqn:E; [|apply IH; assumption].
  apply String.eqb_eq in E. exfalso. apply Hn. rewrite E. apply in_map. exact Hin.
Qed.

Lemma canonical_name_roundtrip_lem : forall mods,
  NoDup (map m_file mods) -> Forall wf_module mods ->
  forall cn d, In (cn, d) (defs_of mods) -> find_object mods cn = Some d.
Proof.
  intros mods Hfiles Hwf cn d Hin. unfold defs_of in Hin. apply in_flat_map in Hin. destruct Hin as [m [Hm Hin]].
  rewrite Forall_forall in Hwf. destruct (Hwf m Hm) as [Hnd Hts]. rewrite Forall_forall in Hts.
  unfold defs_of_module in Hin. destruct Hin as [Hin|Hin].
  - inversion Hin; subst. unfold find_object. simpl. rewrite (find_module_in _ _ Hfiles Hm). reflexivity.
  - apply in_flat_map in Hin. destruct Hin as [t [Ht Hin]]. apply in_map_iff in Hin. destruct Hin as [[p d0] [Hpd Hin]].
    simpl in Hpd. inversion Hpd; subst.
    destruct (find_in_type_roundtrip t (Hts t Ht) p d Hin) as [q [Hp Hf]]. subst p.
    unfold find_object. simpl. rewrite (find_module_in _ _ Hfiles Hm). rewrite (find_in_types_in _ _ _ Hnd Ht). exact Hf.
Qed.

Lemma defs_of_module_names : forall m, map fst (defs_of_module m) = module_cn m :: map (CN (m_file m)) (flat_map rpaths (m_types m)).
Proof.
  intro m. unfold defs_of_module. simpl. f_equal.
  induction (m_types m) as [|t ts IH]; [reflexivity|]. simpl. rewrite !map_app, IH. f_equal.
  unfold rpaths. rewrite !map_map. reflexivity.
Qed.

Lemma defs_of_module_file : forall m cn, In cn (map fst (defs_of_module m)) -> cn_mod cn = m_file m.
Proof.
  intros m cn H. rewrite defs_of_module_names in H. destruct H as [H|H]; [subst; reflexivity|].
  apply in_map_iff in H. destruct H as [p [Hp _]]. subst. reflexivity.
Qed.

Lemma canonical_names_unique_lem : forall mods,
  NoDup (map m_file mods) -> Forall wf_module mods -> NoDup (map fst (defs_of mods)).
Proof.
  induction mods as [|m mods IH]; intros Hfiles Hwf; [constructor|].
  inversion Hfiles as [|? ? Hn Hfiles']; subst. inversion Hwf as [|? ? Hm Hwf']; subst.
  unfold defs_of. cbn [flat_map]. rewrite map_app. apply NoDup_app_iff. split; [|split].
  - rewrite defs_of_module_names. destruct Hm as [Hnd Hts]. constructor.
    + intro Hi. apply in_map_iff in Hi. destruct Hi as [p [Hp Hin]]. unfold module_cn in Hp. inversion Hp; subst.
      apply in_flat_map in Hin. destruct Hin as [t [_ Hin]]. apply rpaths_head in Hin. destruct Hin as [? Hx]. discriminate.
    + apply NoDup_map_inj; [intros x y Hxy; inversion Hxy; reflexivity|].
      apply NoDup_flat_map_by_head; [exact Hnd|]. rewrite Forall_forall in *. intros t Ht. apply rpaths_nodup. apply Hts. exact Ht.
  - apply IH; assumption.
  - intros cn H1 H2. apply defs_of_module_file in H1.
    fold (defs_of mods) in H2. unfold defs_of in H2. apply in_map_iff in H2. destruct H2 as [[cn' d] [Hc H2]]. simpl in Hc. subst cn'.
    apply in_flat_map in H2. destruct H2 as [m' [Hm' H2]].
    assert (cn_mod cn = m_file m') by (apply defs_of_module_file; apply in_map_iff; exists (cn, d); split; [reflexivity|exact H2]).
    apply Hn. rewrite <- H1, H. apply in_map. exact Hm'.
Qed.

(* ---- what find_object returns carries the requested name (never an abbreviation) ---- *)

Lemma find_param_name : forall n ps p, find_param n ps = Some p -> pd_name p = n.
Proof.
  induction ps as [|q ps IH]; simpl; intros p H; [discriminate|].
  destruct (String.eqb (pd_name q) n) eqn:E; [inversion H; subst; apply String.eqb_eq; exact E | apply IH; exact H].
Qed.
Lemma find_field_name : forall n fs f, find_field n fs = Some f -> fd_name f = n.
Proof.
  induction fs as [|q fs IH]; simpl; intros f H; [discriminate|].
  destruct (String.eqb (fd_name q) n) eqn:E; [inversion H; subst; apply String.eqb_eq; exact E | apply IH; exact H].
Qed.
Lemma find_value_name : forall n vs v, find_value n vs = Some v -> vd_name v = n.
Proof.
  induction vs as [|q vs IH]; simpl; intros v H; [discriminate|].
  destruct (String.eqb (vd_name q) n) eqn:E; [inversion H; subst; apply String.eqb_eq; exact E | apply IH; exact H].
Qed.

Lemma find_in_types_some : forall ts x q o, find_in_types ts x q = Some o ->
  exists t, In t ts /\ td_name t = x /\ find_in_type t q = Some o.
Proof.
  induction ts as [|t ts IH]; simpl; intros x q o H; [discriminate|].
  destruct (String.eqb (td_name t) x) eqn:E.
  - exists t. split; [left; reflexivity|]. split; [apply String.eqb_eq; exact E | exact H].
  - destruct (IH _ _ _ H) as [t' [H1 H2]]. exists t'. split; [right; exact H1 | exact H2].
Qed.

Lemma find_in_type_nil : forall t, find_in_type t [] = Some (OType t).
Proof. intros [nm line params body subs]. reflexivity. Qed.

Lemma find_in_type_last_name : forall t q n o, find_in_type t (q ++ [n]) = Some o -> obj_name o = Some n.
Proof.
  induction t as [nm line params body subs IH] using tydef_ind'. intros q n o H.
  destruct q as [|x q].
  - simpl app in H. rewrite find_in_type_cons in H. simpl is_nil in H. cbv iota in H.
    destruct (find_param n params) as [p|] eqn:Ep.
    { simpl in H. inversion H; subst. simpl. f_equal. eapply find_param_name. exact Ep. }
    simpl option_map in H. cbv iota in H.
    destruct body as [fs|vs|].
    + destruct (find_field n fs) as [f|] eqn:Ef.
      { inversion H; subst. simpl. f_equal. eapply find_field_name. exact Ef. }
      apply find_in_types_some in H. destruct H as [t [_ [Hn Hf]]]. rewrite find_in_type_nil in Hf. inversion Hf; subst. reflexivity.
    + destruct (find_value n vs) as [v|] eqn:Ev.
      { simpl in H. inversion H; subst. simpl. f_equal. eapply find_value_name. exact Ev. }
      simpl in H. apply find_in_types_some in H. destruct H as [t [_ [Hn Hf]]]. rewrite find_in_type_nil in Hf. inversion Hf; subst. reflexivity.
    + apply find_in_types_some in H. destruct H as [t [_ [Hn Hf]]]. rewrite find_in_type_nil in Hf. inversion Hf; subst. reflexivity.
  - simpl app in H. rewrite find_in_type_cons in H.
    assert (Hnil : is_nil (q ++ [n]) = false) by (destruct q; reflexivity). rewrite Hnil in H.
    assert (Hb : match body with
                 | BStruct fs => match find_field x fs with Some f => None | None => None end
                 | BEnum vs => None
                 | BExternal => None
                 end = (None : option obj)) by (destruct body as [fs|vs|]; [destruct (find_field x fs)| |]; reflexivity).
    destruct body as [fs|vs|]; [destruct (find_field x fs)| |];
      apply find_in_types_some in H; destruct H as [t [Ht [_ Hf]]]; rewrite Forall_forall in IH; eapply IH; eassumption.
Qed.

Lemma find_object_member_name_lem : forall mods c n o, find_object mods (nested c n) = Some o -> obj_name o = Some n.
Proof.
  intros mods c n o H. unfold find_object, nested in H. simpl in H.
  destruct (find_module (cn_mod c) mods) as [m|]; [|discriminate].
  destruct (cn_path c) as [|x q] eqn:Ep; simpl in H.
  - apply find_in_types_some in H. destruct H as [t [_ [Hn Hf]]]. rewrite find_in_type_nil in Hf. inversion Hf; subst. reflexivity.
  - apply find_in_types_some in H. destruct H as [t [_ [_ Hf]]]. eapply find_in_type_last_name. exact Hf.
Qed.

Lemma duplicate_errors_iff_lem : forall mods, no_duplicate_errors mods <-> Forall wf_module mods.
Proof. intro mods. split; [apply no_duplicate_errors_wf | apply wf_no_duplicate_errors]. Qed.

Lemma canonical_name_roundtrip_full_lem : forall mods,
  NoDup (map m_file mods) -> no_duplicate_errors mods ->
  (forall cn d, In (cn, d) (defs_of mods) -> find_object mods cn = Some d)
  /\ NoDup (map fst (defs_of mods)).
Proof.
  intros mods Hf He. apply no_duplicate_errors_wf in He. split.
  - apply canonical_name_roundtrip_lem; assumption.
  - apply canonical_names_unique_lem; assumption.
Qed.
