(* C12 — the pass as a whole: a module is accepted by resolve_symbols iff no scope holds a
   name twice and every reference, taken alone, resolves without error. *)
From Coq Require Import List Bool String NArith Arith Lia.
Import ListNotations.
Require Import EmbossV.Scope.Model EmbossV.Scope.Spec EmbossV.Scope.ProofsObjects.
Open Scope string_scope.
Open Scope list_scope.

Local Opaque tail_walk search.

(* one reference, no earlier error: resolved without error, or unresolved with an error *)
Lemma resolve_ref_false_shape : forall tbl mods rs r es,
  resolve_ref tbl mods false rs = Some (r, es) ->
  (es = [] /\ exists cn, r = Some cn) \/ (es <> [] /\ r = None).
Proof.
  intros tbl mods rs r es H. unfold resolve_ref in H.
  destruct (r_names (rs_ref rs)) as [|[n l] rest]; [discriminate|].
  destruct (visible_scopes mods (rs_site rs)) as [vs|]; [|discriminate].
  destruct (search tbl (st_mod (rs_site rs)) (r_line (rs_ref rs)) n (current_scope (rs_site rs))
                   (r_local (rs_ref rs)) vs None []) as [[found aerrs]|]; [|discriminate].
  destruct found as [[sf stf]|].
  - rewrite app_nil_r in H. destruct aerrs as [|a aerrs'].
    + destruct (tail_walk tbl stf ((n, l) :: rest)) as [tgt| |]; [destruct (path_empty (sc_cn tgt))| |]; inversion H; subst.
      * right. split; [discriminate | reflexivity].
      * left. split; [reflexivity | eexists; reflexivity].
      * right. split; [discriminate | reflexivity].
    + inversion H; subst. right. split; [discriminate | reflexivity].
  - inversion H; subst. right. split; [destruct aerrs; discriminate | reflexivity].
Qed.

(* once the shared error list is non-empty nothing is resolved any more *)
Lemma resolve_ref_after_error : forall tbl mods rs r es,
  resolve_ref tbl mods true rs = Some (r, es) -> r = None.
Proof.
  intros tbl mods rs r es H. unfold resolve_ref in H.
  destruct (r_names (rs_ref rs)) as [|[n l] rest]; [discriminate|].
  destruct (visible_scopes mods (rs_site rs)) as [vs|]; [|discriminate].
  destruct (search tbl (st_mod (rs_site rs)) (r_line (rs_ref rs)) n (current_scope (rs_site rs))
                   (r_local (rs_ref rs)) vs None []) as [[found aerrs]|]; [|discriminate].
  destruct found as [[sf stf]|]; [|inversion H; reflexivity].
  destruct (aerrs ++ []); inversion H; reflexivity.
Qed.

Lemma resolve_refs_errors_persist : forall tbl mods l cs es,
  resolve_refs tbl mods true l = Some (cs, es) -> Forall (fun c => c = None) cs.
Proof.
  induction l as [|rs l IH]; intros cs es H; simpl in H.
  - inversion H; subst. constructor.
  - destruct (resolve_ref tbl mods true rs) as [[c e1]|] eqn:E1; [|discriminate].
    simpl in H. destruct (resolve_refs tbl mods true l) as [[cs' es']|] eqn:E2; [|discriminate].
    inversion H; subst. constructor; [eapply resolve_ref_after_error; exact E1 | apply (IH _ _ eq_refl)].
Qed.

(* the pass reports nothing iff every reference resolves alone; then the results are those *)
Lemma resolve_refs_accepted_iff : forall tbl mods l cs es,
  resolve_refs tbl mods false l = Some (cs, es) ->
  (es = [] <-> Forall2 (fun rs c => exists cn, c = Some cn /\ resolve_ref tbl mods false rs = Some (Some cn, [])) l cs).
Proof.
  induction l as [|rs l IH]; intros cs es H; simpl in H.
  - inversion H; subst. split; [constructor | reflexivity].
  - destruct (resolve_ref tbl mods false rs) as [[c e1]|] eqn:E1; [|discriminate].
    destruct (resolve_ref_false_shape _ _ _ _ _ E1) as [[He [cn Hc]] | [He Hc]].
    + subst e1 c. simpl in H. destruct (resolve_refs tbl mods false l) as [[cs' es']|] eqn:E2; [|discriminate].
      inversion H; subst. simpl. rewrite (IH _ _ eq_refl). split.
      * intro Hf. constructor; [exists cn; split; [reflexivity | exact E1] | exact Hf].
      * intro Hf. inversion Hf; subst. assumption.
    + assert (Hne : nonempty e1 = true) by (destruct e1; [congruence | reflexivity]).
      simpl in H. rewrite Hne in H.
      destruct (resolve_refs tbl mods true l) as [[cs' es']|] eqn:E2; [|discriminate].
      inversion H; subst. split.
      * intro Hnil. apply app_eq_nil in Hnil. tauto.
      * intro Hf. inversion Hf as [|? ? ? ? [cn [Hcn _]]]; subst. discriminate.
Qed.

Lemma all_some_map : forall {A} (l : list (option A)) x, all_some l = Some x -> l = map Some x.
Proof.
  induction l as [|[a|] l IH]; intros x H; simpl in H; [inversion H; reflexivity| |discriminate].
  destruct (all_some l) as [y|]; [|discriminate]. inversion H; subst. simpl. f_equal. apply IH. reflexivity.
Qed.

Lemma nonempty_false : forall {A} (l : list A), nonempty l = false -> l = [].
Proof. destruct l; [reflexivity | discriminate]. Qed.

(* resolve_symbols accepts an IR only if no name is defined twice in a scope, no import alias
   repeats, and every reference (type and constant references, then the heads of the field
   references) is bound, alone and without error, to the canonical name returned *)
Lemma accepted_module_lem : forall i a b,
  run_pass1 i = Resolved1 a b ->
  no_duplicate_errors (in_mods i)
  /\ flat_map module_import_errors (in_mods i) = []
  /\ Forall2 (fun rs cn => resolve_ref (table_of (in_mods i)) (in_mods i) false rs = Some (Some cn, []))
             (in_refsA i ++ map head_refsite (in_frs i)) (a ++ b).
Proof.
  intros i a b H. unfold run_pass1 in H.
  destruct (nonempty (flat_map module_type_errors (in_mods i))) eqn:E1; [discriminate|].
  destruct (nonempty (flat_map module_member_errors (in_mods i))) eqn:E2; [discriminate|].
  destruct (nonempty (flat_map module_import_errors (in_mods i))) eqn:E3; [discriminate|].
  apply nonempty_false in E1. apply nonempty_false in E2. apply nonempty_false in E3.
  split; [split; assumption|]. split; [exact E3|].
  destruct (resolve_refs (table_of (in_mods i)) (in_mods i) false (in_refsA i ++ map head_refsite (in_frs i)))
    as [[cs es]|] eqn:Er; [|discriminate].
  destruct (nonempty es) eqn:E4; [discriminate|]. apply nonempty_false in E4. subst es.
  destruct (all_some (firstn (List.length (in_refsA i)) cs)) as [a'|] eqn:Ea; [|discriminate].
  destruct (all_some (skipn (List.length (in_refsA i)) cs)) as [b'|] eqn:Eb; [|discriminate].
  inversion H; subst a' b'. apply all_some_map in Ea. apply all_some_map in Eb.
  assert (Hcs : cs = map Some (a ++ b)) by (rewrite <- (firstn_skipn (List.length (in_refsA i)) cs), Ea, Eb, map_app; reflexivity).
  pose proof (proj1 (resolve_refs_accepted_iff _ _ _ _ _ Er) eq_refl) as Hf. rewrite Hcs in Hf.
  clear - Hf. remember (in_refsA i ++ map head_refsite (in_frs i)) as l. clear Heql.
  remember (a ++ b) as ab. clear Heqab. revert ab Hf.
  induction l as [|rs l IH]; intros ab Hf; destruct ab as [|c ab]; inversion Hf; subst; constructor.
  - destruct H2 as [cn [Hc Hr]]. inversion Hc; subst. exact Hr.
  - apply IH. assumption.
Qed.

(* ... and rejects it (with the errors of that phase) whenever some scope holds a name twice *)
Lemma duplicate_rejected_lem : forall i, ~ no_duplicate_errors (in_mods i) -> exists p es, run_pass1 i = Rejected1 p es /\ es <> [].
Proof.
  intros i Hn. unfold run_pass1.
  destruct (flat_map module_type_errors (in_mods i)) as [|e1 es1] eqn:E1.
  - destruct (flat_map module_member_errors (in_mods i)) as [|e2 es2] eqn:E2.
    + exfalso. apply Hn. split; assumption.
    + simpl. exists 2%N, (e2 :: es2). split; [reflexivity | discriminate].
  - simpl. exists 1%N, (e1 :: es1). split; [reflexivity | discriminate].
Qed.
