(* C12 — proofs about the head search (_find_target_of_reference's loop), the dotted
   tail, and resolve_ref. *)
From Coq Require Import List Bool String NArith Arith Lia.
Import ListNotations.
Require Import EmbossV.Scope.Model EmbossV.Scope.Spec.
Open Scope string_scope.
Open Scope list_scope.

(* ---- equality tests ---- *)

Lemma list_eqb_string_eq : forall a b, list_eqb String.eqb a b = true <-> a = b.
Proof.
  induction a as [|x a IH]; destruct b as [|y b]; simpl; split; intro H; try reflexivity; try discriminate.
  - apply andb_true_iff in H. destruct H as [H1 H2]. apply String.eqb_eq in H1. apply IH in H2. congruence.
  - inversion H; subst. apply andb_true_iff. split; [apply String.eqb_refl | apply IH; reflexivity].
Qed.

Lemma cname_eqb_eq : forall a b, cname_eqb a b = true <-> a = b.
Proof.
  intros [m p] [m' p']. unfold cname_eqb. simpl. split; intro H.
  - apply andb_true_iff in H. destruct H as [H1 H2]. apply String.eqb_eq in H1.
    apply list_eqb_string_eq in H2. congruence.
  - inversion H; subst. apply andb_true_iff. split; [apply String.eqb_refl | apply list_eqb_string_eq; reflexivity].
Qed.

Lemma is_searchable_true : forall v, is_searchable v = true <-> v = SEARCHABLE.
Proof. destruct v; simpl; split; intro H; congruence. Qed.

Lemma cond_true : forall s cur e,
  cname_eqb s cur || is_searchable (sc_vis e) = true <-> (s = cur \/ sc_vis e = SEARCHABLE).
Proof.
  intros. rewrite orb_true_iff, cname_eqb_eq, is_searchable_true. reflexivity.
Qed.

(* ---- the scopes of the chain in which the name is visible, in chain order ---- *)

Fixpoint hits (tbl : table) (n : name) (cur : cname) (vs : list cname) : list (cname * scope * scope) :=
  match vs with
  | [] => []
  | s :: vs' =>
    match lookup_scope tbl s with
    | Some st =>
      match lookup n (sc_ents st) with
      | Some e => if cname_eqb s cur || is_searchable (sc_vis e)
                  then (s, st, e) :: hits tbl n cur vs' else hits tbl n cur vs'
      | None => hits tbl n cur vs'
      end
    | None => hits tbl n cur vs'
    end
  end.

Lemma In_hits : forall tbl n cur vs s st e,
  In (s, st, e) (hits tbl n cur vs) <->
  In s vs /\ lookup_scope tbl s = Some st /\ lookup n (sc_ents st) = Some e /\ (s = cur \/ sc_vis e = SEARCHABLE).
Proof.
  induction vs as [|s0 vs IH]; intros s st e; simpl.
  - split; [tauto | intros [[] _]].
  - destruct (lookup_scope tbl s0) as [st0|] eqn:E1.
    + destruct (lookup n (sc_ents st0)) as [e0|] eqn:E2.
      * destruct (cname_eqb s0 cur || is_searchable (sc_vis e0)) eqn:E3.
        -- simpl. rewrite IH. split.
           ++ intros [H|H].
              ** inversion H; subst. apply cond_true in E3. tauto.
              ** tauto.
           ++ intros [[H|H] [H1 [H2 H3]]].
              ** subst s0. left. rewrite E1 in H1. inversion H1; subst. rewrite E2 in H2. inversion H2; subst. reflexivity.
              ** right. tauto.
        -- rewrite IH. split; [tauto|]. intros [[H|H] [H1 [H2 H3]]]; [|tauto].
           subst s0. rewrite E1 in H1. inversion H1; subst. rewrite E2 in H2. inversion H2; subst.
           apply cond_true in H3. congruence.
      * rewrite IH. split; [tauto|]. intros [[H|H] [H1 [H2 H3]]]; [|tauto].
        subst s0. rewrite E1 in H1. inversion H1; subst. congruence.
    + rewrite IH. split; [tauto|]. intros [[H|H] [H1 [H2 H3]]]; [|tauto]. subst s0. congruence.
Qed.

Definition hit_scope (h : cname * scope * scope) : cname := fst (fst h).

Lemma hits_scopes_in : forall tbl n cur vs s, In s (map hit_scope (hits tbl n cur vs)) -> In s vs.
Proof.
  intros tbl n cur vs s H. apply in_map_iff in H. destruct H as [[[s' st] e] [H1 H2]].
  unfold hit_scope in H1. simpl in H1. subst s'. apply In_hits in H2. tauto.
Qed.

Lemma hits_nodup : forall tbl n cur vs, NoDup vs -> NoDup (map hit_scope (hits tbl n cur vs)).
Proof.
  induction vs as [|s0 vs IH]; intro H; simpl; [constructor|].
  inversion H as [|? ? Hn Hnd]; subst.
  destruct (lookup_scope tbl s0) as [st0|]; [|auto].
  destruct (lookup n (sc_ents st0)) as [e0|]; [|auto].
  destruct (cname_eqb s0 cur || is_searchable (sc_vis e0)); [|auto].
  simpl. constructor; [|auto]. intro Hin. apply hits_scopes_in in Hin. contradiction.
Qed.

Lemma visible_iff_hit : forall tbl cur vs n s e,
  visible tbl cur vs n s e <-> exists st, In (s, st, e) (hits tbl n cur vs).
Proof.
  intros. unfold visible, entry_at. split.
  - intros [H1 [[st [H2 H3]] H4]]. exists st. apply In_hits. tauto.
  - intros [st H]. apply In_hits in H. destruct H as [H1 [H2 [H3 H4]]]. split; [exact H1|]. split; [|exact H4].
    exists st. tauto.
Qed.

(* ---- the loop computes the hits ---- *)

Lemma search_found : forall tbl file line n cur local vs f errs,
  scopes_exist tbl vs ->
  search tbl file line n cur local vs (Some f) errs =
  Some (Some f, errs ++ map (fun h => ambig_error file line n (snd f) (snd h)) (hits tbl n cur vs)).
Proof.
  induction vs as [|s0 vs IH]; intros f errs Hex; simpl.
  - rewrite app_nil_r. reflexivity.
  - inversion Hex as [|? ? [st0 Hst] Hex']; subst. rewrite Hst.
    destruct (lookup n (sc_ents st0)) as [e0|]; [|apply IH; assumption].
    destruct (cname_eqb s0 cur || is_searchable (sc_vis e0)); [|apply IH; assumption].
    destruct f as [sf f]. rewrite IH by assumption. simpl. rewrite <- app_assoc. reflexivity.
Qed.

Lemma search_nonlocal : forall tbl file line n cur vs errs,
  scopes_exist tbl vs ->
  search tbl file line n cur false vs None errs =
  Some (match hits tbl n cur vs with
        | [] => (None, errs)
        | h :: more => (Some (fst h), errs ++ map (fun h' => ambig_error file line n (snd (fst h)) (snd h')) more)
        end).
Proof.
  induction vs as [|s0 vs IH]; intros errs Hex; simpl; [reflexivity|].
  inversion Hex as [|? ? [st0 Hst] Hex']; subst. rewrite Hst.
  destruct (lookup n (sc_ents st0)) as [e0|]; [|apply IH; assumption].
  destruct (cname_eqb s0 cur || is_searchable (sc_vis e0)); [|apply IH; assumption].
  rewrite search_found by assumption. reflexivity.
Qed.

Lemma search_local : forall tbl file line n cur vs errs,
  scopes_exist tbl vs ->
  search tbl file line n cur true vs None errs =
  Some (match hits tbl n cur vs with
        | [] => (None, errs)
        | h :: _ => (Some (fst h), errs)
        end).
Proof.
  induction vs as [|s0 vs IH]; intros errs Hex; simpl; [reflexivity|].
  inversion Hex as [|? ? [st0 Hst] Hex']; subst. rewrite Hst.
  destruct (lookup n (sc_ents st0)) as [e0|]; [|apply IH; assumption].
  destruct (cname_eqb s0 cur || is_searchable (sc_vis e0)); [|apply IH; assumption].
  reflexivity.
Qed.

Lemma search_not_stuck_needs : forall tbl file line n cur local vs found errs,
  scopes_exist tbl vs -> search tbl file line n cur local vs found errs <> None.
Proof.
  intros. destruct found as [f|].
  - rewrite search_found by assumption. discriminate.
  - destruct local; [rewrite search_local | rewrite search_nonlocal]; try assumption; discriminate.
Qed.

(* ---- uniqueness ---- *)

Lemma hits_singleton : forall tbl n cur vs s st e,
  NoDup vs ->
  In (s, st, e) (hits tbl n cur vs) ->
  (forall s' st' e', In (s', st', e') (hits tbl n cur vs) -> s' = s) ->
  hits tbl n cur vs = [(s, st, e)].
Proof.
  intros tbl n cur vs s st e Hnd Hin Huniq.
  pose proof (hits_nodup tbl n cur vs Hnd) as Hn.
  destruct (hits tbl n cur vs) as [|[[s1 st1] e1] more] eqn:E; [destruct Hin|].
  assert (s1 = s) by (apply (Huniq s1 st1 e1); left; reflexivity). subst s1.
  destruct more as [|[[s2 st2] e2] more'].
  - destruct Hin as [Hin|[]]. rewrite Hin. reflexivity.
  - exfalso. assert (s2 = s) by (apply (Huniq s2 st2 e2); right; left; reflexivity). subst s2.
    simpl in Hn. inversion Hn as [|? ? Hnot _]; subst. apply Hnot. left. reflexivity.
Qed.

Lemma hit_functional : forall tbl n cur vs s st e st' e',
  In (s, st, e) (hits tbl n cur vs) -> In (s, st', e') (hits tbl n cur vs) -> st = st' /\ e = e'.
Proof.
  intros. apply In_hits in H. apply In_hits in H0.
  destruct H as [_ [H1 [H2 _]]]. destruct H0 as [_ [H3 [H4 _]]].
  rewrite H1 in H3. inversion H3; subst. rewrite H2 in H4. inversion H4; subst. split; reflexivity.
Qed.

(* resolve_unique, head part: the loop returns scope s without any error iff s holds the only
   visible definition *)
Lemma head_found_iff_unique_lem : forall tbl file line n cur vs s st,
  NoDup vs -> scopes_exist tbl vs ->
  (search tbl file line n cur false vs None [] = Some (Some (s, st), [])
   <-> (exists e, visible tbl cur vs n s e) /\ lookup_scope tbl s = Some st
       /\ (forall s' e', visible tbl cur vs n s' e' -> s' = s)).
Proof.
  intros tbl file line n cur vs s st Hnd Hex. rewrite search_nonlocal by assumption. split.
  - intro H. destruct (hits tbl n cur vs) as [|[[s1 st1] e1] more] eqn:E; [discriminate|].
    simpl in H. inversion H; subst. destruct more as [|h more']; [|discriminate].
    assert (Hin : In (s, st, e1) (hits tbl n cur vs)) by (rewrite E; left; reflexivity).
    split; [exists e1; apply visible_iff_hit; exists st; exact Hin|].
    split; [apply In_hits in Hin; tauto|].
    intros s' e' Hv. apply visible_iff_hit in Hv. destruct Hv as [st' Hv]. rewrite E in Hv.
    destruct Hv as [Hv|[]]. inversion Hv; reflexivity.
  - intros [[e Hv] [Hst Huniq]]. apply visible_iff_hit in Hv. destruct Hv as [st' Hv].
    assert (st' = st) by (apply In_hits in Hv; destruct Hv as [_ [Hv _]]; congruence). subst st'.
    rewrite (hits_singleton tbl n cur vs s st e Hnd Hv).
    + reflexivity.
    + intros s' st' e' Hin. apply (Huniq s' e'). apply visible_iff_hit. exists st'. exact Hin.
Qed.

Lemma head_missing_iff_none_lem : forall tbl file line n cur vs,
  scopes_exist tbl vs ->
  ((exists errs, search tbl file line n cur false vs None [] = Some (None, errs))
   <-> (forall s e, ~ visible tbl cur vs n s e)).
Proof.
  intros tbl file line n cur vs Hex. rewrite search_nonlocal by assumption. split.
  - intros [errs H] s e Hv. apply visible_iff_hit in Hv. destruct Hv as [st Hv].
    destruct (hits tbl n cur vs) as [|h more]; [destruct Hv|]. discriminate.
  - intro H. destruct (hits tbl n cur vs) as [|[[s1 st1] e1] more] eqn:E; [exists []; reflexivity|].
    exfalso. apply (H s1 e1). apply visible_iff_hit. exists st1. rewrite E. left. reflexivity.
Qed.

Lemma head_ambiguous_iff_two_lem : forall tbl file line n cur vs,
  NoDup vs -> scopes_exist tbl vs ->
  ((exists f errs, search tbl file line n cur false vs None [] = Some (f, errs) /\ errs <> [])
   <-> (exists s1 e1 s2 e2, visible tbl cur vs n s1 e1 /\ visible tbl cur vs n s2 e2 /\ s1 <> s2)).
Proof.
  intros tbl file line n cur vs Hnd Hex. rewrite search_nonlocal by assumption.
  pose proof (hits_nodup tbl n cur vs Hnd) as Hn. split.
  - intros [f [errs [H Hne]]].
    destruct (hits tbl n cur vs) as [|[[s1 st1] e1] more] eqn:E.
    + inversion H; subst. congruence.
    + destruct more as [|[[s2 st2] e2] more'].
      * inversion H; subst. simpl in Hne. congruence.
      * exists s1, e1, s2, e2. split; [|split].
        -- apply visible_iff_hit. exists st1. rewrite E. left. reflexivity.
        -- apply visible_iff_hit. exists st2. rewrite E. right. left. reflexivity.
        -- simpl in Hn. inversion Hn as [|? ? Hnot _]; subst. intro Heq. apply Hnot. left. unfold hit_scope. simpl. congruence.
  - intros [s1 [e1 [s2 [e2 [H1 [H2 Hne]]]]]].
    apply visible_iff_hit in H1. destruct H1 as [st1 H1]. apply visible_iff_hit in H2. destruct H2 as [st2 H2].
    destruct (hits tbl n cur vs) as [|h more] eqn:E; [destruct H1|].
    destruct more as [|h2 more'].
    + destruct H1 as [H1|[]]. destruct H2 as [H2|[]]. subst h. inversion H2. congruence.
    + eexists. eexists. split; [reflexivity|]. simpl. discriminate.
Qed.

(* no_precedence: two visible definitions in different scopes => at least one ambiguity error *)
Lemma two_visible_ambiguity_error : forall tbl file line n cur vs s1 e1 s2 e2,
  NoDup vs -> scopes_exist tbl vs ->
  visible tbl cur vs n s1 e1 -> visible tbl cur vs n s2 e2 -> s1 <> s2 ->
  exists f e errs, search tbl file line n cur false vs None [] = Some (Some f, e :: errs) /\ e_kind e = KAmbig.
Proof.
  intros tbl file line n cur vs s1 e1 s2 e2 Hnd Hex H1 H2 Hne.
  rewrite search_nonlocal by assumption.
  apply visible_iff_hit in H1. destruct H1 as [st1 H1]. apply visible_iff_hit in H2. destruct H2 as [st2 H2].
  destruct (hits tbl n cur vs) as [|h more] eqn:E; [destruct H1|].
  destruct more as [|h2 more'].
  - destruct H1 as [H1|[]]. destruct H2 as [H2|[]]. subst h. inversion H2. congruence.
  - eexists. eexists. eexists. simpl. split; reflexivity.
Qed.

(* the is_local_name exception, exactly: the innermost scope of the chain in which the name is visible *)
Lemma hits_first_split : forall tbl n cur vs s st e more,
  hits tbl n cur vs = (s, st, e) :: more ->
  exists pre post, vs = pre ++ s :: post /\ hits tbl n cur pre = [].
Proof.
  induction vs as [|s0 vs IH]; intros s st e more H; simpl in H; [discriminate|].
  destruct (lookup_scope tbl s0) as [st0|] eqn:E1.
  - destruct (lookup n (sc_ents st0)) as [e0|] eqn:E2.
    + destruct (cname_eqb s0 cur || is_searchable (sc_vis e0)) eqn:E3.
      * inversion H; subst. exists [], vs. split; reflexivity.
      * destruct (IH _ _ _ _ H) as [pre [post [Hvs Hh]]]. exists (s0 :: pre), post.
        split; [simpl; congruence|]. simpl. rewrite E1, E2, E3. exact Hh.
    + destruct (IH _ _ _ _ H) as [pre [post [Hvs Hh]]]. exists (s0 :: pre), post.
      split; [simpl; congruence|]. simpl. rewrite E1, E2. exact Hh.
  - destruct (IH _ _ _ _ H) as [pre [post [Hvs Hh]]]. exists (s0 :: pre), post.
    split; [simpl; congruence|]. simpl. rewrite E1. exact Hh.
Qed.

Lemma hits_app : forall tbl n cur a b, hits tbl n cur (a ++ b) = hits tbl n cur a ++ hits tbl n cur b.
Proof.
  induction a as [|s0 a IH]; intro b; simpl; [reflexivity|].
  destruct (lookup_scope tbl s0) as [st0|]; [|apply IH].
  destruct (lookup n (sc_ents st0)) as [e0|]; [|apply IH].
  destruct (cname_eqb s0 cur || is_searchable (sc_vis e0)); [|apply IH]. simpl. rewrite IH. reflexivity.
Qed.

Lemma local_innermost_lem : forall tbl file line n cur vs s st,
  scopes_exist tbl vs ->
  (search tbl file line n cur true vs None [] = Some (Some (s, st), [])
   <-> exists pre post e,
         vs = pre ++ s :: post /\ hits tbl n cur pre = [] /\
         lookup_scope tbl s = Some st /\ lookup n (sc_ents st) = Some e /\ (s = cur \/ sc_vis e = SEARCHABLE)).
Proof.
  intros tbl file line n cur vs s st Hex. rewrite search_local by assumption. split.
  - intro H. destruct (hits tbl n cur vs) as [|[[s1 st1] e1] more] eqn:E; [discriminate|].
    simpl in H. inversion H; subst.
    destruct (hits_first_split _ _ _ _ _ _ _ _ E) as [pre [post [Hvs Hh]]].
    exists pre, post, e1. split; [exact Hvs|]. split; [exact Hh|].
    assert (Hin : In (s, st, e1) (hits tbl n cur vs)) by (rewrite E; left; reflexivity).
    apply In_hits in Hin. tauto.
  - intros [pre [post [e [Hvs [Hh [H1 [H2 H3]]]]]]]. subst vs. rewrite hits_app, Hh. simpl.
    rewrite H1, H2. apply cond_true in H3. rewrite H3. reflexivity.
Qed.

Lemma hits_nil_iff : forall tbl n cur vs,
  hits tbl n cur vs = [] <-> forall s e, ~ visible tbl cur vs n s e.
Proof.
  intros. split.
  - intros H s e Hv. apply visible_iff_hit in Hv. destruct Hv as [st Hv]. rewrite H in Hv. destruct Hv.
  - intro H. destruct (hits tbl n cur vs) as [|[[s1 st1] e1] more] eqn:E; [reflexivity|].
    exfalso. apply (H s1 e1). apply visible_iff_hit. exists st1. rewrite E. left. reflexivity.
Qed.

(* abbreviation_private, head part: whatever the loop finds outside the current scope is SEARCHABLE *)
Lemma head_nonsearchable_only_in_current_lem : forall tbl file line n cur local vs s st errs e,
  scopes_exist tbl vs ->
  search tbl file line n cur local vs None [] = Some (Some (s, st), errs) ->
  lookup n (sc_ents st) = Some e -> sc_vis e <> SEARCHABLE -> s = cur.
Proof.
  intros tbl file line n cur local vs s st errs e Hex H He Hv.
  assert (Hin : exists e', In (s, st, e') (hits tbl n cur vs)).
  { destruct local; [rewrite search_local in H by assumption | rewrite search_nonlocal in H by assumption];
      destruct (hits tbl n cur vs) as [|[[s1 st1] e1] more] eqn:E; try discriminate;
      simpl in H; inversion H; subst; exists e1; left; reflexivity. }
  destruct Hin as [e' Hin]. apply In_hits in Hin. destruct Hin as [_ [_ [H2 H3]]].
  rewrite He in H2. inversion H2; subst. destruct H3; [assumption|contradiction].
Qed.

(* ---- the dotted tail ---- *)

Lemma tail_walk_ok_iff : forall tbl names st tgt,
  tail_walk tbl st names = TOk tgt <-> tail_rel tbl st (map fst names) tgt.
Proof.
  induction names as [|[n l] rest IH]; intros st tgt; simpl.
  - split; intro H; [inversion H; constructor | inversion H; reflexivity].
  - split.
    + intro H. destruct (lookup n (sc_ents st)) as [e|] eqn:E1; [|discriminate].
      destruct (sc_alias e) as [al|] eqn:E2.
      * destruct al as [|f [|? ?]]; try discriminate.
        destruct (lookup f tbl) as [m|] eqn:E3; [|discriminate].
        destruct (sc_alias m) eqn:E4; [discriminate|].
        econstructor; [eapply step_import; eassumption | apply IH; exact H].
      * econstructor; [eapply step_plain; eassumption | apply IH; exact H].
    + intro H. inversion H as [|? ? e ? ? Hs Ht]; subst. inversion Hs; subst.
      * rewrite H0, H1. apply IH. exact Ht.
      * rewrite H0, H1, H2, H3. apply IH. exact Ht.
Qed.

Lemma tail_walk_missing_iff : forall tbl names st x l,
  tail_walk tbl st names = TMissing x l -> tail_missing tbl st (map fst names) x.
Proof.
  induction names as [|[n l0] rest IH]; intros st x l; simpl; [discriminate|].
  intro H. destruct (lookup n (sc_ents st)) as [e|] eqn:E1.
  - destruct (sc_alias e) as [al|] eqn:E2.
    + destruct al as [|f [|? ?]]; try discriminate.
      destruct (lookup f tbl) as [m|] eqn:E3; [|discriminate].
      destruct (sc_alias m) eqn:E4; [discriminate|].
      eapply tm_later; [eapply step_import; eassumption | eapply IH; exact H].
    + eapply tm_later; [eapply step_plain; eassumption | eapply IH; exact H].
  - inversion H; subst. constructor. exact E1.
Qed.

Lemma step_functional : forall tbl st n a b, step tbl st n a -> step tbl st n b -> a = b.
Proof.
  intros tbl st n a b Ha Hb. inversion Ha; subst; inversion Hb; subst; congruence.
Qed.

Lemma tail_rel_functional : forall tbl ns st a b, tail_rel tbl st ns a -> tail_rel tbl st ns b -> a = b.
Proof.
  induction ns as [|n ns IH]; intros st a b Ha Hb; inversion Ha; subst; inversion Hb; subst; [reflexivity|].
  assert (e = e0) by (eapply step_functional; eassumption). subst. eapply IH; eassumption.
Qed.

Lemma tail_missing_not_rel : forall tbl ns st x tgt, tail_missing tbl st ns x -> tail_rel tbl st ns tgt -> False.
Proof.
  induction ns as [|n ns IH]; intros st x tgt Hm Hr.
  - inversion Hm.
  - inversion Hm as [? ? ? Hnone | ? ? e ? ? Hs Hm']; subst; inversion Hr as [|? ? e' ? ? Hs' Hr']; subst.
    + inversion Hs'; subst; congruence.
    + assert (e = e') by (eapply step_functional; eassumption). subst. eapply IH; eassumption.
Qed.

(* ---- resolve_ref ---- *)

Lemma nonlocal_search_cases : forall tbl file line n cur vs,
  NoDup vs -> scopes_exist tbl vs ->
  (* none visible *)
  (search tbl file line n cur false vs None [] = Some (None, []) /\ (forall s e, ~ visible tbl cur vs n s e))
  \/ (* exactly one *)
  (exists s st e, search tbl file line n cur false vs None [] = Some (Some (s, st), [])
                  /\ visible tbl cur vs n s e /\ lookup_scope tbl s = Some st
                  /\ (forall s' e', visible tbl cur vs n s' e' -> s' = s))
  \/ (* two or more *)
  (exists f e errs, search tbl file line n cur false vs None [] = Some (Some f, e :: errs) /\ e_kind e = KAmbig
                    /\ exists s1 e1 s2 e2, visible tbl cur vs n s1 e1 /\ visible tbl cur vs n s2 e2 /\ s1 <> s2).
Proof.
  intros tbl file line n cur vs Hnd Hex. rewrite search_nonlocal by assumption.
  pose proof (hits_nodup tbl n cur vs Hnd) as Hn.
  destruct (hits tbl n cur vs) as [|[[s1 st1] e1] more] eqn:E.
  - left. split; [reflexivity|]. apply hits_nil_iff. exact E.
  - destruct more as [|[[s2 st2] e2] more'].
    + right. left. exists s1, st1, e1. split; [reflexivity|].
      assert (Hin : In (s1, st1, e1) (hits tbl n cur vs)) by (rewrite E; left; reflexivity).
      split; [apply visible_iff_hit; exists st1; exact Hin|]. split; [apply In_hits in Hin; tauto|].
      intros s' e' Hv. apply visible_iff_hit in Hv. destruct Hv as [st' Hv]. rewrite E in Hv.
      destruct Hv as [Hv|[]]. inversion Hv; reflexivity.
    + right. right. eexists. eexists. eexists. split; [reflexivity|]. split; [reflexivity|].
      exists s1, e1, s2, e2. split; [|split].
      * apply visible_iff_hit. exists st1. rewrite E. left. reflexivity.
      * apply visible_iff_hit. exists st2. rewrite E. right. left. reflexivity.
      * simpl in Hn. inversion Hn as [|? ? Hnot _]; subst. intro Heq. apply Hnot. left. unfold hit_scope. simpl. congruence.
Qed.

Lemma path_empty_false_iff : forall c, path_empty c = false <-> cn_path c <> [].
Proof. intros [m p]. unfold path_empty. simpl. destruct p; split; intro H; congruence. Qed.

Section ResolveRef.
  Local Opaque tail_walk.
  Variable tbl : table.
  Variable mods : list module.
  Variable rs : refsite.
  Variable vs : list cname.
  Hypothesis Hvs : visible_scopes mods (rs_site rs) = Some vs.
  Hypothesis Hnd : NoDup vs.
  Hypothesis Hex : scopes_exist tbl vs.
  Hypothesis Hnl : r_local (rs_ref rs) = false.

  (* resolve_unique: resolved to cn iff cn is designated *)
  Lemma resolve_unique_lem : forall cn,
    resolve_ref tbl mods false rs = Some (Some cn, []) <-> designates tbl mods rs cn.
  Proof.
    intro cn. unfold resolve_ref, designates.
    destruct (r_names (rs_ref rs)) as [|[n l] rest] eqn:En.
    - split; [discriminate|]. intros [n [l [rest [vs' [s [st [tgt [H _]]]]]]]]. discriminate.
    - rewrite Hvs, Hnl.
      destruct (nonlocal_search_cases tbl (st_mod (rs_site rs)) (r_line (rs_ref rs)) n (current_scope (rs_site rs)) vs Hnd Hex)
        as [[Hs Hnone] | [[s [st [e [Hs [Hv [Hst Huniq]]]]]] | [f [e [errs [Hs [_ [s1 [e1 [s2 [e2 [H1 [H2 Hne]]]]]]]]]]]]].
      + rewrite Hs. simpl. split; [discriminate|].
        intros [n' [l' [rest' [vs' [s [st [tgt [H0 [H1 [[e Hv] _]]]]]]]]]].
        inversion H0; subst. inversion H1; subst. exfalso. eapply Hnone; eassumption.
      + rewrite Hs. simpl. split.
        * intro H. destruct (tail_walk tbl st ((n, l) :: rest)) as [tgt| |] eqn:Et; try discriminate.
          destruct (path_empty (sc_cn tgt)) eqn:Ep; [discriminate|].
          inversion H; subst. exists n, l, rest, vs, s, st, tgt.
          split; [reflexivity|]. split; [reflexivity|]. split; [exists e; exact Hv|]. split; [exact Huniq|].
          split; [exact Hst|]. split; [apply tail_walk_ok_iff in Et; exact Et|]. split; [reflexivity|].
          apply path_empty_false_iff. exact Ep.
        * intros [n' [l' [rest' [vs' [s' [st' [tgt [H0 [H1 [[e' Hv'] [Hu' [Hst' [Ht [Hcn Hne]]]]]]]]]]]]]].
          inversion H0; subst n' l' rest'. inversion H1; subst vs'.
          assert (s' = s) by (eapply Huniq; eassumption). subst s'. rewrite Hst in Hst'. inversion Hst'; subst st'.
          apply (tail_walk_ok_iff tbl ((n, l) :: rest)) in Ht. rewrite Ht. subst cn.
          apply path_empty_false_iff in Hne. rewrite Hne. reflexivity.
      + rewrite Hs. simpl. destruct f as [sf stf]. split; [discriminate|].
        intros [n' [l' [rest' [vs' [s' [st' [tgt [H0 [H1' [[e' Hv'] [Hu' _]]]]]]]]]]].
        inversion H0; subst n' l' rest'. inversion H1'; subst vs'.
        exfalso. apply Hne. rewrite (Hu' s1 e1 H1), (Hu' s2 e2 H2). reflexivity.
  Qed.

  (* an unresolved reference always carries an error, and a resolved one none *)
  Lemma resolve_ref_shape : forall r errs,
    resolve_ref tbl mods false rs = Some (r, errs) ->
    (r = None <-> errs <> []) /\ (r = None <-> ~ exists cn, designates tbl mods rs cn).
  Proof.
    intros r errs H.
    assert (Hshape : r = None <-> errs <> []).
    { unfold resolve_ref in H. destruct (r_names (rs_ref rs)) as [|[n l] rest]; [discriminate|].
      rewrite Hvs in H.
      destruct (search tbl (st_mod (rs_site rs)) (r_line (rs_ref rs)) n (current_scope (rs_site rs))
                       (r_local (rs_ref rs)) vs None []) as [[found aerrs]|]; [|discriminate].
      destruct found as [[sf stf]|].
      - rewrite app_nil_r in H. destruct aerrs as [|a aerrs'].
        + destruct (tail_walk tbl stf ((n, l) :: rest)) as [tgt| |]; [destruct (path_empty (sc_cn tgt))| |];
            inversion H; subst; split; intro; try congruence; try discriminate.
        + inversion H; subst. split; intro; [discriminate|reflexivity].
      - inversion H; subst. split; intro; [|reflexivity]. destruct aerrs; discriminate. }
    split; [exact Hshape|]. split.
    - intros Hr [cn Hd]. apply resolve_unique_lem in Hd. rewrite Hd in H. inversion H; subst. discriminate.
    - intro Hno. destruct r as [cn|]; [|reflexivity]. exfalso. apply Hno. exists cn. apply resolve_unique_lem.
      assert (errs = []).
      { destruct errs; [reflexivity|]. exfalso. assert (Some cn = None) by (apply Hshape; discriminate). discriminate. }
      subst. exact H.
  Qed.

  (* which error: none visible -> missing name; two or more -> ambiguity *)
  Lemma resolve_missing_lem : forall n l rest,
    r_names (rs_ref rs) = (n, l) :: rest ->
    (forall s e, ~ visible tbl (current_scope (rs_site rs)) vs n s e) ->
    forall had, resolve_ref tbl mods had rs = Some (None, [missing_error (st_mod (rs_site rs)) n l]).
  Proof.
    intros n l rest En Hnone had. unfold resolve_ref. rewrite En, Hvs, Hnl.
    rewrite search_nonlocal by assumption.
    assert (E : hits tbl n (current_scope (rs_site rs)) vs = []) by (apply hits_nil_iff; exact Hnone).
    rewrite E. simpl. destruct had; reflexivity.
  Qed.

  Lemma resolve_ambiguous_lem : forall n l rest s1 e1 s2 e2,
    r_names (rs_ref rs) = (n, l) :: rest ->
    visible tbl (current_scope (rs_site rs)) vs n s1 e1 ->
    visible tbl (current_scope (rs_site rs)) vs n s2 e2 -> s1 <> s2 ->
    forall had, exists e errs, resolve_ref tbl mods had rs = Some (None, e :: errs) /\ e_kind e = KAmbig.
  Proof.
    intros n l rest s1 e1 s2 e2 En H1 H2 Hne had. unfold resolve_ref. rewrite En, Hvs, Hnl.
    destruct (two_visible_ambiguity_error tbl (st_mod (rs_site rs)) (r_line (rs_ref rs)) n
                (current_scope (rs_site rs)) vs s1 e1 s2 e2 Hnd Hex H1 H2 Hne) as [f [e [errs [Hs Hk]]]].
    rewrite Hs. destruct f as [sf stf]. rewrite app_nil_r. exists e, errs. split; [|exact Hk].
    destruct had; reflexivity.
  Qed.
  (* the name of an imported module by itself is rejected; a resolved reference never names a module *)
  Lemma resolved_is_not_module_lem : forall cn,
    resolve_ref tbl mods false rs = Some (Some cn, []) -> cn_path cn <> [].
  Proof.
    intros cn H. apply resolve_unique_lem in H.
    destruct H as [n [l [rest [vs' [s [st [tgt [_ [_ [_ [_ [_ [_ [_ Hne]]]]]]]]]]]]]]. exact Hne.
  Qed.
End ResolveRef.

Lemma module_as_value_rejected_lem : forall tbl mods rs n l rest vs s st tgt,
  r_names (rs_ref rs) = (n, l) :: rest -> visible_scopes mods (rs_site rs) = Some vs ->
  search tbl (st_mod (rs_site rs)) (r_line (rs_ref rs)) n (current_scope (rs_site rs)) (r_local (rs_ref rs)) vs None []
    = Some (Some (s, st), []) ->
  tail_walk tbl st ((n, l) :: rest) = TOk tgt -> cn_path (sc_cn tgt) = [] ->
  resolve_ref tbl mods false rs
  = Some (None, [Err KModule (st_mod (rs_site rs)) (r_line (rs_ref rs)) (fst (last ((n, l) :: rest) ("", 0%N))) []]).
Proof.
  intros tbl mods rs n l rest vs s st tgt En Hv Hs Ht Hp. unfold resolve_ref. rewrite En, Hv, Hs.
  cbn [app]. rewrite Ht. unfold path_empty. rewrite Hp. reflexivity.
Qed.

(* the is_local_name exception, stated with the visibility relation only *)
Lemma local_innermost_vis_lem : forall tbl file line n cur vs s st,
  scopes_exist tbl vs ->
  (search tbl file line n cur true vs None [] = Some (Some (s, st), [])
   <-> exists pre post e,
         vs = pre ++ s :: post /\ (forall s' e', ~ visible tbl cur pre n s' e') /\
         lookup_scope tbl s = Some st /\ lookup n (sc_ents st) = Some e /\ (s = cur \/ sc_vis e = SEARCHABLE)).
Proof.
  intros tbl file line n cur vs s st Hex. rewrite local_innermost_lem by assumption.
  split; intros [pre [post [e [H1 [H2 H3]]]]]; exists pre, post, e; (split; [exact H1|]); (split; [|exact H3]);
    apply hits_nil_iff; exact H2.
Qed.

(* with is_local_name, ambiguity is never reported *)
Lemma local_never_ambiguous_lem : forall tbl file line n cur vs f errs,
  scopes_exist tbl vs -> search tbl file line n cur true vs None [] = Some (f, errs) -> errs = [].
Proof.
  intros tbl file line n cur vs f errs Hex H. rewrite search_local in H by assumption.
  destruct (hits tbl n cur vs); inversion H; reflexivity.
Qed.
