(* C12 — proofs about _resolve_field_reference: members after a dot are looked up in the
   type of the referenced field, following virtual fields that alias another field. *)
From Coq Require Import List Bool String NArith Arith Lia.
Import ListNotations.
Require Import EmbossV.Scope.Model EmbossV.Scope.Spec.
Open Scope string_scope.
Open Scope list_scope.

Scheme fr_target_mut := Induction for fr_target Sort Prop
  with phys_of_mut := Induction for phys_of Sort Prop
  with members_mut := Induction for members Sort Prop.

Section Members.
  Variable mods : list module.
  Variable resA : list (option cname).
  Variable resB : list (option cname).
  Variable frs : list fref.

  Notation target := (fr_target mods resA resB frs).
  Notation phys := (phys_of mods resA resB frs).
  Notation mems := (members mods resA resB frs).
  Notation rfr := (resolve_fr mods resA resB frs).
  Notation dv := (devirt mods).
  Notation wm := (walk_members mods resA).

  Definition rec_sound (rec : nat -> frres) : Prop := forall a cns, rec a = FROk cns -> target a cns.

  (* ---- soundness ---- *)

  Lemma devirt_sound : forall rec, rec_sound rec ->
    forall v o t, dv rec v o = DPhys t -> phys o t.
  Proof.
    intros rec Hrec. induction v as [|v IH]; intros o t H.
    - destruct o as [m|ty|f|va|p]; simpl in H; try discriminate.
      destruct (fd_body f) as [t0|a|] eqn:Eb; try discriminate. inversion H; subst. constructor. exact Eb.
    - destruct o as [m|ty|f|va|p]; simpl in H; try discriminate.
      destruct (fd_body f) as [t0|a|] eqn:Eb; try discriminate.
      + inversion H; subst. constructor. exact Eb.
      + destruct (rec a) as [cns| | | |] eqn:Er; try discriminate.
        destruct (find_object mods (last cns (CN "" []))) as [o'|] eqn:Eo; [|discriminate].
        eapply po_alias; [exact Eb | apply Hrec; exact Er | exact Eo | apply IH; exact H].
  Qed.

  Lemma walk_members_sound : forall rec, rec_sound rec ->
    forall v file rest o pr acc cns,
      wm rec v file o pr rest acc = FROk cns ->
      exists ms, cns = rev acc ++ ms /\ mems o (map fst rest) ms.
  Proof.
    intros rec Hrec v file. induction rest as [|[n l] rest IH]; intros o pr acc cns H; simpl in H.
    - inversion H; subst. exists []. split; [rewrite app_nil_r; reflexivity | constructor].
    - destruct (dv rec v o) as [t| | | | |] eqn:Ed; try discriminate.
      destruct t as [rid|]; [|discriminate].
      destruct (nth_error resA rid) as [[tcn|]|] eqn:Et; try discriminate.
      destruct (find_object mods (nested tcn n)) as [o'|] eqn:Eo; [|discriminate].
      apply IH in H. destruct H as [ms [Hc Hm]]. exists (nested tcn n :: ms). split.
      + rewrite Hc. simpl. rewrite <- app_assoc. reflexivity.
      + simpl. econstructor; [eapply devirt_sound; eassumption | exact Et | exact Eo | exact Hm].
  Qed.

  Lemma resolve_fr_sound_lem : forall fuel i cns, rfr fuel i = FROk cns -> target i cns.
  Proof.
    induction fuel as [|fuel IH]; intros i cns H; simpl in H; [discriminate|].
    destruct (nth_error frs i) as [fr|] eqn:Ef; [|discriminate].
    destruct (nth_error resB i) as [[hcn|]|] eqn:Eh; try discriminate.
    destruct (fr_path fr) as [|h rest] eqn:Ep; [discriminate|].
    destruct rest as [|r rest].
    - inversion H; subst. eapply frt_single; eassumption.
    - destruct (find_object mods hcn) as [o|] eqn:Eo; [|discriminate].
      apply (walk_members_sound (rfr fuel) IH) in H. destruct H as [ms [Hc Hm]]. simpl in Hc. subst cns.
      eapply frt; eassumption.
  Qed.

  (* ---- fuel monotonicity (for successful results) ---- *)

  Definition ok_mono (rec rec' : nat -> frres) : Prop := forall a cns, rec a = FROk cns -> rec' a = FROk cns.

  Lemma devirt_mono : forall rec rec', ok_mono rec rec' ->
    forall v v' o t, v <= v' -> dv rec v o = DPhys t -> dv rec' v' o = DPhys t.
  Proof.
    intros rec rec' Hm. induction v as [|v IH]; intros v' o t Hle H.
    - destruct o as [m|ty|f|va|p]; simpl in H; try discriminate.
      destruct (fd_body f) as [t0|a|] eqn:Eb; try discriminate.
      destruct v'; simpl; rewrite Eb; exact H.
    - destruct v' as [|v']; [lia|].
      destruct o as [m|ty|f|va|p]; simpl in H; try discriminate. simpl.
      destruct (fd_body f) as [t0|a|] eqn:Eb; try discriminate; [exact H|].
      destruct (rec a) as [cns| | | |] eqn:Er; try discriminate. rewrite (Hm _ _ Er).
      destruct (find_object mods (last cns (CN "" []))) as [o'|]; [|discriminate].
      apply IH; [lia | exact H].
  Qed.

  Lemma walk_members_mono : forall rec rec', ok_mono rec rec' ->
    forall v v' file rest o pr acc cns, v <= v' ->
      wm rec v file o pr rest acc = FROk cns -> wm rec' v' file o pr rest acc = FROk cns.
  Proof.
    intros rec rec' Hm v v' file. induction rest as [|[n l] rest IH]; intros o pr acc cns Hle H; simpl in *; [exact H|].
    destruct (dv rec v o) as [t| | | | |] eqn:Ed; try discriminate.
    rewrite (devirt_mono rec rec' Hm v v' o t Hle Ed).
    destruct t as [rid|]; [|discriminate].
    destruct (nth_error resA rid) as [[tcn|]|]; try discriminate.
    destruct (find_object mods (nested tcn n)) as [o'|]; [|discriminate].
    apply IH; assumption.
  Qed.

  Lemma resolve_fr_mono : forall f f' i cns, f <= f' -> rfr f i = FROk cns -> rfr f' i = FROk cns.
  Proof.
    induction f as [|f IH]; intros f' i cns Hle H; simpl in H; [discriminate|].
    destruct f' as [|f']; [lia|]. simpl.
    destruct (nth_error frs i) as [fr|]; [|discriminate].
    destruct (nth_error resB i) as [[hcn|]|]; try discriminate.
    destruct (fr_path fr) as [|h rest]; [discriminate|].
    destruct rest as [|r rest]; [exact H|].
    destruct (find_object mods hcn) as [o|]; [|discriminate].
    apply (walk_members_mono (rfr f) (rfr f')) with (v := f); [|lia|exact H]. intros a c Ha. eapply IH; [|exact Ha]. lia.
  Qed.

  Lemma devirt_alias_step : forall rec v f a, fd_body f = FVirtAlias a ->
    dv rec (S v) (OField f) =
    match rec a with
    | FROk cns => match find_object mods (last cns (CN "" [])) with Some o => dv rec v o | None => DStuck end
    | FRFuel => DFuel
    | FRStuck => DStuck
    | FRErr _ | FRSilent => DSilent
    end.
  Proof. intros rec v f a H. simpl. rewrite H. reflexivity. Qed.

  (* ---- completeness: whatever the declarative relation designates is computed, with enough fuel ---- *)

  Lemma resolve_fr_complete_lem : forall i cns, target i cns -> exists fuel, rfr fuel i = FROk cns.
  Proof.
    apply (fr_target_mut mods resA resB frs
             (fun i cns _ => exists fuel, rfr fuel i = FROk cns)
             (fun o t _ => exists fuel, dv (rfr fuel) fuel o = DPhys t)
             (fun o ns cns _ => forall file names pr acc, map fst names = ns ->
                                exists fuel, wm (rfr fuel) fuel file o pr names acc = FROk (rev acc ++ cns))).
    - intros i fr h hcn Hf Hh Hp. exists 1. simpl. rewrite Hf, Hh, Hp. reflexivity.
    - intros i fr h r rest hcn o cns Hf Hh Hp Ho Hm IH.
      destruct (IH (st_mod (fr_site fr)) (r :: rest) h [hcn] eq_refl) as [fuel Hw].
      exists (S fuel). simpl. rewrite Hf, Hh, Hp, Ho. exact Hw.
    - intros f t Hb. exists 0. simpl. rewrite Hb. reflexivity.
    - intros f a cns o t Hb Ht [f1 H1] Ho Hp [f2 H2].
      exists (S (Nat.max f1 f2)). rewrite (devirt_alias_step _ _ _ _ Hb).
      rewrite (resolve_fr_mono f1 (S (Nat.max f1 f2)) a cns) by (lia || exact H1). rewrite Ho.
      apply (devirt_mono (rfr f2) (rfr (S (Nat.max f1 f2)))) with (v := f2); [|apply Nat.le_max_r|exact H2].
      intros a' c Ha'. eapply resolve_fr_mono; [|exact Ha']. lia.
    - intros o file names pr acc Hn. destruct names; [|discriminate]. exists 0. simpl. rewrite app_nil_r. reflexivity.
    - intros o rid tcn n o' ns cns Hp [f1 H1] Ht Ho Hm IH file names pr acc Hn.
      destruct names as [|[n0 l] names]; [discriminate|]. simpl in Hn. inversion Hn as [[Hn0 Hns]]. subst n0.
      destruct (IH file names (n, l) (nested tcn n :: acc) Hns) as [f2 H2].
      exists (Nat.max f1 f2). simpl.
      rewrite (devirt_mono (rfr f1) (rfr (Nat.max f1 f2))) with (v := f1) (t := FTAtomic rid);
        [| intros a' c Ha'; eapply resolve_fr_mono; [|exact Ha']; apply Nat.le_max_l | apply Nat.le_max_l | exact H1].
      rewrite Ht, Ho.
      apply (walk_members_mono (rfr f2) (rfr (Nat.max f1 f2))) with (v := f2); [| apply Nat.le_max_r |].
      + intros a' c Ha'. eapply resolve_fr_mono; [|exact Ha']. apply Nat.le_max_r.
      + simpl in H2. rewrite <- app_assoc in H2. exact H2.
  Qed.
  (* a parameter has no members: `p.x`, and `v.x` where v aliases a parameter, are the
     noncomposite error (fixes e48f2e2, 6efa7de), never a crash *)
  Lemma devirt_parameter : forall rec v p, dv rec v (OParam p) = DParam.
  Proof. intros rec [|v] p; reflexivity. Qed.

  Lemma member_of_parameter_lem : forall rec v file o pr n l rest acc,
    dv rec v o = DParam ->
    wm rec v file o pr ((n, l) :: rest) acc = FRErr (Err KNoncomposite file (snd pr) (fst pr) []).
  Proof. intros rec v file o pr n l rest acc H. simpl. rewrite H. reflexivity. Qed.
End Members.
