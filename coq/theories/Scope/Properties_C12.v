(* C12 — property theorems.  Statements only; every proof is `exact <lemma>`.

   Model: EmbossV.Scope.Model (mirror of symbol_resolver.py and ir_util.find_object).
   Declarative side: EmbossV.Scope.Spec (visible, designates, tail_rel, defs_of,
   wf_module, fr_target/phys_of/members). *)
From Coq Require Import List Bool String NArith Arith.
Import ListNotations.
Require Import EmbossV.Scope.Model EmbossV.Scope.Spec EmbossV.Scope.ProofsSearch EmbossV.Scope.ProofsObjects
        EmbossV.Scope.ProofsMembers EmbossV.Scope.ProofsSites EmbossV.Scope.ProofsTable EmbossV.Scope.ProofsPass
        EmbossV.Scope.Witness.
Open Scope string_scope.
Open Scope list_scope.

(* ------------------------------------------------------------------------- *)
(* resolve_unique                                                             *)

(* For every table, every site and every (ordinary) reference: the reference is bound to cn,
   without any error, iff its head has exactly one visible definition and the dotted name
   leads from it to cn.  vs is the site's scope chain; its two side conditions are
   discharged for real sites by scope_chain_nodup / scope_chain_exists below. *)
Theorem resolve_unique : forall tbl mods rs vs,
  visible_scopes mods (rs_site rs) = Some vs -> NoDup vs -> scopes_exist tbl vs ->
  r_local (rs_ref rs) = false ->
  forall cn, resolve_ref tbl mods false rs = Some (Some cn, []) <-> designates tbl mods rs cn.
Proof. exact resolve_unique_lem. Qed.
Print Assumptions resolve_unique.

(* Whatever the pass returns: unresolved iff it reports an error, and unresolved iff the
   reference designates nothing (none visible, or two or more, or a dotted component missing). *)
Theorem resolve_error_iff : forall tbl mods rs vs,
  visible_scopes mods (rs_site rs) = Some vs -> NoDup vs -> scopes_exist tbl vs ->
  r_local (rs_ref rs) = false ->
  forall r errs, resolve_ref tbl mods false rs = Some (r, errs) ->
    (r = None <-> errs <> []) /\ (r = None <-> ~ exists cn, designates tbl mods rs cn).
Proof. exact resolve_ref_shape. Qed.
Print Assumptions resolve_error_iff.

(* the three outcomes of the head search, each characterised by the number of visible definitions *)
Theorem head_found_iff_unique : forall tbl file line n cur vs s st,
  NoDup vs -> scopes_exist tbl vs ->
  (search tbl file line n cur false vs None [] = Some (Some (s, st), [])
   <-> (exists e, visible tbl cur vs n s e) /\ lookup_scope tbl s = Some st
       /\ (forall s' e', visible tbl cur vs n s' e' -> s' = s)).
Proof. exact head_found_iff_unique_lem. Qed.

Theorem head_missing_iff_none : forall tbl file line n cur vs,
  scopes_exist tbl vs ->
  ((exists errs, search tbl file line n cur false vs None [] = Some (None, errs))
   <-> (forall s e, ~ visible tbl cur vs n s e)).
Proof. exact head_missing_iff_none_lem. Qed.

Theorem head_ambiguous_iff_two : forall tbl file line n cur vs,
  NoDup vs -> scopes_exist tbl vs ->
  ((exists f errs, search tbl file line n cur false vs None [] = Some (f, errs) /\ errs <> [])
   <-> (exists s1 e1 s2 e2, visible tbl cur vs n s1 e1 /\ visible tbl cur vs n s2 e2 /\ s1 <> s2)).
Proof. exact head_ambiguous_iff_two_lem. Qed.

(* an undefined name is reported as such, whatever happened before in the pass *)
Theorem undefined_name_rejected : forall tbl mods rs vs,
  visible_scopes mods (rs_site rs) = Some vs -> scopes_exist tbl vs ->
  r_local (rs_ref rs) = false ->
  forall n l rest, r_names (rs_ref rs) = (n, l) :: rest ->
    (forall s e, ~ visible tbl (current_scope (rs_site rs)) vs n s e) ->
    forall had, resolve_ref tbl mods had rs = Some (None, [missing_error (st_mod (rs_site rs)) n l]).
Proof. exact resolve_missing_lem. Qed.

(* a resolved reference stands for an object (type, field, value, parameter), never for a module:
   the name of an imported module by itself is rejected (fix bdb1a9e; before it the resolver bound
   the reference to the module and dependency_checker raised KeyError) *)
Theorem resolved_reference_is_not_a_module : forall tbl mods rs vs,
  visible_scopes mods (rs_site rs) = Some vs -> NoDup vs -> scopes_exist tbl vs ->
  r_local (rs_ref rs) = false ->
  forall cn, resolve_ref tbl mods false rs = Some (Some cn, []) -> cn_path cn <> [].
Proof. exact resolved_is_not_module_lem. Qed.

Theorem module_as_value_rejected : forall tbl mods rs n l rest vs s st tgt,
  r_names (rs_ref rs) = (n, l) :: rest -> visible_scopes mods (rs_site rs) = Some vs ->
  search tbl (st_mod (rs_site rs)) (r_line (rs_ref rs)) n (current_scope (rs_site rs)) (r_local (rs_ref rs)) vs None []
    = Some (Some (s, st), []) ->
  tail_walk tbl st ((n, l) :: rest) = TOk tgt -> cn_path (sc_cn tgt) = [] ->
  resolve_ref tbl mods false rs
  = Some (None, [Err KModule (st_mod (rs_site rs)) (r_line (rs_ref rs)) (fst (last ((n, l) :: rest) ("", 0%N))) []]).
Proof. exact module_as_value_rejected_lem. Qed.

(* the dotted tail is the child relation *)
Theorem dotted_tail_iff : forall tbl names st tgt,
  tail_walk tbl st names = TOk tgt <-> tail_rel tbl st (map fst names) tgt.
Proof. exact tail_walk_ok_iff. Qed.

(* ------------------------------------------------------------------------- *)
(* the pass as a whole (resolve_symbols)                                      *)

(* the shared error list stays empty iff every reference, taken alone, resolves without error;
   the canonical names stored are then exactly those results *)
Theorem pass_accepts_iff_each_reference_resolves : forall tbl mods l cs es,
  resolve_refs tbl mods false l = Some (cs, es) ->
  (es = [] <-> Forall2 (fun rs c => exists cn, c = Some cn /\ resolve_ref tbl mods false rs = Some (Some cn, [])) l cs).
Proof. exact resolve_refs_accepted_iff. Qed.

(* an accepted IR: no scope holds a name twice, no import alias repeats, and every type /
   constant reference and every field-reference head is bound to the name that the reference
   alone resolves to (which resolve_unique identifies with the designated definition) *)
Theorem accepted_module_bound_as_designated : forall i a b,
  run_pass1 i = Resolved1 a b ->
  no_duplicate_errors (in_mods i)
  /\ flat_map module_import_errors (in_mods i) = []
  /\ Forall2 (fun rs cn => resolve_ref (table_of (in_mods i)) (in_mods i) false rs = Some (Some cn, []))
             (in_refsA i ++ map head_refsite (in_frs i)) (a ++ b).
Proof. exact accepted_module_lem. Qed.
Print Assumptions accepted_module_bound_as_designated.

(* a name defined twice in one scope is rejected, never resolved by precedence *)
Theorem duplicate_definition_rejected : forall i,
  ~ no_duplicate_errors (in_mods i) -> exists p es, run_pass1 i = Rejected1 p es /\ es <> [].
Proof. exact duplicate_rejected_lem. Qed.

(* ------------------------------------------------------------------------- *)
(* no_precedence                                                              *)

(* A name visible from two scopes is never resolved: an ambiguity error is reported,
   for every ordinary reference (is_local_name = false), whatever the state of the pass. *)
Theorem no_precedence : forall tbl mods rs vs,
  visible_scopes mods (rs_site rs) = Some vs -> NoDup vs -> scopes_exist tbl vs ->
  r_local (rs_ref rs) = false ->
  forall n l rest s1 e1 s2 e2, r_names (rs_ref rs) = (n, l) :: rest ->
    visible tbl (current_scope (rs_site rs)) vs n s1 e1 ->
    visible tbl (current_scope (rs_site rs)) vs n s2 e2 -> s1 <> s2 ->
    forall had, exists e errs, resolve_ref tbl mods had rs = Some (None, e :: errs) /\ e_kind e = KAmbig.
Proof. exact resolve_ambiguous_lem. Qed.
Print Assumptions no_precedence.

(* The documented exception, exactly: an is_local_name reference (the type of an inline
   field) is bound to the first scope of the chain — innermost first — in which the name is
   visible, and never reports an ambiguity. *)
Theorem local_name_innermost : forall tbl file line n cur vs s st,
  scopes_exist tbl vs ->
  (search tbl file line n cur true vs None [] = Some (Some (s, st), [])
   <-> exists pre post e,
         vs = pre ++ s :: post /\ (forall s' e', ~ visible tbl cur pre n s' e') /\
         lookup_scope tbl s = Some st /\ lookup n (sc_ents st) = Some e /\ (s = cur \/ sc_vis e = SEARCHABLE)).
Proof. exact local_innermost_vis_lem. Qed.

Theorem local_name_never_ambiguous : forall tbl file line n cur vs f errs,
  scopes_exist tbl vs -> search tbl file line n cur true vs None [] = Some (f, errs) -> errs = [].
Proof. exact local_never_ambiguous_lem. Qed.

(* ------------------------------------------------------------------------- *)
(* canonical_name_roundtrip                                                   *)

(* the construction reports a duplicate iff some scope is asked to hold a name twice *)
Theorem duplicate_errors_iff : forall mods, no_duplicate_errors mods <-> Forall wf_module mods.
Proof. exact duplicate_errors_iff_lem. Qed.

(* in an IR without duplicate errors every definition is found again by its canonical name,
   and no two definitions share a canonical name *)
Theorem canonical_name_roundtrip : forall mods,
  NoDup (map m_file mods) -> no_duplicate_errors mods ->
  (forall cn d, In (cn, d) (defs_of mods) -> find_object mods cn = Some d)
  /\ NoDup (map fst (defs_of mods)).
Proof. exact canonical_name_roundtrip_full_lem. Qed.
Print Assumptions canonical_name_roundtrip.

(* the dict of every scope has unique keys, and holds the first candidate of each name *)
Theorem dict_keys_unique : forall l, NoDup (map fst (dedup l)).
Proof. exact dedup_keys_unique. Qed.

Theorem type_scope_entry : forall parent t n,
  lookup n (sc_ents (scope_of_type parent t)) = cand_lookup n (cands_of_type parent t).
Proof. exact type_scope_entry_lem. Qed.

(* the table holds, at the path of a type definition, that definition's scope *)
Theorem type_scope_in_table : forall mods m p t,
  NoDup (map m_file mods) -> In m mods -> wf_module m -> type_at (m_types m) p = Some t ->
  exists parent, lookup_scope (table_of mods) (CN (m_file m) p) = Some (scope_of_type parent t)
                 /\ nested parent (td_name t) = CN (m_file m) p.
Proof. exact type_scope_in_table_lem. Qed.

(* ------------------------------------------------------------------------- *)
(* abbreviation_private                                                       *)

(* abbreviations are entered as PRIVATE names standing for their field *)
Theorem abbreviation_entry_private : forall cn f a l c,
  fd_abbr f = Some (a, l) -> In c (field_cands cn f) -> cand_name c = a -> a <> fd_name f ->
  sc_vis (snd c) = PRIVATE /\ sc_cn (snd c) = nested cn (fd_name f).
Proof. exact abbreviation_entry_private_lem. Qed.

(* head of any reference (ordinary or is_local_name): what is found outside the site's own
   scope is SEARCHABLE — never an abbreviation, `this`, a field, a parameter or an enum value *)
Theorem abbreviation_private_head : forall tbl file line n cur local vs s st errs e,
  scopes_exist tbl vs ->
  search tbl file line n cur local vs None [] = Some (Some (s, st), errs) ->
  lookup n (sc_ents st) = Some e -> sc_vis e <> SEARCHABLE -> s = cur.
Proof. exact head_nonsearchable_only_in_current_lem. Qed.

(* members after a dot: the object found carries the requested name itself (abbreviations are
   never consulted) *)
Theorem abbreviation_private_member : forall mods c n o,
  find_object mods (nested c n) = Some o -> obj_name o = Some n.
Proof. exact find_object_member_name_lem. Qed.

(* REFUTED for the dotted tail of a static reference: from struct Bar, `Foo.a` is bound to
   Foo.apple although `a` is an abbreviation private to Foo.  (Replayed each run: the real
   resolver binds it too; the module is rejected only later, by type_check.) *)
Theorem abbreviation_private_static_tail_refuted :
  exists mods f a l rs,
    no_duplicate_errors mods /\
    fd_abbr f = Some (a, l) /\ a <> fd_name f /\
    find_object mods (CN "m.emb" ["Foo"; fd_name f]) = Some (OField f) /\
    current_scope (rs_site rs) = CN "m.emb" ["Bar"] /\
    map fst (r_names (rs_ref rs)) = ["Foo"; a] /\ r_local (rs_ref rs) = false /\
    resolve_ref (table_of mods) mods false rs = Some (Some (CN "m.emb" ["Foo"; fd_name f]), []).
Proof. exact abbreviation_private_static_tail_refuted_lem. Qed.
Print Assumptions abbreviation_private_static_tail_refuted.

(* ------------------------------------------------------------------------- *)
(* members after a dot                                                        *)

(* a field reference is resolved to cns only if the declarative member relation designates
   cns (members looked up in the type of the referenced field, through aliases) ... *)
Theorem member_lookup_sound : forall mods resA resB frs fuel i cns,
  resolve_fr mods resA resB frs fuel i = FROk cns -> fr_target mods resA resB frs i cns.
Proof. exact resolve_fr_sound_lem. Qed.

(* ... and everything the relation designates is computed (the fuel only bounds alias chains) *)
Theorem member_lookup_complete : forall mods resA resB frs i cns,
  fr_target mods resA resB frs i cns -> exists fuel, resolve_fr mods resA resB frs fuel i = FROk cns.
Proof. exact resolve_fr_complete_lem. Qed.

(* a parameter has no members: `p.x`, and `v.x` where following v's aliases ends in a parameter,
   are rejected with the noncomposite error *)
Theorem parameter_ends_alias_chain : forall mods rec v p, devirt mods rec v (OParam p) = DParam.
Proof. exact devirt_parameter. Qed.

Theorem member_of_parameter_rejected : forall mods resA rec v file o pr n l rest acc,
  devirt mods rec v o = DParam ->
  walk_members mods resA rec v file o pr ((n, l) :: rest) acc
  = FRErr (Err KNoncomposite file (snd pr) (fst pr) []).
Proof. exact member_of_parameter_lem. Qed.

Theorem member_lookup_fuel_monotone : forall mods resA resB frs f f' i cns,
  f <= f' -> resolve_fr mods resA resB frs f i = FROk cns -> resolve_fr mods resA resB frs f' i = FROk cns.
Proof. exact resolve_fr_mono. Qed.
Print Assumptions member_lookup_complete.

(* ------------------------------------------------------------------------- *)
(* side conditions hold for real sites                                        *)

Theorem scope_chain_nodup : forall mods s m vs,
  find_module (st_mod s) mods = Some m -> visible_scopes mods s = Some vs ->
  NoDup (anonymous_imports m) -> ~ In (st_mod s) (map cn_mod (anonymous_imports m)) -> NoDup vs.
Proof. exact visible_scopes_nodup. Qed.

Theorem scope_chain_exists : forall tbl mods s m vs,
  find_module (st_mod s) mods = Some m -> visible_scopes mods s = Some vs ->
  (exists st, lookup_scope tbl (current_scope s) = Some st) ->
  Forall (fun c => exists st, lookup_scope tbl c = Some st) (anonymous_imports m) ->
  scopes_exist tbl vs.
Proof. exact visible_scopes_exist. Qed.

(* references in module-level attributes (fix 99e8f3d): own scope = the module's scope *)
Theorem module_level_scope_chain : forall mods f m,
  find_module f mods = Some m ->
  current_scope (Site f [] None) = CN f [] /\
  visible_scopes mods (Site f [] None) = Some (CN f [] :: anonymous_imports m).
Proof. exact module_level_chain_lem. Qed.

Theorem own_scope_first_in_chain : forall mods s m vs,
  find_module (st_mod s) mods = Some m -> visible_scopes mods s = Some vs -> In (current_scope s) vs.
Proof. exact current_scope_in_chain. Qed.

(* ------------------------------------------------------------------------- *)
(* non-vacuity                                                                *)

Example two_visible_rejected_but_local_resolved :
  (exists e1 e2,
     visible (table_of w_amb_mods) (current_scope w_amb_site) w_amb_vs "Bar" (CN "m.emb" ["Foo"]) e1 /\
     visible (table_of w_amb_mods) (current_scope w_amb_site) w_amb_vs "Bar" (CN "m.emb" []) e2 /\
     sc_cn e1 = CN "m.emb" ["Foo"; "Bar"] /\ sc_cn e2 = CN "m.emb" ["Bar"])
  /\ resolve_ref (table_of w_amb_mods) w_amb_mods false (RefSite w_amb_site (Ref [("Bar", 4%N); ("BAZ", 4%N)] false 4))
     = Some (None, [Err KAmbig "m.emb" 4 "Bar" [("m.emb", 2%N); ("m.emb", 5%N)]])
  /\ resolve_ref (table_of w_amb_mods) w_amb_mods false (RefSite w_amb_site (Ref [("Bar", 2%N)] true 2))
     = Some (Some (CN "m.emb" ["Foo"; "Bar"]), []).
Proof. exact (conj w_amb_two_visible (conj w_amb_nonlocal_rejected w_amb_local_innermost)). Qed.

Example hypotheses_satisfiable :
  visible_scopes w_amb_mods w_amb_site = Some w_amb_vs /\ NoDup w_amb_vs
  /\ scopes_exist (table_of w_amb_mods) w_amb_vs
  /\ no_duplicate_errors w_amb_mods /\ NoDup (map m_file w_amb_mods)
  /\ designates (table_of w_amb_mods) w_amb_mods (RefSite w_amb_site (Ref [("UInt", 2%N)] false 2)) (CN "" ["UInt"]).
Proof.
  exact (conj w_amb_chain (conj w_amb_chain_nodup (conj w_amb_chain_exists
          (conj (proj1 w_amb_no_errors) (conj (proj2 w_amb_no_errors) w_unique_designated))))).
Qed.

Example member_relation_inhabited :
  run_pass2 (w_mem_input false) =
    Resolved2 [[CN "m.emb" ["Outer"; "i"]]; [CN "m.emb" ["Outer"; "v"]; CN "m.emb" ["Inner"; "q"]]]
  /\ run_pass2 (w_mem_input true) = Rejected2 [Err KArray "m.emb" 8 "arr" []].
Proof. exact (conj w_mem_resolved w_mem_array_rejected). Qed.

(* `p.x` on a parameter, and `v.x` with `let v = p`: both rejected *)
Example parameter_member_rejected :
  run_pass2 (w_par_input false) = Rejected2 [Err KNoncomposite "m.emb" 4 "p" []]
  /\ run_pass2 (w_par_input true) = Rejected2 [Err KNoncomposite "m.emb" 4 "v" []].
Proof. exact (conj w_par_direct w_par_via_alias). Qed.

(* a module-level attribute's reference is resolved in the module scope; an import alias used as
   a value is rejected with its own error *)
Example module_level_and_module_as_value :
  run_pass1 (w_modv_input false) = Resolved1 [CN "m.emb" ["Bar"; "BAZ"]; CN "" ["UInt"]] []
  /\ run_pass1 (w_modv_input true) = Rejected1 4 [Err KModule "m.emb" 5 "imp" []].
Proof. exact (conj w_modv_attribute_resolved w_modv_alias_rejected). Qed.
