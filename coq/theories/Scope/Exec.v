(* Executable glue for the C12 correspondence harness: decidable equality of
   outcomes (error lists compared as multisets, note lists up to order) and the
   case runner. *)
From Coq Require Import List Bool String NArith Arith.
Import ListNotations.
Require Import EmbossV.Scope.Model.
Open Scope string_scope.
Open Scope list_scope.

Definition ekind_eqb (a b : ekind) : bool :=
  match a, b with
  | KDup, KDup | KAmbig, KAmbig | KMissing, KMissing | KArray, KArray | KNoncomposite, KNoncomposite | KModule, KModule => true
  | _, _ => false
  end.

Definition note_eqb (a b : string * N) : bool := String.eqb (fst a) (fst b) && N.eqb (snd a) (snd b).

(* remove the first element equal to x; None if absent *)
Fixpoint remove_one {A} (eqb : A -> A -> bool) (x : A) (l : list A) : option (list A) :=
  match l with
  | [] => None
  | y :: r => if eqb x y then Some r
              else match remove_one eqb x r with Some r' => Some (y :: r') | None => None end
  end.

Fixpoint multiset_eqb {A} (eqb : A -> A -> bool) (a b : list A) : bool :=
  match a with
  | [] => match b with [] => true | _ => false end
  | x :: a' => match remove_one eqb x b with Some b' => multiset_eqb eqb a' b' | None => false end
  end.

Definition err_eqb (a b : err) : bool :=
  ekind_eqb a.(e_kind) b.(e_kind) && String.eqb a.(e_file) b.(e_file) && N.eqb a.(e_line) b.(e_line)
  && String.eqb a.(e_name) b.(e_name) && multiset_eqb note_eqb a.(e_notes) b.(e_notes).

Definition errs_eqb (a b : list err) : bool := multiset_eqb err_eqb a b.

Definition outcome1_eqb (a b : outcome1) : bool :=
  match a, b with
  | Rejected1 p e, Rejected1 p' e' => (N.eqb p' 0 || N.eqb p p') && errs_eqb e e'   (* expected phase 0 = not observed *)
  | Resolved1 x y, Resolved1 x' y' => list_eqb cname_eqb x x' && list_eqb cname_eqb y y'
  | Stuck1, Stuck1 => true
  | _, _ => false
  end.

Definition outcome2_eqb (a b : outcome2) : bool :=
  match a, b with
  | Rejected2 e, Rejected2 e' => errs_eqb e e'
  | Resolved2 p, Resolved2 p' => list_eqb (list_eqb cname_eqb) p p'
  | CrashParam2, CrashParam2 | Stuck2, Stuck2 | Fuel2, Fuel2 => true
  | _, _ => false
  end.

(* One case = one IR (all modules) stopped before resolve_symbols.  The second
   component is compared only when the implementation got as far as
   resolve_field_references (None = not compared). *)
Definition run_case (i : input) : outcome1 * option outcome2 := (run_pass1 i, Some (run_pass2 i)).

Definition case_eqb (model expected : outcome1 * option outcome2) : bool :=
  outcome1_eqb (fst model) (fst expected)
  && match snd expected, snd model with
     | None, _ => true
     | Some e, Some m => outcome2_eqb m e
     | Some _, None => false
     end.
