(* C12 — declarative side: the visibility relation of the language (definitions only).

   From doc/language-reference.md and the property text:
   * a name is looked up in the scope the reference sits in (every entry of that
     scope counts: fields, parameters, enum values, abbreviations, `this`, types)
     and in the enclosing type definitions, the module, and the anonymously
     imported modules (the prelude) — where only type names and import aliases
     count ("Types ... may freely reference other types in the same module or any
     imported modules (including the implicitly-imported prelude)"; "The
     abbreviation can be used elsewhere in the struct"; "For [requires] on a
     field, other fields may not be referenced");
   * `helper.Type`, `Type.Sub`, `Enum.VALUE`: after the head, every further
     component is the child of that name of the definition reached so far,
     an import alias standing for the imported module;
   * `field.member`: members after a dot are looked up in the type of the
     referenced field (following virtual fields that alias another field). *)
From Coq Require Import List Bool String NArith Arith.
Import ListNotations.
Require Import EmbossV.Scope.Model.
Open Scope string_scope.
Open Scope list_scope.

(* entry e is what scope s holds under the name n *)
Definition entry_at (tbl : table) (s : cname) (n : name) (e : scope) : Prop :=
  exists st, lookup_scope tbl s = Some st /\ lookup n (sc_ents st) = Some e.

(* e (held by scope s) is visible under the name n from a site whose own scope is
   cur and whose scope chain is vs *)
Definition visible (tbl : table) (cur : cname) (vs : list cname) (n : name) (s : cname) (e : scope) : Prop :=
  In s vs /\ entry_at tbl s n e /\ (s = cur \/ sc_vis e = SEARCHABLE).

Definition scopes_exist (tbl : table) (vs : list cname) : Prop :=
  Forall (fun s => exists st, lookup_scope tbl s = Some st) vs.

(* one component of a dotted name *)
Inductive step (tbl : table) : scope -> name -> scope -> Prop :=
| step_plain : forall st n e,
    lookup n (sc_ents st) = Some e -> sc_alias e = None -> step tbl st n e
| step_import : forall st n e f m,
    lookup n (sc_ents st) = Some e -> sc_alias e = Some [f] ->
    lookup f tbl = Some m -> sc_alias m = None -> step tbl st n m.

Inductive tail_rel (tbl : table) : scope -> list name -> scope -> Prop :=
| tail_nil : forall st, tail_rel tbl st [] st
| tail_cons : forall st n e ns tgt, step tbl st n e -> tail_rel tbl e ns tgt -> tail_rel tbl st (n :: ns) tgt.

(* a component cannot be followed: no child of that name *)
Inductive tail_missing (tbl : table) : scope -> list name -> name -> Prop :=
| tm_here : forall st n ns, lookup n (sc_ents st) = None -> tail_missing tbl st (n :: ns) n
| tm_later : forall st n e ns x, step tbl st n e -> tail_missing tbl e ns x -> tail_missing tbl st (n :: ns) x.

(* the reference rs designates the definition with canonical name cn (a type, field, value or
   parameter: a module by itself is not an object a reference can stand for): its head
   has exactly one visible definition, and the dotted name leads from there to cn *)
Definition designates (tbl : table) (mods : list module) (rs : refsite) (cn : cname) : Prop :=
  exists n l rest vs s st tgt,
    r_names (rs_ref rs) = (n, l) :: rest /\
    visible_scopes mods (rs_site rs) = Some vs /\
    (exists e, visible tbl (current_scope (rs_site rs)) vs n s e) /\
    (forall s' e', visible tbl (current_scope (rs_site rs)) vs n s' e' -> s' = s) /\
    lookup_scope tbl s = Some st /\
    tail_rel tbl st (n :: map fst rest) tgt /\
    cn = sc_cn tgt /\
    cn_path cn <> [].          (* an object, not an imported module named by itself *)

(* ---- definitions of an IR and their canonical names ---- *)

Definition body_rdefs (b : tbody) : list (list name * obj) :=
  match b with
  | BStruct fs => map (fun f => ([fd_name f], OField f)) fs
  | BEnum vs => map (fun v => ([vd_name v], OValue v)) vs
  | BExternal => []
  end.

(* every definition below (and including) t, with its path relative to t's parent *)
Fixpoint rdefs (t : tydef) : list (list name * obj) :=
  let '(TyDef nm _ params body subs) := t in
  ([nm], OType t)
  :: map (fun p => ([nm; pd_name p], OParam p)) params
  ++ map (fun d => (nm :: fst d, snd d)) (body_rdefs body)
  ++ flat_map (fun s => map (fun d => (nm :: fst d, snd d)) (rdefs s)) subs.

Definition defs_of_module (m : module) : list (cname * obj) :=
  (module_cn m, OModule m)
  :: flat_map (fun t => map (fun d => (CN (m_file m) (fst d), snd d)) (rdefs t)) (m_types m).

Definition defs_of (mods : list module) : list (cname * obj) := flat_map defs_of_module mods.

Definition obj_name (o : obj) : option name :=
  match o with
  | OModule _ => None
  | OType t => Some (td_name t)
  | OField f => Some (fd_name f)
  | OValue v => Some (vd_name v)
  | OParam p => Some (pd_name p)
  end.

(* the names a type definition's scope is asked to hold *)
Definition body_names (b : tbody) : list name :=
  match b with
  | BStruct fs => flat_map (fun f => fd_name f :: match fd_abbr f with Some (a, _) => [a] | None => [] end) fs
  | BEnum vs => map vd_name vs
  | BExternal => []
  end.

Definition member_names (t : tydef) : list name :=
  map td_name (td_subs t) ++ body_names (td_body t) ++ map pd_name (td_params t).

(* no name is defined twice in one scope, anywhere below t *)
Fixpoint wf_names (t : tydef) : Prop :=
  let '(TyDef _ _ params body subs) := t in
  NoDup (map td_name subs ++ body_names body ++ map pd_name params)
  /\ (fix all (l : list tydef) : Prop := match l with [] => True | s :: r => wf_names s /\ all r end) subs.

Definition wf_module (m : module) : Prop :=
  NoDup (map td_name (m_types m)) /\ Forall wf_names (m_types m).

(* the construction reports no duplicate *)
Definition no_duplicate_errors (mods : list module) : Prop :=
  flat_map module_type_errors mods = [] /\ flat_map module_member_errors mods = [].

(* ---- members after a dot ---- *)

Section MemberSpec.
  Variable mods : list module.
  Variable resA : list (option cname).
  Variable resB : list (option cname).
  Variable frs : list fref.

  (* fr_target i cns: field reference number i designates, element by element, cns;
     phys_of o t: following virtual aliases from o ends in a physical field of type t;
     members o rest cns: the names `rest` are successive members starting from o *)
  Inductive fr_target : nat -> list cname -> Prop :=
  | frt_single : forall i fr h hcn,
      nth_error frs i = Some fr -> nth_error resB i = Some (Some hcn) ->
      fr_path fr = [h] -> fr_target i [hcn]
  | frt : forall i fr h r rest hcn o cns,
      nth_error frs i = Some fr -> nth_error resB i = Some (Some hcn) ->
      fr_path fr = h :: r :: rest -> find_object mods hcn = Some o ->
      members o (map fst (r :: rest)) cns -> fr_target i (hcn :: cns)
  with phys_of : obj -> ftype -> Prop :=
  | po_phys : forall f t, fd_body f = FPhys t -> phys_of (OField f) t
  | po_alias : forall f a cns o t,
      fd_body f = FVirtAlias a -> fr_target a cns ->
      find_object mods (last cns (CN "" [])) = Some o -> phys_of o t -> phys_of (OField f) t
  with members : obj -> list name -> list cname -> Prop :=
  | mem_nil : forall o, members o [] []
  | mem_cons : forall o rid tcn n o' ns cns,
      phys_of o (FTAtomic rid) -> nth_error resA rid = Some (Some tcn) ->
      find_object mods (nested tcn n) = Some o' ->
      members o' ns cns -> members o (n :: ns) (nested tcn n :: cns).
End MemberSpec.
