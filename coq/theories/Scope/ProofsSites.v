(* C12 — the scope chain of a site (own scope, enclosing types, module, anonymous
   imports): it has no repetition and all its scopes exist as soon as the site's own
   scope exists.  These discharge the side conditions of the resolution theorems. *)
From Coq Require Import List Bool String NArith Arith Lia.
Import ListNotations.
Require Import EmbossV.Scope.Model EmbossV.Scope.Spec EmbossV.Scope.ProofsObjects.
Open Scope string_scope.
Open Scope list_scope.

Lemma prefixes_desc_prefix : forall p q, In q (prefixes_desc p) -> exists r, p = q ++ r.
Proof.
  induction p as [|x p IH]; simpl; intros q H.
  - destruct H as [H|[]]. subst. exists []. reflexivity.
  - apply in_app_or in H. destruct H as [H|[H|[]]].
    + apply in_map_iff in H. destruct H as [q' [Hq Hin]]. subst. destruct (IH _ Hin) as [r Hr]. exists r. simpl. congruence.
    + subst. exists (x :: p). reflexivity.
Qed.

Lemma prefixes_desc_nodup : forall p, NoDup (prefixes_desc p).
Proof.
  induction p as [|x p IH]; simpl; [constructor; [intros []|constructor]|].
  apply NoDup_app_iff. split; [|split].
  - apply NoDup_map_inj; [intros a b H; inversion H; reflexivity | exact IH].
  - constructor; [intros []|constructor].
  - intros q Hq [Hn|[]]. subst. apply in_map_iff in Hq. destruct Hq as [? [Hx _]]. discriminate.
Qed.

Lemma walk_path_prefix : forall q r s st, walk_path s (q ++ r) = Some st -> exists st', walk_path s q = Some st'.
Proof.
  induction q as [|n q IH]; simpl; intros r s st H; [eexists; reflexivity|].
  destruct (lookup n (sc_ents s)) as [e|]; [|discriminate]. eapply IH. exact H.
Qed.

Lemma lookup_scope_prefix : forall tbl m q r st,
  lookup_scope tbl (CN m (q ++ r)) = Some st -> exists st', lookup_scope tbl (CN m q) = Some st'.
Proof.
  unfold lookup_scope. simpl. intros tbl m q r st H. destruct (lookup m tbl) as [ms|]; [|discriminate].
  eapply walk_path_prefix. exact H.
Qed.

Lemma anonymous_imports_paths : forall m c, In c (anonymous_imports m) -> cn_path c = [].
Proof.
  intros m c H. unfold anonymous_imports in H. apply in_flat_map in H. destruct H as [i [_ H]].
  destruct (String.eqb (im_local i) ""); [|destruct H]. destruct H as [H|[]]. subst. reflexivity.
Qed.

Section Chain.
  Variable tbl : table.
  Variable mods : list module.
  Variable s : site.
  Variable m : module.
  Variable vs : list cname.
  Hypothesis Hm : find_module (st_mod s) mods = Some m.
  Hypothesis Hvs : visible_scopes mods s = Some vs.

  Lemma visible_scopes_eq :
    vs = (match st_attr s with Some f => [CN (st_mod s) (st_types s ++ [f])] | None => [] end)
           ++ map (CN (st_mod s)) (prefixes_desc (st_types s)) ++ anonymous_imports m.
  Proof. unfold visible_scopes in Hvs. rewrite Hm in Hvs. inversion Hvs. reflexivity. Qed.

  (* the chain starts with the site's own scope *)
  Lemma current_scope_in_chain : In (current_scope s) vs.
  Proof.
    rewrite visible_scopes_eq. unfold current_scope. destruct (st_attr s) as [f|].
    - left. reflexivity.
    - simpl. apply in_or_app. left. apply in_map. rewrite app_nil_r.
      destruct (st_types s) as [|x p]; simpl; [left; reflexivity|].
      apply in_or_app. left. apply in_map_iff. exists p. split; [reflexivity|].
      clear. induction p as [|y p IH]; simpl; [left; reflexivity|]. apply in_or_app. left. apply in_map. exact IH.
  Qed.

  (* no scope occurs twice, provided the anonymously imported modules are distinct and are not the module itself *)
  Lemma visible_scopes_nodup :
    NoDup (anonymous_imports m) -> ~ In (st_mod s) (map cn_mod (anonymous_imports m)) -> NoDup vs.
  Proof.
    intros Hnd Hself. rewrite visible_scopes_eq.
    assert (Hmid : NoDup (map (CN (st_mod s)) (prefixes_desc (st_types s)) ++ anonymous_imports m)).
    { apply NoDup_app_iff. split; [|split].
      - apply NoDup_map_inj; [intros a b H; inversion H; reflexivity | apply prefixes_desc_nodup].
      - exact Hnd.
      - intros c Hc Hi. apply in_map_iff in Hc. destruct Hc as [q [Hq _]]. subst c.
        apply Hself. apply in_map_iff. eexists. split; [|exact Hi]. reflexivity. }
    destruct (st_attr s) as [f|]; [|exact Hmid]. simpl. constructor; [|exact Hmid].
    intro Hi. apply in_app_or in Hi. destruct Hi as [Hi|Hi].
    - apply in_map_iff in Hi. destruct Hi as [q [Hq Hin]]. inversion Hq as [Hq']. apply prefixes_desc_prefix in Hin.
      destruct Hin as [r Hr]. rewrite Hr in Hq'. rewrite <- app_assoc in Hq'.
      assert (Hlen : List.length q = List.length (q ++ r ++ [f])) by (rewrite <- Hq'; reflexivity).
      rewrite !app_length in Hlen. simpl in Hlen. lia.
    - apply anonymous_imports_paths in Hi. simpl in Hi. destruct (st_types s); discriminate.
  Qed.

  (* every scope of the chain exists as soon as the innermost one and the imported modules do *)
  Lemma visible_scopes_exist :
    (exists st, lookup_scope tbl (current_scope s) = Some st) ->
    Forall (fun c => exists st, lookup_scope tbl c = Some st) (anonymous_imports m) ->
    scopes_exist tbl vs.
  Proof.
    intros [st Hst] Himp. rewrite visible_scopes_eq. unfold scopes_exist. apply Forall_app. split; [|apply Forall_app; split].
    - unfold current_scope in Hst. destruct (st_attr s) as [f|]; [|constructor]. constructor; [|constructor]. exists st. exact Hst.
    - apply Forall_forall. intros c Hc. apply in_map_iff in Hc. destruct Hc as [q [Hq Hin]]. subst c.
      apply prefixes_desc_prefix in Hin. destruct Hin as [r Hr]. unfold current_scope in Hst. rewrite Hr in Hst.
      rewrite <- app_assoc in Hst. eapply lookup_scope_prefix. exact Hst.
    - exact Himp.
  Qed.
End Chain.

(* a reference in a module-level attribute (fix 99e8f3d): its own scope is the module's scope and
   the chain is the module followed by the anonymously imported modules *)
Lemma module_level_chain_lem : forall mods f m,
  find_module f mods = Some m ->
  current_scope (Site f [] None) = CN f [] /\
  visible_scopes mods (Site f [] None) = Some (CN f [] :: anonymous_imports m).
Proof. intros mods f m H. split; [reflexivity|]. unfold visible_scopes. simpl. rewrite H. reflexivity. Qed.
