(* C12 — name resolution and scoping.  Definitions only.

   Gallina mirror of compiler/front_end/symbol_resolver.py and of the lookup
   functions of compiler/util/ir_util.py:

     _Scope, _add_name_to_scope, _construct_symbol_tables,
     _add_import_to_scope/_add_alias_to_scope   -> scope, cands_of_type, scope_of_type,
                                                   module_scope, table_of, *_errors
     _set_visible_scopes_for_{module,type_definition,attribute}
                                                -> site, current_scope, visible_scopes
     _find_target_of_reference                  -> search (head loop), tail_walk, resolve_ref
     _resolve_symbols_from_table (passes A, B)  -> resolve_refs
     ir_util.find_object(_or_none)              -> find_in_type, find_object
     _resolve_field_reference                   -> devirt, walk_members, resolve_fr
     resolve_symbols ; resolve_field_references -> run_pass1, run_pass2

   What is a mirror "by effect" and not statement by statement: the Python code
   fills the nested dicts in four global traversals (types, enum values, fields,
   parameters).  Every dict receives insertions only from the components of its
   own type definition, in exactly that phase order, so the final dict of a type
   is `dedup` (first insertion wins) of the candidate list
   subtypes ++ values ++ fields(+abbreviations) ++ parameters, and the duplicate
   errors are the later candidates with an earlier namesake.  Python exceptions
   (KeyError on a missing dict key, a failed assert, AttributeError) are the
   distinct results [None]/[Stuck]/[CrashParam]; running out of fuel in the
   alias-following loop is the distinct result [FRFuel]. *)
From Coq Require Import List Bool String NArith Arith.
Import ListNotations.
Open Scope string_scope.
Open Scope list_scope.

Definition name := string.

(* ir_data.CanonicalName *)
Record cname := CN { cn_mod : string; cn_path : list name }.

Fixpoint list_eqb {A} (f : A -> A -> bool) (a b : list A) : bool :=
  match a, b with
  | [], [] => true
  | x :: a', y :: b' => f x y && list_eqb f a' b'
  | _, _ => false
  end.

Definition cname_eqb (a b : cname) : bool :=
  String.eqb a.(cn_mod) b.(cn_mod) && list_eqb String.eqb a.(cn_path) b.(cn_path).

(* _nested_name *)
Definition nested (c : cname) (n : name) : cname := CN c.(cn_mod) (c.(cn_path) ++ [n]).

Inductive vis := LOCAL | PRIVATE | SEARCHABLE.

Definition is_searchable (v : vis) : bool :=
  match v with SEARCHABLE => true | _ => false end.

(* _Scope: a dict (association list, keys unique by construction) with
   canonical_name, source_location (line; 0 = none), visibility, alias *)
Inductive scope :=
  MkScope (cn : cname) (line : N) (v : vis) (alias : option (list name)) (ents : list (name * scope)).

Definition sc_cn (s : scope) := let '(MkScope c _ _ _ _) := s in c.
Definition sc_line (s : scope) := let '(MkScope _ l _ _ _) := s in l.
Definition sc_vis (s : scope) := let '(MkScope _ _ v _ _) := s in v.
Definition sc_alias (s : scope) := let '(MkScope _ _ _ a _) := s in a.
Definition sc_ents (s : scope) := let '(MkScope _ _ _ _ e) := s in e.

Fixpoint lookup {A} (n : name) (l : list (name * A)) : option A :=
  match l with
  | [] => None
  | (k, v) :: r => if String.eqb k n then Some v else lookup n r
  end.

Definition table := list (name * scope).      (* module_file -> module scope *)

(* ------------------------------------------------------------------------- *)
(* Errors                                                                     *)

Inductive ekind := KDup | KAmbig | KMissing | KArray | KNoncomposite | KModule.

Record err := Err { e_kind : ekind; e_file : string; e_line : N; e_name : name;
                    e_notes : list (string * N) }.

(* ------------------------------------------------------------------------- *)
(* The part of the IR that name resolution looks at                           *)

Inductive ftype :=
| FTAtomic (rid : nat)        (* index of the type Reference in the pass-A reference list *)
| FTArray.

Inductive fbody :=
| FPhys (t : ftype)           (* has a location *)
| FVirtAlias (frid : nat)     (* read_transform is exactly a field_reference: its index *)
| FVirtOther.                 (* any other read_transform *)

Record fdef := FDef { fd_name : name; fd_line : N; fd_abbr : option (name * N); fd_body : fbody }.
Record pdef := PDef { pd_name : name; pd_line : N }.
Record vdef := VDef { vd_name : name; vd_line : N }.

Inductive tbody := BStruct (fs : list fdef) | BEnum (vs : list vdef) | BExternal.

Inductive tydef := TyDef (nm : name) (line : N) (params : list pdef) (body : tbody) (subs : list tydef).

Definition td_name (t : tydef) := let '(TyDef n _ _ _ _) := t in n.
Definition td_line (t : tydef) := let '(TyDef _ l _ _ _) := t in l.
Definition td_params (t : tydef) := let '(TyDef _ _ p _ _) := t in p.
Definition td_body (t : tydef) := let '(TyDef _ _ _ b _) := t in b.
Definition td_subs (t : tydef) := let '(TyDef _ _ _ _ s) := t in s.

Record idef := IDef { im_local : name; im_file : string; im_line : N }.
Record module := Module { m_file : string; m_imports : list idef; m_types : list tydef }.

Inductive obj :=
| OModule (m : module) | OType (t : tydef) | OField (f : fdef) | OValue (v : vdef) | OParam (p : pdef).

(* ------------------------------------------------------------------------- *)
(* Symbol tables                                                              *)

Definition cand := (name * N * scope)%type.     (* name, line of the name, new _Scope *)

Fixpoint mem (n : name) (l : list name) : bool :=
  match l with [] => false | k :: r => String.eqb k n || mem n r end.

(* dict after inserting the candidates in order; `if name in scope: error else scope[name] = new` *)
Fixpoint dedup_aux (seen : list name) (l : list cand) : list (name * scope) :=
  match l with
  | [] => []
  | (n, _, s) :: r => if mem n seen then dedup_aux seen r else (n, s) :: dedup_aux (n :: seen) r
  end.
Definition dedup (l : list cand) := dedup_aux [] l.

(* duplicate_name_error: location of the later name, note at the original *)
Fixpoint dup_errors_aux (file : string) (seen : list (name * (string * N))) (l : list cand) : list err :=
  match l with
  | [] => []
  | (n, ln, s) :: r =>
    match lookup n seen with
    | Some orig => Err KDup file ln n [orig] :: dup_errors_aux file seen r
    | None => dup_errors_aux file ((n, (cn_mod (sc_cn s), sc_line s)) :: seen) r
    end
  end.
Definition dup_errors (file : string) (l : list cand) := dup_errors_aux file [] l.

(* _add_struct_field_to_scope: the field (LOCAL) holding `this` (PRIVATE), then the abbreviation (PRIVATE) *)
Definition field_cands (parent : cname) (f : fdef) : list cand :=
  let cn := nested parent f.(fd_name) in
  (f.(fd_name), f.(fd_line), MkScope cn f.(fd_line) LOCAL None [("this", MkScope cn 0 PRIVATE None [])])
  :: match f.(fd_abbr) with
     | Some (a, l) => [(a, l, MkScope cn l PRIVATE None [])]
     | None => []
     end.

Definition value_cand (parent : cname) (v : vdef) : cand :=
  (v.(vd_name), v.(vd_line), MkScope (nested parent v.(vd_name)) v.(vd_line) LOCAL None []).

Definition param_cand (parent : cname) (p : pdef) : cand :=
  (p.(pd_name), p.(pd_line), MkScope (nested parent p.(pd_name)) p.(pd_line) LOCAL None []).

Definition body_cands (cn : cname) (b : tbody) : list cand :=
  match b with
  | BStruct fs => flat_map (field_cands cn) fs
  | BEnum vs => map (value_cand cn) vs
  | BExternal => []
  end.

(* the _Scope of a type definition, and its candidate list:
   phase 1 subtypes, phase 2 enum values, phase 3 fields, phase 4 parameters *)
Fixpoint scope_of_type (parent : cname) (t : tydef) : scope :=
  let '(TyDef nm line params body subs) := t in
  let cn := nested parent nm in
  MkScope cn line SEARCHABLE None
    (dedup (map (fun s => (td_name s, td_line s, scope_of_type cn s)) subs
            ++ body_cands cn body ++ map (param_cand cn) params)).

Definition sub_cands (cn : cname) (subs : list tydef) : list cand :=
  map (fun s => (td_name s, td_line s, scope_of_type cn s)) subs.

Definition cands_of_type (parent : cname) (t : tydef) : list cand :=
  let cn := nested parent (td_name t) in
  sub_cands cn (td_subs t) ++ body_cands cn (td_body t) ++ map (param_cand cn) (td_params t).

(* errors of phase 1 (type names), everywhere below t *)
Fixpoint type_errors (parent : cname) (t : tydef) : list err :=
  let '(TyDef nm line params body subs) := t in
  let cn := nested parent nm in
  dup_errors (cn_mod cn) (map (fun s => (td_name s, td_line s, scope_of_type cn s)) subs)
  ++ flat_map (type_errors cn) subs.

(* all duplicate errors below t (phases 1-4) *)
Fixpoint all_errors (parent : cname) (t : tydef) : list err :=
  let '(TyDef nm line params body subs) := t in
  let cn := nested parent nm in
  dup_errors (cn_mod cn)
     (map (fun s => (td_name s, td_line s, scope_of_type cn s)) subs
      ++ body_cands cn body ++ map (param_cand cn) params)
  ++ flat_map (all_errors cn) subs.

Definition module_cn (m : module) : cname := CN m.(m_file) [].

Definition import_cands (m : module) : list cand :=
  flat_map (fun i => if String.eqb i.(im_local) "" then []
                     else [(i.(im_local), i.(im_line),
                            MkScope (nested (module_cn m) i.(im_local)) i.(im_line) SEARCHABLE
                                    (Some [i.(im_file)]) [])])
           m.(m_imports).

Definition module_cands (m : module) : list cand :=
  sub_cands (module_cn m) m.(m_types) ++ import_cands m.

Definition module_scope (m : module) : scope :=
  MkScope (module_cn m) 0 SEARCHABLE None (dedup (module_cands m)).

Definition table_of (mods : list module) : table :=
  map (fun m => (m.(m_file), module_scope m)) mods.

Definition module_type_errors (m : module) : list err :=
  dup_errors m.(m_file) (sub_cands (module_cn m) m.(m_types))
  ++ flat_map (type_errors (module_cn m)) m.(m_types).

Definition module_member_errors (m : module) : list err :=
  flat_map (all_errors (module_cn m)) m.(m_types).

(* errors of _add_import_to_scope: aliases are inserted after the type names *)
Definition module_import_errors (m : module) : list err :=
  dup_errors m.(m_file) (module_cands m).

(* ------------------------------------------------------------------------- *)
(* Sites and visible scopes                                                   *)

Record site := Site { st_mod : string; st_types : list name; st_attr : option name }.

Definition current_scope (s : site) : cname :=
  CN s.(st_mod) (s.(st_types) ++ match s.(st_attr) with Some f => [f] | None => [] end).

(* all prefixes of a path, longest first: innermost type ... outermost type, module *)
Fixpoint prefixes_desc (p : list name) : list (list name) :=
  match p with
  | [] => [[]]
  | x :: r => map (cons x) (prefixes_desc r) ++ [[]]
  end.

Fixpoint find_module (f : string) (mods : list module) : option module :=
  match mods with
  | [] => None
  | m :: r => if String.eqb m.(m_file) f then Some m else find_module f r
  end.

Definition anonymous_imports (m : module) : list cname :=
  flat_map (fun i => if String.eqb i.(im_local) "" then [CN i.(im_file) []] else []) m.(m_imports).

Definition visible_scopes (mods : list module) (s : site) : option (list cname) :=
  match find_module s.(st_mod) mods with
  | None => None
  | Some m =>
    Some ((match s.(st_attr) with Some f => [CN s.(st_mod) (s.(st_types) ++ [f])] | None => [] end)
          ++ map (CN s.(st_mod)) (prefixes_desc s.(st_types))
          ++ anonymous_imports m)
  end.

(* ------------------------------------------------------------------------- *)
(* _find_target_of_reference                                                  *)

Record reference := Ref { r_names : list (name * N); r_local : bool; r_line : N }.
Record refsite := RefSite { rs_site : site; rs_ref : reference }.

Fixpoint walk_path (s : scope) (p : list name) : option scope :=
  match p with
  | [] => Some s
  | n :: r => match lookup n (sc_ents s) with Some e => walk_path e r | None => None end
  end.

Definition lookup_scope (tbl : table) (c : cname) : option scope :=
  match lookup c.(cn_mod) tbl with
  | Some m => walk_path m c.(cn_path)
  | None => None
  end.

Definition loc_of (e : scope) : string * N := (cn_mod (sc_cn e), sc_line e).

Definition ambig_error (file : string) (line : N) (n : name) (first_dict : scope) (e : scope) : err :=
  Err KAmbig file line n
      [match lookup n (sc_ents first_dict) with Some f => loc_of f | None => ("", 0%N) end; loc_of e].

(* the loop over visible_scopes; found = (scope name, its dict) *)
Fixpoint search (tbl : table) (file : string) (line : N) (n : name) (cur : cname) (local : bool)
         (vs : list cname) (found : option (cname * scope)) (errs : list err)
  : option (option (cname * scope) * list err) :=
  match vs with
  | [] => Some (found, errs)
  | s :: vs' =>
    match lookup_scope tbl s with
    | None => None
    | Some st =>
      match lookup n (sc_ents st) with
      | Some e =>
        if cname_eqb s cur || is_searchable (sc_vis e) then
          match found with
          | Some (_, f) => search tbl file line n cur local vs' found (errs ++ [ambig_error file line n f e])
          | None => if local then Some (Some (s, st), errs)
                    else search tbl file line n cur local vs' (Some (s, st)) errs
          end
        else search tbl file line n cur local vs' found errs
      | None => search tbl file line n cur local vs' found errs
      end
    end
  end.

Inductive tres := TOk (tgt : scope) | TMissing (n : name) (l : N) | TStuck.

(* the loop over reference.source_name, following import aliases *)
Fixpoint tail_walk (tbl : table) (st : scope) (names : list (name * N)) : tres :=
  match names with
  | [] => TOk st
  | (n, l) :: rest =>
    match lookup n (sc_ents st) with
    | None => TMissing n l
    | Some e =>
      match sc_alias e with
      | None => tail_walk tbl e rest
      | Some [f] =>
        match lookup f tbl with
        | Some m => match sc_alias m with None => tail_walk tbl m rest | Some _ => TStuck end
        | None => TStuck
        end
      | Some _ => TStuck
      end
    end
  end.

Definition missing_error (file : string) (n : name) (l : N) : err := Err KMissing file l n [].

(* `if not found_in_table.canonical_name.object_path`: the name of an imported module by itself
   does not name an object (fix bdb1a9e) *)
Definition path_empty (c : cname) : bool := match c.(cn_path) with [] => true | _ => false end.

Definition module_error (file : string) (line : N) (names : list (name * N)) : err :=
  Err KModule file line (fst (last names ("", 0%N))) [].

(* _resolve_reference/_find_target_of_reference for one Reference;
   had_err = the shared `errors` list is already non-empty *)
Definition resolve_ref (tbl : table) (mods : list module) (had_err : bool) (rs : refsite)
  : option (option cname * list err) :=
  let s := rs.(rs_site) in
  let r := rs.(rs_ref) in
  match r.(r_names) with
  | [] => None
  | (n, l) :: _ =>
    match visible_scopes mods s with
    | None => None
    | Some vs =>
      match search tbl s.(st_mod) r.(r_line) n (current_scope s) r.(r_local) vs None [] with
      | None => None
      | Some (found, aerrs) =>
        let errs := aerrs ++ match found with None => [missing_error s.(st_mod) n l] | Some _ => [] end in
        match found, errs, had_err with
        | Some (_, st), [], false =>
          match tail_walk tbl st r.(r_names) with
          | TOk tgt => if path_empty (sc_cn tgt)
                       then Some (None, [module_error s.(st_mod) r.(r_line) r.(r_names)])
                       else Some (Some (sc_cn tgt), [])
          | TMissing n' l' => Some (None, [missing_error s.(st_mod) n' l'])
          | TStuck => None
          end
        | _, _, _ => Some (None, errs)
        end
      end
    end
  end.

Definition nonempty {A} (l : list A) : bool := match l with [] => false | _ => true end.

(* passes A and B share one error list *)
Fixpoint resolve_refs (tbl : table) (mods : list module) (had_err : bool) (l : list refsite)
  : option (list (option cname) * list err) :=
  match l with
  | [] => Some ([], [])
  | rs :: rest =>
    match resolve_ref tbl mods had_err rs with
    | None => None
    | Some (c, es) =>
      match resolve_refs tbl mods (had_err || nonempty es) rest with
      | None => None
      | Some (cs, es') => Some (c :: cs, es ++ es')
      end
    end
  end.

(* ------------------------------------------------------------------------- *)
(* ir_util.find_object                                                        *)

Fixpoint find_param (n : name) (ps : list pdef) : option pdef :=
  match ps with [] => None | p :: r => if String.eqb p.(pd_name) n then Some p else find_param n r end.
Fixpoint find_field (n : name) (fs : list fdef) : option fdef :=
  match fs with [] => None | f :: r => if String.eqb f.(fd_name) n then Some f else find_field n r end.
Fixpoint find_value (n : name) (vs : list vdef) : option vdef :=
  match vs with [] => None | v :: r => if String.eqb v.(vd_name) n then Some v else find_value n r end.

Definition is_nil {A} (l : list A) : bool := match l with [] => true | _ => false end.

(* _find_path_in_type_definition *)
Fixpoint find_in_type (t : tydef) (path : list name) {struct t} : option obj :=
  match path with
  | [] => Some (OType t)
  | n :: rest =>
    let '(TyDef _ _ params body subs) := t in
    match (if is_nil rest then option_map OParam (find_param n params) else None) with
    | Some o => Some o
    | None =>
      match (match body with
             | BStruct fs => match find_field n fs with
                             | Some f => if is_nil rest then Some (OField f) else None
                             | None => None
                             end
             | BEnum vs => if is_nil rest then option_map OValue (find_value n vs) else None
             | BExternal => None
             end) with
      | Some o => Some o
      | None =>
        (fix in_list (ts : list tydef) : option obj :=
           match ts with
           | [] => None
           | t' :: ts' => if String.eqb (td_name t') n then find_in_type t' rest else in_list ts'
           end) subs
      end
    end
  end.

Fixpoint find_in_types (ts : list tydef) (n : name) (rest : list name) : option obj :=
  match ts with
  | [] => None
  | t :: ts' => if String.eqb (td_name t) n then find_in_type t rest else find_in_types ts' n rest
  end.

Definition find_object (mods : list module) (c : cname) : option obj :=
  match find_module c.(cn_mod) mods with
  | None => None
  | Some m =>
    match c.(cn_path) with
    | [] => Some (OModule m)
    | n :: rest => find_in_types m.(m_types) n rest
    end
  end.

(* ------------------------------------------------------------------------- *)
(* _resolve_field_reference                                                   *)

Record fref := FRef { fr_site : site; fr_path : list (name * N) }.

Inductive frres :=
| FROk (cns : list cname)             (* canonical names of all path elements, head first *)
| FRErr (e : err)
| FRSilent                            (* gave up without an error (aliased reference did not resolve) *)
| FRStuck
| FRFuel.

Inductive devres :=
| DPhys (t : ftype) | DNoncomposite | DParam | DSilent | DStuck | DFuel.

Section FieldRefs.
  Variable mods : list module.
  Variable resA : list (option cname).     (* pass A results, by reference index *)
  Variable resB : list (option cname).     (* pass B results (heads), by field-reference index *)
  Variable frs : list fref.

  (* `while ir_util.field_is_virtual(previous_field)` *)
  Fixpoint devirt (rec : nat -> frres) (vfuel : nat) (prev : obj) : devres :=
    match prev with
    | OField f =>
      match f.(fd_body) with
      | FPhys t => DPhys t
      | FVirtOther => DNoncomposite
      | FVirtAlias a =>
        match vfuel with
        | O => DFuel
        | S v =>
          match rec a with
          | FROk cns =>
            match find_object mods (last cns (CN "" [])) with
            | Some o => devirt rec v o
            | None => DStuck
            end
          | FRFuel => DFuel
          | FRStuck => DStuck
          | FRErr _ | FRSilent => DSilent
          end
        end
      end
    | OParam _ => DParam        (* `isinstance(previous_field, ir_data.Field)` fails: the while loop ends *)
    | _ => DStuck
    end.

  (* `for ref in field_reference.path[1:]` *)
  Fixpoint walk_members (rec : nat -> frres) (vfuel : nat) (file : string) (prev : obj)
           (prevref : name * N) (rest : list (name * N)) (acc : list cname) : frres :=
    match rest with
    | [] => FROk (rev acc)
    | (n, l) :: rest' =>
      match devirt rec vfuel prev with
      | DPhys FTArray => FRErr (Err KArray file (snd prevref) (fst prevref) [])
      | DPhys (FTAtomic rid) =>
        match nth_error resA rid with
        | Some (Some tcn) =>
          let mcn := nested tcn n in
          match find_object mods mcn with
          | None => FRErr (missing_error file n l)
          | Some o => walk_members rec vfuel file o (n, l) rest' (mcn :: acc)
          end
        | _ => FRStuck
        end
      | DNoncomposite => FRErr (Err KNoncomposite file (snd prevref) (fst prevref) [])
      (* after the loop: a RuntimeParameter (named directly or reached through an alias) has no members *)
      | DParam => FRErr (Err KNoncomposite file (snd prevref) (fst prevref) [])
      | DSilent => FRSilent
      | DStuck => FRStuck
      | DFuel => FRFuel
      end
    end.

  Fixpoint resolve_fr (fuel : nat) (i : nat) : frres :=
    match fuel with
    | O => FRFuel
    | S fuel' =>
      match nth_error frs i, nth_error resB i with
      | Some fr, Some (Some hcn) =>
        match fr.(fr_path) with
        | [] => FRStuck
        | h :: rest =>
          match rest with
          | [] => FROk [hcn]
          | _ =>
            match find_object mods hcn with
            | Some o => walk_members (resolve_fr fuel') fuel' fr.(fr_site).(st_mod) o h rest [hcn]
            | None => FRStuck
            end
          end
        end
      | _, _ => FRStuck
      end
    end.
End FieldRefs.

(* ------------------------------------------------------------------------- *)
(* The two passes on a whole IR                                               *)

Record input := Input {
  in_mods : list module;
  in_refsA : list refsite;     (* References outside FieldReferences, traversal order *)
  in_frs : list fref           (* FieldReferences, traversal order *)
}.

Definition head_refsite (f : fref) : refsite :=
  RefSite f.(fr_site)
          (match f.(fr_path) with
           | (n, l) :: _ => Ref [(n, l)] false l
           | [] => Ref [] false 0
           end).

Inductive outcome1 :=
| Rejected1 (phase : N) (errs : list err)    (* 1 type names, 2 members, 3 imports, 4 references *)
| Resolved1 (resA resB : list cname)
| Stuck1.

Fixpoint all_some {A} (l : list (option A)) : option (list A) :=
  match l with
  | [] => Some []
  | Some x :: r => option_map (cons x) (all_some r)
  | None :: _ => None
  end.

(* symbol_resolver.resolve_symbols *)
Definition run_pass1 (i : input) : outcome1 :=
  let mods := i.(in_mods) in
  let e1 := flat_map module_type_errors mods in
  if nonempty e1 then Rejected1 1 e1 else
  let e2 := flat_map module_member_errors mods in
  if nonempty e2 then Rejected1 2 e2 else
  let e3 := flat_map module_import_errors mods in
  if nonempty e3 then Rejected1 3 e3 else
  let tbl := table_of mods in
  match resolve_refs tbl mods false (i.(in_refsA) ++ map head_refsite i.(in_frs)) with
  | None => Stuck1
  | Some (cs, es) =>
    if nonempty es then Rejected1 4 es else
    match all_some (firstn (List.length i.(in_refsA)) cs), all_some (skipn (List.length i.(in_refsA)) cs) with
    | Some a, Some b => Resolved1 a b
    | _, _ => Stuck1
    end
  end.

Inductive outcome2 :=
| Rejected2 (errs : list err)
| Resolved2 (paths : list (list cname))
| CrashParam2      (* AttributeError on a RuntimeParameter (F15): never produced by the model since the fix
                      e48f2e2/6efa7de; kept so that a regression of the implementation is an observable mismatch *)
| Stuck2
| Fuel2.

Fixpoint collect_fr (l : list frres) (oks : list (list cname)) (errs : list err) : outcome2 :=
  match l with
  | [] => if nonempty errs then Rejected2 errs else Resolved2 (rev oks)
  | FROk c :: r => collect_fr r (c :: oks) errs
  | FRErr e :: r => collect_fr r ([] :: oks) (errs ++ [e])
  | FRSilent :: r => collect_fr r ([] :: oks) errs
  | FRStuck :: _ => Stuck2
  | FRFuel :: _ => Fuel2
  end.

(* symbol_resolver.resolve_field_references, on the result of pass 1 *)
Definition run_pass2 (i : input) : outcome2 :=
  match run_pass1 i with
  | Resolved1 a b =>
    let n := List.length i.(in_frs) in
    collect_fr (map (resolve_fr i.(in_mods) (map Some a) (map Some b) i.(in_frs) (S (S n))) (seq 0 n)) [] []
  | _ => Stuck2
  end.
