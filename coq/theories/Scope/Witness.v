(* C12 — concrete scope trees: the witness of the refuted clause and the non-vacuity
   examples (hypotheses of the theorems are satisfiable, both outcomes occur). *)
From Coq Require Import List Bool String NArith Arith Lia.
Import ListNotations.
Require Import EmbossV.Scope.Model EmbossV.Scope.Spec EmbossV.Scope.ProofsSearch EmbossV.Scope.ProofsObjects
        EmbossV.Scope.ProofsMembers.
Open Scope string_scope.
Open Scope list_scope.

Definition w_prelude : module := Module "" [] [TyDef "UInt" 26 [] BExternal []].

(* struct Foo:                       (line 1)
     0 [+1]  UInt  apple (a)         (line 2)
   struct Bar:                       (line 3)
     0 [+1]  UInt  x                 (line 4)
     let y = Foo.a                   (line 5) *)
Definition w_apple : fdef := FDef "apple" 2 (Some ("a", 2%N)) (FPhys (FTAtomic 0)).
Definition w_abbr_mods : list module :=
  [Module "m.emb" [IDef "" "" 0]
          [TyDef "Foo" 1 [] (BStruct [w_apple]) [];
           TyDef "Bar" 3 [] (BStruct [FDef "x" 4 None (FPhys (FTAtomic 1)); FDef "y" 5 None FVirtOther]) []];
   w_prelude].
Definition w_abbr_ref : refsite := RefSite (Site "m.emb" ["Bar"] None) (Ref [("Foo", 5%N); ("a", 5%N)] false 5).

Lemma w_abbr_no_errors : no_duplicate_errors w_abbr_mods.
Proof. split; vm_compute; reflexivity. Qed.

(* The clause "abbreviations are invisible outside their structure" fails for the dotted
   tail of a static reference: from struct Bar, `Foo.a` is bound to Foo.apple. *)
Lemma abbreviation_private_static_tail_refuted_lem :
  exists mods f a l rs,
    no_duplicate_errors mods /\
    fd_abbr f = Some (a, l) /\ a <> fd_name f /\
    find_object mods (CN "m.emb" ["Foo"; fd_name f]) = Some (OField f) /\
    current_scope (rs_site rs) = CN "m.emb" ["Bar"] /\
    map fst (r_names (rs_ref rs)) = ["Foo"; a] /\ r_local (rs_ref rs) = false /\
    resolve_ref (table_of mods) mods false rs = Some (Some (CN "m.emb" ["Foo"; fd_name f]), []).
Proof.
  exists w_abbr_mods, w_apple, "a", 2%N, w_abbr_ref.
  split; [exact w_abbr_no_errors|]. split; [reflexivity|]. split; [discriminate|].
  repeat split; vm_compute; reflexivity.
Qed.

(* the whole pass on that module: accepted, third reference bound to Foo.apple *)
Example w_abbr_pass1 :
  run_pass1 (Input w_abbr_mods
                   [RefSite (Site "m.emb" ["Foo"] None) (Ref [("UInt", 2%N)] false 2);
                    RefSite (Site "m.emb" ["Bar"] None) (Ref [("UInt", 4%N)] false 4);
                    w_abbr_ref] [])
  = Resolved1 [CN "" ["UInt"]; CN "" ["UInt"]; CN "m.emb" ["Foo"; "apple"]] [].
Proof. vm_compute. reflexivity. Qed.

(* struct Foo:                       (line 1)
     0 [+1]  enum  bar:              (line 2; inline type Foo.Bar, type reference `Bar` is_local_name)
       BAZ = 1                       (line 3)
     let r = Bar.BAZ                 (line 4)
   enum Bar:                         (line 5)
     QQ = 2                          (line 6) *)
Definition w_amb_mods : list module :=
  [Module "m.emb" [IDef "" "" 0]
          [TyDef "Foo" 1 [] (BStruct [FDef "bar" 2 None (FPhys (FTAtomic 0)); FDef "r" 4 None FVirtOther])
                 [TyDef "Bar" 2 [] (BEnum [VDef "BAZ" 3]) []];
           TyDef "Bar" 5 [] (BEnum [VDef "QQ" 6]) []];
   w_prelude].
Definition w_amb_site : site := Site "m.emb" ["Foo"] None.
Definition w_amb_vs : list cname := [CN "m.emb" ["Foo"]; CN "m.emb" []; CN "" []].

Example w_amb_chain : visible_scopes w_amb_mods w_amb_site = Some w_amb_vs.
Proof. vm_compute. reflexivity. Qed.

Example w_amb_chain_nodup : NoDup w_amb_vs.
Proof. unfold w_amb_vs. repeat (constructor; [simpl; intuition discriminate|]). constructor. Qed.

Example w_amb_chain_exists : scopes_exist (table_of w_amb_mods) w_amb_vs.
Proof. unfold scopes_exist, w_amb_vs. repeat (constructor; [eexists; vm_compute; reflexivity|]). constructor. Qed.

(* the name Bar is visible from two scopes of the chain *)
Example w_amb_two_visible :
  exists e1 e2,
    visible (table_of w_amb_mods) (current_scope w_amb_site) w_amb_vs "Bar" (CN "m.emb" ["Foo"]) e1 /\
    visible (table_of w_amb_mods) (current_scope w_amb_site) w_amb_vs "Bar" (CN "m.emb" []) e2 /\
    sc_cn e1 = CN "m.emb" ["Foo"; "Bar"] /\ sc_cn e2 = CN "m.emb" ["Bar"].
Proof.
  eexists. eexists. split; [|split; [|split]].
  - split; [left; reflexivity|]. split; [eexists; split; vm_compute; reflexivity | left; reflexivity].
  - split; [right; left; reflexivity|]. split; [eexists; split; vm_compute; reflexivity | right; reflexivity].
  - reflexivity.
  - reflexivity.
Qed.

(* ... so a plain reference is rejected with an ambiguity error, never resolved by precedence ... *)
Example w_amb_nonlocal_rejected :
  resolve_ref (table_of w_amb_mods) w_amb_mods false
              (RefSite w_amb_site (Ref [("Bar", 4%N); ("BAZ", 4%N)] false 4))
  = Some (None, [Err KAmbig "m.emb" 4 "Bar" [("m.emb", 2%N); ("m.emb", 5%N)]]).
Proof. vm_compute. reflexivity. Qed.

(* ... while the is_local_name reference of the inline field resolves to the innermost scope *)
Example w_amb_local_innermost :
  resolve_ref (table_of w_amb_mods) w_amb_mods false
              (RefSite w_amb_site (Ref [("Bar", 2%N)] true 2))
  = Some (Some (CN "m.emb" ["Foo"; "Bar"]), []).
Proof. vm_compute. reflexivity. Qed.

(* unique visibility: UInt is visible from the prelude only and is designated *)
Example w_unique_designated :
  designates (table_of w_amb_mods) w_amb_mods (RefSite w_amb_site (Ref [("UInt", 2%N)] false 2)) (CN "" ["UInt"]).
Proof.
  apply (resolve_unique_lem (table_of w_amb_mods) w_amb_mods (RefSite w_amb_site (Ref [("UInt", 2%N)] false 2)) w_amb_vs w_amb_chain w_amb_chain_nodup w_amb_chain_exists eq_refl).
  vm_compute. reflexivity.
Qed.

(* nothing visible: missing-name error *)
Example w_missing :
  resolve_ref (table_of w_amb_mods) w_amb_mods false (RefSite w_amb_site (Ref [("Zz", 4%N)] false 4))
  = Some (None, [Err KMissing "m.emb" 4 "Zz" []]).
Proof. vm_compute. reflexivity. Qed.

(* canonical names: the definitions of the example, all found again *)
Example w_defs :
  map fst (defs_of w_amb_mods) =
  [CN "m.emb" []; CN "m.emb" ["Foo"]; CN "m.emb" ["Foo"; "bar"]; CN "m.emb" ["Foo"; "r"];
   CN "m.emb" ["Foo"; "Bar"]; CN "m.emb" ["Foo"; "Bar"; "BAZ"]; CN "m.emb" ["Bar"]; CN "m.emb" ["Bar"; "QQ"];
   CN "" []; CN "" ["UInt"]].
Proof. vm_compute. reflexivity. Qed.

Example w_amb_no_errors : no_duplicate_errors w_amb_mods /\ NoDup (map m_file w_amb_mods).
Proof.
  split; [split; vm_compute; reflexivity|]. simpl. repeat (constructor; [simpl; intuition discriminate|]). constructor.
Qed.

(* a duplicate is reported *)
Example w_duplicate_reported :
  module_member_errors (Module "m.emb" [] [TyDef "Foo" 1 [] (BStruct [FDef "xx" 2 (Some ("x", 2%N)) (FPhys FTArray);
                                                                        FDef "x" 3 None (FPhys FTArray)]) []])
  = [Err KDup "m.emb" 3 "x" [("m.emb", 2%N)]].
Proof. vm_compute. reflexivity. Qed.

(* struct Inner:                     (line 1)
     0 [+1]  UInt  q                 (line 2)
   struct Outer:                     (line 3)
     0 [+1]  Inner  i                (line 4)
     let v = i                       (line 5)
     let w = v.q                     (line 6)
     0 [+1]  UInt:8[1]  arr          (line 7)
     let z = arr.q                   (line 8)  -- only in w_mem_bad *)
Definition w_mem_mods (bad : bool) : list module :=
  [Module "m.emb" [IDef "" "" 0]
          [TyDef "Inner" 1 [] (BStruct [FDef "q" 2 None (FPhys (FTAtomic 0))]) [];
           TyDef "Outer" 3 [] (BStruct ([FDef "i" 4 None (FPhys (FTAtomic 1)); FDef "v" 5 None (FVirtAlias 0);
                                         FDef "w" 6 None (FVirtAlias 1); FDef "arr" 7 None (FPhys FTArray)]
                                        ++ if bad then [FDef "z" 8 None (FVirtAlias 2)] else [])) []];
   w_prelude].
Definition w_mem_input (bad : bool) : input :=
  let s := Site "m.emb" ["Outer"] None in
  Input (w_mem_mods bad)
        [RefSite (Site "m.emb" ["Inner"] None) (Ref [("UInt", 2%N)] false 2);
         RefSite s (Ref [("Inner", 4%N)] false 4);
         RefSite s (Ref [("UInt", 7%N)] false 7)]
        ([FRef s [("i", 5%N)]; FRef s [("v", 6%N); ("q", 6%N)]]
         ++ if bad then [FRef s [("arr", 8%N); ("q", 8%N)]] else []).

Example w_mem_resolved :
  run_pass2 (w_mem_input false) =
  Resolved2 [[CN "m.emb" ["Outer"; "i"]]; [CN "m.emb" ["Outer"; "v"]; CN "m.emb" ["Inner"; "q"]]].
Proof. vm_compute. reflexivity. Qed.

Example w_mem_array_rejected :
  run_pass2 (w_mem_input true) = Rejected2 [Err KArray "m.emb" 8 "arr" []].
Proof. vm_compute. reflexivity. Qed.

(* the member relation is inhabited: v.q designates Inner.q through the alias v = i *)
Example w_mem_target :
  fr_target (w_mem_mods false)
            [Some (CN "" ["UInt"]); Some (CN "m.emb" ["Inner"]); Some (CN "" ["UInt"])]
            [Some (CN "m.emb" ["Outer"; "i"]); Some (CN "m.emb" ["Outer"; "v"])]
            (in_frs (w_mem_input false)) 1
            [CN "m.emb" ["Outer"; "v"]; CN "m.emb" ["Inner"; "q"]].
Proof. apply (resolve_fr_sound_lem _ _ _ _ 4). vm_compute. reflexivity. Qed.

(* struct Foo(p: UInt:8):            (line 1)
     0 [+1]  UInt  y                 (line 2)
     let v = p                       (line 3)
     let w = p.x   /  let w = v.x    (line 4) *)
Definition w_par_input (via_alias : bool) : input :=
  let s := Site "m.emb" ["Foo"] None in
  Input [Module "m.emb" [IDef "" "" 0]
                [TyDef "Foo" 1 [PDef "p" 1] (BStruct [FDef "y" 2 None (FPhys (FTAtomic 1)); FDef "v" 3 None (FVirtAlias 0);
                                                      FDef "w" 4 None (FVirtAlias 1)]) []];
         w_prelude]
        [RefSite s (Ref [("UInt", 1%N)] false 1); RefSite s (Ref [("UInt", 2%N)] false 2)]
        [FRef s [("p", 3%N)]; FRef s [((if via_alias then "v" else "p"), 4%N); ("x", 4%N)]].

(* member access on a parameter is the noncomposite error (fix e48f2e2) ... *)
Example w_par_direct : run_pass2 (w_par_input false) = Rejected2 [Err KNoncomposite "m.emb" 4 "p" []].
Proof. vm_compute. reflexivity. Qed.

(* ... also when the parameter is reached through a virtual alias (fix 6efa7de): named after the alias *)
Example w_par_via_alias : run_pass2 (w_par_input true) = Rejected2 [Err KNoncomposite "m.emb" 4 "v" []].
Proof. vm_compute. reflexivity. Qed.

(* import "o.emb" as imp             (line 1)
   [foo: Bar.BAZ]                    (line 2; module-level attribute)
   struct Foo:                       (line 3)
     0 [+1]  UInt  x                 (line 4)
     let a = imp                     (line 5; only in the `bad` variant)
   enum Bar:                         (line 6)
     BAZ = 1                         (line 7) *)
Definition w_modv_input (bad : bool) : input :=
  let s := Site "m.emb" ["Foo"] None in
  Input [Module "m.emb" [IDef "" "" 0; IDef "imp" "o.emb" 1]
                [TyDef "Foo" 3 [] (BStruct ([FDef "x" 4 None (FPhys (FTAtomic 1))]
                                            ++ if bad then [FDef "a" 5 None (FVirtAlias 0)] else [])) [];
                 TyDef "Bar" 6 [] (BEnum [VDef "BAZ" 7]) []];
         Module "o.emb" [IDef "" "" 0] [TyDef "Baz" 1 [] (BStruct []) []];
         w_prelude]
        [RefSite (Site "m.emb" [] None) (Ref [("Bar", 2%N); ("BAZ", 2%N)] false 2);
         RefSite s (Ref [("UInt", 4%N)] false 4)]
        (if bad then [FRef s [("imp", 5%N)]] else []).

(* the reference of the module-level attribute is resolved in the module's scope *)
Example w_modv_attribute_resolved :
  run_pass1 (w_modv_input false) = Resolved1 [CN "m.emb" ["Bar"; "BAZ"]; CN "" ["UInt"]] [].
Proof. vm_compute. reflexivity. Qed.

(* an import alias used as a value is rejected: it names a module, not an object *)
Example w_modv_alias_rejected :
  run_pass1 (w_modv_input true) = Rejected1 4 [Err KModule "m.emb" 5 "imp" []].
Proof. vm_compute. reflexivity. Qed.
