(* C12 — the table built by the construction, read back: the scope found at the path of
   a type definition is that type's scope, and its dict is the type's candidate list
   (subtypes SEARCHABLE; enum values, fields, parameters LOCAL; abbreviations PRIVATE). *)
From Coq Require Import List Bool String NArith Arith Lia.
Import ListNotations.
Require Import EmbossV.Scope.Model EmbossV.Scope.Spec EmbossV.Scope.ProofsObjects.
Open Scope string_scope.
Open Scope list_scope.

Fixpoint find_type (n : name) (ts : list tydef) : option tydef :=
  match ts with [] => None | t :: r => if String.eqb (td_name t) n then Some t else find_type n r end.

(* the type definition at a path of type names *)
Fixpoint type_at (ts : list tydef) (p : list name) : option tydef :=
  match p with
  | [] => None
  | n :: r =>
    match find_type n ts with
    | None => None
    | Some t => match r with [] => Some t | _ => type_at (td_subs t) r end
    end
  end.

Lemma find_type_some : forall n ts t, find_type n ts = Some t -> In t ts /\ td_name t = n.
Proof.
  induction ts as [|q ts IH]; simpl; intros t H; [discriminate|].
  destruct (String.eqb (td_name q) n) eqn:E.
  - inversion H; subst. split; [left; reflexivity | apply String.eqb_eq; exact E].
  - destruct (IH _ H) as [H1 H2]. split; [right; exact H1 | exact H2].
Qed.

Definition holds_types (sc : scope) (cn : cname) (ts : list tydef) : Prop :=
  forall t, In t ts -> lookup (td_name t) (sc_ents sc) = Some (scope_of_type cn t).

Lemma type_scope_holds : forall parent T, wf_names T ->
  holds_types (scope_of_type parent T) (nested parent (td_name T)) (td_subs T).
Proof. intros parent T Hwf t Hin. apply subtype_entry; assumption. Qed.

Lemma module_scope_holds : forall m, NoDup (map td_name (m_types m)) ->
  holds_types (module_scope m) (module_cn m) (m_types m).
Proof.
  intros m Hnd t Hin. unfold module_scope. simpl. rewrite lookup_dedup. unfold module_cands.
  rewrite cand_lookup_app, (cand_lookup_sub _ _ _ Hnd Hin). reflexivity.
Qed.

Lemma wf_names_subs : forall T, wf_names T -> NoDup (map td_name (td_subs T)) /\ Forall wf_names (td_subs T).
Proof.
  intros [nm line params body subs] H. apply wf_names_unfold in H. destruct H as [H1 H2]. simpl.
  apply NoDup_app_iff in H1. tauto.
Qed.

Lemma walk_to_type : forall p sc cn ts t,
  holds_types sc cn ts -> NoDup (map td_name ts) -> Forall wf_names ts -> type_at ts p = Some t ->
  exists parent, walk_path sc p = Some (scope_of_type parent t)
                 /\ nested parent (td_name t) = CN (cn_mod cn) (cn_path cn ++ p).
Proof.
  induction p as [|n r IH]; intros sc cn ts t Hh Hnd Hwf H; simpl in H; [discriminate|].
  destruct (find_type n ts) as [t0|] eqn:Ef; [|discriminate].
  apply find_type_some in Ef. destruct Ef as [Hin Hn]. subst n.
  simpl. rewrite (Hh t0 Hin). rewrite Forall_forall in Hwf.
  destruct r as [|n' r'].
  - inversion H; subst. exists cn. split; [reflexivity|]. destruct cn; reflexivity.
  - destruct (wf_names_subs t0 (Hwf t0 Hin)) as [Hnd' Hwf'].
    destruct (IH (scope_of_type cn t0) (nested cn (td_name t0)) (td_subs t0) t
                 (type_scope_holds cn t0 (Hwf t0 Hin)) Hnd' Hwf' H) as [parent [Hw Hc]].
    exists parent. split; [exact Hw|]. rewrite Hc. unfold nested. simpl. rewrite <- app_assoc. reflexivity.
Qed.

Lemma lookup_table_of : forall mods m, NoDup (map m_file mods) -> In m mods ->
  lookup (m_file m) (table_of mods) = Some (module_scope m).
Proof.
  induction mods as [|q mods IH]; intros m Hnd Hin; [destruct Hin|]. simpl in *. inversion Hnd as [|? ? Hn Hnd']; subst.
  destruct Hin as [Hin|Hin]; [subst; rewrite String.eqb_refl; reflexivity|].
  destruct (String.eqb (m_file q) (m_file m)) eqn:E; [|apply IH; assumption].
  apply String.eqb_eq in E. exfalso. apply Hn. rewrite E. apply in_map. exact Hin.
Qed.

(* the scope the table holds at the path of a type definition is that definition's scope *)
Lemma type_scope_in_table_lem : forall mods m p t,
  NoDup (map m_file mods) -> In m mods -> wf_module m -> type_at (m_types m) p = Some t ->
  exists parent, lookup_scope (table_of mods) (CN (m_file m) p) = Some (scope_of_type parent t)
                 /\ nested parent (td_name t) = CN (m_file m) p.
Proof.
  intros mods m p t Hfiles Hin [Hnd Hwf] H. unfold lookup_scope. simpl.
  rewrite (lookup_table_of _ _ Hfiles Hin).
  destruct (walk_to_type p (module_scope m) (module_cn m) (m_types m) t (module_scope_holds m Hnd) Hnd Hwf H)
    as [parent [Hw Hc]].
  exists parent. split; [exact Hw | exact Hc].
Qed.

Lemma module_scope_in_table_lem : forall mods m,
  NoDup (map m_file mods) -> In m mods ->
  lookup_scope (table_of mods) (CN (m_file m) []) = Some (module_scope m).
Proof. intros. unfold lookup_scope. simpl. rewrite lookup_table_of by assumption. reflexivity. Qed.

(* what a name stands for in a type's scope: the first candidate of that name *)
Lemma type_scope_entry_lem : forall parent t n,
  lookup n (sc_ents (scope_of_type parent t)) = cand_lookup n (cands_of_type parent t).
Proof. exact scope_of_type_entries. Qed.

Lemma module_scope_entry_lem : forall m n,
  lookup n (sc_ents (module_scope m)) = cand_lookup n (module_cands m).
Proof. intros. unfold module_scope. simpl. apply lookup_dedup. Qed.

(* visibility class of each kind of candidate *)
Lemma sub_cands_vis : forall cn subs c, In c (sub_cands cn subs) -> sc_vis (snd c) = SEARCHABLE.
Proof.
  intros cn subs c H. unfold sub_cands in H. apply in_map_iff in H. destruct H as [s [Hs _]]. subst c. simpl.
  apply scope_of_type_vis.
Qed.

Lemma body_param_cands_not_searchable : forall cn b ps c,
  In c (body_cands cn b ++ map (param_cand cn) ps) -> sc_vis (snd c) <> SEARCHABLE.
Proof.
  intros cn b ps c H. apply in_app_or in H. destruct H as [H|H].
  - destruct b as [fs|vs|]; simpl in H; [| |destruct H].
    + apply in_flat_map in H. destruct H as [f [_ H]]. unfold field_cands in H.
      destruct (fd_abbr f) as [[a l]|]; simpl in H.
      * destruct H as [H|[H|[]]]; subst c; simpl; discriminate.
      * destruct H as [H|[]]; subst c; simpl; discriminate.
    + apply in_map_iff in H. destruct H as [v [Hv _]]. subst c. simpl. discriminate.
  - apply in_map_iff in H. destruct H as [p [Hp _]]. subst c. simpl. discriminate.
Qed.
