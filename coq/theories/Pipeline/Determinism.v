(* C17 — the two places impurity can enter a compilation (definitions only).

   (i)  Unordered collections.  A Python set is a list up to permutation; every modelled consumer
        whose result can reach output takes the enumeration order as an explicit argument:
          expected_join_raw / _sorted   error.make_error_from_parse_error  ", ".join(expected_tokens)
          ambiguous_name_error          symbol_resolver.ambiguous_name_error   sorted(candidate_locations)
          cycle_errors / _old           dependency_checker._find_object_dependency_cycles
                                        for cycle in sorted(cycles, key=sorted): sorted(list(cycle))
          sorted_consumer               any `f(sorted(s))`   (lr1._parallel_goto, _items, format_production_set, ...)
          fold_consumer                 any commutative accumulation (set union, any/all, dict of sets)
   (ii) Process state.  compile : state -> inputs -> state * output with glue._cached_modules and
        module_ir._anonymous_name_counter. *)
From Coq Require Import ZArith NArith List Bool String Permutation.
Import ListNotations.
Require Import EmbossV.Pipeline.Order EmbossV.Pipeline.Errors.
Open Scope N_scope.

(* ------------------------------------------------------------------------- *)
(* (i) consumers of unordered collections                                     *)
(* ------------------------------------------------------------------------- *)

(* expected-token list of a syntax error: before and after `sorted(...)` *)
Definition expected_join_raw (order : list str) : str := join (s2l ", ") order.
Definition expected_join_sorted (order : list str) : str := join (s2l ", ") (isort str_cmp order).

Definition syntax_error_text (joiner : list str -> str) (np : list N) (code : option str) (text symbol : str)
                             (order : list str) : str :=
  match code with Some c => if is_nil c then s2l "Syntax error" else c | None => s2l "Syntax error" end
  ++ [10] ++ s2l "Found " ++ py_repr np text ++ s2l " (" ++ symbol ++ s2l "), expected " ++ joiner order ++ [46].

(* FileLocation(file, SourceLocation) as a sort key: (file, [start.line; start.column; end.line; end.column;
   is_disjoint_from_parent; is_synthetic]) — tuple comparison is lexicographic *)
Definition candidate := (str * list N)%type.
Definition cand_cmp : candidate -> candidate -> comparison := pair_cmp str_cmp (list_cmp N.compare).
Definition cand_loc (c : candidate) : option loc :=
  match snd c with
  | [sl; sc; el; ec; _; syn] => Some (mkLoc (mkPos sl sc) (mkPos el ec) (negb (syn =? 0)))
  | _ => None
  end.
Definition ambiguous_name_error (file : str) (l : option loc) (name : str) (order : list candidate) : group :=
  mk_error file l (s2l "Ambiguous name '" ++ name ++ s2l "'")
  :: map (fun c => mk_note (fst c) (cand_loc c) (s2l "Possible resolution")) (isort cand_cmp order).

(* dependency cycles: `for cycle in cycles:` over a set of frozensets; each cycle is sorted, the
   outer iteration is not *)
Definition node := (str * list str)%type.                       (* (module file, object path) *)
Definition node_cmp : node -> node -> comparison := pair_cmp str_cmp (list_cmp str_cmp).
Definition cycle_group (describe : node -> message) (cycle_order : list node) : group :=
  map describe (isort node_cmp cycle_order).
(* `for cycle in sorted(cycles, key=sorted)` (commit c517e93): the key of a cycle is its sorted member list *)
Definition cycle_errors (describe : node -> message) (order : list (list node)) : errors :=
  map (map describe) (isort (list_cmp node_cmp) (map (isort node_cmp) order)).
(* before: `for cycle in cycles` *)
Definition cycle_errors_old (describe : node -> message) (order : list (list node)) : errors :=
  map (cycle_group describe) order.

(* generic shapes *)
Definition sorted_consumer {A B} (cmp : A -> A -> comparison) (f : list A -> B) (order : list A) : B :=
  f (isort cmp order).
Definition fold_consumer {A S} (step : A -> S -> S) (init : S) (order : list A) : S :=
  fold_right step init order.

(* ------------------------------------------------------------------------- *)
(* (ii) process state                                                         *)
(* ------------------------------------------------------------------------- *)

Section Compile.
  (* what parsing one module text yields apart from the numbers of its anonymous fields *)
  Variable content : Type.
  (* tokenize + parse + build_ir as a function of (source text, file name): the body and how many
     times _get_anonymous_field_name() is called; None = tokenizer or syntax error *)
  Variable parse : str -> str -> option (content * nat).

  Record module_ir := mkMod { body : content; anon : list N }.    (* anon: the N of emboss_reserved_anonymous_field_N *)
  Definition key := (str * str)%type.                             (* (source_code, file_name) *)
  Record state := mkState { cache : list (key * module_ir); counter : N }.

  Definition key_eqb (a b : key) : bool := str_eqb (fst a) (fst b) && str_eqb (snd a) (snd b).
  Fixpoint find_cache (k : key) (c : list (key * module_ir)) : option module_ir :=
    match c with
    | [] => None
    | (k', m) :: t => if key_eqb k k' then Some m else find_cache k t
    end.

  (* counter+1 .. counter+k *)
  Definition fresh (c : N) (k : nat) : list N := map (fun i => c + 1 + N.of_nat i) (seq 0 k).

  (* glue.parse_module_text *)
  Definition parse_module_text (st : state) (k : key) : state * option module_ir :=
    match find_cache k (cache st) with
    | Some m => (st, Some m)                                     (* ir_data_utils.copy(debug_info.ir) *)
    | None =>
        match parse (fst k) (snd k) with
        | None => (st, None)
        | Some (b, n) =>
            let m := mkMod b (fresh (counter st) n) in
            (mkState ((k, m) :: cache st) (counter st + N.of_nat n), Some m)
        end
    end.

  Inductive output :=
  | OIr (ms : list module_ir)          (* every module parsed: the list handed to process_ir *)
  | OErr (index : nat).                (* module #index (in visiting order) was rejected *)

  (* glue.only_parse_emboss_file over the modules in visiting order (main file, imports, prelude) *)
  Fixpoint compile_from (i : nat) (st : state) (inputs : list key) : state * output :=
    match inputs with
    | [] => (st, OIr [])
    | k :: rest =>
        match parse_module_text st k with
        | (st', None) => (st', OErr i)
        | (st', Some m) =>
            match compile_from (S i) st' rest with
            | (st'', OIr ms) => (st'', OIr (m :: ms))
            | r => r
            end
        end
    end.
  Definition compile (st : state) (inputs : list key) : state * output := compile_from 0 st inputs.

  Definition init_state : state := mkState [] 0.
  Definition drop_cache (st : state) : state := mkState [] (counter st).

  Definition names (ms : list module_ir) : list N := List.concat (map anon ms).
  Definition rename_mod (r : N -> N) (m : module_ir) : module_ir := mkMod (body m) (map r (anon m)).
  Definition inj_on (r : N -> N) (l : list N) : Prop := forall x y, In x l -> In y l -> r x = r y -> x = y.

  (* equal up to a renaming of emboss_reserved_anonymous_field_N *)
  Definition out_equiv (o1 o2 : output) : Prop :=
    match o1, o2 with
    | OIr ms1, OIr ms2 => exists r, inj_on r (names ms1) /\ ms2 = map (rename_mod r) ms1
    | OErr i, OErr j => i = j
    | _, _ => False
    end.

  (* the invariant of reachable states *)
  Definition entry_ok (cnt : N) (e : key * module_ir) : Prop :=
    exists c b n, parse (fst (fst e)) (snd (fst e)) = Some (b, n) /\ snd e = mkMod b (fresh c n) /\
                  c + N.of_nat n <= cnt.
  Definition wf (st : state) : Prop :=
    Forall (entry_ok (counter st)) (cache st) /\
    (forall e1 e2 x, In e1 (cache st) -> In e2 (cache st) ->
                     In x (anon (snd e1)) -> In x (anon (snd e2)) -> fst e1 = fst e2) /\
    NoDup (map fst (cache st)).

  Inductive reachable : state -> Prop :=
  | reach_init : reachable init_state
  | reach_step : forall st inputs, reachable st -> reachable (fst (compile st inputs)).
End Compile.
Arguments OIr {content}. Arguments OErr {content}.
Arguments mkMod {content}. Arguments body {content}. Arguments anon {content}.
Arguments mkState {content}. Arguments cache {content}. Arguments counter {content}.
