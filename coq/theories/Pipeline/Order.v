(* Orders and sorted(): definitions shared by Errors.v and Determinism.v (definitions only) *)
From Coq Require Import NArith List.
Import ListNotations.
Open Scope N_scope.

(* ------------------------------------------------------------------------- *)
(* orders and sorted()                                                        *)
(* ------------------------------------------------------------------------- *)

Fixpoint list_cmp {A} (c : A -> A -> comparison) (a b : list A) : comparison :=
  match a, b with
  | [], [] => Eq
  | [], _ :: _ => Lt
  | _ :: _, [] => Gt
  | x :: a', y :: b' => match c x y with Eq => list_cmp c a' b' | r => r end
  end.
Definition pair_cmp {A B} (ca : A -> A -> comparison) (cb : B -> B -> comparison) (x y : A * B) : comparison :=
  match ca (fst x) (fst y) with Eq => cb (snd x) (snd y) | r => r end.

Definition str_cmp : list N -> list N -> comparison := list_cmp N.compare.       (* Python str ordering: by code point *)

Section Sort.
  Context {A : Type}.
  Variable cmp : A -> A -> comparison.
  Definition leb (a b : A) : bool := match cmp a b with Gt => false | _ => true end.
  Fixpoint insert (a : A) (l : list A) : list A :=
    match l with
    | [] => [a]
    | b :: t => if leb a b then a :: l else b :: insert a t
    end.
  Definition isort (l : list A) : list A := fold_right insert [] l.
End Sort.

(* the laws a comparison must satisfy for sorted() to be canonical *)
Record ord_laws {A} (cmp : A -> A -> comparison) : Prop := mkOrd {
  cmp_eq : forall a b, cmp a b = Eq -> a = b;
  cmp_refl : forall a, cmp a a = Eq;
  cmp_anti : forall a b, cmp b a = CompOpp (cmp a b);
  cmp_trans : forall a b c, cmp a b = Lt -> cmp b c = Lt -> cmp a c = Lt
}.

