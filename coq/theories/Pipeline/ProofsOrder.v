(* C17 — proofs about sorted() and the consumers of unordered collections *)
From Coq Require Import ZArith NArith List Bool Lia String Permutation Sorted.
Import ListNotations.
Require Import EmbossV.Pipeline.Order EmbossV.Pipeline.Errors EmbossV.Pipeline.Determinism.
Open Scope N_scope.

(* ---- instances of ord_laws ---- *)
Lemma N_ord : ord_laws N.compare.
Proof.
  constructor.
  - intros a b H. apply N.compare_eq_iff. exact H.
  - intros a. apply N.compare_refl.
  - intros a b. apply N.compare_antisym.
  - intros a b c H1 H2. rewrite N.compare_lt_iff in *. lia.
Qed.

Lemma list_ord : forall {A} (c : A -> A -> comparison), ord_laws c -> ord_laws (list_cmp c).
Proof.
  intros A c [Heq Hrefl Hanti Htrans]. constructor.
  - induction a as [|x a IH]; destruct b as [|y b]; cbn; try discriminate; [reflexivity|].
    destruct (c x y) eqn:E; try discriminate. intros H. apply Heq in E. subst y. f_equal. apply IH. exact H.
  - induction a as [|x a IH]; cbn; [reflexivity|]. rewrite Hrefl. exact IH.
  - induction a as [|x a IH]; destruct b as [|y b]; cbn; try reflexivity.
    rewrite (Hanti x y). destruct (c x y); cbn; [apply IH|reflexivity|reflexivity].
  - induction a as [|x a IH]; destruct b as [|y b]; destruct c0 as [|z c0]; cbn; try discriminate; try reflexivity.
    destruct (c x y) eqn:E1; try discriminate.
    + apply Heq in E1. subst y. destruct (c x z) eqn:E2; try discriminate; [apply IH|reflexivity].
    + intros _. destruct (c y z) eqn:E2; try discriminate.
      * apply Heq in E2. subst z. rewrite E1. reflexivity.
      * intros _. rewrite (Htrans _ _ _ E1 E2). reflexivity.
Qed.

Lemma pair_ord : forall {A B} (ca : A -> A -> comparison) (cb : B -> B -> comparison),
  ord_laws ca -> ord_laws cb -> ord_laws (pair_cmp ca cb).
Proof.
  intros A B ca cb [Aeq Arefl Aanti Atrans] [Beq Brefl Banti Btrans]. constructor; unfold pair_cmp.
  - intros [a1 b1] [a2 b2]; cbn. destruct (ca a1 a2) eqn:E; try discriminate.
    intros H. apply Aeq in E. apply Beq in H. congruence.
  - intros [a b]; cbn. rewrite Arefl. apply Brefl.
  - intros [a1 b1] [a2 b2]; cbn. rewrite (Aanti a1 a2). destruct (ca a1 a2); cbn; [apply Banti|reflexivity|reflexivity].
  - intros [a1 b1] [a2 b2] [a3 b3]; cbn.
    destruct (ca a1 a2) eqn:E1; try discriminate.
    + apply Aeq in E1. subst a2. destruct (ca a1 a3); try discriminate; [apply Btrans|reflexivity].
    + intros _. destruct (ca a2 a3) eqn:E2; try discriminate.
      * apply Aeq in E2. subst a3. rewrite E1. reflexivity.
      * intros _. rewrite (Atrans _ _ _ E1 E2). reflexivity.
Qed.

Lemma str_ord : ord_laws str_cmp.
Proof. apply list_ord, N_ord. Qed.
Lemma cand_ord : ord_laws cand_cmp.
Proof. apply pair_ord; [apply str_ord|apply list_ord, N_ord]. Qed.
Lemma node_ord : ord_laws node_cmp.
Proof. apply pair_ord; [apply str_ord|apply list_ord, str_ord]. Qed.

(* ---- sorted() is canonical: it depends only on the multiset ---- *)
Section SortProofs.
  Context {A : Type}.
  Variable cmp : A -> A -> comparison.
  Hypothesis O : ord_laws cmp.

  Lemma leb_false_gt : forall a b, leb cmp a b = false -> cmp a b = Gt.
  Proof. intros a b H. unfold leb in H. destruct (cmp a b); [discriminate|discriminate|reflexivity]. Qed.

  Lemma leb_both_eq : forall a b, leb cmp a b = true -> leb cmp b a = true -> a = b.
  Proof.
    intros a b H1 H2. unfold leb in *. destruct O as [Heq _ Hanti _].
    rewrite (Hanti a b) in H2. destruct (cmp a b) eqn:E; [apply Heq; exact E|cbn in H2; discriminate|discriminate].
  Qed.

  Lemma leb_total : forall a b, leb cmp a b = false -> leb cmp b a = true.
  Proof.
    intros a b H. apply leb_false_gt in H. unfold leb. destruct O as [_ _ Hanti _].
    rewrite (Hanti a b), H. reflexivity.
  Qed.

  Lemma leb_trans : forall a b c, leb cmp a b = true -> leb cmp b c = true -> leb cmp a c = true.
  Proof.
    intros a b c H1 H2. unfold leb in *. destruct O as [Heq Hrefl Hanti Htrans].
    destruct (cmp a b) eqn:E1; try discriminate.
    - apply Heq in E1. subst b. exact H2.
    - destruct (cmp b c) eqn:E2; try discriminate.
      + apply Heq in E2. subst c. rewrite E1. reflexivity.
      + rewrite (Htrans _ _ _ E1 E2). reflexivity.
  Qed.

  Lemma insert_comm : forall x y l, insert cmp x (insert cmp y l) = insert cmp y (insert cmp x l).
  Proof.
    intros x y l. induction l as [|b t IH].
    - cbn. destruct (leb cmp x y) eqn:E1; destruct (leb cmp y x) eqn:E2; try reflexivity.
      + rewrite (leb_both_eq _ _ E1 E2). reflexivity.
      + apply leb_total in E1. congruence.
    - cbn [insert]. destruct (leb cmp y b) eqn:Eyb; destruct (leb cmp x b) eqn:Exb; cbn [insert].
      + destruct (leb cmp x y) eqn:E1; destruct (leb cmp y x) eqn:E2; rewrite ?Exb, ?Eyb; try reflexivity.
        * rewrite (leb_both_eq _ _ E1 E2). reflexivity.
        * apply leb_total in E1. congruence.
      + (* y <= b < x *)
        assert (E : leb cmp x y = false).
        { destruct (leb cmp x y) eqn:E; [|reflexivity]. rewrite (leb_trans _ _ _ E Eyb) in Exb. discriminate. }
        rewrite E, Exb. destruct (leb cmp y x) eqn:E2; [|apply leb_total in E; congruence].
        rewrite Eyb. reflexivity.
      + (* x <= b < y *)
        assert (E : leb cmp y x = false).
        { destruct (leb cmp y x) eqn:E; [|reflexivity]. rewrite (leb_trans _ _ _ E Exb) in Eyb. discriminate. }
        rewrite E, Eyb. destruct (leb cmp x y) eqn:E2; [|apply leb_total in E; congruence].
        rewrite Exb. reflexivity.
      + rewrite Exb, Eyb, IH. reflexivity.
  Qed.

  Lemma isort_perm_eq : forall l1 l2, Permutation l1 l2 -> isort cmp l1 = isort cmp l2.
  Proof.
    intros l1 l2 H. unfold isort. induction H; cbn [fold_right].
    - reflexivity.
    - rewrite IHPermutation. reflexivity.
    - apply insert_comm.
    - congruence.
  Qed.

  Lemma insert_perm : forall a l, Permutation (a :: l) (insert cmp a l).
  Proof.
    intros a l. induction l as [|b t IH]; cbn; [apply Permutation_refl|].
    destruct (leb cmp a b); [apply Permutation_refl|].
    eapply perm_trans; [apply perm_swap|]. apply perm_skip. exact IH.
  Qed.

  Lemma isort_perm : forall l, Permutation l (isort cmp l).
  Proof.
    unfold isort. induction l as [|a t IH]; cbn [fold_right]; [apply perm_nil|].
    eapply perm_trans; [apply perm_skip; exact IH|apply insert_perm].
  Qed.

  (* sorted(): the result is ordered *)
  Lemma insert_sorted : forall a l, StronglySorted (fun x y => leb cmp x y = true) l ->
                                    StronglySorted (fun x y => leb cmp x y = true) (insert cmp a l).
  Proof.
    intros a l H. induction H as [|b t Hs IH Hb]; cbn.
    - constructor; constructor.
    - destruct (leb cmp a b) eqn:E.
      + constructor; [constructor; assumption|]. constructor; [exact E|].
        eapply Forall_impl; [|exact Hb]. intros c Hc. eapply leb_trans; eassumption.
      + constructor; [exact IH|].
        assert (Hp := insert_perm a t). apply Forall_forall. intros c Hc.
        apply (Permutation_in _ (Permutation_sym Hp)) in Hc. destruct Hc as [<-|Hc].
        * apply leb_total. exact E.
        * rewrite Forall_forall in Hb. apply Hb. exact Hc.
  Qed.

  Lemma isort_sorted : forall l, StronglySorted (fun x y => leb cmp x y = true) (isort cmp l).
  Proof. unfold isort. induction l; cbn [fold_right]; [constructor|apply insert_sorted; assumption]. Qed.
End SortProofs.

Lemma sorted_sorts_lem : forall {A} (cmp : A -> A -> comparison) l,
  ord_laws cmp -> StronglySorted (fun x y => leb cmp x y = true) (isort cmp l) /\ Permutation l (isort cmp l).
Proof. intros A cmp l O. split; [apply isort_sorted; exact O|apply isort_perm]. Qed.

(* ---- consumers ---- *)

Lemma order_irrelevant_sorted_consumer_lem : forall {A B} (cmp : A -> A -> comparison) (f : list A -> B) p1 p2,
  ord_laws cmp -> Permutation p1 p2 -> sorted_consumer cmp f p1 = sorted_consumer cmp f p2.
Proof. intros. unfold sorted_consumer. f_equal. apply isort_perm_eq; assumption. Qed.

Lemma order_irrelevant_fold_lem : forall {A S} (R : S -> S -> Prop) (step : A -> S -> S) init p1 p2,
  (forall s, R s s) -> (forall s1 s2 s3, R s1 s2 -> R s2 s3 -> R s1 s3) ->
  (forall a s1 s2, R s1 s2 -> R (step a s1) (step a s2)) ->
  (forall a b s, R (step a (step b s)) (step b (step a s))) ->
  Permutation p1 p2 -> R (fold_consumer step init p1) (fold_consumer step init p2).
Proof.
  intros A S R step init p1 p2 Hrefl Htrans Hcong Hcomm H. unfold fold_consumer.
  induction H; cbn.
  - apply Hrefl.
  - apply Hcong. exact IHPermutation.
  - apply Hcomm.
  - eapply Htrans; eassumption.
Qed.

(* any(...) / all(...) over a set *)
Lemma order_irrelevant_any_lem : forall {A} (f : A -> bool) p1 p2,
  Permutation p1 p2 -> existsb f p1 = existsb f p2.
Proof.
  intros A f p1 p2 H. induction H; cbn; try congruence.
  destruct (f x), (f y); reflexivity.
Qed.
Lemma order_irrelevant_all_lem : forall {A} (f : A -> bool) p1 p2,
  Permutation p1 p2 -> forallb f p1 = forallb f p2.
Proof.
  intros A f p1 p2 H. induction H; cbn; try congruence.
  destruct (f x), (f y); reflexivity.
Qed.

(* building a set (membership is all that is observed) *)
Lemma order_irrelevant_set_builder_lem : forall {A B} (f : A -> list B) p1 p2 x,
  Permutation p1 p2 -> (In x (flat_map f p1) <-> In x (flat_map f p2)).
Proof.
  intros A B f p1 p2 x H. rewrite !in_flat_map. split; intros [a [Ha Hx]]; exists a; split; try assumption.
  - eapply Permutation_in; eassumption.
  - eapply Permutation_in; [apply Permutation_sym|]; eassumption.
Qed.

(* expected tokens: ", ".join(sorted(expected_tokens)) *)
Lemma order_irrelevant_expected_tokens_lem : forall p1 p2 np code text symbol,
  Permutation p1 p2 -> parse_error_text np code text symbol p1 = parse_error_text np code text symbol p2.
Proof.
  intros. unfold parse_error_text. rewrite (isort_perm_eq str_cmp str_ord p1 p2 H). reflexivity.
Qed.

Lemma order_irrelevant_parse_error_message_lem : forall np file code t p1 p2,
  Permutation p1 p2 ->
  make_error_from_parse_error np file (mkPE code t p1) = make_error_from_parse_error np file (mkPE code t p2).
Proof.
  intros. unfold make_error_from_parse_error. cbn [pe_token pe_code pe_expected].
  destruct t as [sym tx l|]; [|reflexivity].
  rewrite (order_irrelevant_expected_tokens_lem p1 p2 np code tx sym H). reflexivity.
Qed.

(* before e30aa7a: ", ".join(expected_tokens) *)
Lemma old_order_irrelevant_expected_tokens_refuted_lem :
  exists p1 p2 np code text symbol,
    Permutation p1 p2 /\ parse_error_text_old np code text symbol p1 <> parse_error_text_old np code text symbol p2.
Proof.
  exists [s2l """[""" ; s2l """("""], [s2l """(""" ; s2l """["""], [], None, (s2l "3"), (s2l "Number").
  split; [apply perm_swap|]. vm_compute. discriminate.
Qed.

(* the two join functions of Determinism.v are the two versions of error.py *)
Lemma syntax_error_text_models : forall np code text symbol order,
  syntax_error_text expected_join_sorted np code text symbol order = parse_error_text np code text symbol order /\
  syntax_error_text expected_join_raw np code text symbol order = parse_error_text_old np code text symbol order.
Proof. split; reflexivity. Qed.

Lemma order_irrelevant_ambiguous_name_lem : forall file l name p1 p2,
  Permutation p1 p2 -> ambiguous_name_error file l name p1 = ambiguous_name_error file l name p2.
Proof.
  intros. unfold ambiguous_name_error. rewrite (isort_perm_eq cand_cmp cand_ord p1 p2 H). reflexivity.
Qed.

(* dependency cycles: inside a cycle the order is irrelevant ... *)
Lemma order_irrelevant_cycle_members_lem : forall describe c1 c2,
  Permutation c1 c2 -> cycle_group describe c1 = cycle_group describe c2.
Proof.
  intros. unfold cycle_group. rewrite (isort_perm_eq node_cmp node_ord c1 c2 H). reflexivity.
Qed.

(* ... and (since c517e93) so is the order of the cycles: two enumerations of the same set of sets give
   the same error list *)
Definition same_set_of_sets (p1 p2 : list (list node)) : Prop :=
  exists p1', Permutation p1 p1' /\ Forall2 (@Permutation node) p1' p2.

Lemma order_irrelevant_cycles_lem : forall describe p1 p2,
  same_set_of_sets p1 p2 -> cycle_errors describe p1 = cycle_errors describe p2.
Proof.
  intros describe p1 p2 [p1' [Hp Hf]]. unfold cycle_errors. f_equal.
  assert (E : map (isort node_cmp) p1' = map (isort node_cmp) p2).
  { clear Hp. induction Hf; cbn [map]; [reflexivity|]. f_equal; [apply isort_perm_eq; [apply node_ord|assumption]|assumption]. }
  rewrite <- E. apply isort_perm_eq; [apply list_ord, node_ord|]. apply Permutation_map. exact Hp.
Qed.

(* before: `for cycle in cycles` — the order of the cycles reached the output *)
Definition ex_node (n : string) : node := (s2l "m.emb", [s2l "Foo"; s2l n]).
Definition ex_describe (n : node) : message :=
  mk_error (fst n) (Some (mkLoc (mkPos 1 1) (mkPos 1 2) false)) (List.concat (snd n)).

Lemma old_order_irrelevant_cycles_refuted_lem :
  exists describe p1 p2, Permutation p1 p2 /\ cycle_errors_old describe p1 <> cycle_errors_old describe p2.
Proof.
  exists ex_describe, [[ex_node "a"; ex_node "b"]; [ex_node "c"; ex_node "d"]],
         [[ex_node "c"; ex_node "d"]; [ex_node "a"; ex_node "b"]].
  split; [apply perm_swap|]. vm_compute. discriminate.
Qed.

Lemma old_order_irrelevant_cycles_partial_lem : forall describe p1 p2,
  Permutation p1 p2 -> Permutation (cycle_errors_old describe p1) (cycle_errors_old describe p2).
Proof. intros. unfold cycle_errors_old. apply Permutation_map. assumption. Qed.

Example cycles_example :
  cycle_errors ex_describe [[ex_node "d"; ex_node "c"]; [ex_node "b"; ex_node "a"]] =
  cycle_errors_old ex_describe [[ex_node "a"; ex_node "b"]; [ex_node "c"; ex_node "d"]].
Proof. vm_compute. reflexivity. Qed.

(* non-vacuity: sorted() really sorts *)
Example isort_example :
  isort str_cmp [s2l "b"; s2l "a"; s2l "ab"; s2l ""] = [s2l ""; s2l "a"; s2l "ab"; s2l "b"].
Proof. vm_compute. reflexivity. Qed.
