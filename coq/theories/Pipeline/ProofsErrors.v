(* C16 — proofs about the model in Errors.v *)
From Coq Require Import ZArith NArith List Bool Lia ZifyBool String Ascii.
Import ListNotations.
Require Import EmbossV.Pipeline.Errors.
Open Scope N_scope.

(* ------------------------------------------------------------------------- *)
(* _Message.format                                                            *)
(* ------------------------------------------------------------------------- *)

Lemma py_index_inside : forall {A} (l : list A) (n : N),
  1 <= n -> (N.to_nat n <= List.length l)%nat ->
  exists x, nth_error l (N.to_nat (n - 1)) = Some x /\ py_index l (Z.of_N n - 1) = Some x.
Proof.
  intros A l n H1 H2.
  assert (Hlt : (N.to_nat (n - 1) < List.length l)%nat) by lia.
  destruct (nth_error l (N.to_nat (n - 1))) as [x|] eqn:E.
  - exists x. split; [reflexivity|]. unfold py_index.
    destruct (0 <=? Z.of_N n - 1)%Z eqn:E0; [|lia].
    replace (Z.to_nat (Z.of_N n - 1)) with (N.to_nat (n - 1)) by lia. exact E.
  - apply nth_error_None in E. lia.
Qed.

Lemma py_index_none_iff : forall {A} (l : list A) (n : N),
  py_index l (Z.of_N n - 1) = None <->
  ((N.to_nat n > List.length l)%nat \/ (n = 0 /\ l = [])).
Proof.
  intros A l n. unfold py_index.
  destruct (0 <=? Z.of_N n - 1)%Z eqn:E0.
  - rewrite nth_error_None. split; [intros H; left; lia|intros [H|[H _]]; lia].
  - assert (n = 0) by lia. subst n. cbn.
    destruct (0 <=? Z.of_nat (List.length l) + -1)%Z eqn:E1.
    + rewrite nth_error_None. split; [intros H; lia|].
      intros [H|[_ H]]; [lia|]. subst l. cbn in E1. lia.
    + split; [intros _; right; split; [reflexivity|]|reflexivity].
      destruct l; [reflexivity|cbn [List.length] in E1; lia].
Qed.



Lemma caret_count_pos : forall l, (1 <= caret_count l)%nat.
Proof. intros l. unfold caret_count. destruct (_ =? _); lia. Qed.

Lemma render_names_position : forall m sl, names_position_any m (render m sl).
Proof.
  intros m sl l0 rest E. unfold render. rewrite E. cbn [header]. eexists. cbn [app]. reflexivity.
Qed.

Lemma render_shows_line : forall m sl, shows_line m sl (render m sl).
Proof.
  intros m sl Hne. unfold render, snippet. destruct sl as [|c sl]; [contradiction|]. cbn [is_nil].
  eexists. exists (caret_count (mloc m)). split; [apply caret_count_pos|]. reflexivity.
Qed.

Lemma source_line_inside : forall S m txt,
  lsyn (mloc m) = false -> lookup (mfile m) S = Some txt -> inside txt (mloc m) ->
  exists line, nth_error (splitlines txt) (N.to_nat (pline (lstart (mloc m)) - 1)) = Some line /\
               source_line_of S m = line /\ source_line_of_old S m = Some line.
Proof.
  intros S m txt Hs Hl [H1 H2].
  destruct (py_index_inside (splitlines txt) _ H1 H2) as [line [Hn Hp]].
  exists line. split; [exact Hn|]. unfold source_line_of, source_line_of_old. rewrite Hs, Hl, Hp.
  split; [|reflexivity]. cbv zeta.
  destruct ((0 <? pline (lstart (mloc m))) && (N.to_nat (pline (lstart (mloc m))) <=? List.length (splitlines txt))%nat) eqn:E.
  - apply nth_error_nth. exact Hn.
  - exfalso. apply andb_false_iff in E. destruct E as [E|E].
    + apply N.ltb_ge in E. lia.
    + apply Nat.leb_gt in E. lia.
Qed.

Lemma format_total_lem : forall S m txt,
  lsyn (mloc m) = false -> lookup (mfile m) S = Some txt -> inside txt (mloc m) ->
  exists line,
    nth_error (splitlines txt) (N.to_nat (pline (lstart (mloc m)) - 1)) = Some line /\
    names_position m (format S m) /\ shows_line m line (format S m).
Proof.
  intros S m txt Hs Hl Hin.
  destruct (source_line_inside S m txt Hs Hl Hin) as [line [Hn [Hsl _]]].
  exists line. split; [exact Hn|]. unfold format. rewrite Hsl. split.
  - intros l0 rest E. destruct (render_names_position m line l0 rest E) as [tail Ht].
    exists tail. rewrite Ht. unfold prefix_text, position_text, pos_str. rewrite Hs.
    rewrite <- !app_assoc. reflexivity.
  - apply render_shows_line.
Qed.

(* whatever the location: every line of the message carries the file name and the position text *)
Lemma format_prefix_lem : forall S m, names_position_any m (format S m).
Proof. intros. apply render_names_position. Qed.

(* a location outside the file (or an unknown file, or a synthetic location): header only *)
Lemma format_outside_lem : forall S m,
  (lsyn (mloc m) = true \/ lookup (mfile m) S = None \/
   exists txt, lookup (mfile m) S = Some txt /\ ~ inside txt (mloc m)) ->
  format S m = header m true false (splitlines (mtext m)).
Proof.
  intros S m H. unfold format, render.
  assert (E : source_line_of S m = []).
  { unfold source_line_of. destruct (lsyn (mloc m)) eqn:Es; [reflexivity|].
    destruct H as [H|[H|[txt [Hl Hout]]]]; [discriminate|rewrite H; reflexivity|].
    rewrite Hl. cbv zeta.
    destruct ((0 <? pline (lstart (mloc m))) && (N.to_nat (pline (lstart (mloc m))) <=? List.length (splitlines txt))%nat) eqn:E;
      [|reflexivity].
    exfalso. apply Hout. apply andb_true_iff in E. destruct E as [E1 E2].
    apply N.ltb_lt in E1. apply Nat.leb_le in E2. split; lia. }
  rewrite E. cbn. apply app_nil_r.
Qed.

(* the version before f285438 *)
Lemma old_format_fails_iff_lem : forall S m,
  format_old S m = None <->
  (lsyn (mloc m) = false /\ exists txt, lookup (mfile m) S = Some txt /\
     ((N.to_nat (pline (lstart (mloc m))) > List.length (splitlines txt))%nat
      \/ (pline (lstart (mloc m)) = 0 /\ splitlines txt = []))).
Proof.
  intros S m. unfold format_old, source_line_of_old.
  destruct (lsyn (mloc m)).
  - split; [discriminate|intros [H _]; discriminate].
  - destruct (lookup (mfile m) S) as [txt|].
    + destruct (py_index (splitlines txt) _) eqn:E.
      * split; [discriminate|]. intros [_ [t [Ht H]]]. inversion Ht; subst t.
        apply py_index_none_iff in H. congruence.
      * split; [|reflexivity]. intros _. split; [reflexivity|]. exists txt. split; [reflexivity|].
        apply py_index_none_iff. exact E.
    + split; [discriminate|]. intros [_ [t [Ht _]]]. discriminate.
Qed.

(* old and new format agree wherever the location is inside the file *)
Lemma format_old_agrees_lem : forall S m txt,
  lsyn (mloc m) = false -> lookup (mfile m) S = Some txt -> inside txt (mloc m) ->
  format_old S m = Some (format S m).
Proof.
  intros S m txt Hs Hl Hin. destruct (source_line_inside S m txt Hs Hl Hin) as [line [_ [H1 H2]]].
  unfold format_old, format. rewrite H1, H2. reflexivity.
Qed.

(* synthetic messages render as [compiler bug]; others never do *)
Lemma synthetic_marker_lem : forall S m l0 rest,
  splitlines (mtext m) = l0 :: rest ->
  exists tail, format S m = (BOLD, source_name m ++ [58] ++ (if lsyn (mloc m) then s2l "[compiler bug]" else pos_str (lstart (mloc m))) ++ [58; 32]) :: tail.
Proof.
  intros S m l0 rest E. destruct (format_prefix_lem S m l0 rest E) as [tail Ht]. exists tail. exact Ht.
Qed.

(* ------------------------------------------------------------------------- *)
(* split_errors / process_ir                                                  *)
(* ------------------------------------------------------------------------- *)

Lemma split_user_not_synthetic : forall e g,
  In g (fst (split_errors e)) -> group_synthetic g = false /\ In g e.
Proof.
  intros e g H. cbn in H. apply filter_In in H. destruct H as [H1 H2].
  split; [destruct (group_synthetic g); [discriminate|reflexivity]|exact H1].
Qed.

Lemma split_hidden_synthetic : forall e g,
  In g (snd (split_errors e)) -> group_synthetic g = true /\ In g e.
Proof. intros e g H. cbn in H. apply filter_In in H. tauto. Qed.

Lemma split_partition : forall e g, In g e -> In g (fst (split_errors e)) \/ In g (snd (split_errors e)).
Proof.
  intros e g H. cbn. destruct (group_synthetic g) eqn:E.
  - right. apply filter_In. auto.
  - left. apply filter_In. rewrite E. auto.
Qed.

Lemma is_nil_true : forall {A} (l : list A), is_nil l = true <-> l = [].
Proof. intros A [|x l]; cbn; split; congruence. Qed.

Lemma group_synthetic_iff : forall g, group_synthetic g = true <-> exists m, In m g /\ lsyn (mloc m) = true.
Proof. intros g. unfold group_synthetic. apply existsb_exists. Qed.

Section PipelineProofs.
  Variable IR : Type.
  Notation pass := (pass IR).


  Lemma run_passes_outcome : forall ps stop ir d,
    stop_valid ps stop ->
    match run_passes IR ps stop ir d with
    | POk _ => True
    | PErr e => e <> []
    | PCrash => False
    end.
  Proof.
    induction ps as [|[name p] rest IH]; intros stop ir d Hv.
    - cbn. destruct d; cbn; [|discriminate]. destruct stop; [cbn in Hv; discriminate|exact I].
    - cbn [run_passes]. destruct (opt_str_eqb stop name) eqn:Es; [exact I|].
      destruct (p ir) as [ir' out]. destruct (split_errors out) as [user hidden] eqn:Esp.
      destruct (is_nil user) eqn:En.
      + apply IH. destruct stop as [s|]; [|exact I]. cbn in Hv |- *. cbn in Es.
        rewrite Es in Hv. exact Hv.
      + intros ->. cbn in En. discriminate.
  Qed.

  Lemma pipeline_outcome_lem : forall ps stop ir,
    stop_valid ps stop ->
    (exists ir', process_ir IR ps stop ir = POk ir') \/
    (exists e, process_ir IR ps stop ir = PErr e /\ e <> []).
  Proof.
    intros ps stop ir Hv. pose proof (run_passes_outcome ps stop ir [] Hv) as H.
    unfold process_ir. destruct stop as [s|].
    - cbn in Hv. rewrite Hv. destruct (run_passes IR ps (Some s) ir []); [left; eauto|right; eauto|contradiction].
    - destruct (run_passes IR ps None ir []); [left; eauto|right; eauto|contradiction].
  Qed.

  Lemma parse_emboss_file_outcome_lem : forall parsed ps stop,
    stop_valid ps stop -> (snd parsed = [] -> fst parsed <> None) ->
    (exists ir', parse_emboss_file IR parsed ps stop = POk ir') \/
    (exists e, parse_emboss_file IR parsed ps stop = PErr e /\ e <> []).
  Proof.
    intros [ir e] ps stop Hv Hp. unfold parse_emboss_file. cbn [fst snd] in *.
    destruct e as [|g e]; cbn [is_nil].
    - destruct ir as [ir|]; [apply pipeline_outcome_lem; exact Hv|exfalso; apply Hp; reflexivity].
    - right. eexists. split; [reflexivity|discriminate].
  Qed.

  (* invalid stop name: the entry assert fires *)
  Lemma process_ir_bad_stop_lem : forall ps s ir,
    existsb (fun np => str_eqb s (fst np)) ps = false -> process_ir IR ps (Some s) ir = PCrash.
  Proof. intros ps s ir H. unfold process_ir. rewrite H. reflexivity. Qed.


  (* the full statement about run_passes with stop = None, generalised over the deferred list *)
  Lemma run_passes_shape : forall ps ir d,
    all_synthetic d ->
    match run_passes IR ps None ir d with
    | POk _ => d = [] /\ (forall out, In out (trace IR ps ir) -> out = [] \/ (fst (split_errors out) = [] /\ snd (split_errors out) = []))
    | PErr e =>
        (none_synthetic e /\ exists out, In out (trace IR ps ir) /\ e = fst (split_errors out)) \/
        (all_synthetic e /\ forall out, In out (trace IR ps ir) -> fst (split_errors out) = [])
    | PCrash => False
    end.
  Proof.
    induction ps as [|[name p] rest IH]; intros ir d Hd.
    - cbn. destruct d; cbn.
      + split; [reflexivity|intros out []].
      + right. split; [exact Hd|intros out []].
    - cbn [run_passes trace opt_str_eqb]. destruct (p ir) as [ir' out].
      destruct (split_errors out) as [user hidden] eqn:Esp.
      destruct (is_nil user) eqn:En.
      + apply is_nil_true in En. subst user.
        assert (Hd' : all_synthetic (d ++ hidden)).
        { intros g Hg. apply in_app_or in Hg. destruct Hg as [Hg|Hg]; [auto|].
          replace hidden with (snd (split_errors out)) in Hg by (rewrite Esp; reflexivity).
          apply split_hidden_synthetic in Hg. tauto. }
        specialize (IH ir' (d ++ hidden) Hd').
        destruct (run_passes IR rest None ir' (d ++ hidden)) as [irf|e|].
        * destruct IH as [Hnil IHt]. apply app_eq_nil in Hnil. destruct Hnil as [-> ->].
          split; [reflexivity|]. intros o [<-|Ho]; [|auto]. right. rewrite Esp. auto.
        * destruct IH as [[Hn [o [Ho He]]]|[Ha Ht]].
          -- left. split; [exact Hn|]. exists o. split; [right; exact Ho|exact He].
          -- right. split; [exact Ha|]. intros o [<-|Ho]; [rewrite Esp; reflexivity|auto].
        * exact IH.
      + left. split.
        * intros g Hg. replace user with (fst (split_errors out)) in Hg by (rewrite Esp; reflexivity).
          apply split_user_not_synthetic in Hg. tauto.
        * exists out. split; [left; reflexivity|rewrite Esp; reflexivity].
  Qed.

  (* if any pass (in running order, the IR threaded through) reports a user-level group,
     the result is an error list without any synthetic message *)
  Lemma no_synthetic_if_user_error_lem : forall ps ir,
    (exists out g, In out (trace IR ps ir) /\ In g out /\ group_synthetic g = false) ->
    exists e, process_ir IR ps None ir = PErr e /\ e <> [] /\
              forall g m, In g e -> In m g -> lsyn (mloc m) = false.
  Proof.
    intros ps ir [out [g [Ho [Hg Hs]]]].
    pose proof (run_passes_shape ps ir [] (fun g H => match H with end)) as H.
    pose proof (run_passes_outcome ps None ir [] I) as Hne.
    unfold process_ir. destruct (run_passes IR ps None ir []) as [irf|e|].
    - exfalso. destruct H as [_ H]. specialize (H out Ho).
      destruct (split_partition out g Hg) as [Hu|Hh].
      + destruct H as [->|[H _]]; [destruct Hg|rewrite H in Hu; destruct Hu].
      + apply split_hidden_synthetic in Hh. destruct Hh as [Hh _]. congruence.
    - exists e. split; [reflexivity|]. split; [exact Hne|].
      destruct H as [[Hn _]|[Ha Ht]].
      + intros g0 m Hg0 Hm. specialize (Hn g0 Hg0).
        destruct (lsyn (mloc m)) eqn:E; [|reflexivity].
        assert (group_synthetic g0 = true) by (apply group_synthetic_iff; eauto). congruence.
      + exfalso. specialize (Ht out Ho).
        destruct (split_partition out g Hg) as [Hu|Hh].
        * rewrite Ht in Hu. destruct Hu.
        * apply split_hidden_synthetic in Hh. destruct Hh as [Hh _]. congruence.
    - contradiction.
  Qed.

  (* "shown only if nothing else": a synthetic message in the result means no pass reported
     any user-level group *)
  Lemma synthetic_only_if_nothing_else_lem : forall ps ir e g m,
    process_ir IR ps None ir = PErr e -> In g e -> In m g -> lsyn (mloc m) = true ->
    forall out g', In out (trace IR ps ir) -> In g' out -> group_synthetic g' = true.
  Proof.
    intros ps ir e g m He Hg Hm Hs out g' Ho Hg'.
    destruct (group_synthetic g') eqn:E; [reflexivity|exfalso].
    destruct (no_synthetic_if_user_error_lem ps ir) as [e' [He' [_ Hall]]]; [eauto|].
    rewrite He in He'. inversion He'; subst e'. specialize (Hall g m Hg Hm). congruence.
  Qed.


  Lemma run_passes_groups : forall ps stop ir d e,
    groups_nonempty d -> (forall out, In out (trace IR ps ir) -> groups_nonempty out) ->
    run_passes IR ps stop ir d = PErr e -> groups_nonempty e.
  Proof.
    induction ps as [|[name p] rest IH]; intros stop ir d e Hd Ht Hr.
    - cbn in Hr. destruct (is_nil d); [destruct stop; discriminate|]. inversion Hr; subst; exact Hd.
    - cbn [run_passes trace] in *. destruct (opt_str_eqb stop name); [discriminate|].
      destruct (p ir) as [ir' out]. destruct (split_errors out) as [user hidden] eqn:Esp.
      assert (Hout : groups_nonempty out) by (apply Ht; left; reflexivity).
      destruct (is_nil user).
      + eapply IH; [| |exact Hr].
        * intros g Hg. apply in_app_or in Hg. destruct Hg as [Hg|Hg]; [auto|].
          replace hidden with (snd (split_errors out)) in Hg by (rewrite Esp; reflexivity).
          apply split_hidden_synthetic in Hg. apply Hout; tauto.
        * intros o Ho. apply Ht. right. exact Ho.
      + inversion Hr; subst e. intros g Hg.
        replace user with (fst (split_errors out)) in Hg by (rewrite Esp; reflexivity).
        apply split_user_not_synthetic in Hg. apply Hout; tauto.
  Qed.

  Lemma pipeline_groups_nonempty_lem : forall ps stop ir e,
    (forall out, In out (trace IR ps ir) -> groups_nonempty out) ->
    process_ir IR ps stop ir = PErr e -> groups_nonempty e.
  Proof.
    intros ps stop ir e Ht Hr. unfold process_ir in Hr.
    destruct stop as [s|].
    - destruct (existsb _ ps); [|discriminate].
      eapply run_passes_groups; [| exact Ht | exact Hr]. intros g [].
    - eapply run_passes_groups; [| exact Ht | exact Hr]. intros g [].
  Qed.
End PipelineProofs.

(* ------------------------------------------------------------------------- *)
(* format_errors                                                              *)
(* ------------------------------------------------------------------------- *)

(* every group non-empty: the whole error list renders, wherever the locations are *)
Lemma format_errors_total_lem : forall e S,
  (forall g, In g e -> g <> []) -> exists s, format_errors e S = Some s.
Proof.
  intros e S Hne. unfold format_errors.
  destruct (existsb is_nil e) eqn:E; [|eexists; reflexivity].
  apply existsb_exists in E. destruct E as [g [Hg Hn]]. apply is_nil_true in Hn.
  exfalso. apply (Hne g Hg Hn).
Qed.

Lemma format_errors_fails_iff_lem : forall e S, format_errors e S = None <-> In [] e.
Proof.
  intros e S. unfold format_errors. destruct (existsb is_nil e) eqn:E.
  - split; [intros _|reflexivity]. apply existsb_exists in E. destruct E as [g [Hg Hn]].
    apply is_nil_true in Hn. subst g. exact Hg.
  - split; [discriminate|]. intros H. assert (existsb is_nil e = true) by (apply existsb_exists; exists []; auto).
    congruence.
Qed.

(* ------------------------------------------------------------------------- *)
(* make_error_from_parse_error                                                *)
(* ------------------------------------------------------------------------- *)

Lemma parse_error_defined_iff_lem : forall np file e,
  (exists g, make_error_from_parse_error np file e = Some g) <-> is_tok (pe_token e) = true.
Proof.
  intros np file e. unfold make_error_from_parse_error. destruct (pe_token e); cbn.
  - split; [reflexivity|intros _; eexists; reflexivity].
  - split; [intros [g H]; discriminate|discriminate].
Qed.

Lemma parse_error_message_lem : forall np file e,
  is_tok (pe_token e) = true ->
  exists m, make_error_from_parse_error np file e = Some [m] /\ mfile m = file /\ msev m = SError /\
            exists sym tx l, pe_token e = Tok sym tx l /\ mloc m = location_or_default l /\
                             mtext m = parse_error_text np (pe_code e) tx sym (pe_expected e).
Proof.
  intros np file e H. unfold make_error_from_parse_error.
  destruct (pe_token e) as [sym tx l|]; [|discriminate].
  eexists. split; [reflexivity|]. cbn. repeat split. exists sym, tx, l. auto.
Qed.

(* lr1.Parser.parse (after ca2355e): whatever position the Error action is found at, the reported
   token is a parser_types.Token, so the message is always built *)
Lemma error_token_is_tok : forall tokens cursor t,
  forallb is_tok tokens = true -> error_token end_marker tokens cursor = Some t -> is_tok t = true.
Proof.
  intros tokens cursor t Hall H. unfold error_token in H. apply nth_error_In in H.
  apply in_app_or in H. destruct H as [H|[<-|[]]]; [|reflexivity].
  rewrite forallb_forall in Hall. apply Hall. exact H.
Qed.

Lemma parse_error_message_total_lem : forall np file tokens cursor code expected,
  forallb is_tok tokens = true -> (cursor <= List.length tokens)%nat ->
  exists t m, error_token end_marker tokens cursor = Some t /\
              make_error_from_parse_error np file (mkPE code t expected) = Some [m] /\
              mfile m = file /\ msev m = SError /\ mloc m = location_or_default (tok_loc t).
Proof.
  intros np file tokens cursor code expected Hall Hc.
  destruct (error_token end_marker tokens cursor) as [t|] eqn:Et.
  2:{ unfold error_token in Et. apply nth_error_None in Et. rewrite app_length in Et. cbn in Et. lia. }
  pose proof (error_token_is_tok _ _ _ Hall Et) as Ht.
  destruct t as [sym tx l|]; [|discriminate].
  eexists. eexists. split; [reflexivity|]. split; [reflexivity|]. cbn. auto.
Qed.

(* before ca2355e the marker was an lr1.Symbol: every syntax error at end of input crashed (F3) *)
Lemma old_parse_error_message_refuted_lem :
  exists np file tokens cursor code expected t,
    forallb is_tok tokens = true /\ (cursor <= List.length tokens)%nat /\
    error_token end_marker_old tokens cursor = Some t /\
    make_error_from_parse_error np file (mkPE code t expected) = None.
Proof.
  exists [], (s2l "m.emb"), [Tok (s2l "CamelWord") (s2l "Foo") (at_ 1 8 11)], 1%nat, None, [s2l "Indent"].
  eexists. repeat split; cbn; auto.
Qed.

(* where the end-of-input marker sits: at the end of the last token *)
Lemma end_marker_location_lem : forall tokens sym tx l,
  last (map Some tokens) None = Some (Tok sym tx (Some l)) -> loc_truthy l = true ->
  end_marker tokens = Tok [36] [] (Some (mkLoc (lend l) (lend l) false)).
Proof. intros tokens sym tx l H Ht. unfold end_marker. rewrite H. cbn. rewrite Ht. reflexivity. Qed.

Lemma end_marker_empty_lem : end_marker [] = Tok [36] [] None.
Proof. reflexivity. Qed.

(* ------------------------------------------------------------------------- *)
(* tokenizer layout: where tokens and errors sit                              *)
(* ------------------------------------------------------------------------- *)

Definition line_in (lo hi : N) (t : token) : Prop :=
  exists l, tok_loc t = Some l /\ lo < pline (lstart l) <= hi /\ lsyn l = false.

Lemma lod_at : forall ln a b,
  location_or_default (at_ (ln + 1) a b) = mkLoc (mkPos (ln + 1) a) (mkPos (ln + 1) b) false.
Proof.
  intros. unfold at_, location_or_default, loc_truthy. cbn -[N.add].
  destruct (N.eqb_spec (ln + 1) 0); [lia|reflexivity].
Qed.

Section LayoutProofs.
  Variable file : str.
  Variable line_toks : N -> str -> line_result.
  Hypothesis line_toks_on_line : forall ln L ts c, line_toks ln L = LToks ts c -> Forall (on_line ln) ts.

  Lemma pop_until_on_line : forall ln lw st ts st',
    pop_until ln lw st = Some (ts, st') -> Forall (on_line ln) ts.
  Proof.
    induction st as [|top below IH]; intros ts st' H; [discriminate|].
    cbn in H. destruct (str_eqb lw top); [inversion H; constructor|].
    destruct (pop_until ln lw below) as [[ts0 st0]|]; [|discriminate].
    inversion H; subst. constructor; [|eapply IH; reflexivity].
    eexists. cbn. split; [reflexivity|]. auto.
  Qed.

  Definition is_final_dedent (n : N) (t : token) : Prop := t = dedent_tok (n + 1) 1.

  Lemma on_line_weaken : forall ln lo hi ts, lo < ln <= hi -> Forall (on_line ln) ts -> Forall (fun t => line_in lo hi t) ts.
  Proof.
    intros ln lo hi ts Hr H. eapply Forall_impl; [|exact H].
    intros t [l [H1 [H2 H3]]]. exists l. rewrite H2. auto.
  Qed.

  Lemma line_in_mono : forall lo lo' hi t, lo' <= lo -> line_in lo hi t -> line_in lo' hi t.
  Proof. intros lo lo' hi t H [l [H1 [H2 H3]]]. exists l. repeat split; try tauto; lia. Qed.

  (* every token is on one of the lines ln+1 .. ln+|lines|, or is a final Dedent at line ln+|lines|+1 *)
  Lemma tok_lines_positions : forall lines ln st ts,
    tok_lines file line_toks ln st lines = TOk ts ->
    Forall (fun t => line_in ln (ln + N.of_nat (List.length lines)) t
                     \/ is_final_dedent (ln + N.of_nat (List.length lines)) t) ts.
  Proof.
    induction lines as [|L rest IH]; intros ln st ts H.
    - cbn in H. inversion H; subst ts. apply Forall_forall. intros t Ht.
      apply repeat_spec in Ht. right. unfold is_final_dedent. cbn [List.length]. rewrite N.add_0_r. exact Ht.
    - cbn [tok_lines] in H. cbn [List.length].
      assert (Hn : ln + N.of_nat (S (List.length rest)) = (ln + 1) + N.of_nat (List.length rest)) by lia.
      rewrite Hn.
      assert (Hnl : line_in ln (ln + 1 + N.of_nat (List.length rest)) (newline_tok (ln + 1) L)).
      { eexists. split; [reflexivity|]. cbn -[N.add N.of_nat]. split; [lia|reflexivity]. }
      assert (Hrest : forall st0 ts0, tok_lines file line_toks (ln + 1) st0 rest = TOk ts0 ->
                Forall (fun t => line_in ln (ln + 1 + N.of_nat (List.length rest)) t
                                 \/ is_final_dedent (ln + 1 + N.of_nat (List.length rest)) t) ts0).
      { intros st0 ts0 H0. eapply Forall_impl; [|apply (IH _ _ _ H0)].
        intros t [Ht|Ht]; [left; eapply line_in_mono; [|exact Ht]; lia|right; exact Ht]. }
      assert (Hhere : forall pre, Forall (on_line (ln + 1)) pre ->
                Forall (fun t => line_in ln (ln + 1 + N.of_nat (List.length rest)) t
                                 \/ is_final_dedent (ln + 1 + N.of_nat (List.length rest)) t) pre).
      { intros pre Hp. eapply Forall_impl; [|eapply on_line_weaken; [|exact Hp]]; [intros; left; eassumption|lia]. }
      assert (Hcomb : forall pre st0,
                Forall (on_line (ln + 1)) pre ->
                prepend (pre ++ [newline_tok (ln + 1) L]) (tok_lines file line_toks (ln + 1) st0 rest) = TOk ts ->
                Forall (fun t => line_in ln (ln + 1 + N.of_nat (List.length rest)) t
                                 \/ is_final_dedent (ln + 1 + N.of_nat (List.length rest)) t) ts).
      { intros pre st0 Hp Hpre. destruct (tok_lines file line_toks (ln + 1) st0 rest) as [ts0|] eqn:E0; [|discriminate].
        cbn in Hpre. inversion Hpre; subst ts. rewrite <- app_assoc.
        apply Forall_app. split; [apply Hhere; exact Hp|]. cbn [app]. constructor; [left; exact Hnl|].
        eapply Hrest; exact E0. }
      destruct (line_toks (ln + 1) L) as [lts ac|off] eqn:El; [|discriminate].
      pose proof (line_toks_on_line _ _ _ _ El) as Hl.
      destruct ac; [eapply Hcomb; [exact Hl|exact H]|].
      destruct st as [|top below]; [discriminate|].
      destruct (str_eqb (take_ws L) top); [eapply Hcomb; [exact Hl|exact H]|].
      destruct (prefixb top (take_ws L)).
      + change (indent_tok (ln + 1) top (take_ws L) :: lts ++ [newline_tok (ln + 1) L])
          with ((indent_tok (ln + 1) top (take_ws L) :: lts) ++ [newline_tok (ln + 1) L]) in H.
        eapply Hcomb; [|exact H]. constructor; [|exact Hl].
        eexists. cbn. split; [reflexivity|]. auto.
      + destruct (pop_until (ln + 1) (take_ws L) (top :: below)) as [[ds st']|] eqn:Ep; [|discriminate].
        rewrite app_assoc in H. eapply Hcomb; [|exact H].
        apply Forall_app. split; [eapply pop_until_on_line; exact Ep|exact Hl].
  Qed.

  Lemma tok_lines_errors : forall lines ln st e,
    tok_lines file line_toks ln st lines = TErr e -> st <> [] ->
    exists m, e = [[m]] /\ mfile m = file /\ msev m = SError /\ lsyn (mloc m) = false /\
              ln < pline (lstart (mloc m)) <= ln + N.of_nat (List.length lines) /\ 1 <= pcol (lstart (mloc m)).
  Proof.
    induction lines as [|L rest IH]; intros ln st e H Hst; [discriminate|].
    cbn [tok_lines] in H. cbn [List.length].
    assert (Hrec : forall pre st0, st0 <> [] ->
              prepend pre (tok_lines file line_toks (ln + 1) st0 rest) = TErr e ->
              exists m, e = [[m]] /\ mfile m = file /\ msev m = SError /\ lsyn (mloc m) = false /\
                ln < pline (lstart (mloc m)) <= ln + N.of_nat (S (List.length rest)) /\ 1 <= pcol (lstart (mloc m))).
    { intros pre st0 Hst0 Hp. destruct (tok_lines file line_toks (ln + 1) st0 rest) as [|e0] eqn:E0; [discriminate|].
      cbn in Hp. inversion Hp; subst e0. destruct (IH _ _ _ E0 Hst0) as [m [H1 [H2 [H3 [H4 [H5 H6]]]]]].
      exists m. repeat split; try assumption; lia. }
    destruct (line_toks (ln + 1) L) as [lts ac|off] eqn:El.
    - destruct ac; [eapply Hrec; [exact Hst|exact H]|].
      destruct st as [|top below]; [contradiction|].
      destruct (str_eqb (take_ws L) top); [eapply Hrec; [|exact H]; discriminate|].
      destruct (prefixb top (take_ws L)); [eapply Hrec; [|exact H]; discriminate|].
      destruct (pop_until (ln + 1) (take_ws L) (top :: below)) as [[ds st']|] eqn:Ep.
      + eapply Hrec; [|exact H].
        (* pop_until returns a non-empty stack *)
        clear - Ep. revert ds st' Ep. generalize (top :: below) as s.
        induction s as [|t b IHs]; intros ds st' Ep; [discriminate|].
        cbn in Ep. destruct (str_eqb (take_ws L) t); [inversion Ep; discriminate|].
        destruct (pop_until (ln + 1) (take_ws L) b) as [[a c]|] eqn:E; [|discriminate].
        inversion Ep; subst. eapply IHs. reflexivity.
      + inversion H; subst e. eexists. split; [reflexivity|]. unfold mk_error. rewrite lod_at.
        cbn -[N.add N.of_nat]. repeat split; try reflexivity; lia.
    - inversion H; subst e. eexists. split; [reflexivity|]. unfold mk_error. rewrite lod_at.
      cbn -[N.add N.of_nat]. repeat split; try reflexivity; lia.
  Qed.
End LayoutProofs.

Lemma length_to_nat : forall {A} (l : list A) (n : N),
  1 <= n <= N.of_nat (List.length l) -> (N.to_nat n <= List.length l)%nat.
Proof. intros. lia. Qed.

(* tokenizer errors lie inside the file (so format_total applies to them) *)
Lemma tokenizer_error_inside_lem : forall file line_toks text e,
  tokenize file line_toks text = TErr e ->
  exists m, e = [[m]] /\ mfile m = file /\ msev m = SError /\ lsyn (mloc m) = false /\ inside text (mloc m) /\
            1 <= pcol (lstart (mloc m)).
Proof.
  intros file lt text e H. unfold tokenize in H.
  destruct (tok_lines_errors file lt _ _ _ _ H) as [m [H1 [H2 [H3 [H4 [H5 H6]]]]]]; [discriminate|].
  exists m. repeat split; try assumption; lia.
Qed.

(* every token except the end-of-file Dedents lies inside the file *)
Lemma token_positions_lem : forall file line_toks text ts,
  (forall ln L ts c, line_toks ln L = LToks ts c -> Forall (on_line ln) ts) ->
  tokenize file line_toks text = TOk ts ->
  Forall (fun t => (exists l, tok_loc t = Some l /\ lsyn l = false /\ inside text l)
                   \/ t = dedent_tok (N.of_nat (List.length (splitlines text)) + 1) 1) ts.
Proof.
  intros file lt text ts Hlt H. unfold tokenize in H.
  pose proof (tok_lines_positions file lt Hlt _ _ _ _ H) as Hp.
  eapply Forall_impl; [|exact Hp]. intros t [[l [H1 [H2 H3]]]|Hd].
  - left. exists l. split; [exact H1|]. split; [exact H3|]. split; lia.
  - right. exact Hd.
Qed.

(* F16: the end-of-file Dedent is outside the file; a syntax error reported there names a position
   that is not in the file *)
Definition f16_text : str := s2l "s:" ++ [10] ++ s2l "  b:" ++ [10].
Definition f16_line_toks (ln : N) (L : str) : line_result := LToks [] false.

Lemma dedent_position_refuted_lem :
  exists file line_toks text ts t l m,
    tokenize file line_toks text = TOk ts /\ In t ts /\ tok_loc t = Some l /\
    make_error_from_parse_error [] file (mkPE None t [s2l "Indent"]) = Some [m] /\
    mfile m = file /\ lsyn (mloc m) = false /\ insideb text (mloc m) = false.
Proof.
  exists (s2l "m.emb"), f16_line_toks, f16_text.
  eexists. exists (dedent_tok 3 1). eexists. eexists.
  split; [vm_compute; reflexivity|].
  split; [cbn; right; right; right; left; reflexivity|].
  split; [reflexivity|]. split; [reflexivity|]. split; [reflexivity|]. split; [reflexivity|].
  vm_compute. reflexivity.
Qed.

(* ... and before f285438 rendering that message against the file's own text raised IndexError *)
Lemma old_dedent_format_crash_lem :
  exists file text m, lookup file [(file, text)] = Some text /\ insideb text (mloc m) = false /\
                      format_errors_old [[m]] [(file, text)] = None /\
                      exists s, format_errors [[m]] [(file, text)] = Some s.
Proof.
  exists (s2l "m.emb"), f16_text, (mk_error (s2l "m.emb") (at_ 3 1 1) (s2l "x")).
  split; [reflexivity|]. split; [vm_compute; reflexivity|]. split; [vm_compute; reflexivity|].
  eexists. vm_compute. reflexivity.
Qed.

(* the end-of-input marker inherits the problem: after final Dedents it sits on line n+1 too *)
Lemma end_marker_after_dedent_lem : forall ts n,
  end_marker (ts ++ [dedent_tok (n + 1) 1]) = Tok [36] [] (Some (mkLoc (mkPos (n + 1) 1) (mkPos (n + 1) 1) false)).
Proof.
  intros ts n. unfold end_marker. rewrite map_app. cbn [map]. rewrite last_last. cbn -[N.add].
  unfold loc_truthy. cbn -[N.add]. destruct (N.eqb_spec (n + 1) 0); [lia|reflexivity].
Qed.

(* in general: whenever a block is still open at the end of the text, the Dedents that close it are not inside *)
Lemma final_dedent_outside_lem : forall text,
  ~ inside text (mkLoc (mkPos (N.of_nat (List.length (splitlines text)) + 1) 1)
                       (mkPos (N.of_nat (List.length (splitlines text)) + 1) 1) false).
Proof. intros text [H1 H2]. cbn in *. lia. Qed.

(* ------------------------------------------------------------------------- *)
(* non-vacuity                                                                *)
(* ------------------------------------------------------------------------- *)

Definition ex_text : str := s2l "struct Foo:" ++ [10] ++ s2l "  0 [+1]  UInt  x" ++ [10].
Definition ex_msg : message :=
  mk_error (s2l "m.emb") (Some (mkLoc (mkPos 2 11) (mkPos 2 15) false)) (s2l "Bad type" ++ [10] ++ s2l "second line").

Example format_example :
  plain (format [(s2l "m.emb", ex_text)] ex_msg) =
  s2l "m.emb:2:11: error: Bad type" ++ [10] ++ s2l "m.emb:2:11: note: second line" ++ [10]
        ++ s2l "  0 [+1]  UInt  x" ++ [10] ++ s2l "          ^^^^".
Proof. vm_compute. reflexivity. Qed.

Example format_hypotheses_satisfiable :
  lsyn (mloc ex_msg) = false /\ lookup (mfile ex_msg) [(s2l "m.emb", ex_text)] = Some ex_text /\ inside ex_text (mloc ex_msg).
Proof. split; [reflexivity|]. split; [reflexivity|]. split; cbn; lia. Qed.

Example format_no_location :
  (* location (0,0): no source line (before f285438 this indexed source_lines[-1], the last line) *)
  plain (format [(s2l "m.emb", ex_text)] (mk_error (s2l "m.emb") None (s2l "x"))) = s2l "m.emb:0:0: error: x" /\
  option_map plain (format_old [(s2l "m.emb", ex_text)] (mk_error (s2l "m.emb") None (s2l "x"))) =
  Some (s2l "m.emb:0:0: error: x" ++ [10] ++ s2l "  0 [+1]  UInt  x" ++ [10] ++ s2l "^").
Proof. split; vm_compute; reflexivity. Qed.

Definition ex_syn : loc := mkLoc (mkPos 1 1) (mkPos 1 2) true.
Definition ex_pass_user : pass unit := fun ir => (ir, [[mk_error (s2l "m.emb") (Some (mkLoc (mkPos 1 1) (mkPos 1 2) false)) (s2l "u")]]).
Definition ex_pass_syn : pass unit := fun ir => (ir, [[mk_error (s2l "m.emb") (Some ex_syn) (s2l "s")]]).
Definition ex_pass_ok : pass unit := fun ir => (ir, []).

Example pipeline_defers_synthetic :
  process_ir unit [(s2l "a", ex_pass_syn); (s2l "b", ex_pass_user)] None tt = PErr (snd (ex_pass_user tt)) /\
  process_ir unit [(s2l "a", ex_pass_syn); (s2l "b", ex_pass_ok)] None tt = PErr (snd (ex_pass_syn tt)) /\
  process_ir unit [(s2l "a", ex_pass_ok); (s2l "b", ex_pass_ok)] None tt = POk tt /\
  process_ir unit [(s2l "a", ex_pass_user); (s2l "b", ex_pass_ok)] (Some (s2l "a")) tt = POk tt.
Proof. repeat split. Qed.
