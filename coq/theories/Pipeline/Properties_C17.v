(* C17 — property theorems (statements only; every proof is `exact <lemma>`).
   (i)  order_irrelevant_<site>: for all enumerations p1 p2 of the same collection the consumer's
        result is the same.  Theorems named old_* are about the functions as they were before
        the fix: commits e30aa7a (expected tokens) and c517e93 (dependency cycles).
   (ii) history_irrelevant / cache_transparent / repeat_identical about
        compile : state -> inputs -> state * output. *)
From Coq Require Import ZArith NArith List Bool String Permutation Sorted.
Import ListNotations.
Require Import EmbossV.Pipeline.Order EmbossV.Pipeline.Errors EmbossV.Pipeline.Determinism.
Require Import EmbossV.Pipeline.ProofsOrder EmbossV.Pipeline.ProofsState.
Open Scope N_scope.

(* sorted() is a function of the multiset, and really sorts *)
Theorem sorted_canonical : forall {A} (cmp : A -> A -> comparison),
  ord_laws cmp -> forall p1 p2, Permutation p1 p2 -> isort cmp p1 = isort cmp p2.
Proof. exact @isort_perm_eq. Qed.

Theorem sorted_sorts : forall {A} (cmp : A -> A -> comparison) l,
  ord_laws cmp -> StronglySorted (fun x y => leb cmp x y = true) (isort cmp l) /\ Permutation l (isort cmp l).
Proof. exact @sorted_sorts_lem. Qed.

Theorem str_order_laws : ord_laws str_cmp.
Proof. exact str_ord. Qed.

(* error.make_error_from_parse_error: ", ".join(sorted(expected_tokens)) *)
Theorem order_irrelevant_expected_tokens : forall p1 p2 np code text symbol,
  Permutation p1 p2 -> parse_error_text np code text symbol p1 = parse_error_text np code text symbol p2.
Proof. exact order_irrelevant_expected_tokens_lem. Qed.

Theorem order_irrelevant_parse_error_message : forall np file code t p1 p2,
  Permutation p1 p2 ->
  make_error_from_parse_error np file (mkPE code t p1) = make_error_from_parse_error np file (mkPE code t p2).
Proof. exact order_irrelevant_parse_error_message_lem. Qed.

Theorem old_order_irrelevant_expected_tokens_refuted :
  exists p1 p2 np code text symbol,
    Permutation p1 p2 /\ parse_error_text_old np code text symbol p1 <> parse_error_text_old np code text symbol p2.
Proof. exact old_order_irrelevant_expected_tokens_refuted_lem. Qed.

(* symbol_resolver.ambiguous_name_error: sorted(candidate_locations) *)
Theorem order_irrelevant_ambiguous_name : forall file l name p1 p2,
  Permutation p1 p2 -> ambiguous_name_error file l name p1 = ambiguous_name_error file l name p2.
Proof. exact order_irrelevant_ambiguous_name_lem. Qed.

(* dependency_checker: for cycle in sorted(cycles, key=sorted): ... sorted(list(cycle)) *)
Theorem order_irrelevant_cycles : forall describe p1 p2,
  same_set_of_sets p1 p2 -> cycle_errors describe p1 = cycle_errors describe p2.
Proof. exact order_irrelevant_cycles_lem. Qed.

Theorem order_irrelevant_cycle_members : forall describe c1 c2,
  Permutation c1 c2 -> cycle_group describe c1 = cycle_group describe c2.
Proof. exact order_irrelevant_cycle_members_lem. Qed.

Theorem old_order_irrelevant_cycles_refuted :
  exists describe p1 p2, Permutation p1 p2 /\ cycle_errors_old describe p1 <> cycle_errors_old describe p2.
Proof. exact old_order_irrelevant_cycles_refuted_lem. Qed.

Theorem old_order_irrelevant_cycles_partial : forall describe p1 p2,
  Permutation p1 p2 -> Permutation (cycle_errors_old describe p1) (cycle_errors_old describe p2).
Proof. exact old_order_irrelevant_cycles_partial_lem. Qed.

(* generic shapes the reviewed site list refers to *)
Theorem order_irrelevant_sorted_consumer : forall {A B} (cmp : A -> A -> comparison) (f : list A -> B) p1 p2,
  ord_laws cmp -> Permutation p1 p2 -> sorted_consumer cmp f p1 = sorted_consumer cmp f p2.
Proof. exact @order_irrelevant_sorted_consumer_lem. Qed.

Theorem order_irrelevant_fold : forall {A S} (R : S -> S -> Prop) (step : A -> S -> S) init p1 p2,
  (forall s, R s s) -> (forall s1 s2 s3, R s1 s2 -> R s2 s3 -> R s1 s3) ->
  (forall a s1 s2, R s1 s2 -> R (step a s1) (step a s2)) ->
  (forall a b s, R (step a (step b s)) (step b (step a s))) ->
  Permutation p1 p2 -> R (fold_consumer step init p1) (fold_consumer step init p2).
Proof. exact @order_irrelevant_fold_lem. Qed.

Theorem order_irrelevant_any : forall {A} (f : A -> bool) p1 p2,
  Permutation p1 p2 -> existsb f p1 = existsb f p2.
Proof. exact @order_irrelevant_any_lem. Qed.

Theorem order_irrelevant_all : forall {A} (f : A -> bool) p1 p2,
  Permutation p1 p2 -> forallb f p1 = forallb f p2.
Proof. exact @order_irrelevant_all_lem. Qed.

Theorem order_irrelevant_set_builder : forall {A B} (f : A -> list B) p1 p2 x,
  Permutation p1 p2 -> (In x (flat_map f p1) <-> In x (flat_map f p2)).
Proof. exact @order_irrelevant_set_builder_lem. Qed.

(* ---- process state ---- *)

Theorem reachable_wf : forall content parse st, reachable content parse st -> wf content parse st.
Proof. exact reachable_wf_lem. Qed.

(* whatever was compiled before in this process, the result for `inputs` is the same up to an
   injective renaming of the anonymous-field numbers; rejected inputs are rejected at the same module *)
Theorem history_irrelevant : forall content parse s1 s2 inputs,
  reachable content parse s1 -> reachable content parse s2 -> NoDup inputs ->
  out_equiv content (snd (compile content parse s1 inputs)) (snd (compile content parse s2 inputs)).
Proof.
  exact (fun content parse s1 s2 inputs R1 R2 =>
           history_irrelevant_lem content parse s1 s2 inputs
             (reachable_wf_lem content parse s1 R1) (reachable_wf_lem content parse s2 R2)).
Qed.

(* ... and so is everything computed from it by a renaming-equivariant back end *)
Theorem history_irrelevant_output :
  forall (content : Type) (parse : str -> str -> option (content * nat))
         (result : Type) (back : list (module_ir content) -> result)
         (rename_out : (N -> N) -> result -> result),
    (forall r ms, inj_on r (names content ms) -> back (map (rename_mod content r) ms) = rename_out r (back ms)) ->
    forall s1 s2 inputs ms1 ms2,
      wf content parse s1 -> wf content parse s2 -> NoDup inputs ->
      snd (compile content parse s1 inputs) = OIr ms1 -> snd (compile content parse s2 inputs) = OIr ms2 ->
      exists r, inj_on r (names content ms1) /\ back ms2 = rename_out r (back ms1).
Proof. exact history_irrelevant_output_lem. Qed.

(* a cache hit returns what a miss would compute: the same body, the same number of anonymous
   fields, numbered from some earlier counter value *)
Theorem cache_transparent : forall content parse st k m,
  wf content parse st -> find_cache content k (cache st) = Some m ->
  exists b n c, parse (fst k) (snd k) = Some (b, n) /\ m = mkMod b (fresh c n).
Proof. exact cache_hit_is_parse_lem. Qed.

Theorem cache_transparent_compile : forall content parse st inputs,
  wf content parse st -> NoDup inputs ->
  out_equiv content (snd (compile content parse st inputs))
                    (snd (compile content parse (drop_cache content st) inputs)).
Proof. exact cache_transparent_lem. Qed.

(* compiling the same inputs again in the same process: identical result, and the state is a fixed point *)
Theorem repeat_identical : forall content parse st inputs,
  wf content parse st ->
  compile content parse (fst (compile content parse st inputs)) inputs
  = (fst (compile content parse st inputs), snd (compile content parse st inputs)).
Proof. exact repeat_identical_lem. Qed.

(* the counter moves only on cache misses *)
Theorem counter_hit : forall content parse st k m,
  find_cache content k (cache st) = Some m -> parse_module_text content parse st k = (st, Some m).
Proof. exact counter_hit_lem. Qed.

Theorem counter_miss : forall content parse st k b n,
  find_cache content k (cache st) = None -> parse (fst k) (snd k) = Some (b, n) ->
  counter (fst (parse_module_text content parse st k)) = counter st + N.of_nat n /\
  snd (parse_module_text content parse st k) = Some (mkMod b (fresh (counter st) n)).
Proof. exact counter_miss_lem. Qed.
