(* C16 — property theorems about the error-reporting layer (statements only; every proof is
   `exact <lemma>`).  Totality of the passes themselves is explored by the harness, not proved. *)
From Coq Require Import ZArith NArith List Bool String.
Import ListNotations.
Require Import EmbossV.Pipeline.Errors EmbossV.Pipeline.ProofsErrors.
Open Scope N_scope.

(* _Message.format: for every message whose file is known and whose location lies inside that
   file's splitlines, format is defined, every message line starts with "file:line:column: ",
   and a non-empty source line is shown with a caret line of column-1 blanks and >= 1 carets. *)
Theorem format_total : forall S m txt,
  lsyn (mloc m) = false -> lookup (mfile m) S = Some txt -> inside txt (mloc m) ->
  exists line r,
    nth_error (splitlines txt) (N.to_nat (pline (lstart (mloc m)) - 1)) = Some line /\
    format S m = Some r /\ names_position m r /\ shows_line m line r.
Proof. exact format_total_lem. Qed.

(* no source text for the file, or a synthetic location: format never fails *)
Theorem format_total_unknown_source : forall S m,
  lsyn (mloc m) = true \/ lookup (mfile m) S = None -> exists r, format S m = Some r.
Proof. exact format_total_unknown_lem. Qed.

(* exact characterisation of the IndexError in `source_lines[line - 1]` *)
Theorem format_fails_iff : forall S m,
  format S m = None <->
  (lsyn (mloc m) = false /\ exists txt, lookup (mfile m) S = Some txt /\
     ((N.to_nat (pline (lstart (mloc m))) > List.length (splitlines txt))%nat
      \/ (pline (lstart (mloc m)) = 0 /\ splitlines txt = []))).
Proof. exact format_fails_iff_lem. Qed.

(* '[compiler bug]' is printed exactly for synthetic locations *)
Theorem synthetic_marker : forall S m r l0 rest,
  format S m = Some r -> splitlines (mtext m) = l0 :: rest ->
  exists tail, r = (BOLD, source_name m ++ [58] ++ (if lsyn (mloc m) then s2l "[compiler bug]" else pos_str (lstart (mloc m))) ++ [58; 32]) :: tail.
Proof. exact synthetic_marker_lem. Qed.

Theorem format_errors_total : forall e S,
  (forall g, In g e -> g <> []) ->
  (forall g m, In g e -> In m g ->
     lsyn (mloc m) = true \/ lookup (mfile m) S = None \/
     exists txt, lookup (mfile m) S = Some txt /\ inside txt (mloc m)) ->
  exists s, format_errors e S = Some s.
Proof. exact format_errors_total_lem. Qed.

(* process_ir, for every list of passes (each an arbitrary function IR -> IR * errors):
   the result is (ir, []) or (None, non-empty) *)
Theorem pipeline_outcome : forall (IR : Type) (ps : list (str * pass IR)) stop ir,
  stop_valid ps stop ->
  (exists ir', process_ir IR ps stop ir = POk ir') \/
  (exists e, process_ir IR ps stop ir = PErr e /\ e <> []).
Proof. exact pipeline_outcome_lem. Qed.

Theorem parse_emboss_file_outcome : forall (IR : Type) parsed (ps : list (str * pass IR)) stop,
  stop_valid ps stop -> (snd parsed = [] -> fst parsed <> None) ->
  (exists ir', parse_emboss_file IR parsed ps stop = POk ir') \/
  (exists e, parse_emboss_file IR parsed ps stop = PErr e /\ e <> []).
Proof. exact parse_emboss_file_outcome_lem. Qed.

(* if any pass reports a group without synthetic locations, no synthetic message is shown *)
Theorem no_synthetic_if_user_error : forall (IR : Type) (ps : list (str * pass IR)) ir,
  (exists out g, In out (trace IR ps ir) /\ In g out /\ group_synthetic g = false) ->
  exists e, process_ir IR ps None ir = PErr e /\ e <> [] /\
            forall g m, In g e -> In m g -> lsyn (mloc m) = false.
Proof. exact no_synthetic_if_user_error_lem. Qed.

(* synthetic errors are "shown only if nothing else" *)
Theorem synthetic_only_if_nothing_else : forall (IR : Type) (ps : list (str * pass IR)) ir e g m,
  process_ir IR ps None ir = PErr e -> In g e -> In m g -> lsyn (mloc m) = true ->
  forall out g', In out (trace IR ps ir) -> In g' out -> group_synthetic g' = true.
Proof. exact synthetic_only_if_nothing_else_lem. Qed.

Theorem pipeline_groups_nonempty : forall (IR : Type) (ps : list (str * pass IR)) stop ir e,
  (forall out, In out (trace IR ps ir) -> groups_nonempty out) ->
  process_ir IR ps stop ir = PErr e -> groups_nonempty e.
Proof. exact pipeline_groups_nonempty_lem. Qed.

(* make_error_from_parse_error.  The full statement "defined for every parse error" is false of
   the faithful model: the end-of-input token has no source_location/text (finding F3). *)
Theorem parse_error_message_total_refuted :
  exists np file e, make_error_from_parse_error np file e = None.
Proof. exact parse_error_message_total_refuted_lem. Qed.

Theorem parse_error_message_total_partial : forall np file e,
  pe_token e <> EndOfInput ->
  exists m, make_error_from_parse_error np file e = Some [m] /\ mfile m = file /\ msev m = SError /\
            exists sym tx l, pe_token e = Tok sym tx l /\ mloc m = location_or_default l /\
                             mtext m = parse_error_text np (pe_code e) tx sym (pe_expected e).
Proof. exact parse_error_message_total_partial_lem. Qed.

Theorem parse_error_defined_iff : forall np file e,
  (exists g, make_error_from_parse_error np file e = Some g) <-> pe_token e <> EndOfInput.
Proof. exact parse_error_defined_iff_lem. Qed.

(* tokenizer errors ("Unrecognized token", "Bad indentation") always lie inside the file and render,
   for every per-line tokenizer *)
Theorem tokenizer_error_inside : forall file line_toks text e,
  tokenize file line_toks text = TErr e ->
  exists m, e = [[m]] /\ mfile m = file /\ lsyn (mloc m) = false /\ inside text (mloc m) /\
            exists r, format [(file, text)] m = Some r.
Proof. exact tokenizer_error_inside_lem. Qed.

(* "every token lies inside the file" holds except for the end-of-file Dedents ... *)
Theorem token_positions_partial : forall file line_toks text ts,
  (forall ln L ts c, line_toks ln L = LToks ts c -> Forall (on_line ln) ts) ->
  tokenize file line_toks text = TOk ts ->
  Forall (fun t => (exists l, tok_loc t = Some l /\ lsyn l = false /\ inside text l)
                   \/ t = dedent_tok (N.of_nat (List.length (splitlines text)) + 1) 1) ts.
Proof. exact token_positions_lem. Qed.

(* ... which sit at (last_line + 1, 1), outside the file (finding F16): a syntax error reported on
   such a token cannot be rendered against the file's own text *)
Theorem dedent_position_refuted :
  exists file line_toks text ts t l g,
    tokenize file line_toks text = TOk ts /\ In t ts /\ tok_loc t = Some l /\
    insideb text l = false /\
    make_error_from_parse_error [] file (mkPE None t [s2l "Indent"]) = Some g /\
    format_errors [g] [(file, text)] = None.
Proof. exact dedent_position_refuted_lem. Qed.

Theorem final_dedent_outside : forall text,
  ~ inside text (mkLoc (mkPos (N.of_nat (List.length (splitlines text)) + 1) 1)
                       (mkPos (N.of_nat (List.length (splitlines text)) + 1) 1) false).
Proof. exact final_dedent_outside_lem. Qed.
