(* C16 — property theorems about the error-reporting layer (statements only; every proof is
   `exact <lemma>`).  Totality of the passes themselves is explored by the harness, not proved.
   Theorems named old_* are about the functions as they were before the fix: commits
   (ca2355e, f285438); they record how the findings F3 and F16 were derived. *)
From Coq Require Import ZArith NArith List Bool String.
Import ListNotations.
Require Import EmbossV.Pipeline.Errors EmbossV.Pipeline.ProofsErrors.
Open Scope N_scope.

(* _Message.format is a total function (its type); for every message whose file is known and whose
   location lies inside that file's splitlines, every message line starts with
   "file:line:column: ", and a non-empty source line is shown, followed by a caret line of
   column-1 blanks and >= 1 carets. *)
Theorem format_total : forall S m txt,
  lsyn (mloc m) = false -> lookup (mfile m) S = Some txt -> inside txt (mloc m) ->
  exists line,
    nth_error (splitlines txt) (N.to_nat (pline (lstart (mloc m)) - 1)) = Some line /\
    names_position m (format S m) /\ shows_line m line (format S m).
Proof. exact format_total_lem. Qed.

(* whatever the location, each message line carries file name and position text *)
Theorem format_prefix : forall S m, names_position_any m (format S m).
Proof. exact format_prefix_lem. Qed.

(* synthetic location, unknown file, or a location outside the file: the header lines only *)
Theorem format_outside : forall S m,
  (lsyn (mloc m) = true \/ lookup (mfile m) S = None \/
   exists txt, lookup (mfile m) S = Some txt /\ ~ inside txt (mloc m)) ->
  format S m = header m true false (splitlines (mtext m)).
Proof. exact format_outside_lem. Qed.

(* '[compiler bug]' is printed exactly for synthetic locations *)
Theorem synthetic_marker : forall S m l0 rest,
  splitlines (mtext m) = l0 :: rest ->
  exists tail, format S m = (BOLD, source_name m ++ [58] ++ (if lsyn (mloc m) then s2l "[compiler bug]" else pos_str (lstart (mloc m))) ++ [58; 32]) :: tail.
Proof. exact synthetic_marker_lem. Qed.

Theorem format_errors_total : forall e S,
  (forall g, In g e -> g <> []) -> exists s, format_errors e S = Some s.
Proof. exact format_errors_total_lem. Qed.

Theorem format_errors_fails_iff : forall e S, format_errors e S = None <-> In [] e.
Proof. exact format_errors_fails_iff_lem. Qed.

(* process_ir, for every list of passes (each an arbitrary function IR -> IR * errors):
   the result is (ir, []) or (None, non-empty) *)
Theorem pipeline_outcome : forall (IR : Type) (ps : list (str * pass IR)) stop ir,
  stop_valid ps stop ->
  (exists ir', process_ir IR ps stop ir = POk ir') \/
  (exists e, process_ir IR ps stop ir = PErr e /\ e <> []).
Proof. exact pipeline_outcome_lem. Qed.

Theorem parse_emboss_file_outcome : forall (IR : Type) parsed (ps : list (str * pass IR)) stop,
  stop_valid ps stop -> (snd parsed = [] -> fst parsed <> None) ->
  (exists ir', parse_emboss_file IR parsed ps stop = POk ir') \/
  (exists e, parse_emboss_file IR parsed ps stop = PErr e /\ e <> []).
Proof. exact parse_emboss_file_outcome_lem. Qed.

(* if any pass reports a group without synthetic locations, no synthetic message is shown *)
Theorem no_synthetic_if_user_error : forall (IR : Type) (ps : list (str * pass IR)) ir,
  (exists out g, In out (trace IR ps ir) /\ In g out /\ group_synthetic g = false) ->
  exists e, process_ir IR ps None ir = PErr e /\ e <> [] /\
            forall g m, In g e -> In m g -> lsyn (mloc m) = false.
Proof. exact no_synthetic_if_user_error_lem. Qed.

(* synthetic errors are "shown only if nothing else" *)
Theorem synthetic_only_if_nothing_else : forall (IR : Type) (ps : list (str * pass IR)) ir e g m,
  process_ir IR ps None ir = PErr e -> In g e -> In m g -> lsyn (mloc m) = true ->
  forall out g', In out (trace IR ps ir) -> In g' out -> group_synthetic g' = true.
Proof. exact synthetic_only_if_nothing_else_lem. Qed.

Theorem pipeline_groups_nonempty : forall (IR : Type) (ps : list (str * pass IR)) stop ir e,
  (forall out, In out (trace IR ps ir) -> groups_nonempty out) ->
  process_ir IR ps stop ir = PErr e -> groups_nonempty e.
Proof. exact pipeline_groups_nonempty_lem. Qed.

(* make_error_from_parse_error is defined exactly on parser_types.Token objects ... *)
Theorem parse_error_defined_iff : forall np file e,
  (exists g, make_error_from_parse_error np file e = Some g) <-> is_tok (pe_token e) = true.
Proof. exact parse_error_defined_iff_lem. Qed.

(* ... and lr1.Parser.parse reports a Token at every cursor position, the end of input included *)
Theorem parse_error_message_total : forall np file tokens cursor code expected,
  forallb is_tok tokens = true -> (cursor <= List.length tokens)%nat ->
  exists t m, error_token end_marker tokens cursor = Some t /\
              make_error_from_parse_error np file (mkPE code t expected) = Some [m] /\
              mfile m = file /\ msev m = SError /\ mloc m = location_or_default (tok_loc t).
Proof. exact parse_error_message_total_lem. Qed.

Theorem old_parse_error_message_refuted :
  exists np file tokens cursor code expected t,
    forallb is_tok tokens = true /\ (cursor <= List.length tokens)%nat /\
    error_token end_marker_old tokens cursor = Some t /\
    make_error_from_parse_error np file (mkPE code t expected) = None.
Proof. exact old_parse_error_message_refuted_lem. Qed.

Theorem end_marker_location : forall tokens sym tx l,
  last (map Some tokens) None = Some (Tok sym tx (Some l)) -> loc_truthy l = true ->
  end_marker tokens = Tok [36] [] (Some (mkLoc (lend l) (lend l) false)).
Proof. exact end_marker_location_lem. Qed.

(* tokenizer errors ("Unrecognized token", "Bad indentation") always lie inside the file,
   for every per-line tokenizer *)
Theorem tokenizer_error_inside : forall file line_toks text e,
  tokenize file line_toks text = TErr e ->
  exists m, e = [[m]] /\ mfile m = file /\ msev m = SError /\ lsyn (mloc m) = false /\ inside text (mloc m) /\
            1 <= pcol (lstart (mloc m)).
Proof. exact tokenizer_error_inside_lem. Qed.

(* "every token lies inside the file" holds except for the end-of-file Dedents ... *)
Theorem dedent_position_partial : forall file line_toks text ts,
  (forall ln L ts c, line_toks ln L = LToks ts c -> Forall (on_line ln) ts) ->
  tokenize file line_toks text = TOk ts ->
  Forall (fun t => (exists l, tok_loc t = Some l /\ lsyn l = false /\ inside text l)
                   \/ t = dedent_tok (N.of_nat (List.length (splitlines text)) + 1) 1) ts.
Proof. exact token_positions_lem. Qed.

(* ... which sit at (last_line + 1, 1), outside the file (finding F16): a syntax error reported on
   such a token names a position that is not in the file *)
Theorem dedent_position_refuted :
  exists file line_toks text ts t l m,
    tokenize file line_toks text = TOk ts /\ In t ts /\ tok_loc t = Some l /\
    make_error_from_parse_error [] file (mkPE None t [s2l "Indent"]) = Some [m] /\
    mfile m = file /\ lsyn (mloc m) = false /\ insideb text (mloc m) = false.
Proof. exact dedent_position_refuted_lem. Qed.

Theorem final_dedent_outside : forall text,
  ~ inside text (mkLoc (mkPos (N.of_nat (List.length (splitlines text)) + 1) 1)
                       (mkPos (N.of_nat (List.length (splitlines text)) + 1) 1) false).
Proof. exact final_dedent_outside_lem. Qed.

Theorem end_marker_after_dedent : forall ts n,
  end_marker (ts ++ [dedent_tok (n + 1) 1]) = Tok [36] [] (Some (mkLoc (mkPos (n + 1) 1) (mkPos (n + 1) 1) false)).
Proof. exact end_marker_after_dedent_lem. Qed.

(* before f285438: exact characterisation of the IndexError in `source_lines[line - 1]`, and the
   crash on the end-of-file Dedent position *)
Theorem old_format_fails_iff : forall S m,
  format_old S m = None <->
  (lsyn (mloc m) = false /\ exists txt, lookup (mfile m) S = Some txt /\
     ((N.to_nat (pline (lstart (mloc m))) > List.length (splitlines txt))%nat
      \/ (pline (lstart (mloc m)) = 0 /\ splitlines txt = []))).
Proof. exact old_format_fails_iff_lem. Qed.

Theorem old_dedent_format_crash :
  exists file text m, lookup file [(file, text)] = Some text /\ insideb text (mloc m) = false /\
                      format_errors_old [[m]] [(file, text)] = None /\
                      exists s, format_errors [[m]] [(file, text)] = Some s.
Proof. exact old_dedent_format_crash_lem. Qed.

Theorem format_old_agrees : forall S m txt,
  lsyn (mloc m) = false -> lookup (mfile m) S = Some txt -> inside txt (mloc m) ->
  format_old S m = Some (format S m).
Proof. exact format_old_agrees_lem. Qed.
