(* C16 — Gallina mirror of the error-reporting layer of the Emboss compiler
   (definitions only; proofs are in ProofsErrors.v).

     compiler/util/parser_types.py   SourcePosition, SourceLocation (is_synthetic, truthiness)
     compiler/util/error.py          location_or_default, error/warn/note, _Message.format,
                                     split_errors, format_errors, make_error_from_parse_error
     compiler/front_end/glue.py      process_ir (early exit, deferred synthetic errors),
                                     parse_emboss_file
     compiler/front_end/tokenizer.py the Indent/Dedent layout loop of tokenize() and its two
                                     error constructors (the per-line longest-match tokenizer is
                                     an explicit function argument here; it is modelled in Lex/)

   Strings are lists of code points (Python str).  A Python exception is a distinct
   result value ([None] / [PCrash]), never a default. *)
From Coq Require Import ZArith NArith List Bool String Ascii Decimal.
Import ListNotations.
Require Import EmbossV.Pipeline.Order.
Open Scope N_scope.

Definition str := list N.

Definition s2l (s : string) : str := List.map N_of_ascii (list_ascii_of_string s).

Fixpoint str_eqb (a b : str) : bool :=
  match a, b with
  | [], [] => true
  | x :: a', y :: b' => (x =? y) && str_eqb a' b'
  | _, _ => false
  end.

(* ---- str(int) ---- *)
Fixpoint uint_digits (u : Decimal.uint) : str :=
  match u with
  | Nil => []
  | D0 u => 48 :: uint_digits u | D1 u => 49 :: uint_digits u | D2 u => 50 :: uint_digits u
  | D3 u => 51 :: uint_digits u | D4 u => 52 :: uint_digits u | D5 u => 53 :: uint_digits u
  | D6 u => 54 :: uint_digits u | D7 u => 55 :: uint_digits u | D8 u => 56 :: uint_digits u
  | D9 u => 57 :: uint_digits u
  end.
Definition dec (n : N) : str := uint_digits (N.to_uint n).

(* ---- str.splitlines() ---- *)
Definition is_break (c : N) : bool :=
  match c with
  | 10 | 11 | 12 | 13 | 28 | 29 | 30 | 133 | 8232 | 8233 => true
  | _ => false
  end.

Fixpoint splitlines (s : str) : list str :=
  match s with
  | [] => []
  | c :: s' =>
      if is_break c then
        [] :: match s' with
              | d :: s'' => if (c =? 13) && (d =? 10) then splitlines s'' else splitlines s'
              | [] => []
              end
      else match splitlines s' with
           | [] => [[c]]
           | l :: ls => (c :: l) :: ls
           end
  end.

(* ---- list[i] with Python's negative indices; None = IndexError ---- *)
Definition py_index {A} (l : list A) (i : Z) : option A :=
  if (0 <=? i)%Z then nth_error l (Z.to_nat i)
  else if (0 <=? Z.of_nat (List.length l) + i)%Z then nth_error l (Z.to_nat (Z.of_nat (List.length l) + i))
  else None.

(* ---- parser_types ---- *)
Record pos := mkPos { pline : N; pcol : N }.
Record loc := mkLoc { lstart : pos; lend : pos; lsyn : bool }.
Definition pos_str (p : pos) : str := dec (pline p) ++ [58] ++ dec (pcol p).      (* "line:column" *)
Definition loc_truthy (l : loc) : bool := negb (pline (lstart l) =? 0).           (* SourceLocation.__bool__ *)
Definition zero_loc : loc := mkLoc (mkPos 0 0) (mkPos 0 0) false.

(* error.location_or_default: None and falsy locations become the non-synthetic (0,0)-(0,0) *)
Definition location_or_default (l : option loc) : loc :=
  match l with
  | Some x => if loc_truthy x then x else zero_loc
  | None => zero_loc
  end.

Inductive severity := SError | SWarning | SNote.
Definition sev_name (s : severity) : str :=
  match s with SError => s2l "error" | SWarning => s2l "warning" | SNote => s2l "note" end.

Record message := mkMsg { mfile : str; mloc : loc; msev : severity; mtext : str }.
Definition mk_error (f : str) (l : option loc) (t : str) := mkMsg f (location_or_default l) SError t.
Definition mk_warn (f : str) (l : option loc) (t : str) := mkMsg f (location_or_default l) SWarning t.
Definition mk_note (f : str) (l : option loc) (t : str) := mkMsg f (location_or_default l) SNote t.

Inductive color := BOLD | BRIGHT_RED | BRIGHT_YELLOW | WHITE | BRIGHT_GREEN.
Definition sev_colors (s : severity) : color * color :=
  match s with SError => (BRIGHT_RED, BOLD) | SWarning => (BRIGHT_YELLOW, BOLD) | SNote => (WHITE, WHITE) end.

Definition sources := list (str * str).      (* dict file name -> text (keys distinct) *)
Fixpoint lookup (f : str) (S : sources) : option str :=
  match S with
  | [] => None
  | (k, v) :: S' => if str_eqb f k then Some v else lookup f S'
  end.

(* ---- _Message.format ---- *)
Definition is_nil {A} (l : list A) : bool := match l with [] => true | _ => false end.

(* source_line: `source_lines[line - 1]` if 0 < line <= len(source_lines) else ""   (commit f285438) *)
Definition source_line_of (S : sources) (m : message) : str :=
  if lsyn (mloc m) then []
  else match lookup (mfile m) S with
       | None => []
       | Some txt =>
           let ls := splitlines txt in
           let n := pline (lstart (mloc m)) in
           if (0 <? n) && (N.to_nat n <=? List.length ls)%nat then nth (N.to_nat (n - 1)) ls [] else []
       end.

(* before f285438: `source_lines[self.location.start.line - 1]` unguarded; None = IndexError *)
Definition source_line_of_old (S : sources) (m : message) : option str :=
  if lsyn (mloc m) then Some []
  else match lookup (mfile m) S with
       | None => Some []
       | Some txt => py_index (splitlines txt) (Z.of_N (pline (lstart (mloc m))) - 1)
       end.

Definition position_text (m : message) : str :=
  if lsyn (mloc m) then s2l "[compiler bug]" else pos_str (lstart (mloc m)).
Definition source_name (m : message) : str :=
  match mfile m with [] => s2l "[prelude]" | f => f end.
Definition prefix_text (m : message) : str := source_name m ++ [58] ++ position_text m ++ [58; 32].

Fixpoint header (m : message) (first : bool) (has_src : bool) (lines : list str) : list (color * str) :=
  match lines with
  | [] => []
  | l :: rest =>
      let l' := if negb (is_nil rest) || has_src then l ++ [10] else l in
      let sv := if first then msev m else SNote in
      (BOLD, prefix_text m) :: (fst (sev_colors sv), sev_name sv ++ [58; 32]) :: (snd (sev_colors sv), l')
      :: header m false has_src rest
  end.

Definition caret_count (l : loc) : nat :=
  if pline (lstart l) =? pline (lend l)
  then Z.to_nat (Z.max 1 (Z.of_N (pcol (lend l)) - Z.of_N (pcol (lstart l))))
  else 1%nat.

Definition snippet (m : message) (source_line : str) : list (color * str) :=
  if is_nil source_line then []
  else [(WHITE, source_line ++ [10]);
        (BRIGHT_GREEN, repeat 32 (N.to_nat (pcol (lstart (mloc m)) - 1)) ++ repeat 94 (caret_count (mloc m)))].

Definition render (m : message) (sl : str) : list (color * str) :=
  header m true (negb (is_nil sl)) (splitlines (mtext m)) ++ snippet m sl.

Definition format (S : sources) (m : message) : list (color * str) := render m (source_line_of S m).

Definition format_old (S : sources) (m : message) : option (list (color * str)) :=
  option_map (render m) (source_line_of_old S m).

Definition plain (parts : list (color * str)) : str := List.concat (map snd parts).

(* ---- split_errors / format_errors ---- *)
Definition group := list message.
Definition errors := list group.
Definition group_synthetic (g : group) : bool := existsb (fun m => lsyn (mloc m)) g.
Definition split_errors (e : errors) : errors * errors :=
  (filter (fun g => negb (group_synthetic g)) e, filter group_synthetic e).

Fixpoint join (sep : str) (l : list str) : str :=
  match l with
  | [] => []
  | [x] => x
  | x :: rest => x ++ sep ++ join sep rest
  end.

Fixpoint opt_all {A} (l : list (option A)) : option (list A) :=
  match l with
  | [] => Some []
  | None :: _ => None
  | Some x :: t => match opt_all t with Some r => Some (x :: r) | None => None end
  end.

(* None = the `assert error_group` fired *)
Definition format_errors (e : errors) (S : sources) : option str :=
  if existsb is_nil e then None
  else Some (join [10] (map (fun m => plain (format S m)) (List.concat e))).

(* before f285438: additionally None when format raised IndexError *)
Definition format_errors_old (e : errors) (S : sources) : option str :=
  if existsb is_nil e then None
  else match opt_all (map (format_old S) (List.concat e)) with
       | None => None
       | Some parts => Some (join [10] (map plain parts))
       end.

(* ---- make_error_from_parse_error ---- *)
(* parser_types.Token, and lr1.Symbol (a namedtuple with only `.symbol`, used as the end-of-input
   marker before commit ca2355e) *)
Inductive token :=
| Tok (symbol text : str) (l : option loc)
| EndOfInput.

Record parse_error := mkPE { pe_code : option str; pe_token : token; pe_expected : list str }.
(* pe_expected is the iteration order of the Python set `expected_tokens` (see Determinism.v) *)

(* repr(str).  [np] lists the code points >= 256 for which str.isprintable() is false
   (the Unicode database is an oracle, supplied by the caller). *)
Definition hexdigit (n : N) : N := if n <? 10 then 48 + n else 87 + n.
Definition hex2 (c : N) : str := [hexdigit (c / 16); hexdigit (c mod 16)].
Definition hex4 (c : N) : str := hex2 (c / 256) ++ hex2 (c mod 256).
Definition hex8 (c : N) : str := hex4 (c / 65536) ++ hex4 (c mod 65536).
Definition repr_char (np : list N) (q : N) (c : N) : str :=
  if c =? 92 then [92; 92]
  else if c =? q then [92; q]
  else if c =? 10 then [92; 110]
  else if c =? 13 then [92; 114]
  else if c =? 9 then [92; 116]
  else if (c <? 32) || (c =? 127) then [92; 120] ++ hex2 c
  else if c <? 127 then [c]
  else if c <? 256 then (if (c <? 161) || (c =? 173) then [92; 120] ++ hex2 c else [c])
  else if existsb (N.eqb c) np then (if c <? 65536 then [92; 117] ++ hex4 c else [92; 85] ++ hex8 c)
  else [c].
Definition py_repr (np : list N) (s : str) : str :=
  let q := if existsb (N.eqb 39) s && negb (existsb (N.eqb 34) s) then 34 else 39 in
  [q] ++ flat_map (repr_char np q) s ++ [q].

(* ", ".join(sorted(parse_error.expected_tokens))   (sorted since commit e30aa7a) *)
Definition parse_error_text (np : list N) (code : option str) (text symbol : str) (expected : list str) : str :=
  match code with Some c => if is_nil c then s2l "Syntax error" else c | None => s2l "Syntax error" end
  ++ [10] ++ s2l "Found " ++ py_repr np text ++ s2l " (" ++ symbol ++ s2l "), expected "
  ++ join (s2l ", ") (isort str_cmp expected) ++ [46].
(* before: ", ".join(parse_error.expected_tokens) *)
Definition parse_error_text_old (np : list N) (code : option str) (text symbol : str) (expected : list str) : str :=
  match code with Some c => if is_nil c then s2l "Syntax error" else c | None => s2l "Syntax error" end
  ++ [10] ++ s2l "Found " ++ py_repr np text ++ s2l " (" ++ symbol ++ s2l "), expected "
  ++ join (s2l ", ") expected ++ [46].

(* None = AttributeError: 'Symbol' object has no attribute 'source_location' *)
Definition make_error_from_parse_error (np : list N) (file : str) (e : parse_error) : option group :=
  match pe_token e with
  | EndOfInput => None
  | Tok symbol text l => Some [mk_error file l (parse_error_text np (pe_code e) text symbol (pe_expected e))]
  end.

(* lr1.Parser.parse: the end-of-input marker appended to the token list, and the token an Error
   action at position `cursor` reports *)
Definition tok_end (t : token) : option pos :=
  match t with
  | Tok _ _ (Some l) => if loc_truthy l then Some (lend l) else None
  | _ => None
  end.
Definition end_marker (tokens : list token) : token :=
  Tok [36] [] (match last (map Some tokens) None with
               | Some t => match tok_end t with Some p => Some (mkLoc p p false) | None => None end
               | None => None
               end).
Definition end_marker_old (tokens : list token) : token := EndOfInput.
Definition error_token (marker : list token -> token) (tokens : list token) (cursor : nat) : option token :=
  nth_error (tokens ++ [marker tokens]) cursor.
Definition is_tok (t : token) : bool := match t with Tok _ _ _ => true | EndOfInput => false end.

(* ---- glue.process_ir ---- *)
Section Pipeline.
  Variable IR : Type.
  (* a pass mutates the IR and returns a list of error groups *)
  Definition pass := IR -> IR * errors.

  Inductive outcome :=
  | POk (ir : IR)               (* (ir, [])           *)
  | PErr (e : errors)           (* (None, e)          *)
  | PCrash.                     (* an assert fired    *)

  Definition opt_str_eqb (a : option str) (b : str) : bool :=
    match a with Some x => str_eqb x b | None => false end.

  Fixpoint run_passes (ps : list (str * pass)) (stop : option str) (ir : IR) (deferred : errors) : outcome :=
    match ps with
    | [] => if is_nil deferred
            then (match stop with None => POk ir | Some _ => PCrash end)
            else PErr deferred
    | (name, p) :: rest =>
        if opt_str_eqb stop name then POk ir
        else let '(ir', out) := p ir in
             let '(user, hidden) := split_errors out in
             if is_nil user then run_passes rest stop ir' (deferred ++ hidden)
             else PErr user
    end.

  Definition process_ir (ps : list (str * pass)) (stop : option str) (ir : IR) : outcome :=
    match stop with
    | Some s => if existsb (fun np => str_eqb s (fst np)) ps then run_passes ps stop ir [] else PCrash
    | None => run_passes ps stop ir []
    end.

  (* what every pass would return if all of them ran (the IR threaded through) *)
  Fixpoint trace (ps : list (str * pass)) (ir : IR) : list errors :=
    match ps with
    | [] => []
    | (_, p) :: rest => let '(ir', out) := p ir in out :: trace rest ir'
    end.

  (* parse_emboss_file: only_parse_emboss_file returns (ir, debug_info, errors);
     `if errors: return (None, debug_info, errors)`, otherwise process_ir(ir) *)
  Definition parse_emboss_file (parsed : option IR * errors) (ps : list (str * pass)) (stop : option str) : outcome :=
    if is_nil (snd parsed)
    then match fst parsed with
         | Some ir => process_ir ps stop ir
         | None => PCrash       (* a pass dereferences None *)
         end
    else PErr (snd parsed).
End Pipeline.
Arguments POk {IR}. Arguments PErr {IR}. Arguments PCrash {IR}.

(* ---- tokenizer.tokenize: the layout loop ---- *)
(* str.isspace() for one code point (what lstrip() removes) *)
Definition py_isspace (c : N) : bool :=
  ((9 <=? c) && (c <=? 13)) || ((28 <=? c) && (c <=? 32)) || (c =? 133) || (c =? 160) || (c =? 5760)
  || ((8192 <=? c) && (c <=? 8202)) || (c =? 8232) || (c =? 8233) || (c =? 8239) || (c =? 8287) || (c =? 12288).

Fixpoint take_ws (L : str) : str :=
  match L with
  | c :: L' => if py_isspace c then c :: take_ws L' else []
  | [] => []
  end.

Fixpoint prefixb (p s : str) : bool :=
  match p, s with
  | [], _ => true
  | x :: p', y :: s' => (x =? y) && prefixb p' s'
  | _ :: _, [] => false
  end.

Definition len (s : str) : N := N.of_nat (List.length s).
Definition at_ (ln c0 c1 : N) : option loc := Some (mkLoc (mkPos ln c0) (mkPos ln c1) false).
Definition newline_tok (ln : N) (L : str) : token := Tok (s2l """\n""") [10] (at_ ln (len L + 1) (len L + 1)).
Definition dedent_tok (ln col : N) : token := Tok (s2l "Dedent") [] (at_ ln col col).
Definition indent_tok (ln : N) (top lw : str) : token :=
  Tok (s2l "Indent") (skipn (List.length top) lw) (at_ ln (len top + 1) (len lw + 1)).

Inductive line_result := LToks (ts : list token) (all_comment : bool) | LBad (offset : N).

(* for i in range(len(stack)-1, -1, -1): if lw == stack[i]: break; emit Dedent; del stack[i]   else: error.
   The stack is kept with its top first. *)
Fixpoint pop_until (ln : N) (lw : str) (st : list str) : option (list token * list str) :=
  match st with
  | [] => None
  | top :: below =>
      if str_eqb lw top then Some ([], st)
      else match pop_until ln lw below with
           | Some (ts, st') => Some (dedent_tok ln (len lw + 1) :: ts, st')
           | None => None
           end
  end.

Inductive tok_result := TOk (ts : list token) | TErr (e : errors).

Section Layout.
  Variable file : str.
  (* _tokenize_line(line, line_number): tokens (and whether all of them are Comments) or the
     offset of the first character no pattern matches *)
  Variable line_toks : N -> str -> line_result.

  Definition prepend (xs : list token) (r : tok_result) : tok_result :=
    match r with TOk ts => TOk (xs ++ ts) | e => e end.

  Fixpoint tok_lines (ln : N) (st : list str) (lines : list str) : tok_result :=
    match lines with
    | [] => TOk (repeat (dedent_tok (ln + 1) 1) (List.length st - 1))
    | L :: rest =>
        let ln := ln + 1 in
        match line_toks ln L with
        | LBad off => TErr [[mk_error file (at_ ln (off + 1) (off + 2)) (s2l "Unrecognized token")]]
        | LToks ts true => prepend (ts ++ [newline_tok ln L]) (tok_lines ln st rest)
        | LToks ts false =>
            let lw := take_ws L in
            match st with
            | [] => TErr []      (* unreachable: the stack always holds "" *)
            | top :: _ =>
                if str_eqb lw top then prepend (ts ++ [newline_tok ln L]) (tok_lines ln st rest)
                else if prefixb top lw
                then prepend (indent_tok ln top lw :: ts ++ [newline_tok ln L]) (tok_lines ln (lw :: st) rest)
                else match pop_until ln lw st with
                     | Some (ds, st') => prepend (ds ++ ts ++ [newline_tok ln L]) (tok_lines ln st' rest)
                     | None => TErr [[mk_error file (at_ ln 1 (len lw + 1)) (s2l "Bad indentation")]]
                     end
            end
        end
    end.

  Definition tokenize (text : str) : tok_result := tok_lines 0 [[]] (splitlines text).
End Layout.

(* a position lies inside a file: its line is one of the file's splitlines *)
Definition inside (text : str) (l : loc) : Prop :=
  (1 <= pline (lstart l))%N /\ (N.to_nat (pline (lstart l)) <= List.length (splitlines text))%nat.
Definition insideb (text : str) (l : loc) : bool :=
  (1 <=? pline (lstart l)) && (N.to_nat (pline (lstart l)) <=? List.length (splitlines text))%nat.

(* ---- specification predicates used by the C16 theorems ---- *)
Definition names_position (m : message) (r : list (color * str)) : Prop :=
  (* every line of the message carries "file:line:column: " *)
  forall l0 rest, splitlines (mtext m) = l0 :: rest ->
    exists tail,
      r = (BOLD, source_name m ++ [58] ++ dec (pline (lstart (mloc m))) ++ [58] ++ dec (pcol (lstart (mloc m))) ++ [58; 32])
          :: tail.

Definition names_position_any (m : message) (r : list (color * str)) : Prop :=
  forall l0 rest, splitlines (mtext m) = l0 :: rest -> exists tail, r = (BOLD, prefix_text m) :: tail.

Definition shows_line (m : message) (line : str) (r : list (color * str)) : Prop :=
  line <> [] ->
  exists front k, (1 <= k)%nat /\
    r = front ++ [(WHITE, line ++ [10]);
                  (BRIGHT_GREEN, repeat 32 (N.to_nat (pcol (lstart (mloc m)) - 1)) ++ repeat 94 k)].

Definition stop_valid {IR} (ps : list (str * pass IR)) (stop : option str) : Prop :=
  match stop with
  | None => True
  | Some s => existsb (fun np => str_eqb s (fst np)) ps = true
  end.
Definition all_synthetic (e : errors) : Prop := forall g, In g e -> group_synthetic g = true.
Definition none_synthetic (e : errors) : Prop := forall g, In g e -> group_synthetic g = false.
(* groups stay non-empty (format_errors asserts it) *)
Definition groups_nonempty (e : errors) : Prop := forall g, In g e -> g <> [].
Definition tok_loc (t : token) : option loc := match t with Tok _ _ l => l | EndOfInput => None end.
Definition on_line (ln : N) (t : token) : Prop :=
  exists l, tok_loc t = Some l /\ pline (lstart l) = ln /\ lsyn l = false.
