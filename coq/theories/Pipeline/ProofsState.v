(* C17 — proofs about the process state (module cache + anonymous-name counter) *)
From Coq Require Import ZArith NArith List Bool Lia String Permutation.
Import ListNotations.
Require Import EmbossV.Pipeline.Order EmbossV.Pipeline.Errors EmbossV.Pipeline.Determinism.
Open Scope N_scope.

Lemma str_eqb_eq : forall a b, str_eqb a b = true <-> a = b.
Proof.
  induction a as [|x a IH]; destruct b as [|y b]; cbn; split; try discriminate; try reflexivity.
  - intros H. apply andb_true_iff in H. destruct H as [H1 H2]. apply N.eqb_eq in H1. apply IH in H2. congruence.
  - intros H. inversion H; subst. rewrite N.eqb_refl. apply IH. reflexivity.
Qed.

Lemma key_eqb_eq : forall a b : key, key_eqb a b = true <-> a = b.
Proof.
  intros [a1 a2] [b1 b2]. unfold key_eqb. cbn. rewrite andb_true_iff, !str_eqb_eq. split.
  - intros [-> ->]. reflexivity.
  - intros H. inversion H. auto.
Qed.

Lemma fresh_in : forall c n x, In x (fresh c n) <-> c < x <= c + N.of_nat n.
Proof.
  intros c n x. unfold fresh. rewrite in_map_iff. split.
  - intros [i [<- Hi]]. apply in_seq in Hi. lia.
  - intros H. exists (N.to_nat (x - c - 1)). split; [lia|]. apply in_seq. lia.
Qed.

Lemma fresh_nodup : forall c n, NoDup (fresh c n).
Proof.
  intros c n. unfold fresh. apply FinFun.Injective_map_NoDup; [|apply seq_NoDup].
  intros i j H. lia.
Qed.

Lemma fresh_length : forall c n, List.length (fresh c n) = n.
Proof. intros. unfold fresh. rewrite map_length, seq_length. reflexivity. Qed.

Lemma app_eq_len : forall {A} (a a' b b' : list A),
  List.length a = List.length a' -> a ++ b = a' ++ b' -> a = a' /\ b = b'.
Proof.
  induction a as [|x a IH]; destruct a' as [|y a']; cbn; intros b b' Hl H; try discriminate.
  - auto.
  - inversion H; subst. destruct (IH a' b b') as [-> ->]; [lia|assumption|auto].
Qed.

Lemma concat_split : forall (r : N -> N) (l1 l2 : list (list N)),
  map (@List.length N) l1 = map (@List.length N) l2 -> map r (List.concat l1) = List.concat l2 ->
  map (map r) l1 = l2.
Proof.
  induction l1 as [|a l1 IH]; destruct l2 as [|b l2]; cbn; intros Hl H; try discriminate; [reflexivity|].
  inversion Hl. rewrite map_app in H.
  destruct (app_eq_len (map r a) b (map r (List.concat l1)) (List.concat l2)) as [E1 E2];
    [rewrite map_length; assumption|exact H|].
  rewrite E1. f_equal. apply IH; assumption.
Qed.

(* two duplicate-free lists of equal length are related by an injective renaming *)
Lemma renaming_exists : forall (l1 l2 : list N),
  NoDup l1 -> NoDup l2 -> List.length l1 = List.length l2 ->
  exists r, map r l1 = l2 /\ inj_on r l1.
Proof.
  induction l1 as [|x l1 IH]; destruct l2 as [|y l2]; cbn; intros H1 H2 Hl; try discriminate.
  - exists (fun z => z). split; [reflexivity|]. intros a b [].
  - inversion H1; subst. inversion H2; subst.
    destruct (IH l2) as [r [Hr Hinj]]; [assumption|assumption|lia|].
    exists (fun z => if z =? x then y else r z). split.
    + rewrite N.eqb_refl. f_equal. rewrite <- Hr. apply map_ext_in.
      intros a Ha. destruct (N.eqb_spec a x); [subst; contradiction|reflexivity].
    + intros a b Ha Hb. destruct (N.eqb_spec a x) as [->|Na]; destruct (N.eqb_spec b x) as [->|Nb].
      * reflexivity.
      * intros E. exfalso. destruct Hb as [Hb|Hb]; [congruence|].
        apply H5. rewrite <- Hr. rewrite E. apply in_map. exact Hb.
      * intros E. exfalso. destruct Ha as [Ha|Ha]; [congruence|].
        apply H5. rewrite <- Hr. rewrite <- E. apply in_map. exact Ha.
      * intros E. destruct Ha as [Ha|Ha]; [congruence|]. destruct Hb as [Hb|Hb]; [congruence|].
        apply Hinj; assumption.
Qed.

Lemma concat_len : forall {A} (l : list (list A)),
  List.length (List.concat l) = fold_right plus 0%nat (map (@List.length A) l).
Proof. induction l as [|a l IH]; cbn; [reflexivity|]. rewrite app_length, IH. reflexivity. Qed.

Lemma NoDup_app_intro : forall {A} (a b : list A),
  NoDup a -> NoDup b -> (forall x, In x a -> In x b -> False) -> NoDup (a ++ b).
Proof.
  induction a as [|x a IH]; cbn; intros b Ha Hb Hd; [assumption|].
  inversion Ha; subst. constructor.
  - intros Hin. apply in_app_or in Hin. destruct Hin as [Hin|Hin]; [contradiction|].
    apply (Hd x); [left; reflexivity|assumption].
  - apply IH; [assumption|assumption|]. intros z Hz1 Hz2. apply (Hd z); [right; assumption|assumption].
Qed.

Section StateProofs.
  Variable content : Type.
  Variable parse : str -> str -> option (content * nat).
  Notation state := (state content).
  Notation module_ir := (module_ir content).
  Notation wf := (wf content parse).
  Notation compile_from := (compile_from content parse).
  Notation compile := (compile content parse).
  Notation pmt := (parse_module_text content parse).
  Notation find_cache := (find_cache content).
  Notation names := (names content).
  Notation entry_ok := (entry_ok content parse).

  Lemma find_cache_in : forall k c m, find_cache k c = Some m -> In (k, m) c.
  Proof.
    induction c as [|[k' m'] c IH]; cbn; intros m H; [discriminate|].
    destruct (key_eqb k k') eqn:E.
    - apply key_eqb_eq in E. inversion H; subst. left. reflexivity.
    - right. apply IH. exact H.
  Qed.

  Lemma find_cache_none : forall k c, find_cache k c = None -> ~ In k (map fst c).
  Proof.
    induction c as [|[k' m'] c IH]; cbn; intros H; [tauto|].
    destruct (key_eqb k k') eqn:E; [discriminate|].
    intros [Hk|Hk]; [subst; rewrite (proj2 (key_eqb_eq k k) eq_refl) in E; discriminate|].
    apply IH; assumption.
  Qed.

  Lemma find_cache_unique : forall k c m, NoDup (map fst c) -> In (k, m) c -> find_cache k c = Some m.
  Proof.
    induction c as [|[k' m'] c IH]; cbn; intros m Hnd Hin; [contradiction|].
    inversion Hnd; subst. destruct Hin as [Hin|Hin].
    - inversion Hin; subst. rewrite (proj2 (key_eqb_eq k k) eq_refl). reflexivity.
    - destruct (key_eqb k k') eqn:E.
      + apply key_eqb_eq in E. subst k'. exfalso. apply H1. apply (in_map fst) in Hin. exact Hin.
      + apply IH; assumption.
  Qed.

  Lemma entry_ok_mono : forall c1 c2 e, c1 <= c2 -> entry_ok c1 e -> entry_ok c2 e.
  Proof. intros c1 c2 e H [c [b [n [H1 [H2 H3]]]]]. exists c, b, n. repeat split; try assumption. lia. Qed.

  Lemma entry_names_le : forall cnt e x, entry_ok cnt e -> In x (anon (snd e)) -> x <= cnt.
  Proof.
    intros cnt e x [c [b [n [_ [H2 H3]]]]] Hx. rewrite H2 in Hx. cbn in Hx. apply fresh_in in Hx. lia.
  Qed.

  Lemma entry_names_nodup : forall cnt e, entry_ok cnt e -> NoDup (anon (snd e)).
  Proof. intros cnt e [c [b [n [_ [H2 _]]]]]. rewrite H2. cbn. apply fresh_nodup. Qed.

  Lemma wf_entry : forall st e, wf st -> In e (cache st) -> entry_ok (counter st) e.
  Proof. intros st e [H _] Hin. rewrite Forall_forall in H. apply H. exact Hin. Qed.

  (* ---- the invariant is preserved ---- *)
  Lemma pmt_wf : forall st k, wf st -> wf (fst (pmt st k)).
  Proof.
    intros st k Hwf. unfold parse_module_text.
    destruct (find_cache k (cache st)) as [m|] eqn:Ef; [exact Hwf|].
    destruct (parse (fst k) (snd k)) as [[b n]|] eqn:Ep; [|exact Hwf].
    cbn [fst]. destruct Hwf as [Hok [Hdis Hnd]]. unfold Determinism.wf. cbn [cache counter].
    split; [|split].
    - constructor.
      + exists (counter st), b, n. cbn. repeat split; [exact Ep|lia].
      + eapply Forall_impl; [|exact Hok]. intros e He. eapply entry_ok_mono; [|exact He]. lia.
    - intros e1 e2 x [<-|H1] [<-|H2] Hx1 Hx2; cbn in *.
      + reflexivity.
      + exfalso. apply fresh_in in Hx1. rewrite Forall_forall in Hok.
        pose proof (entry_names_le _ _ _ (Hok _ H2) Hx2). lia.
      + exfalso. apply fresh_in in Hx2. rewrite Forall_forall in Hok.
        pose proof (entry_names_le _ _ _ (Hok _ H1) Hx1). lia.
      + eapply Hdis; eassumption.
    - constructor; [apply find_cache_none; exact Ef|exact Hnd].
  Qed.

  Lemma compile_from_wf : forall inputs i st, wf st -> wf (fst (compile_from i st inputs)).
  Proof.
    induction inputs as [|k rest IH]; intros i st Hwf; cbn; [exact Hwf|].
    pose proof (pmt_wf st k Hwf) as H1. destruct (pmt st k) as [st1 [m|]]; cbn in H1; [|exact H1].
    specialize (IH (S i) st1 H1). destruct (compile_from (S i) st1 rest) as [st2 [ms|j]]; exact IH.
  Qed.

  Lemma init_wf : wf (init_state content).
  Proof. split; [constructor|]. split; [intros e1 e2 x []|constructor]. Qed.

  Lemma reachable_wf_lem : forall st, reachable content parse st -> wf st.
  Proof. intros st H. induction H; [apply init_wf|apply compile_from_wf; assumption]. Qed.

  Lemma drop_cache_wf : forall st, wf (drop_cache content st).
  Proof. intros st. split; [constructor|]. split; [intros e1 e2 x []|constructor]. Qed.

  (* ---- what a compilation returns, independent of the state: the shape ---- *)
  Fixpoint spec_shape (i : nat) (inputs : list key) : list (content * nat) + nat :=
    match inputs with
    | [] => inl []
    | k :: rest =>
        match parse (fst k) (snd k) with
        | None => inr i
        | Some bn => match spec_shape (S i) rest with
                     | inl sh => inl (bn :: sh)
                     | inr j => inr j
                     end
        end
    end.

  Definition shape_of (ms : list module_ir) : list (content * nat) :=
    map (fun m => (body m, List.length (anon m))) ms.

  Lemma pmt_shape : forall st k, wf st ->
    match snd (pmt st k) with
    | Some m => parse (fst k) (snd k) = Some (body m, List.length (anon m))
    | None => parse (fst k) (snd k) = None
    end.
  Proof.
    intros st k Hwf. unfold parse_module_text.
    destruct (find_cache k (cache st)) as [m|] eqn:Ef.
    - cbn. apply find_cache_in in Ef. destruct (wf_entry _ _ Hwf Ef) as [c [b [n [H1 [H2 _]]]]].
      cbn in *. rewrite H2. cbn. rewrite fresh_length. exact H1.
    - destruct (parse (fst k) (snd k)) as [[b n]|]; cbn; [rewrite fresh_length|]; reflexivity.
  Qed.

  Lemma compile_from_shape : forall inputs i st, wf st ->
    match snd (compile_from i st inputs), spec_shape i inputs with
    | OIr ms, inl sh => shape_of ms = sh
    | OErr j, inr j' => j = j'
    | _, _ => False
    end.
  Proof.
    induction inputs as [|k rest IH]; intros i st Hwf; cbn; [reflexivity|].
    pose proof (pmt_shape st k Hwf) as Hs. pose proof (pmt_wf st k Hwf) as Hw.
    destruct (pmt st k) as [st1 [m|]]; cbn in Hs, Hw.
    - rewrite Hs. specialize (IH (S i) st1 Hw).
      destruct (compile_from (S i) st1 rest) as [st2 [ms|j]]; cbn in *;
        destruct (spec_shape (S i) rest); try contradiction; [|exact IH].
      unfold shape_of in *. cbn [map]. f_equal. exact IH.
    - rewrite Hs. cbn. reflexivity.
  Qed.

  (* ---- the names of the modules of one compilation are pairwise distinct ---- *)
  Definition names_ok (st : state) (inputs : list key) (ms : list module_ir) : Prop :=
    NoDup (names ms) /\
    forall x, In x (names ms) ->
      counter st < x \/ exists e, In e (cache st) /\ In (fst e) inputs /\ In x (anon (snd e)).

  Lemma compile_from_names : forall inputs i st st' ms,
    wf st -> NoDup inputs -> compile_from i st inputs = (st', OIr ms) -> names_ok st inputs ms.
  Proof.
    induction inputs as [|k rest IH]; intros i st st' ms Hwf Hnd H.
    - cbn in H. inversion H; subst. split; [constructor|intros x []].
    - cbn in H. inversion Hnd as [|? ? Hk Hrest]; subst.
      pose proof (pmt_wf st k Hwf) as Hw1.
      unfold parse_module_text in H, Hw1.
      destruct (find_cache k (cache st)) as [m|] eqn:Ef.
      + (* cache hit *)
        cbn in Hw1. destruct (compile_from (S i) st rest) as [st2 [ms'|j]] eqn:Ec; [|discriminate].
        inversion H; subst. destruct (IH _ _ _ _ Hwf Hrest Ec) as [Hnd' Hsrc].
        apply find_cache_in in Ef. pose proof (wf_entry _ _ Hwf Ef) as Hok.
        split.
        * unfold Determinism.names. cbn. apply NoDup_app_intro; [exact (entry_names_nodup _ (k, m) Hok)|exact Hnd'|].
          intros x Hx1 Hx2. destruct (Hsrc x Hx2) as [Hgt|[e [He [Hke Hxe]]]].
          -- pose proof (entry_names_le _ (k, m) x Hok Hx1). lia.
          -- destruct Hwf as [_ [Hdis _]]. pose proof (Hdis _ _ x Ef He Hx1 Hxe) as Hk'. cbn in Hk'.
             subst k. contradiction.
        * intros x Hx. unfold Determinism.names in Hx. cbn in Hx. apply in_app_or in Hx. destruct Hx as [Hx|Hx].
          -- right. exists (k, m). split; [exact Ef|]. split; [left; reflexivity|exact Hx].
          -- destruct (Hsrc x Hx) as [Hgt|[e [He [Hke Hxe]]]]; [left; exact Hgt|].
             right. exists e. split; [exact He|]. split; [right; exact Hke|exact Hxe].
      + destruct (parse (fst k) (snd k)) as [[b n]|] eqn:Ep; [|discriminate].
        cbn [fst] in Hw1.
        destruct (compile_from (S i) _ rest) as [st2 [ms'|j]] eqn:Ec; [|discriminate].
        inversion H; subst. destruct (IH _ _ _ _ Hw1 Hrest Ec) as [Hnd' Hsrc]. cbn [counter cache] in Hsrc.
        split.
        * unfold Determinism.names. cbn. apply NoDup_app_intro; [apply fresh_nodup|exact Hnd'|].
          intros x Hx1 Hx2. apply fresh_in in Hx1.
          destruct (Hsrc x Hx2) as [Hgt|[e [[<-|He] [Hke Hxe]]]].
          -- lia.
          -- cbn in Hke. contradiction.
          -- pose proof (entry_names_le _ _ _ (wf_entry _ _ Hwf He) Hxe). lia.
        * intros x Hx. unfold Determinism.names in Hx. cbn in Hx. apply in_app_or in Hx. destruct Hx as [Hx|Hx].
          -- left. apply fresh_in in Hx. lia.
          -- destruct (Hsrc x Hx) as [Hgt|[e [[<-|He] [Hke Hxe]]]].
             ++ left. lia.
             ++ cbn in Hxe. apply fresh_in in Hxe. left. lia.
             ++ right. exists e. split; [exact He|]. split; [right; exact Hke|exact Hxe].
  Qed.

  (* ---- history irrelevance ---- *)
  Lemma shape_rename : forall (r : N -> N) (ms1 ms2 : list module_ir),
    shape_of ms1 = shape_of ms2 -> map (map r) (map anon ms1) = map anon ms2 ->
    ms2 = map (rename_mod content r) ms1.
  Proof.
    induction ms1 as [|m1 ms1 IH]; destruct ms2 as [|m2 ms2]; cbn; intros Hs Ha; try discriminate; [reflexivity|].
    inversion Hs. inversion Ha. f_equal; [|apply IH; assumption].
    destruct m2 as [b2 a2]. cbn in *. unfold rename_mod. subst. reflexivity.
  Qed.

  Lemma history_irrelevant_lem : forall s1 s2 inputs,
    wf s1 -> wf s2 -> NoDup inputs ->
    out_equiv content (snd (compile s1 inputs)) (snd (compile s2 inputs)).
  Proof.
    intros s1 s2 inputs W1 W2 Hnd. unfold Determinism.compile.
    pose proof (compile_from_shape inputs 0 s1 W1) as S1.
    pose proof (compile_from_shape inputs 0 s2 W2) as S2.
    destruct (compile_from 0 s1 inputs) as [t1 [ms1|j1]] eqn:E1;
      destruct (compile_from 0 s2 inputs) as [t2 [ms2|j2]] eqn:E2; cbn in *;
      destruct (spec_shape 0 inputs) as [sh|j]; try contradiction; [|congruence].
    destruct (compile_from_names _ _ _ _ _ W1 Hnd E1) as [N1 _].
    destruct (compile_from_names _ _ _ _ _ W2 Hnd E2) as [N2 _].
    assert (Hsh : shape_of ms1 = shape_of ms2) by congruence.
    assert (Hlens : map (@List.length N) (map anon ms1) = map (@List.length N) (map anon ms2)).
    { rewrite !map_map. apply (f_equal (map snd)) in Hsh. unfold shape_of in Hsh. rewrite !map_map in Hsh. exact Hsh. }
    assert (Hlen : List.length (names ms1) = List.length (names ms2)).
    { unfold Determinism.names. rewrite !concat_len. f_equal. exact Hlens. }
    destruct (renaming_exists _ _ N1 N2 Hlen) as [r [Hr Hinj]].
    exists r. split; [exact Hinj|]. apply shape_rename; [exact Hsh|].
    apply concat_split; [exact Hlens|exact Hr].
  Qed.

  (* ---- the cache ---- *)
  Lemma cache_hit_is_parse_lem : forall st k m,
    wf st -> find_cache k (cache st) = Some m ->
    exists b n c, parse (fst k) (snd k) = Some (b, n) /\ m = mkMod b (fresh c n).
  Proof.
    intros st k m Hwf Hf. apply find_cache_in in Hf.
    destruct (wf_entry _ _ Hwf Hf) as [c [b [n [H1 [H2 _]]]]]. exists b, n, c. cbn in *. auto.
  Qed.

  Lemma cache_transparent_lem : forall st inputs,
    wf st -> NoDup inputs ->
    out_equiv content (snd (compile st inputs)) (snd (compile (drop_cache content st) inputs)).
  Proof. intros. apply history_irrelevant_lem; [assumption|apply drop_cache_wf|assumption]. Qed.

  (* ---- repeating a compilation in the same process: identical, byte for byte ---- *)
  Definition ext (c c' : list (key * module_ir)) : Prop :=
    forall k m, find_cache k c = Some m -> find_cache k c' = Some m.

  Lemma pmt_ext : forall st k, ext (cache st) (cache (fst (pmt st k))).
  Proof.
    intros st k. unfold parse_module_text.
    destruct (find_cache k (cache st)) as [m|] eqn:Ef; [intros ? ? H; exact H|].
    destruct (parse (fst k) (snd k)) as [[b n]|]; [|intros ? ? H; exact H].
    simpl. intros k' m' H. simpl. destruct (key_eqb k' k) eqn:E; [|exact H].
    apply key_eqb_eq in E. subst k'. congruence.
  Qed.

  Lemma pmt_cached : forall st k m, snd (pmt st k) = Some m -> find_cache k (cache (fst (pmt st k))) = Some m.
  Proof.
    intros st k m. unfold parse_module_text.
    destruct (find_cache k (cache st)) as [m0|] eqn:Ef; cbn; [intros H; inversion H; subst; exact Ef|].
    destruct (parse (fst k) (snd k)) as [[b n]|]; cbn; [|discriminate].
    intros H. inversion H; subst. rewrite (proj2 (key_eqb_eq k k) eq_refl). reflexivity.
  Qed.

  Lemma compile_from_ext : forall inputs i st, ext (cache st) (cache (fst (compile_from i st inputs))).
  Proof.
    induction inputs as [|k rest IH]; intros i st; cbn; [intros ? ? H; exact H|].
    pose proof (pmt_ext st k) as H1. destruct (pmt st k) as [st1 [m|]]; cbn in H1; [|exact H1].
    specialize (IH (S i) st1). destruct (compile_from (S i) st1 rest) as [st2 [ms|j]]; cbn in *;
      intros k' m' H; apply IH; apply H1; exact H.
  Qed.

  Lemma compile_from_cached : forall inputs i st st' ms,
    compile_from i st inputs = (st', OIr ms) ->
    Forall2 (fun k m => find_cache k (cache st') = Some m) inputs ms.
  Proof.
    induction inputs as [|k rest IH]; intros i st st' ms H; cbn in H.
    - inversion H; subst. constructor.
    - pose proof (pmt_cached st k) as Hc. destruct (pmt st k) as [st1 [m|]]; [|discriminate].
      pose proof (compile_from_ext rest (S i) st1) as He.
      destruct (compile_from (S i) st1 rest) as [st2 [ms'|j]] eqn:Ec; [|discriminate].
      inversion H; subst. constructor; [apply He; apply Hc; reflexivity|eapply IH; exact Ec].
  Qed.

  Lemma replay_hits : forall inputs i st ms,
    Forall2 (fun k m => find_cache k (cache st) = Some m) inputs ms ->
    compile_from i st inputs = (st, OIr ms).
  Proof.
    induction inputs as [|k rest IH]; intros i st ms H; inversion H; subst; cbn; [reflexivity|].
    unfold parse_module_text. rewrite H2. rewrite (IH (S i) st _ H4). reflexivity.
  Qed.

  Lemma replay_error : forall inputs i st st' j,
    compile_from i st inputs = (st', OErr j) -> wf st' ->
    compile_from i st' inputs = (st', OErr j).
  Proof.
    induction inputs as [|k rest IH]; intros i st st' j H Hwf; cbn in H; [discriminate|].
    pose proof (pmt_cached st k) as Hc. pose proof (pmt_shape st k) as Hs.
    destruct (pmt st k) as [st1 [m|]] eqn:Ep.
    - pose proof (compile_from_ext rest (S i) st1) as He.
      destruct (compile_from (S i) st1 rest) as [st2 [ms'|j']] eqn:Ec; [discriminate|].
      inversion H; subst. cbn in *. unfold parse_module_text.
      rewrite (He _ _ (Hc _ eq_refl)). rewrite (IH _ _ _ _ Ec Hwf). reflexivity.
    - inversion H; subst. cbn. unfold parse_module_text in *.
      destruct (find_cache k (cache st)) as [m0|] eqn:Ef; [discriminate|].
      destruct (parse (fst k) (snd k)) as [[b n]|] eqn:Epp; [discriminate|].
      inversion Ep; subst. rewrite Ef. reflexivity.
  Qed.

  Lemma repeat_identical_lem : forall st inputs,
    wf st ->
    compile (fst (compile st inputs)) inputs = (fst (compile st inputs), snd (compile st inputs)).
  Proof.
    intros st inputs Hwf. unfold Determinism.compile.
    pose proof (compile_from_wf inputs 0 st Hwf) as Hw.
    destruct (compile_from 0 st inputs) as [st' [ms|j]] eqn:E; cbn in *.
    - apply replay_hits. eapply compile_from_cached. exact E.
    - eapply replay_error; eassumption.
  Qed.

  (* the counter moves only on cache misses, by the number of anonymous fields parsed *)
  Lemma counter_hit_lem : forall st k m,
    find_cache k (cache st) = Some m -> pmt st k = (st, Some m).
  Proof. intros st k m H. unfold parse_module_text. rewrite H. reflexivity. Qed.

  Lemma counter_miss_lem : forall st k b n,
    find_cache k (cache st) = None -> parse (fst k) (snd k) = Some (b, n) ->
    counter (fst (pmt st k)) = counter st + N.of_nat n /\
    snd (pmt st k) = Some (mkMod b (fresh (counter st) n)).
  Proof. intros st k b n H1 H2. unfold parse_module_text. rewrite H1, H2. cbn. auto. Qed.
End StateProofs.

(* downstream processing that is equivariant under renaming gives renamed outputs *)
Lemma history_irrelevant_output_lem :
  forall (content : Type) (parse : str -> str -> option (content * nat))
         (result : Type) (back : list (module_ir content) -> result)
         (rename_out : (N -> N) -> result -> result),
    (forall r ms, inj_on r (names content ms) -> back (map (rename_mod content r) ms) = rename_out r (back ms)) ->
    forall s1 s2 inputs ms1 ms2,
      wf content parse s1 -> wf content parse s2 -> NoDup inputs ->
      snd (compile content parse s1 inputs) = OIr ms1 -> snd (compile content parse s2 inputs) = OIr ms2 ->
      exists r, inj_on r (names content ms1) /\ back ms2 = rename_out r (back ms1).
Proof.
  intros content parse result back rename_out Heq s1 s2 inputs ms1 ms2 W1 W2 Hnd E1 E2.
  pose proof (history_irrelevant_lem content parse s1 s2 inputs W1 W2 Hnd) as H.
  rewrite E1, E2 in H. destruct H as [r [Hinj ->]]. exists r. split; [exact Hinj|]. apply Heq. exact Hinj.
Qed.

(* non-vacuity: a parse function with anonymous fields, two histories *)
Definition ex_parse (src fname : str) : option (nat * nat) :=
  match src with
  | [] => None
  | c :: _ => Some (List.length src, N.to_nat (c mod 4))
  end.
Definition ex_a : key := ([7; 1], [97]).
Definition ex_b : key := ([6; 2; 2], [98]).

Example history_example :
  snd (compile nat ex_parse (init_state nat) [ex_a]) = OIr [mkMod 2%nat [1; 2; 3]] /\
  snd (compile nat ex_parse (fst (compile nat ex_parse (init_state nat) [ex_b])) [ex_a]) = OIr [mkMod 2%nat [3; 4; 5]] /\
  snd (compile nat ex_parse (fst (compile nat ex_parse (init_state nat) [ex_a])) [ex_b; ex_a])
    = OIr [mkMod 3%nat [4; 5]; mkMod 2%nat [1; 2; 3]].
Proof. repeat split. Qed.
