(* Executable glue for the C16/C17 harness: case runners and boolean equalities. *)
From Coq Require Import ZArith NArith List Bool String.
Import ListNotations.
Require Import EmbossV.Pipeline.Order EmbossV.Pipeline.Errors EmbossV.Pipeline.Determinism.
Open Scope N_scope.

Fixpoint list_eqb {A} (f : A -> A -> bool) (a b : list A) : bool :=
  match a, b with
  | [], [] => true
  | x :: a', y :: b' => f x y && list_eqb f a' b'
  | _, _ => false
  end.
Definition opt_eqb {A} (f : A -> A -> bool) (a b : option A) : bool :=
  match a, b with
  | None, None => true
  | Some x, Some y => f x y
  | _, _ => false
  end.

Definition pos_eqb (a b : pos) : bool := (pline a =? pline b) && (pcol a =? pcol b).
Definition loc_eqb (a b : loc) : bool :=
  pos_eqb (lstart a) (lstart b) && pos_eqb (lend a) (lend b) && Bool.eqb (lsyn a) (lsyn b).
Definition sev_eqb (a b : severity) : bool :=
  match a, b with SError, SError | SWarning, SWarning | SNote, SNote => true | _, _ => false end.
Definition msg_eqb (a b : message) : bool :=
  str_eqb (mfile a) (mfile b) && loc_eqb (mloc a) (mloc b) && sev_eqb (msev a) (msev b) && str_eqb (mtext a) (mtext b).
Definition group_eqb : group -> group -> bool := list_eqb msg_eqb.
Definition errors_eqb : errors -> errors -> bool := list_eqb group_eqb.
Definition color_eqb (a b : color) : bool :=
  match a, b with
  | BOLD, BOLD | BRIGHT_RED, BRIGHT_RED | BRIGHT_YELLOW, BRIGHT_YELLOW | WHITE, WHITE | BRIGHT_GREEN, BRIGHT_GREEN => true
  | _, _ => false
  end.
Definition part_eqb (a b : color * str) : bool := color_eqb (fst a) (fst b) && str_eqb (snd a) (snd b).

(* ---- C16 case runners ---- *)
Inductive c16_call :=
| CFormat (Src : sources) (m : message)                     (* _Message.format *)
| CFormatErrors (Src : sources) (e : errors)                (* error.format_errors *)
| CParseError (np : list N) (file : str) (e : parse_error)  (* error.make_error_from_parse_error *)
| CEndMarker (tokens : list token)                          (* the marker lr1.Parser.parse appends *)
| CSplit (e : errors)                                       (* error.split_errors *)
| CProcess (names : list str) (outs : list errors) (stop : option str)   (* glue.process_ir with scripted passes *)
| CSplitlines (s : str).

Inductive c16_res :=
| RParts (r : list (color * str))
| RText (r : option str)
| RGroup (r : option group)
| RToken (t : token)
| RSplit (u s : errors)
| ROutcome (ok : bool) (e : errors) (crash : bool)
| RLines (l : list str).

Definition scripted (names : list str) (outs : list errors) : list (str * pass unit) :=
  map (fun no => (fst no, (fun ir : unit => (ir, snd no)))) (combine names outs).

Definition run_c16 (c : c16_call) : c16_res :=
  match c with
  | CFormat Src m => RParts (format Src m)
  | CFormatErrors Src e => RText (format_errors e Src)
  | CParseError np file e => RGroup (make_error_from_parse_error np file e)
  | CEndMarker ts => RToken (end_marker ts)
  | CSplit e => RSplit (fst (split_errors e)) (snd (split_errors e))
  | CProcess names outs stop =>
      match process_ir unit (scripted names outs) stop tt with
      | POk _ => ROutcome true [] false
      | PErr e => ROutcome false e false
      | PCrash => ROutcome false [] true
      end
  | CSplitlines s => RLines (splitlines s)
  end.

Definition token_eqb (a b : token) : bool :=
  match a, b with
  | Tok s1 t1 l1, Tok s2 t2 l2 => str_eqb s1 s2 && str_eqb t1 t2 && opt_eqb loc_eqb l1 l2
  | EndOfInput, EndOfInput => true
  | _, _ => false
  end.

Definition c16_res_eqb (a b : c16_res) : bool :=
  match a, b with
  | RParts x, RParts y => list_eqb part_eqb x y
  | RText x, RText y => opt_eqb str_eqb x y
  | RGroup x, RGroup y => opt_eqb group_eqb x y
  | RToken x, RToken y => token_eqb x y
  | RSplit u1 s1, RSplit u2 s2 => errors_eqb u1 u2 && errors_eqb s1 s2
  | ROutcome o1 e1 c1, ROutcome o2 e2 c2 => Bool.eqb o1 o2 && errors_eqb e1 e2 && Bool.eqb c1 c2
  | RLines x, RLines y => list_eqb str_eqb x y
  | _, _ => false
  end.

(* ---- C17 case runners ---- *)
(* a parse table: (source, file name) -> body id and number of anonymous fields *)
Definition table := list (key * option (N * nat)).
Fixpoint table_parse (T : table) (src fname : str) : option (N * nat) :=
  match T with
  | [] => None
  | (k, v) :: T' => if key_eqb (src, fname) k then v else table_parse T' src fname
  end.

(* run a sequence of compilations from the initial state; report each result and the counter after it *)
Inductive c17_out := COut (mods : option (list (N * list N))) (err : nat) (counter : N).

Fixpoint run_seq (T : table) (st : state N) (seq : list (list key)) : list c17_out :=
  match seq with
  | [] => []
  | inputs :: rest =>
      let '(st', o) := compile N (table_parse T) st inputs in
      (match o with
       | OIr ms => COut (Some (map (fun m => (body m, anon m)) ms)) 0 (counter st')
       | OErr i => COut None i (counter st')
       end) :: run_seq T st' rest
  end.

Inductive c17_call :=
| DSeq (T : table) (seq : list (list key))
| DAmbiguous (file : str) (l : option loc) (name : str) (order : list candidate)
| DExpected (np : list N) (code : option str) (text symbol : str) (order : list str)
| DSorted (order : list str).

Inductive c17_res :=
| SSeq (r : list c17_out)
| SGroup (g : group)
| SText (s : str)
| SList (l : list str).

Definition run_c17 (c : c17_call) : c17_res :=
  match c with
  | DSeq T seq => SSeq (run_seq T (init_state N) seq)
  | DAmbiguous file l name order => SGroup (ambiguous_name_error file l name order)
  | DExpected np code text symbol order => SText (parse_error_text np code text symbol order)
  | DSorted order => SList (isort str_cmp order)
  end.

Definition mod_eqb (a b : N * list N) : bool := (fst a =? fst b) && list_eqb N.eqb (snd a) (snd b).
Definition c17_out_eqb (a b : c17_out) : bool :=
  match a, b with
  | COut m1 e1 c1, COut m2 e2 c2 => opt_eqb (list_eqb mod_eqb) m1 m2 && Nat.eqb e1 e2 && (c1 =? c2)
  end.
Definition c17_res_eqb (a b : c17_res) : bool :=
  match a, b with
  | SSeq x, SSeq y => list_eqb c17_out_eqb x y
  | SGroup x, SGroup y => group_eqb x y
  | SText x, SText y => str_eqb x y
  | SList x, SList y => list_eqb str_eqb x y
  | _, _ => false
  end.
