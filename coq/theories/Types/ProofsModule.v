(* C13 — proofs about modules: positional requirements, passed parameters,
   error sites. *)
From Coq Require Import ZArith NArith List Bool Lia.
Import ListNotations.
Require Import EmbossV.Types.Model EmbossV.Types.Proofs.

Lemma check_actuals_spec T G l : forall j ts,
  check_actuals T G l j = inl ts <-> Forall2 (fun a t => typecheck T G a = TOk t) l ts.
Proof.
  induction l as [|a r IH]; intros j ts; simpl.
  - split; intros H; [inversion H; constructor | inversion H; reflexivity].
  - destruct (typecheck T G a) as [t|p] eqn:E.
    + destruct (check_actuals T G r (S j)) as [ts'|x] eqn:C.
      * split; intros H.
        -- inversion H; subst. constructor; [exact E| apply (IH (S j)); exact C].
        -- inversion H; subst. rewrite E in H2. inversion H2; subst.
           apply (IH (S j)) in H4. rewrite C in H4. inversion H4. reflexivity.
      * split; intros H; [discriminate|].
        inversion H; subst. apply (IH (S j)) in H4. rewrite C in H4. discriminate.
    + split; intros H; [discriminate|]. inversion H; subst. rewrite E in H2. discriminate.
Qed.

Lemma check_actuals_err T G l : forall j j' p,
  check_actuals T G l j = inr (j', p) ->
  exists n a, j' = j + n /\ nth_error l n = Some a /\ typecheck T G a = TErr p.
Proof.
  induction l as [|a r IH]; intros j j' p H; simpl in H; [discriminate|].
  destruct (typecheck T G a) as [t|q] eqn:E.
  - destruct (check_actuals T G r (S j)) as [ts|x] eqn:C; [discriminate|].
    inversion H; subst. apply IH in C. destruct C as (n & a' & -> & Hn & Ha).
    exists (S n), a'. repeat split; auto. lia.
  - inversion H; subst. exists 0, a. repeat split; auto.
Qed.

(* ---------- documented table ---------- *)
Lemma pos_check_doc p t : pos_check doc_table p t = true <-> pos_demands p t.
Proof.
  destruct p, t; cbn; split; intros H; try reflexivity; try discriminate; try exact I;
    try (left; reflexivity); try (right; eexists; reflexivity);
    destruct H as [H|[e' H]]; discriminate.
Qed.

Lemma pos_check_impl_of_doc p t : pos_demands p t -> pos_check impl_table p t = true.
Proof.
  destruct p, t; cbn; intros H; try reflexivity; try discriminate;
    destruct H as [H|[e' H]]; discriminate.
Qed.

Lemma param_decl_ok T t :
  param_decl_kinds T = [KInt; KEnum] ->
  (mem_kind (kind_of t) (param_decl_kinds T) = true <-> (t = TInt \/ exists e, t = TEnum e)).
Proof.
  intros ->. destruct t; cbn; split; intros H;
    try reflexivity; try discriminate;
    try (left; reflexivity); try (right; eexists; reflexivity);
    destruct H as [H|[e' H]]; discriminate.
Qed.

Lemma pass_loop_doc fs : forall ts j,
  length fs = length ts -> (pass_loop doc_table fs ts j = PRok <-> fs = ts).
Proof.
  induction fs as [|f fs IH]; intros [|t ts] j HL; simpl in HL; try discriminate.
  - split; reflexivity.
  - cbn [pass_loop]. injection HL as HL.
    assert (HM : mem_kind (kind_of f) (pass_checked_kinds doc_table) = true) by (destruct f; reflexivity).
    rewrite HM. cbn [negb pass_kind doc_table orb].
    destruct (pass_type_ok doc_table f t) eqn:E.
    + rewrite IH by assumption.
      assert (f = t).
      { destruct f, t; cbn in E; try discriminate; try reflexivity. apply N.eqb_eq in E. congruence. }
      subst. split; intros H; [subst; reflexivity | inversion H; reflexivity].
    + cbn. split; intros H; [discriminate|]. inversion H; subst.
      destruct t; cbn in E; try discriminate. rewrite N.eqb_refl in E. discriminate.
Qed.

Lemma pass_loop_doc_no_crash fs : forall ts j, pass_loop doc_table fs ts j <> PRcrash.
Proof.
  induction fs as [|f fs IH]; intros [|t ts] j; cbn [pass_loop]; try discriminate.
  destruct (negb (mem_kind (kind_of f) (pass_checked_kinds doc_table))); [apply IH|].
  destruct (negb (pass_kind doc_table) || pass_type_ok doc_table f t); [apply IH|].
  cbn. discriminate.
Qed.

Lemma Forall2_typecheck_has_type G acts ts :
  Forall2 (fun a t => typecheck doc_table G a = TOk t) acts ts <-> Forall2 (has_type G) acts ts.
Proof.
  apply Forall2_Forall_iff. apply Forall_forall. intros a _ b. apply typecheck_doc_iff_lem.
Qed.

Lemma typecheck_items_doc_iff_lem m : forall G k,
  typecheck_items doc_table G m k = MOk <-> well_typed_items G m.
Proof.
  induction m as [|it r IH]; intros G k; [simpl; tauto|].
  destruct it as [v e|p e|fs acts|t]; cbn [typecheck_items well_typed_items].
  - destruct (typecheck doc_table G e) as [t|q] eqn:E.
    + rewrite IH. apply typecheck_doc_iff_lem in E. split.
      * intros H. exists t. auto.
      * intros (t' & Ht & H). rewrite (has_type_unique G e t t' E Ht). assumption.
    + split; [discriminate|]. intros (t' & Ht & _). apply typecheck_doc_iff_lem in Ht. congruence.
  - destruct (typecheck doc_table G e) as [t|q] eqn:E.
    + apply typecheck_doc_iff_lem in E.
      destruct (pos_check doc_table p t) eqn:PC.
      * rewrite IH. apply pos_check_doc in PC. split; [intros H; split; eauto | tauto].
      * split; [discriminate|]. intros ((t' & Ht & Hd) & _).
        rewrite <- (has_type_unique G e t t' E Ht) in Hd. apply pos_check_doc in Hd. congruence.
    + split; [discriminate|]. intros ((t' & Ht & _) & _). apply typecheck_doc_iff_lem in Ht. congruence.
  - destruct (check_actuals doc_table G acts 0) as [ts|[j q]] eqn:C.
    + apply check_actuals_spec in C. apply Forall2_typecheck_has_type in C.
      cbn [pass_arity doc_table andb].
      destruct (Nat.eqb (length fs) (length ts)) eqn:EL; cbn [negb].
      * apply Nat.eqb_eq in EL.
        destruct (pass_loop doc_table fs ts 0) eqn:PL.
        -- rewrite IH. apply pass_loop_doc in PL; [|assumption]. subst. tauto.
        -- split; [discriminate|]. intros [HF _].
           assert (fs = ts).
           { clear - C HF. revert fs HF. induction C; intros fs HF; inversion HF; subst; [reflexivity|].
             f_equal; [eapply has_type_unique; eauto | apply IHC; assumption]. }
           subst ts. rewrite (proj2 (pass_loop_doc fs fs 0 EL) eq_refl) in PL. discriminate.
        -- exfalso. eapply pass_loop_doc_no_crash; eauto.
      * split; [discriminate|]. intros [HF _].
        apply Forall2_length' in C, HF. apply Nat.eqb_neq in EL. congruence.
    + split; [discriminate|]. intros [HF _]. apply Forall2_typecheck_has_type in HF.
      apply (check_actuals_spec doc_table G acts 0) in HF. congruence.
  - rewrite <- (param_decl_ok doc_table t eq_refl).
    destruct (mem_kind (kind_of t) (param_decl_kinds doc_table)); [rewrite IH; tauto|].
    split; [discriminate|]. intros [H _]. discriminate.
Qed.

Lemma typecheck_items_doc_no_crash_lem m : forall G k k', typecheck_items doc_table G m k <> MCrash k'.
Proof.
  induction m as [|it r IH]; intros G k k'; [discriminate|].
  destruct it as [v e|p e|fs acts|t]; cbn [typecheck_items].
  - destruct (typecheck doc_table G e); [apply IH|discriminate].
  - destruct (typecheck doc_table G e); [|discriminate]. destruct (pos_check doc_table p t); [apply IH|discriminate].
  - destruct (check_actuals doc_table G acts 0) as [ts|[j q]]; [|discriminate].
    destruct (pass_arity doc_table && negb (Nat.eqb (length fs) (length ts))); [discriminate|].
    destruct (pass_loop doc_table fs ts 0) eqn:PL; [apply IH|discriminate|].
    exfalso. eapply pass_loop_doc_no_crash; eauto.
  - destruct (mem_kind (kind_of t) (param_decl_kinds doc_table)); [apply IH|discriminate].
Qed.

(* ---------- implementation table: completeness ---------- *)
Lemma pass_loop_impl_same fs : forall j, pass_loop impl_table fs fs j = PRok.
Proof.
  induction fs as [|f fs IH]; intros j; [reflexivity|].
  cbn [pass_loop].
  destruct (negb (mem_kind (kind_of f) (pass_checked_kinds impl_table))); [apply IH|].
  assert (pass_type_ok impl_table f f = true) by (destruct f; try reflexivity; cbn; apply N.eqb_refl).
  rewrite H. cbn [pass_kind impl_table negb orb]. apply IH.
Qed.

Lemma typecheck_items_complete_lem m : forall G k,
  well_typed_items G m -> typecheck_items impl_table G m k = MOk.
Proof.
  induction m as [|it r IH]; intros G k H; [reflexivity|].
  destruct it as [v e|p e|fs acts|t]; cbn [typecheck_items well_typed_items] in *.
  - destruct H as (t & Ht & H). rewrite (typecheck_complete_lem G e t Ht). apply IH. assumption.
  - destruct H as ((t & Ht & Hd) & H). rewrite (typecheck_complete_lem G e t Ht).
    rewrite (pos_check_impl_of_doc p t Hd). apply IH. assumption.
  - destruct H as [HF H].
    assert (C : check_actuals impl_table G acts 0 = inl fs).
    { apply check_actuals_spec. clear - HF. induction HF; constructor; auto.
      apply typecheck_complete_lem. assumption. }
    rewrite C. rewrite Nat.eqb_refl. cbn [pass_arity impl_table negb andb].
    rewrite pass_loop_impl_same. apply IH. assumption.
  - destruct H as [Ht H].
    rewrite (proj2 (param_decl_ok impl_table t eq_refl) Ht). apply IH. assumption.
Qed.

(* ---------- implementation table: guarded soundness ---------- *)
Lemma pos_check_impl_guarded p t : pos_check impl_table p t = true -> pos_demands p t.
Proof.
  destruct p, t; cbn; intros H; try reflexivity; try discriminate; try exact I;
    try (left; reflexivity); try (right; eexists; reflexivity).
Qed.

Lemma pass_loop_impl_guarded fs : forall ts j,
  length fs = length ts -> pass_loop impl_table fs ts j = PRok ->
  existsb pass_pair_quirk (combine fs ts) = false -> fs = ts.
Proof.
  induction fs as [|f fs IH]; intros [|t ts] j HL HP HQ; simpl in HL; try discriminate; [reflexivity|].
  injection HL as HL. cbn [combine existsb] in HQ. apply orb_false_iff in HQ. destruct HQ as [Q1 Q2].
  cbn [pass_loop] in HP.
  assert (f = t /\ pass_loop impl_table fs ts (S j) = PRok) as [-> HP'].
  { destruct f, t; cbn in HP, Q1; try discriminate; try (split; [reflexivity|assumption]).
    destruct (N.eqb e e0) eqn:E; cbn in HP; try discriminate.
    apply N.eqb_eq in E. subst. split; [reflexivity|assumption]. }
  f_equal. eapply IH; eauto.
Qed.

Lemma typecheck_items_sound_guarded_lem m : forall G k,
  mguard G m = true -> typecheck_items impl_table G m k = MOk -> well_typed_items G m.
Proof.
  induction m as [|it r IH]; intros G k HG H; [exact I|].
  cbn [mguard] in HG. apply andb_true_iff in HG. destruct HG as [HQ HG].
  apply negb_true_iff in HQ.
  destruct it as [v e|p e|fs acts|t]; cbn [typecheck_items well_typed_items item_quirk] in *.
  - apply negb_false_iff in HQ.
    destruct (typecheck impl_table G e) as [t|q] eqn:E; [|discriminate].
    exists t. split; [apply typecheck_sound_guarded_lem; assumption|]. eapply IH; eauto.
  - apply negb_false_iff in HQ. rename HQ into Q1.
    destruct (typecheck impl_table G e) as [t|q] eqn:E; [|discriminate].
    destruct (pos_check impl_table p t) eqn:PC; [|discriminate].
    split; [|eapply IH; eauto].
    exists t. split; [apply typecheck_sound_guarded_lem; assumption|].
    apply pos_check_impl_guarded; assumption.
  - apply orb_false_iff in HQ. destruct HQ as [Q1 Q2]. apply negb_false_iff in Q1.
    destruct (check_actuals impl_table G acts 0) as [ts|[j q]] eqn:C; [|discriminate].
    cbn [pass_arity impl_table andb] in H.
    destruct (Nat.eqb (length fs) (length ts)) eqn:EL; cbn [negb] in H; [|discriminate].
    apply Nat.eqb_eq in EL.
    destruct (pass_loop impl_table fs ts 0) eqn:PL; try discriminate.
    apply pass_loop_impl_guarded in PL; [|assumption|assumption]. subst ts.
    split; [|eapply IH; eauto].
    apply check_actuals_spec in C. clear - C Q1.
    induction C; [constructor|]. simpl in Q1. apply andb_true_iff in Q1. destruct Q1.
    constructor; [apply typecheck_sound_guarded_lem; assumption | apply IHC; assumption].
  - destruct (mem_kind (kind_of t) (param_decl_kinds impl_table)) eqn:M; [|discriminate].
    split; [apply (param_decl_ok impl_table t eq_refl); assumption | eapply IH; eauto].
Qed.

(* ---------- witnesses ---------- *)
Definition wit_enum_param : list item := [IPass [TEnum 0] [XEnum 1 0]].
Definition wit_enum_value : list item := [IPos PEnumValue (XBool true)].
Definition wit_bool_param : list item := [IPass [TInt] [XBool true]].

Lemma not_well_typed_by_doc G m : typecheck_items doc_table G m 0 <> MOk -> ~ well_typed_items G m.
Proof. intros H1 H2. apply H1. apply typecheck_items_doc_iff_lem. assumption. Qed.

(* the former witnesses (F14, boolean enum value, boolean actual) are now rejected, with a message *)
Lemma enum_param_rejected_lem :
  typecheck_module impl_table G0 wit_enum_param = MErr 0 0 [] /\ ~ well_typed_items G0 wit_enum_param.
Proof. split; [reflexivity|]. apply not_well_typed_by_doc. vm_compute. discriminate. Qed.

Lemma enum_value_rejected_lem :
  typecheck_module impl_table G0 wit_enum_value = MErr 0 0 [] /\ ~ well_typed_items G0 wit_enum_value.
Proof. split; [reflexivity|]. apply not_well_typed_by_doc. vm_compute. discriminate. Qed.

Lemma bool_param_rejected_lem : typecheck_module impl_table G0 wit_bool_param = MErr 0 0 [].
Proof. reflexivity. Qed.

Lemma module_refuted_expr_lem :
  typecheck_module impl_table G0 [ILet 0 wit_enum_ordering] = MOk /\ ~ well_typed_items G0 [ILet 0 wit_enum_ordering].
Proof. split; [reflexivity|]. apply not_well_typed_by_doc. vm_compute. discriminate. Qed.

Lemma pass_loop_impl_no_crash fs : forall ts j, pass_loop impl_table fs ts j <> PRcrash.
Proof.
  induction fs as [|f fs IH]; intros [|t ts] j; cbn [pass_loop]; try discriminate.
  destruct (negb (mem_kind (kind_of f) (pass_checked_kinds impl_table))); [apply IH|].
  destruct (negb (pass_kind impl_table) || pass_type_ok impl_table f t); [apply IH|].
  cbn. discriminate.
Qed.

Lemma typecheck_items_impl_no_crash_lem m : forall G k k', typecheck_items impl_table G m k <> MCrash k'.
Proof.
  induction m as [|it r IH]; intros G k k'; [discriminate|].
  destruct it as [v e|p e|fs acts|t]; cbn [typecheck_items].
  - destruct (typecheck impl_table G e); [apply IH|discriminate].
  - destruct (typecheck impl_table G e); [|discriminate]. destruct (pos_check impl_table p t); [apply IH|discriminate].
  - destruct (check_actuals impl_table G acts 0) as [ts|[j q]]; [|discriminate].
    destruct (pass_arity impl_table && negb (Nat.eqb (length fs) (length ts))); [discriminate|].
    destruct (pass_loop impl_table fs ts 0) eqn:PL; [apply IH|discriminate|].
    exfalso. eapply pass_loop_impl_no_crash; eauto.
  - destruct (mem_kind (kind_of t) (param_decl_kinds impl_table)); [apply IH|discriminate].
Qed.

(* ---------- error sites ---------- *)
Lemma nth_error_Some_lt {A} (l : list A) n x : nth_error l n = Some x -> n < length l.
Proof. intros H. apply nth_error_Some. congruence. Qed.

Lemma pass_loop_err_lt T fs : forall ts n j,
  pass_loop T fs ts n = PRerr j -> n <= j < n + length ts.
Proof.
  induction fs as [|f fs IHf]; intros [|t ts] n j PL; simpl in PL; try discriminate.
  destruct (negb (mem_kind (kind_of f) (pass_checked_kinds T))).
  - apply IHf in PL. simpl. lia.
  - destruct (negb (pass_kind T) || pass_type_ok T f t).
    + apply IHf in PL. simpl. lia.
    + destruct (mem_kind (kind_of f) (pass_assert_kinds T)
                || mem_kind (kind_of t) (pass_assert_kinds T)); [discriminate|].
      inversion PL; subst. simpl. lia.
Qed.

Lemma env_after_0 T G m : env_after T G m 0 = Some G.
Proof. destruct m; reflexivity. Qed.

Lemma error_site_lem m : forall G k0 k j p,
  typecheck_items impl_table G m k0 = MErr k j p ->
  exists n it G', k = k0 + n /\ nth_error m n = Some it /\
                  env_after impl_table G m n = Some G' /\
                  site_valid it j p /\ ~ well_typed_items G' [it].
Proof.
  induction m as [|it r IH]; intros G k0 k j p H; [discriminate|].
  assert (REC : forall G1, env_after impl_table G (it :: r) 1 = Some G1 ->
                typecheck_items impl_table G1 r (S k0) = MErr k j p ->
                exists n it' G', k = k0 + n /\ nth_error (it :: r) n = Some it' /\
                  env_after impl_table G (it :: r) n = Some G' /\
                  site_valid it' j p /\ ~ well_typed_items G' [it']).
  { intros G1 HE HR. apply IH in HR. destruct HR as (n & it' & G' & -> & Hn & He & Hs & Hw).
    exists (S n), it', G'. repeat split; auto; [lia|].
    destruct it as [v e|q e|fs acts|t]; cbn [env_after] in HE |- *.
    - destruct (typecheck impl_table G e); [|discriminate]. rewrite env_after_0 in HE.
      inversion HE; subst; assumption.
    - rewrite env_after_0 in HE. inversion HE; subst; assumption.
    - rewrite env_after_0 in HE. inversion HE; subst; assumption.
    - rewrite env_after_0 in HE. inversion HE; subst; assumption. }
  destruct it as [v e|q e|fs acts|t]; cbn [typecheck_items] in H.
  - destruct (typecheck impl_table G e) as [t|q] eqn:E.
    + apply (REC (bind G v t)); [cbn [env_after]; rewrite E; apply env_after_0 | assumption].
    + inversion H; subst. exists 0, (ILet v e), G. repeat split; auto.
      * left. destruct (typecheck_err_site_lem _ _ _ _ E) as (sub & Hs). exists e, sub. auto.
      * intros (t & Ht & _). apply typecheck_complete_lem in Ht. congruence.
  - destruct (typecheck impl_table G e) as [t|q'] eqn:E.
    + destruct (pos_check impl_table q t) eqn:PC.
      * apply (REC G); [apply env_after_0 | assumption].
      * inversion H; subst. exists 0, (IPos q e), G. repeat split; auto.
        -- left. exists e, e. auto.
        -- intros ((t' & Ht & Hd) & _). apply typecheck_complete_lem in Ht.
           rewrite E in Ht. inversion Ht; subst. apply pos_check_impl_of_doc in Hd. congruence.
    + inversion H; subst. exists 0, (IPos q e), G. repeat split; auto.
      * left. destruct (typecheck_err_site_lem _ _ _ _ E) as (sub & Hs). exists e, sub. auto.
      * intros ((t & Ht & _) & _). apply typecheck_complete_lem in Ht. congruence.
  - destruct (check_actuals impl_table G acts 0) as [ts|[j' q]] eqn:C.
    + assert (NW : forall x, typecheck_items impl_table G [IPass fs acts] k0 = x -> x <> MOk ->
                   ~ well_typed_items G [IPass fs acts]).
      { intros x Hx Hne HW. apply (typecheck_items_complete_lem _ G k0) in HW. congruence. }
      cbn [typecheck_items] in NW. rewrite C in NW.
      destruct (pass_arity impl_table && negb (Nat.eqb (length fs) (length ts))) eqn:AR.
      * inversion H; subst. exists 0, (IPass fs acts), G. repeat split; auto.
        -- right. auto.
        -- eapply NW; [reflexivity|discriminate].
      * destruct (pass_loop impl_table fs ts 0) as [|j''|] eqn:PL.
        -- apply (REC G); [apply env_after_0 | assumption].
        -- inversion H; subst. exists 0, (IPass fs acts), G. repeat split; auto.
           ++ apply check_actuals_spec in C. apply Forall2_length' in C.
              assert (j < length acts) by (apply pass_loop_err_lt in PL; lia).
              left. destruct (nth_error acts j) as [a|] eqn:N.
              ** exists a, a. auto.
              ** apply nth_error_None in N. simpl in N. lia.
           ++ eapply NW; [reflexivity|discriminate].
        -- discriminate.
    + inversion H; subst. exists 0, (IPass fs acts), G. repeat split; auto.
      * apply check_actuals_err in C. destruct C as (n & a & -> & Hn & Ha).
        left. destruct (typecheck_err_site_lem _ _ _ _ Ha) as (sub & Hs). exists a, sub. auto.
      * intros [HF _].
        assert (C' : check_actuals impl_table G acts 0 = inl fs).
        { apply check_actuals_spec. clear - HF. induction HF; constructor; auto.
          apply typecheck_complete_lem. assumption. }
        congruence.
  - destruct (mem_kind (kind_of t) (param_decl_kinds impl_table)) eqn:M.
    + apply (REC G); [apply env_after_0 | assumption].
    + inversion H; subst. exists 0, (IParamDecl t), G. repeat split; auto.
      * right. auto.
      * intros [Ht _]. apply (param_decl_ok impl_table t eq_refl) in Ht. congruence.
Qed.
