(* C13 — expression typing.

   Definitions only.  Three layers:
   * [has_type] / [well_typed_items]: the DOCUMENTED typing rules
     (doc/language-reference.md, "Operators and Functions"), declarative;
   * [typecheck] / [typecheck_items]: a Gallina mirror of
     compiler/front_end/type_check.py (_type_check_operation bottom-up, the
     positional requirements of check_types, _type_check_passed_parameters),
     driven by a [sig_table] that the harness REGENERATES on every run by
     executing type_check on probe expressions;
   * [impl_table]: the table the current implementation yields (the harness
     checks regenerated = impl_table), and [doc_table]: the table of the
     documented language.  The two differ in exactly the places listed as
     findings (F12, F13, F14 and the unchecked enum value / the assertion in
     _type_name_for_error_messages). *)
From Coq Require Import ZArith NArith List Bool.
Import ListNotations.

(* ---------- types, kinds ---------- *)
Inductive ty := TInt | TBool | TEnum (e : N) | TOpaque.
Inductive kind := KInt | KBool | KEnum | KOpaque.   (* ExpressionType.which_type *)

Definition kind_of (t : ty) : kind :=
  match t with TInt => KInt | TBool => KBool | TEnum _ => KEnum | TOpaque => KOpaque end.

Definition kind_eqb (a b : kind) : bool :=
  match a, b with
  | KInt, KInt | KBool, KBool | KEnum, KEnum | KOpaque, KOpaque => true
  | _, _ => false
  end.

Definition ty_eqb (a b : ty) : bool :=
  match a, b with
  | TInt, TInt | TBool, TBool | TOpaque, TOpaque => true
  | TEnum x, TEnum y => N.eqb x y
  | _, _ => false
  end.

Definition mem_kind (k : kind) (l : list kind) : bool := existsb (kind_eqb k) l.

(* ---------- expressions ---------- *)
Inductive fn :=
| FAdd | FSub | FMul
| FEq | FNe | FLt | FLe | FGt | FGe
| FAnd | FOr | FChoice | FMax | FPresent | FUpper | FLower.

Definition fn_eqb (a b : fn) : bool :=
  match a, b with
  | FAdd, FAdd | FSub, FSub | FMul, FMul | FEq, FEq | FNe, FNe | FLt, FLt | FLe, FLe
  | FGt, FGt | FGe, FGe | FAnd, FAnd | FOr, FOr | FChoice, FChoice | FMax, FMax
  | FPresent, FPresent | FUpper, FUpper | FLower, FLower => true
  | _, _ => false
  end.

Definition is_arith (f : fn) : bool := match f with FAdd | FSub | FMul => true | _ => false end.
Definition is_eq (f : fn) : bool := match f with FEq | FNe => true | _ => false end.
Definition is_ord (f : fn) : bool := match f with FLt | FLe | FGt | FGe => true | _ => false end.
Definition is_cmp (f : fn) : bool := is_eq f || is_ord f.
Definition is_andor (f : fn) : bool := match f with FAnd | FOr => true | _ => false end.
Definition is_bound (f : fn) : bool := match f with FUpper | FLower => true | _ => false end.

Inductive texpr :=
| XConst (z : Z)                 (* numeric constant *)
| XBool (b : bool)               (* true / false *)
| XEnum (e : N) (z : Z)          (* Enum.VALUE: a value of enum e *)
| XField (i : nat)               (* field_reference to field i (physical, virtual, a.b.c) *)
| XStatic (i : nat)              (* constant_reference Type.virtual_field *)
| XParam (i : nat)               (* field_reference whose target is a runtime parameter *)
| XFn (f : fn) (args : list texpr).

(* what _kind_check_field_reference looks at *)
Inductive shape := ShField | ShParam | ShOther.
Definition shape_of (e : texpr) : shape :=
  match e with XField _ => ShField | XParam _ => ShParam | _ => ShOther end.

Record tenv := mk_tenv { fty : nat -> ty; pty : nat -> ty }.

Definition bind (G : tenv) (v : nat) (t : ty) : tenv :=
  mk_tenv (fun i => if Nat.eqb i v then t else fty G i) (pty G).

(* ---------- the signature table ---------- *)
Inductive argreq := AKind (k : kind) | ARef (allow_param : bool).
(* m_checked: how many leading arguments are inspected (None = all): the table's `binary`
   name tuple has two entries and zip() stops there *)
Record msig := mk_msig { m_res : ty; m_arg : argreq; m_checked : option nat; m_min : nat; m_max : option nat }.

Inductive position := PStart | PSize | PArrayLen | PCond | PRequires | PEnumValue | PAny.
Definition position_eqb (a b : position) : bool :=
  match a, b with
  | PStart, PStart | PSize, PSize | PArrayLen, PArrayLen | PCond, PCond
  | PRequires, PRequires | PEnumValue, PEnumValue | PAny, PAny => true
  | _, _ => false
  end.

Record sig_table := mk_sig {
  mono : list (fn * msig);          (* _type_check_monomorphic_operator's table *)
  eq_kinds : list kind;             (* acceptable argument kinds of == != *)
  ord_kinds : list kind;            (* acceptable argument kinds of < <= > >= *)
  cmp_compat : bool;                (* "Both arguments ... must have the same type" is checked *)
  choice_cond : bool;               (* condition of ?: must be boolean is checked *)
  choice_kinds : list kind;         (* acceptable kinds of the if-true clause *)
  choice_compat : bool;             (* branches must have the same type is checked *)
  compat_enum_by_name : bool;       (* _types_are_compatible compares enum names *)
  pos_req : list (position * list kind); (* positions with a restricted set of kinds *)
  param_decl_kinds : list kind;     (* kinds a runtime parameter may have *)
  pass_arity : bool;                (* number of passed parameters is checked *)
  pass_kind : bool;                 (* which_type of each passed parameter is checked *)
  pass_enum_by_name : bool;         (* a passed enum must be THE declared enum *)
  pass_checked_kinds : list kind;   (* formal kinds for which the actual is compared at all *)
  pass_assert_kinds : list kind     (* kinds _type_name_for_error_messages asserts on *)
}.

Fixpoint lookup_mono (l : list (fn * msig)) (f : fn) : option msig :=
  match l with
  | [] => None
  | (g, s) :: r => if fn_eqb g f then Some s else lookup_mono r f
  end.

Fixpoint lookup_pos (l : list (position * list kind)) (p : position) : option (list kind) :=
  match l with
  | [] => None
  | (q, k) :: r => if position_eqb q p then Some k else lookup_pos r p
  end.

Definition sig_int2 := mk_msig TInt (AKind KInt) (Some 2) 2 (Some 2).
Definition sig_bool2 := mk_msig TBool (AKind KBool) (Some 2) 2 (Some 2).
Definition sig_int1 := mk_msig TInt (AKind KInt) None 1 (Some 1).

(* the table of the CURRENT implementation (what the probes yield on the unchanged tree) *)
Definition impl_table : sig_table := mk_sig
  [ (FAdd, sig_int2); (FSub, sig_int2); (FMul, sig_int2);
    (FAnd, sig_bool2); (FOr, sig_bool2);
    (FMax, mk_msig TInt (AKind KInt) None 1 None);
    (FPresent, mk_msig TBool (ARef true) None 1 (Some 1));
    (FUpper, sig_int1); (FLower, sig_int1) ]
  [KInt; KBool; KEnum]
  [KInt; KEnum]
  true
  true [KInt; KBool; KEnum] true
  true
  [ (PStart, [KInt]); (PSize, [KInt]); (PArrayLen, [KInt]); (PCond, [KBool]); (PRequires, [KBool]);
    (PEnumValue, [KInt; KEnum]) ]
  [KInt; KEnum]
  true true true [KInt; KBool; KEnum]
  [].

(* the table of the DOCUMENTED language *)
Definition doc_table : sig_table := mk_sig
  [ (FAdd, sig_int2); (FSub, sig_int2); (FMul, sig_int2);
    (FAnd, sig_bool2); (FOr, sig_bool2);
    (FMax, mk_msig TInt (AKind KInt) None 1 None);
    (FPresent, mk_msig TBool (ARef true) None 1 (Some 1));
    (FUpper, sig_int1); (FLower, sig_int1) ]
  [KInt; KBool; KEnum]
  [KInt]
  true
  true [KInt; KBool; KEnum] true
  true
  [ (PStart, [KInt]); (PSize, [KInt]); (PArrayLen, [KInt]); (PCond, [KBool]); (PRequires, [KBool]);
    (PEnumValue, [KInt; KEnum]) ]
  [KInt; KEnum]
  true true true [KInt; KBool; KEnum; KOpaque]
  [].

(* ---------- typecheck: mirror of _type_check_expression ---------- *)
(* An error carries the path (child indices from the root) of the node whose
   source_location the error message points at. *)
Inductive tres := TOk (t : ty) | TErr (p : list nat).

(* _types_are_compatible *)
Definition compat (T : sig_table) (a b : ty) : bool :=
  match a, b with
  | TEnum x, TEnum y => if compat_enum_by_name T then N.eqb x y else true
  | _, _ => kind_eqb (kind_of a) (kind_of b)
  end.

Definition arg_ok (r : argreq) (s : shape) (t : ty) : bool :=
  match r with
  | AKind k => kind_eqb (kind_of t) k
  | ARef allow_param =>
      match s with ShField => true | ShParam => allow_param | ShOther => false end
  end.

Fixpoint first_bad_arg (r : argreq) (shs : list shape) (tys : list ty) (i : nat) : option nat :=
  match shs, tys with
  | s :: shs', t :: tys' => if arg_ok r s t then first_bad_arg r shs' tys' (S i) else Some i
  | _, _ => None
  end.

Definition limit {A} (n : option nat) (l : list A) : list A :=
  match n with Some k => firstn k l | None => l end.

(* one operator applied to arguments of known types and shapes *)
Definition op_check (T : sig_table) (f : fn) (shs : list shape) (tys : list ty) : tres :=
  if is_cmp f then
    match tys with
    | [a; b] =>
        let ok := if is_eq f then eq_kinds T else ord_kinds T in
        if negb (mem_kind (kind_of a) ok) then TErr [0%nat]
        else if negb (mem_kind (kind_of b) ok) then TErr [1%nat]
        else if cmp_compat T && negb (compat T a b) then TErr []
        else TOk TBool
    | _ => TErr []
    end
  else if fn_eqb f FChoice then
    match tys with
    | [c; t; e] =>
        if choice_cond T && negb (kind_eqb (kind_of c) KBool) then TErr [0%nat]
        else if negb (mem_kind (kind_of t) (choice_kinds T)) then TErr [1%nat]
        else if choice_compat T && negb (compat T t e) then TErr []
        else TOk t
    | _ => TErr []
    end
  else
    match lookup_mono (mono T) f with
    | None => TErr []
    | Some s =>
        match first_bad_arg (m_arg s) (limit (m_checked s) shs) (limit (m_checked s) tys) 0 with
        | Some i => TErr [i]
        | None =>
            if Nat.ltb (length tys) (m_min s) then TErr []
            else match m_max s with
                 | Some mx => if Nat.ltb mx (length tys) then TErr [] else TOk (m_res s)
                 | None => TOk (m_res s)
                 end
        end
    end.

Fixpoint collect (rs : list tres) (i : nat) : list ty + list nat :=
  match rs with
  | [] => inl []
  | TErr p :: _ => inr (i :: p)
  | TOk t :: r =>
      match collect r (S i) with
      | inl ts => inl (t :: ts)
      | inr p => inr p
      end
  end.

Fixpoint typecheck (T : sig_table) (G : tenv) (e : texpr) {struct e} : tres :=
  match e with
  | XConst _ => TOk TInt
  | XBool _ => TOk TBool
  | XEnum en _ => TOk (TEnum en)
  | XField i | XStatic i => TOk (fty G i)
  | XParam i => TOk (pty G i)
  | XFn f args =>
      match collect (map (typecheck T G) args) 0 with
      | inr p => TErr p
      | inl tys => op_check T f (map shape_of args) tys
      end
  end.

(* ---------- the documented relation ---------- *)
Definition value_ty (t : ty) : Prop := t = TInt \/ t = TBool \/ exists e, t = TEnum e.

Inductive op_sig : fn -> list shape -> list ty -> ty -> Prop :=
| S_arith f s1 s2 : is_arith f = true -> op_sig f [s1; s2] [TInt; TInt] TInt
| S_ord f s1 s2 : is_ord f = true -> op_sig f [s1; s2] [TInt; TInt] TBool
| S_eq_int f s1 s2 : is_eq f = true -> op_sig f [s1; s2] [TInt; TInt] TBool
| S_eq_bool f s1 s2 : is_eq f = true -> op_sig f [s1; s2] [TBool; TBool] TBool
| S_eq_enum f s1 s2 e : is_eq f = true -> op_sig f [s1; s2] [TEnum e; TEnum e] TBool
| S_andor f s1 s2 : is_andor f = true -> op_sig f [s1; s2] [TBool; TBool] TBool
| S_choice s1 s2 s3 t : value_ty t -> op_sig FChoice [s1; s2; s3] [TBool; t; t] t
| S_max shs tys : tys <> [] -> length shs = length tys -> Forall (eq TInt) tys ->
                  op_sig FMax shs tys TInt
| S_present s t : s <> ShOther -> op_sig FPresent [s] [t] TBool   (* a field, or a parameter (always present) *)
| S_bound f s : is_bound f = true -> op_sig f [s] [TInt] TInt.

(* typing derivations over an operator-level signature relation R *)
Inductive has_type_gen (R : fn -> list shape -> list ty -> ty -> Prop) (G : tenv)
  : texpr -> ty -> Prop :=
| HT_const z : has_type_gen R G (XConst z) TInt
| HT_bool b : has_type_gen R G (XBool b) TBool
| HT_enum e z : has_type_gen R G (XEnum e z) (TEnum e)
| HT_field i : has_type_gen R G (XField i) (fty G i)
| HT_static i : has_type_gen R G (XStatic i) (fty G i)
| HT_param i : has_type_gen R G (XParam i) (pty G i)
| HT_fn f args tys t :
    Forall2 (has_type_gen R G) args tys -> R f (map shape_of args) tys t ->
    has_type_gen R G (XFn f args) t.

(* the documented typing relation *)
Definition has_type : tenv -> texpr -> ty -> Prop := has_type_gen op_sig.

(* the extra signature the implementation accepts (finding F13) *)
Inductive op_quirk : fn -> list shape -> list ty -> ty -> Prop :=
| Q_ord_enum f s1 s2 e : is_ord f = true -> op_quirk f [s1; s2] [TEnum e; TEnum e] TBool.

Definition op_impl f shs tys t : Prop := op_sig f shs tys t \/ op_quirk f shs tys t.

(* boolean guard: the expression contains none of the quirk nodes *)
Definition quirk_node (G : tenv) (f : fn) (args : list texpr) : bool :=
  is_ord f && match map (typecheck impl_table G) args with
              | [TOk (TEnum _); TOk (TEnum _)] => true
              | _ => false
              end.

Fixpoint guard (G : tenv) (e : texpr) {struct e} : bool :=
  match e with
  | XFn f args => forallb (guard G) args && negb (quirk_node G f args)
  | _ => true
  end.

(* ---------- evaluation (documented semantics over unbounded integers) ---------- *)
Inductive value := VInt (z : Z) | VBool (b : bool) | VEnum (e : N) (z : Z) | VOpaque.
Definition vty (v : value) : ty :=
  match v with VInt _ => TInt | VBool _ => TBool | VEnum e _ => TEnum e | VOpaque => TOpaque end.

Record venv := mk_venv {
  fval : nat -> value; pval : nat -> value; present : nat -> bool;
  ubound : texpr -> Z; lbound : texpr -> Z   (* the compiler's inferred bounds, see C05 *)
}.

Definition env_ok (G : tenv) (r : venv) : Prop :=
  (forall i, vty (fval r i) = fty G i) /\ (forall i, vty (pval r i) = pty G i).

Fixpoint sequence {A} (l : list (option A)) : option (list A) :=
  match l with
  | [] => Some []
  | None :: _ => None
  | Some x :: t => match sequence t with Some t' => Some (x :: t') | None => None end
  end.

Fixpoint all_ints (vs : list value) : option (list Z) :=
  match vs with
  | [] => Some []
  | VInt z :: r => match all_ints r with Some zs => Some (z :: zs) | None => None end
  | _ :: _ => None
  end.

Definition zmax_list (l : list Z) : option Z :=
  match l with [] => None | x :: t => Some (fold_left Z.max t x) end.

Definition cmp_z (f : fn) (x y : Z) : bool :=
  match f with
  | FEq => Z.eqb x y | FNe => negb (Z.eqb x y)
  | FLt => Z.ltb x y | FLe => Z.leb x y | FGt => Z.ltb y x | FGe => Z.leb y x
  | _ => false
  end.

Definition op_eval (r : venv) (f : fn) (args : list texpr) (vs : list value) : option value :=
  match f, vs with
  | FAdd, [VInt x; VInt y] => Some (VInt (x + y))
  | FSub, [VInt x; VInt y] => Some (VInt (x - y))
  | FMul, [VInt x; VInt y] => Some (VInt (x * y))
  | (FEq | FNe | FLt | FLe | FGt | FGe), [VInt x; VInt y] => Some (VBool (cmp_z f x y))
  | FEq, [VBool x; VBool y] => Some (VBool (Bool.eqb x y))
  | FNe, [VBool x; VBool y] => Some (VBool (negb (Bool.eqb x y)))
  | FEq, [VEnum e x; VEnum e' y] => if N.eqb e e' then Some (VBool (Z.eqb x y)) else None
  | FNe, [VEnum e x; VEnum e' y] => if N.eqb e e' then Some (VBool (negb (Z.eqb x y))) else None
  | FAnd, [VBool x; VBool y] => Some (VBool (x && y))
  | FOr, [VBool x; VBool y] => Some (VBool (x || y))
  | FChoice, [VBool c; t; e] => Some (if c then t else e)
  | FMax, _ => match all_ints vs with
               | Some zs => option_map VInt (zmax_list zs)
               | None => None
               end
  | FUpper, [VInt _] => match args with [a] => Some (VInt (ubound r a)) | _ => None end
  | FLower, [VInt _] => match args with [a] => Some (VInt (lbound r a)) | _ => None end
  | _, _ => None
  end.

Fixpoint teval (r : venv) (e : texpr) {struct e} : option value :=
  match e with
  | XConst z => Some (VInt z)
  | XBool b => Some (VBool b)
  | XEnum en z => Some (VEnum en z)
  | XField i | XStatic i => Some (fval r i)
  | XParam i => Some (pval r i)
  | XFn f args =>
      match f with
      | FPresent =>
          match args with
          | [XField i] => Some (VBool (present r i))
          | [XParam _] => Some (VBool true)     (* a parameter is always present *)
          | _ => None
          end
      | _ =>
          match sequence (map (teval r) args) with
          | Some vs => op_eval r f args vs
          | None => None
          end
      end
  end.

(* ---------- modules: positional requirements and passed parameters ---------- *)
Inductive item :=
| ILet (v : nat) (e : texpr)                       (* let v = e *)
| IPos (p : position) (e : texpr)                  (* e occurs at position p *)
| IPass (formals : list ty) (actuals : list texpr) (* Type(actuals) where Type declares formals *)
| IParamDecl (t : ty).                             (* a declared runtime parameter of type t *)

Inductive mres :=
| MOk
| MErr (k : nat) (j : nat) (p : list nat)   (* item k, its j-th expression, path p *)
| MCrash (k : nat).                         (* the compiler raises instead of reporting *)

Definition pos_check (T : sig_table) (p : position) (t : ty) : bool :=
  match lookup_pos (pos_req T) p with
  | Some ks => mem_kind (kind_of t) ks
  | None => true
  end.

(* internal type check of the actuals, left to right *)
Fixpoint check_actuals (T : sig_table) (G : tenv) (l : list texpr) (j : nat)
  : list ty + (nat * list nat) :=
  match l with
  | [] => inl []
  | a :: r =>
      match typecheck T G a with
      | TErr p => inr (j, p)
      | TOk t =>
          match check_actuals T G r (S j) with
          | inl ts => inl (t :: ts)
          | inr x => inr x
          end
      end
  end.

Inductive pres := PRok | PRerr (j : nat) | PRcrash.

Definition pass_type_ok (T : sig_table) (formal actual : ty) : bool :=
  match formal, actual with
  | TEnum x, TEnum y => if pass_enum_by_name T then N.eqb x y else true
  | _, _ => kind_eqb (kind_of formal) (kind_of actual)
  end.

(* the loop of _type_check_passed_parameters *)
Fixpoint pass_loop (T : sig_table) (fs ts : list ty) (j : nat) : pres :=
  match fs, ts with
  | f :: fs', t :: ts' =>
      if negb (mem_kind (kind_of f) (pass_checked_kinds T)) then pass_loop T fs' ts' (S j)
      else if negb (pass_kind T) || pass_type_ok T f t then pass_loop T fs' ts' (S j)
      else if mem_kind (kind_of f) (pass_assert_kinds T) || mem_kind (kind_of t) (pass_assert_kinds T)
           then PRcrash
           else PRerr j
  | _, _ => PRok
  end.

Fixpoint typecheck_items (T : sig_table) (G : tenv) (items : list item) (k : nat) : mres :=
  match items with
  | [] => MOk
  | ILet v e :: r =>
      match typecheck T G e with
      | TErr p => MErr k 0 p
      | TOk t => typecheck_items T (bind G v t) r (S k)
      end
  | IPos p e :: r =>
      match typecheck T G e with
      | TErr q => MErr k 0 q
      | TOk t => if pos_check T p t then typecheck_items T G r (S k) else MErr k 0 []
      end
  | IPass fs acts :: r =>
      match check_actuals T G acts 0 with
      | inr (j, p) => MErr k j p
      | inl ts =>
          if pass_arity T && negb (Nat.eqb (length fs) (length ts)) then MErr k (length acts) []
          else match pass_loop T fs ts 0 with
               | PRok => typecheck_items T G r (S k)
               | PRerr j => MErr k j []
               | PRcrash => MCrash k
               end
      end
  | IParamDecl t :: r =>
      if mem_kind (kind_of t) (param_decl_kinds T) then typecheck_items T G r (S k)
      else MErr k 0 []
  end.

Definition typecheck_module (T : sig_table) (G : tenv) (m : list item) : mres :=
  typecheck_items T G m 0.

(* documented: what each position demands *)
Definition pos_demands (p : position) (t : ty) : Prop :=
  match p with
  | PStart | PSize | PArrayLen => t = TInt
  | PEnumValue => t = TInt \/ exists e, t = TEnum e   (* a number, or (an expression of) another enum value *)
  | PCond | PRequires => t = TBool
  | PAny => True     (* e.g. the value of an attribute: typed by the attribute table, C14 *)
  end.

Fixpoint well_typed_items (G : tenv) (items : list item) : Prop :=
  match items with
  | [] => True
  | ILet v e :: r => exists t, has_type G e t /\ well_typed_items (bind G v t) r
  | IPos p e :: r => (exists t, has_type G e t /\ pos_demands p t) /\ well_typed_items G r
  | IPass fs acts :: r => Forall2 (has_type G) acts fs /\ well_typed_items G r
  | IParamDecl t :: r => (t = TInt \/ exists e, t = TEnum e) /\ well_typed_items G r
  end.

(* the item-level quirks of the implementation: exactly the situations in which
   impl_table and the documented rules can disagree about one item *)
Definition pass_pair_quirk (ft : ty * ty) : bool :=
  match ft with
  | (TOpaque, t) => negb (ty_eqb t TOpaque)         (* undeclarable formal: comparison skipped *)
  | _ => false
  end.

Definition item_quirk (G : tenv) (it : item) : bool :=
  match it with
  | ILet _ e => negb (guard G e)
  | IPos p e =>
      negb (guard G e)
  | IPass fs acts =>
      negb (forallb (guard G) acts)
      || match check_actuals impl_table G acts 0 with
         | inl ts => existsb pass_pair_quirk (combine fs ts)
         | inr _ => false
         end
  | IParamDecl _ => false
  end.

Fixpoint mguard (G : tenv) (items : list item) : bool :=
  match items with
  | [] => true
  | it :: r =>
      negb (item_quirk G it)
      && match it with
         | ILet v e => match typecheck impl_table G e with
                       | TOk t => mguard (bind G v t) r
                       | TErr _ => true
                       end
         | _ => mguard G r
         end
  end.

(* environment in force after the first k items *)
Fixpoint env_after (T : sig_table) (G : tenv) (items : list item) (k : nat) : option tenv :=
  match k, items with
  | O, _ => Some G
  | S k', ILet v e :: r =>
      match typecheck T G e with
      | TOk t => env_after T (bind G v t) r k'
      | TErr _ => None
      end
  | S k', _ :: r => env_after T G r k'
  | S _, [] => None
  end.

(* expressions of an item, for error sites *)
Definition item_exprs (it : item) : list texpr :=
  match it with
  | ILet _ e | IPos _ e => [e]
  | IPass _ acts => acts
  | IParamDecl _ => []
  end.

Fixpoint subterm_at (e : texpr) (p : list nat) : option texpr :=
  match p with
  | [] => Some e
  | i :: q => match e with
              | XFn _ args => match nth_error args i with
                              | Some a => subterm_at a q
                              | None => None
                              end
              | _ => None
              end
  end.

(* (j, p) denotes a node of item it: a sub-expression, or the item itself *)
Definition site_valid (it : item) (j : nat) (p : list nat) : Prop :=
  (exists e sub, nth_error (item_exprs it) j = Some e /\ subterm_at e p = Some sub)
  \/ (p = [] /\ j = length (item_exprs it)).

(* C13 as written, for the implementation's table: accepted exactly when derivable in the
   documented relation.  Properties_C13 refutes it and proves the guarded version. *)
Definition typecheck_sound_complete_statement : Prop :=
  forall G m, typecheck_module impl_table G m = MOk <-> well_typed_items G m.
