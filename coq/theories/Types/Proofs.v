(* C13 — proofs about expressions: the type checker driven by a table agrees with
   the derivations over the corresponding operator-level relation. *)
From Coq Require Import ZArith NArith List Bool Lia.
Import ListNotations.
Require Import EmbossV.Types.Model.

(* ---------- induction over expression trees ---------- *)
Section texpr_ind.
  Variable P : texpr -> Prop.
  Hypothesis Hc : forall z, P (XConst z).
  Hypothesis Hb : forall b, P (XBool b).
  Hypothesis He : forall e z, P (XEnum e z).
  Hypothesis Hf : forall i, P (XField i).
  Hypothesis Hs : forall i, P (XStatic i).
  Hypothesis Hp : forall i, P (XParam i).
  Hypothesis Hfn : forall f args, Forall P args -> P (XFn f args).

  Fixpoint texpr_ind' (e : texpr) : P e :=
    match e with
    | XConst z => Hc z
    | XBool b => Hb b
    | XEnum e z => He e z
    | XField i => Hf i
    | XStatic i => Hs i
    | XParam i => Hp i
    | XFn f args =>
        Hfn f args ((fix go (l : list texpr) : Forall P l :=
                       match l with
                       | [] => Forall_nil P
                       | a :: r => Forall_cons a (texpr_ind' a) (go r)
                       end) args)
    end.
End texpr_ind.

(* ---------- small facts ---------- *)
Lemma kind_eqb_eq a b : kind_eqb a b = true <-> a = b.
Proof. destruct a, b; simpl; split; intros H; try reflexivity; try discriminate. Qed.

Lemma ty_eqb_eq a b : ty_eqb a b = true <-> a = b.
Proof.
  destruct a, b; simpl; split; intros H; try reflexivity; try discriminate.
  - apply N.eqb_eq in H. congruence.
  - inversion H. apply N.eqb_refl.
Qed.

Lemma collect_spec (tc : texpr -> tres) args : forall i tys,
  collect (map tc args) i = inl tys <-> Forall2 (fun a t => tc a = TOk t) args tys.
Proof.
  induction args as [|a r IH]; intros i tys; simpl.
  - split; intros H; [inversion H; constructor | inversion H; reflexivity].
  - destruct (tc a) as [t|p] eqn:E.
    + destruct (collect (map tc r) (S i)) as [ts|q] eqn:C.
      * split; intros H.
        -- inversion H; subst. constructor; [exact E| apply (IH (S i)); exact C].
        -- inversion H; subst. rewrite E in H2. inversion H2; subst.
           apply (IH (S i)) in H4. rewrite C in H4. inversion H4. reflexivity.
      * split; intros H; [discriminate|].
        inversion H; subst. apply (IH (S i)) in H4. rewrite C in H4. discriminate.
    + split; intros H; [discriminate|]. inversion H; subst. rewrite E in H2. discriminate.
Qed.

Lemma Forall2_length' {A B} (R : A -> B -> Prop) l1 l2 : Forall2 R l1 l2 -> length l1 = length l2.
Proof. induction 1; simpl; congruence. Qed.

Lemma Forall2_Forall_iff {A B} (P Q : A -> B -> Prop) l :
  Forall (fun a => forall b, P a b <-> Q a b) l -> forall l', Forall2 P l l' <-> Forall2 Q l l'.
Proof.
  induction 1 as [|a r Ha Hr IH]; intros l'.
  - split; intros H; inversion H; constructor.
  - split; intros H; inversion H; subst; constructor;
      try (apply Ha; assumption); apply IH; assumption.
Qed.

(* ---------- generic agreement: typecheck T  <->  has_type_gen R ---------- *)
Section generic.
  Variable T : sig_table.
  Variable R : fn -> list shape -> list ty -> ty -> Prop.
  Hypothesis HR : forall f shs tys t, length shs = length tys ->
                                      (op_check T f shs tys = TOk t <-> R f shs tys t).

  Lemma typecheck_iff_gen G e : forall t, typecheck T G e = TOk t <-> has_type_gen R G e t.
  Proof.
    induction e as [z|b|en z|i|i|i|f args IH] using texpr_ind'; intros t; simpl.
    1-6: split; intros H; [inversion H; subst; constructor | inversion H; subst; reflexivity].
    pose proof (Forall2_Forall_iff (fun a t => typecheck T G a = TOk t) (has_type_gen R G) args IH) as HI.
    split; intros H.
    - destruct (collect (map (typecheck T G) args) 0) as [tys|p] eqn:C; [|discriminate].
      apply collect_spec in C. apply HI in C.
      econstructor; [exact C|].
      apply HR; [rewrite map_length; eapply Forall2_length'; eauto | exact H].
    - inversion H as [| | | | | |f' args' tys t' HF HS]; subst.
      pose proof HF as C. apply HI in C.
      apply (collect_spec (typecheck T G) args 0) in C. rewrite C.
      apply HR; [rewrite map_length; eapply Forall2_length'; eauto | assumption].
  Qed.
End generic.

(* ---------- operator level: documented table ---------- *)
Lemma first_bad_none_kind k shs tys : forall i,
  length shs = length tys ->
  (first_bad_arg (AKind k) shs tys i = None <-> Forall (fun t => kind_of t = k) tys).
Proof.
  revert tys. induction shs as [|s shs IH]; intros [|t tys] i HL; simpl in *; try discriminate.
  - split; intros; constructor.
  - destruct (kind_eqb (kind_of t) k) eqn:E.
    + rewrite IH by lia. apply kind_eqb_eq in E. split; intros H.
      * constructor; assumption.
      * inversion H; assumption.
    + split; intros H; [discriminate|]. inversion H; subst.
      rewrite (proj2 (kind_eqb_eq _ _) eq_refl) in E. discriminate.
Qed.

Lemma kind_int t : kind_of t = KInt <-> t = TInt.
Proof. destruct t; simpl; split; intros H; try reflexivity; try discriminate. Qed.
Lemma kind_bool t : kind_of t = KBool <-> t = TBool.
Proof. destruct t; simpl; split; intros H; try reflexivity; try discriminate. Qed.

Ltac inv H := inversion H; subst; clear H.

Lemma op_sig_length f shs tys t : op_sig f shs tys t -> length shs = length tys.
Proof. destruct 1; simpl; auto. Qed.

Lemma Forall_eq_int_kind tys : Forall (fun t => kind_of t = KInt) tys <-> Forall (eq TInt) tys.
Proof.
  split; intros H; induction H; constructor; auto.
  - apply kind_int in H. auto.
  - subst. reflexivity.
Qed.

Ltac fb_kill H :=
  try discriminate;
  try match type of H with
      | context [first_bad_arg ?a ?b ?c ?d] => destruct (first_bad_arg a b c d); discriminate
      end.

Lemma op_check_doc_sound f shs tys t :
  length shs = length tys -> op_check doc_table f shs tys = TOk t -> op_sig f shs tys t.
Proof.
  intros HL H. unfold op_check in H.
  destruct f; cbn [is_cmp is_eq is_ord orb fn_eqb] in H.
  (* arithmetic *)
  1-3: cbn in H;
    destruct shs as [|s1 [|s2 [|s3 shs]]], tys as [|t1 [|t2 [|t3 tys]]]; simpl in HL; try discriminate;
    cbn in H; try discriminate;
    repeat match type of H with
           | context [kind_eqb (kind_of ?x) ?k] => destruct x; cbn in H; try discriminate
           end; fb_kill H; inv H; apply S_arith; reflexivity.
  (* == != *)
  1-2: destruct tys as [|a [|b [|c tys]]]; try discriminate;
    destruct shs as [|s1 [|s2 [|s3 shs]]]; simpl in HL; try discriminate;
    destruct a, b; cbn in H; try discriminate;
    try (inv H; first [apply S_eq_int; reflexivity | apply S_eq_bool; reflexivity]);
    destruct (N.eqb e e0) eqn:E; cbn in H; try discriminate;
    apply N.eqb_eq in E; subst; inv H; apply S_eq_enum; reflexivity.
  (* < <= > >= *)
  1-4: destruct tys as [|a [|b [|c tys]]]; try discriminate;
    destruct shs as [|s1 [|s2 [|s3 shs]]]; simpl in HL; try discriminate;
    destruct a, b; cbn in H; try discriminate; inv H; apply S_ord; reflexivity.
  (* && || *)
  1-2: cbn in H;
    destruct shs as [|s1 [|s2 [|s3 shs]]], tys as [|t1 [|t2 [|t3 tys]]]; simpl in HL; try discriminate;
    cbn in H; try discriminate;
    repeat match type of H with
           | context [kind_eqb (kind_of ?x) ?k] => destruct x; cbn in H; try discriminate
           end; fb_kill H; inv H; apply S_andor; reflexivity.
  - (* ?: *)
    destruct tys as [|c [|a [|b [|d tys]]]]; try discriminate.
    destruct shs as [|s1 [|s2 [|s3 [|s4 shs]]]]; simpl in HL; try discriminate.
    destruct c; cbn in H; try discriminate.
    destruct a, b; cbn in H; try discriminate.
    + inv H. apply S_choice. left; reflexivity.
    + inv H. apply S_choice. right; left; reflexivity.
    + destruct (N.eqb e e0) eqn:E; cbn in H; try discriminate.
      apply N.eqb_eq in E; subst. inv H. apply S_choice. right; right; eexists; reflexivity.
  - (* $max *)
    cbn in H.
    destruct (first_bad_arg (AKind KInt) shs tys 0) eqn:FB; [discriminate|].
    apply first_bad_none_kind in FB; [|assumption].
    destruct tys as [|t1 tys]; [cbn in H; discriminate|]. cbn in H. inv H.
    apply S_max; [discriminate | assumption | apply Forall_eq_int_kind; assumption].
  - (* $present *)
    cbn in H.
    destruct shs as [|s1 [|s2 shs]], tys as [|t1 [|t2 tys]]; simpl in HL; try discriminate;
      cbn in H; try discriminate.
    + destruct s1; cbn in H; try discriminate; inv H; apply S_present; discriminate.
    + destruct s1; cbn in H; try discriminate;
        destruct s2; cbn in H; try discriminate; fb_kill H.
  (* $upper_bound $lower_bound *)
  - cbn in H;
    destruct shs as [|s1 [|s2 shs]], tys as [|t1 [|t2 tys]]; simpl in HL; try discriminate;
    cbn in H; try discriminate;
    [ destruct t1; cbn in H; try discriminate; inv H; apply S_bound; reflexivity
    | destruct t1; cbn in H; try discriminate;
      destruct t2; cbn in H; try discriminate; fb_kill H ].
  - cbn in H;
    destruct shs as [|s1 [|s2 shs]], tys as [|t1 [|t2 tys]]; simpl in HL; try discriminate;
    cbn in H; try discriminate;
    [ destruct t1; cbn in H; try discriminate; inv H; apply S_bound; reflexivity
    | destruct t1; cbn in H; try discriminate;
      destruct t2; cbn in H; try discriminate; fb_kill H ].
Qed.

Lemma op_check_doc_complete f shs tys t :
  op_sig f shs tys t -> op_check doc_table f shs tys = TOk t.
Proof.
  intros H. destruct H.
  - destruct f; try discriminate; reflexivity.
  - destruct f; try discriminate; reflexivity.
  - destruct f; try discriminate; reflexivity.
  - destruct f; try discriminate; reflexivity.
  - destruct f; try discriminate; cbn; rewrite N.eqb_refl; reflexivity.
  - destruct f; try discriminate; reflexivity.
  - destruct H as [->|[->|[e ->]]]; cbn; try reflexivity. rewrite N.eqb_refl. reflexivity.
  - unfold op_check. cbn [is_cmp is_eq is_ord orb fn_eqb]. cbn [lookup_mono mono doc_table fn_eqb m_arg m_min m_max m_res m_checked limit].
    assert (FB : first_bad_arg (AKind KInt) shs tys 0 = None).
    { apply first_bad_none_kind; [assumption| apply Forall_eq_int_kind; assumption]. }
    rewrite FB. destruct tys; [congruence|]. reflexivity.
  - destruct s; try congruence; reflexivity.
  - destruct f; try discriminate; reflexivity.
Qed.

Lemma op_check_doc_iff f shs tys t :
  length shs = length tys -> (op_check doc_table f shs tys = TOk t <-> op_sig f shs tys t).
Proof. intros HL; split; [apply op_check_doc_sound; assumption | apply op_check_doc_complete]. Qed.

(* ---------- operator level: implementation table ---------- *)
Lemma op_check_impl_sound f shs tys t :
  length shs = length tys -> op_check impl_table f shs tys = TOk t -> op_impl f shs tys t.
Proof.
  intros HL H.
  destruct f.
  1-5, 10-16: left; apply op_check_doc_sound; [assumption | exact H].
  (* < <= > >= *)
  1-4: unfold op_check in H; cbn [is_cmp is_eq is_ord orb fn_eqb] in H;
    destruct tys as [|a [|b [|c tys]]]; try discriminate;
    destruct shs as [|s1 [|s2 [|s3 shs]]]; simpl in HL; try discriminate;
    destruct a, b; cbn in H; try discriminate;
    [ inv H; left; apply S_ord; reflexivity
    | destruct (N.eqb e e0) eqn:E; cbn in H; try discriminate;
      apply N.eqb_eq in E; subst; inv H; right; apply Q_ord_enum; reflexivity ].
Qed.

Lemma op_check_impl_of_sig f shs tys t :
  op_sig f shs tys t -> op_check impl_table f shs tys = TOk t.
Proof.
  intros H. destruct H.
  - destruct f; try discriminate; reflexivity.
  - destruct f; try discriminate; reflexivity.
  - destruct f; try discriminate; reflexivity.
  - destruct f; try discriminate; reflexivity.
  - destruct f; try discriminate; cbn; rewrite N.eqb_refl; reflexivity.
  - destruct f; try discriminate; reflexivity.
  - destruct H as [->|[->|[e ->]]]; cbn; try reflexivity. rewrite N.eqb_refl. reflexivity.
  - unfold op_check. cbn [is_cmp is_eq is_ord orb fn_eqb].
    cbn [lookup_mono mono impl_table fn_eqb m_arg m_min m_max m_res m_checked limit].
    assert (FB : first_bad_arg (AKind KInt) shs tys 0 = None).
    { apply first_bad_none_kind; [assumption| apply Forall_eq_int_kind; assumption]. }
    rewrite FB. destruct tys; [congruence|]. reflexivity.
  - destruct s; try congruence; reflexivity.
  - destruct f; try discriminate; reflexivity.
Qed.

Lemma op_check_impl_of_quirk f shs tys t :
  op_quirk f shs tys t -> op_check impl_table f shs tys = TOk t.
Proof.
  intros H. destruct H.
  destruct f; try discriminate; cbn; rewrite N.eqb_refl; reflexivity.
Qed.

Lemma op_check_impl_iff f shs tys t :
  length shs = length tys -> (op_check impl_table f shs tys = TOk t <-> op_impl f shs tys t).
Proof.
  intros HL; split; [apply op_check_impl_sound; assumption|].
  intros [H|H]; [apply op_check_impl_of_sig | apply op_check_impl_of_quirk]; assumption.
Qed.

(* ---------- expression level ---------- *)
Lemma typecheck_doc_iff_lem G e t : typecheck doc_table G e = TOk t <-> has_type G e t.
Proof. apply (typecheck_iff_gen doc_table op_sig op_check_doc_iff). Qed.

Lemma typecheck_impl_iff_lem G e t : typecheck impl_table G e = TOk t <-> has_type_gen op_impl G e t.
Proof. apply (typecheck_iff_gen impl_table op_impl op_check_impl_iff). Qed.

Lemma has_type_unique G e : forall t1 t2, has_type G e t1 -> has_type G e t2 -> t1 = t2.
Proof.
  intros t1 t2 H1 H2. apply typecheck_doc_iff_lem in H1, H2. congruence.
Qed.

(* completeness holds without any guard: documented well-typed => accepted *)
Lemma typecheck_complete_lem G e : forall t, has_type G e t -> typecheck impl_table G e = TOk t.
Proof.
  induction e as [z|b|en z|i|i|i|f args IH] using texpr_ind'; intros t H;
    try (inversion H; subst; reflexivity).
  inversion H as [| | | | | |f' args' tys t' HF HS]; subst. simpl.
  assert (C : Forall2 (fun a t => typecheck impl_table G a = TOk t) args tys).
  { clear H HS. induction HF; [constructor|]. inversion IH; subst. constructor; auto. }
  apply (collect_spec (typecheck impl_table G) args 0) in C. rewrite C.
  apply op_check_impl_of_sig. assumption.
Qed.

Lemma typecheck_sound_guarded_lem G e : forall t,
  guard G e = true -> typecheck impl_table G e = TOk t -> has_type G e t.
Proof.
  induction e as [z|b|en z|i|i|i|f args IH] using texpr_ind'; intros t HG H;
    try (simpl in H; inversion H; subst; constructor).
  simpl in H, HG. apply andb_true_iff in HG. destruct HG as [HGa HGq].
  destruct (collect (map (typecheck impl_table G) args) 0) as [tys|p] eqn:C; [|discriminate].
  apply collect_spec in C.
  assert (HF : Forall2 (has_type G) args tys).
  { clear H HGq. induction C; [constructor|]. inversion IH; subst.
    simpl in HGa. apply andb_true_iff in HGa. destruct HGa. constructor; auto. }
  apply op_check_impl_sound in H; [|rewrite map_length; eapply Forall2_length'; eauto].
  destruct H as [H|H]; [econstructor; eassumption|exfalso].
  apply negb_true_iff in HGq. unfold quirk_node in HGq. rename HGq into Q1.
  inversion H; subst.
  destruct args as [|a1 [|a2 [|a3 args]]]; try discriminate.
  inversion C as [|? ? ? ? C1 C']; subst. inversion C' as [|? ? ? ? C2 C'']; subst.
  simpl in Q1. rewrite C1, C2 in Q1.
  match goal with K : is_ord f = true |- _ => rewrite K in Q1 end. discriminate.
Qed.

Lemma guard_doc_agree G e t :
  guard G e = true -> (typecheck impl_table G e = TOk t <-> has_type G e t).
Proof.
  intros HG; split; [apply typecheck_sound_guarded_lem; assumption | apply typecheck_complete_lem].
Qed.

(* witnesses: the unguarded equivalence is false of the faithful table *)
Definition G0 : tenv := mk_tenv (fun _ => TInt) (fun _ => TInt).
Definition wit_enum_ordering : texpr := XFn FLt [XEnum 0 1; XEnum 0 1].

Lemma not_has_type_by_doc G e t : typecheck doc_table G e <> TOk t -> ~ has_type G e t.
Proof. intros H1 H2. apply H1. apply typecheck_doc_iff_lem. assumption. Qed.

Lemma expr_refuted_lem :
  exists G e t, typecheck impl_table G e = TOk t /\ ~ has_type G e t.
Proof.
  exists G0, wit_enum_ordering, TBool. split; [reflexivity|].
  apply not_has_type_by_doc. vm_compute. discriminate.
Qed.


(* ---------- error sites ---------- *)
Lemma first_bad_lt r shs tys : forall i j, first_bad_arg r shs tys i = Some j -> i <= j < i + length shs.
Proof.
  revert tys. induction shs as [|s shs IH]; intros [|t tys] i j H; simpl in *; try discriminate.
  destruct (arg_ok r s t).
  - apply IH in H. lia.
  - inversion H; subst. lia.
Qed.

Lemma op_check_err_site T f shs tys p :
  length shs = length tys -> op_check T f shs tys = TErr p ->
  p = [] \/ exists i, p = [i] /\ i < length shs.
Proof.
  intros HL H. unfold op_check in H.
  destruct (is_cmp f).
  - destruct tys as [|a [|b [|c tys]]]; try (inversion H; left; reflexivity).
    destruct shs as [|s1 [|s2 [|s3 shs]]]; simpl in HL; try discriminate.
    repeat match type of H with
           | (if ?c then _ else _) = _ => destruct c
           end; inversion H; subst; auto; right; eexists; split; try reflexivity; simpl; lia.
  - destruct (fn_eqb f FChoice).
    + destruct tys as [|c [|a [|b [|d tys]]]]; try (inversion H; left; reflexivity).
      destruct shs as [|s1 [|s2 [|s3 [|s4 shs]]]]; simpl in HL; try discriminate.
      repeat match type of H with
             | (if ?c then _ else _) = _ => destruct c
             end; inversion H; subst; auto; right; eexists; split; try reflexivity; simpl; lia.
    + destruct (lookup_mono (mono T) f) as [s|]; [|inversion H; auto].
      destruct (first_bad_arg (m_arg s) (limit (m_checked s) shs) (limit (m_checked s) tys) 0) as [j|] eqn:FB.
      * inversion H; subst. apply first_bad_lt in FB. right. exists j. split; [reflexivity|].
        assert (length (limit (m_checked s) shs) <= length shs)
          by (unfold limit; destruct (m_checked s); [rewrite firstn_length; lia|lia]).
        lia.
      * destruct (Nat.ltb (length tys) (m_min s)); [inversion H; auto|].
        destruct (m_max s) as [mx|]; [|discriminate].
        destruct (Nat.ltb mx (length tys)); [inversion H; auto|discriminate].
Qed.

Lemma collect_err (tc : texpr -> tres) args : forall i p,
  collect (map tc args) i = inr p ->
  exists j q a, p = (i + j) :: q /\ nth_error args j = Some a /\ tc a = TErr q.
Proof.
  induction args as [|a r IH]; intros i p H; simpl in H; [discriminate|].
  destruct (tc a) as [t|q] eqn:E.
  - destruct (collect (map tc r) (S i)) as [ts|p'] eqn:C; [discriminate|].
    inversion H; subst. apply IH in C. destruct C as (j & q & a' & -> & Hn & Ha).
    exists (S j), q, a'. repeat split; auto. f_equal. lia.
  - inversion H; subst. exists 0, q, a. repeat split; auto. f_equal. lia.
Qed.

Lemma typecheck_err_site_lem T G e : forall p,
  typecheck T G e = TErr p -> exists sub, subterm_at e p = Some sub.
Proof.
  induction e as [z|b|en z|i|i|i|f args IH] using texpr_ind'; intros p H; try discriminate.
  simpl in H.
  destruct (collect (map (typecheck T G) args) 0) as [tys|q] eqn:C.
  - apply collect_spec in C. apply Forall2_length' in C.
    apply op_check_err_site in H; [|rewrite map_length; assumption].
    destruct H as [->|(i & -> & Hi)]; [eexists; reflexivity|].
    rewrite map_length in Hi. simpl.
    destruct (nth_error args i) as [a|] eqn:N; [eexists; reflexivity|].
    apply nth_error_None in N. lia.
  - inversion H; subst. apply collect_err in C. destruct C as (j & q' & a & -> & Hn & Ha).
    simpl. rewrite Hn. rewrite Forall_forall in IH. apply (IH a); [eapply nth_error_In; eauto | assumption].
Qed.

(* ---------- evaluation ---------- *)
Lemma all_ints_spec vs tys :
  Forall2 (fun v t => vty v = t) vs tys -> Forall (eq TInt) tys ->
  exists zs, all_ints vs = Some zs /\ length zs = length vs.
Proof.
  induction 1 as [|v t vs tys Hv HF IH]; intros HT; [exists []; auto|].
  inversion HT; subst. destruct (IH H2) as (zs & E & L).
  destruct v; try discriminate. simpl. rewrite E. exists (z :: zs). simpl. auto.
Qed.

Lemma vals1 vs t1 : Forall2 (fun v t => vty v = t) vs [t1] -> exists v1, vs = [v1] /\ vty v1 = t1.
Proof. intros H. inv H. inv H4. eexists; split; reflexivity. Qed.
Lemma vals2 vs t1 t2 : Forall2 (fun v t => vty v = t) vs [t1; t2] ->
  exists v1 v2, vs = [v1; v2] /\ vty v1 = t1 /\ vty v2 = t2.
Proof. intros H. inv H. apply vals1 in H4. destruct H4 as (v2 & -> & E). eexists _, _; repeat split; assumption. Qed.
Lemma vals3 vs t1 t2 t3 : Forall2 (fun v t => vty v = t) vs [t1; t2; t3] ->
  exists v1 v2 v3, vs = [v1; v2; v3] /\ vty v1 = t1 /\ vty v2 = t2 /\ vty v3 = t3.
Proof. intros H. inv H. apply vals2 in H4. destruct H4 as (v2 & v3 & -> & E2 & E3). eexists _, _, _; repeat split; assumption. Qed.

Lemma op_eval_ok r f args vs tys t :
  op_sig f (map shape_of args) tys t -> Forall2 (fun v t => vty v = t) vs tys -> f <> FPresent ->
  exists v, op_eval r f args vs = Some v /\ vty v = t.
Proof.
  intros HS HV HP.
  inversion HS; subst; try congruence.
  - apply vals2 in HV. destruct HV as (x & x0 & -> & E1 & E2). destruct x, x0; try discriminate.
    destruct f; try discriminate; eexists; split; reflexivity.
  - apply vals2 in HV. destruct HV as (x & x0 & -> & E1 & E2). destruct x, x0; try discriminate.
    destruct f; try discriminate; eexists; split; reflexivity.
  - apply vals2 in HV. destruct HV as (x & x0 & -> & E1 & E2). destruct x, x0; try discriminate.
    destruct f; try discriminate; eexists; split; reflexivity.
  - apply vals2 in HV. destruct HV as (x & x0 & -> & E1 & E2). destruct x, x0; try discriminate.
    destruct f; try discriminate; eexists; split; reflexivity.
  - apply vals2 in HV. destruct HV as (x & x0 & -> & E1 & E2). destruct x, x0; try discriminate.
    simpl in E1, E2. inv E1. inv E2.
    destruct f; try discriminate; simpl; rewrite N.eqb_refl; eexists; split; reflexivity.
  - apply vals2 in HV. destruct HV as (x & x0 & -> & E1 & E2). destruct x, x0; try discriminate.
    destruct f; try discriminate; eexists; split; reflexivity.
  - apply vals3 in HV. destruct HV as (x & x0 & x1 & -> & E1 & E2 & E3). destruct x; try discriminate.
    simpl. destruct b; eexists; split; try reflexivity; congruence.
  - destruct (all_ints_spec vs tys HV H1) as (zs & E & L).
    simpl. rewrite E. destruct zs as [|z zs].
    + destruct vs; [|discriminate]. inv HV. congruence.
    + eexists; split; reflexivity.
  - apply vals1 in HV. destruct HV as (x & -> & E1). destruct x; try discriminate.
    destruct args as [|a [|a2 args]]; try discriminate.
    destruct f; try discriminate; eexists; split; reflexivity.
Qed.

Lemma well_typed_eval_lem G r e : forall t,
  env_ok G r -> has_type G e t -> exists v, teval r e = Some v /\ vty v = t.
Proof.
  induction e as [z|b|en z|i|i|i|f args IH] using texpr_ind'; intros t [Hf Hp] H;
    try (inversion H; subst; eexists; split; [reflexivity|]; simpl; auto).
  inversion H as [| | | | | |f' args' tys t' HF HS]; subst.
  assert (HV : exists vs, sequence (map (teval r) args) = Some vs /\ Forall2 (fun v t => vty v = t) vs tys).
  { clear H HS. induction HF as [|a t0 args tys Ha HF IHF]; [exists []; split; [reflexivity|constructor]|].
    inversion IH; subst. destruct (H1 t0 (conj Hf Hp) Ha) as (v & Ev & Tv).
    destruct (IHF H2) as (vs & Es & Ts). exists (v :: vs). simpl. rewrite Ev, Es.
    split; [reflexivity|constructor; assumption]. }
  destruct HV as (vs & Es & Ts).
  destruct (fn_eqb f FPresent) eqn:EP.
  - destruct f; try discriminate. inversion HS; subst; try discriminate.
    destruct args as [|a [|a2 args]]; try discriminate.
    match goal with K : [?s0] = map shape_of [a] |- _ => simpl in K; inversion K; subst s0 end.
    destruct a; simpl in *; try congruence; eexists; split; reflexivity.
  - assert (f <> FPresent) by (intros ->; discriminate).
    destruct (op_eval_ok r f args vs tys t HS Ts H0) as (v & Ev & Tv).
    exists v. split; [|assumption].
    simpl. rewrite Es. destruct f; try congruence.
Qed.
