(* Executable glue for the C13 harness. *)
From Coq Require Import ZArith NArith List Bool.
Import ListNotations.
Require Import EmbossV.Types.Model.

Fixpoint list_eqb {A} (f : A -> A -> bool) (a b : list A) : bool :=
  match a, b with
  | [], [] => true
  | x :: a', y :: b' => f x y && list_eqb f a' b'
  | _, _ => false
  end.

Definition tres_eqb (a b : tres) : bool :=
  match a, b with
  | TOk x, TOk y => ty_eqb x y
  | TErr p, TErr q => list_eqb Nat.eqb p q
  | _, _ => false
  end.

(* operator-level probe: function, shapes and types of the arguments *)
Definition run_probe (T : sig_table) (c : fn * list (shape * ty)) : tres :=
  op_check T (fst c) (map fst (snd c)) (map snd (snd c)).

(* tables *)
Definition argreq_eqb (a b : argreq) : bool :=
  match a, b with
  | AKind x, AKind y => kind_eqb x y
  | ARef x, ARef y => Bool.eqb x y
  | _, _ => false
  end.
Definition optnat_eqb (a b : option nat) : bool :=
  match a, b with
  | None, None => true
  | Some x, Some y => Nat.eqb x y
  | _, _ => false
  end.
Definition msig_eqb (a b : msig) : bool :=
  ty_eqb (m_res a) (m_res b) && argreq_eqb (m_arg a) (m_arg b) && optnat_eqb (m_checked a) (m_checked b)
  && Nat.eqb (m_min a) (m_min b) && optnat_eqb (m_max a) (m_max b).

(* set-like comparison of association lists / kind lists *)
Definition sub_kinds (a b : list kind) : bool := forallb (fun k => mem_kind k b) a.
Definition kinds_eqb (a b : list kind) : bool := sub_kinds a b && sub_kinds b a.

Definition all_fns : list fn :=
  [FAdd; FSub; FMul; FEq; FNe; FLt; FLe; FGt; FGe; FAnd; FOr; FChoice; FMax; FPresent; FUpper; FLower].
Definition all_positions : list position := [PStart; PSize; PArrayLen; PCond; PRequires; PEnumValue; PAny].

Definition optb {A} (f : A -> A -> bool) (a b : option A) : bool :=
  match a, b with
  | None, None => true
  | Some x, Some y => f x y
  | _, _ => false
  end.

Definition sig_table_eqb (a b : sig_table) : bool :=
  forallb (fun f => optb msig_eqb (lookup_mono (mono a) f) (lookup_mono (mono b) f)) all_fns
  && kinds_eqb (eq_kinds a) (eq_kinds b) && kinds_eqb (ord_kinds a) (ord_kinds b)
  && Bool.eqb (cmp_compat a) (cmp_compat b)
  && Bool.eqb (choice_cond a) (choice_cond b) && kinds_eqb (choice_kinds a) (choice_kinds b)
  && Bool.eqb (choice_compat a) (choice_compat b)
  && Bool.eqb (compat_enum_by_name a) (compat_enum_by_name b)
  && forallb (fun p => optb kinds_eqb (lookup_pos (pos_req a) p) (lookup_pos (pos_req b) p)) all_positions
  && kinds_eqb (param_decl_kinds a) (param_decl_kinds b)
  && Bool.eqb (pass_arity a) (pass_arity b) && Bool.eqb (pass_kind a) (pass_kind b)
  && Bool.eqb (pass_enum_by_name a) (pass_enum_by_name b)
  && kinds_eqb (pass_checked_kinds a) (pass_checked_kinds b)
  && kinds_eqb (pass_assert_kinds a) (pass_assert_kinds b).

(* module case: leaf types as association lists, items; expected = verdict class and the
   set of item indices on which the implementation reported an error *)
Definition env_of (ft pt : list ty) : tenv :=
  mk_tenv (fun i => nth i ft TOpaque) (fun i => nth i pt TOpaque).

Inductive verdict :=
| VAccept | VReject (items : list nat) | VCrash
| VNotAccepted.   (* the implementation raised somewhere the model does not mirror *)

Definition run_module (T : sig_table) (c : list ty * list ty * list item) : mres :=
  typecheck_module T (env_of (fst (fst c)) (snd (fst c))) (snd c).

Definition verdict_agrees (m : mres) (v : verdict) : bool :=
  match m, v with
  | MOk, VAccept => true
  | MErr k _ _, VReject ks => existsb (Nat.eqb k) ks
  | MCrash _, VCrash => true
  | (MErr _ _ _ | MCrash _), VNotAccepted => true
  | _, _ => false
  end.

(* also report whether the documented table accepts and whether the module is guarded *)
Definition run_module_full (T : sig_table) (c : list ty * list ty * list item) : mres * bool * bool :=
  let G := env_of (fst (fst c)) (snd (fst c)) in
  (typecheck_module T G (snd c),
   match typecheck_module doc_table G (snd c) with MOk => true | _ => false end,
   mguard G (snd c)).

Definition full_agrees (m : mres * bool * bool) (v : verdict * bool * bool) : bool :=
  verdict_agrees (fst (fst m)) (fst (fst v)) && Bool.eqb (snd (fst m)) (snd (fst v))
  && Bool.eqb (snd m) (snd v).

(* the harness compares a model outcome with an expectation of a different shape *)
Inductive cout :=
| CModel (m : mres) (doc_ok guarded : bool)
| CExpect (v : verdict) (doc_ok guarded : bool)
| CExpectV (v : verdict).

Definition run_case (T : sig_table) (c : list ty * list ty * list item) : cout :=
  let r := run_module_full T c in CModel (fst (fst r)) (snd (fst r)) (snd r).

Definition cout_agrees (a b : cout) : bool :=
  match a, b with
  | CModel m d g, CExpect v d' g' => verdict_agrees m v && Bool.eqb d d' && Bool.eqb g g'
  | CModel m _ _, CExpectV v => verdict_agrees m v
  | _, _ => false
  end.

(* ---- non-vacuity example ---- *)
Definition ex_G : tenv := env_of [TInt; TBool; TEnum 0; TOpaque; TInt] [TInt; TEnum 0].
Definition ex_expr : texpr :=
  XFn FChoice [XFn FAnd [XField 1; XFn FEq [XField 2; XEnum 0 1]];
               XFn FAdd [XField 0; XConst 2];
               XFn FMax [XParam 0; XConst 7]].
Definition ex_module : list item :=
  [ IParamDecl TInt; IParamDecl (TEnum 0);
    ILet 4 ex_expr;
    IPos PStart (XField 4); IPos PSize (XConst 1); IPos PArrayLen (XFn FUpper [XField 0]);
    IPos PCond (XFn FPresent [XField 3]); IPos PRequires (XFn FLt [XField 4; XConst 9]);
    IPos PEnumValue (XConst 3);
    IPass [TInt; TEnum 0] [XField 4; XField 2] ].
Definition ex_env : venv :=
  mk_venv (fun i => nth i [VInt 5; VBool true; VEnum 0 1; VOpaque; VInt 7] VOpaque)
          (fun i => nth i [VInt 3; VEnum 0 0] VOpaque)
          (fun _ => true) (fun _ => 255%Z) (fun _ => 0%Z).
