(* C13 — top-level lemmas in the exact form of the property theorems. *)
From Coq Require Import ZArith NArith List Bool Lia.
Import ListNotations.
Require Import EmbossV.Types.Model EmbossV.Types.Proofs EmbossV.Types.ProofsModule EmbossV.Types.Exec.

Lemma typecheck_sound_complete_refuted_lem :
  ~ (forall G m, typecheck_module impl_table G m = MOk <-> well_typed_items G m).
Proof.
  intros H. destruct module_refuted_expr_lem as [A B]. apply B. apply H. exact A.
Qed.

Lemma module_doc_iff_lem G m : typecheck_module doc_table G m = MOk <-> well_typed_items G m.
Proof. apply typecheck_items_doc_iff_lem. Qed.

Lemma module_complete_lem G m : well_typed_items G m -> typecheck_module impl_table G m = MOk.
Proof. apply typecheck_items_complete_lem. Qed.

Lemma module_partial_lem G m :
  mguard G m = true -> (typecheck_module impl_table G m = MOk <-> well_typed_items G m).
Proof.
  intros HG; split; [apply typecheck_items_sound_guarded_lem; assumption | apply module_complete_lem].
Qed.

Lemma accepted_eval_lem G r e t :
  guard G e = true -> typecheck impl_table G e = TOk t -> env_ok G r ->
  exists v, teval r e = Some v /\ vty v = t.
Proof.
  intros HG HT HE. apply well_typed_eval_lem with (G := G); [assumption|].
  apply typecheck_sound_guarded_lem; assumption.
Qed.

Lemma error_site_module_lem G m k j p :
  typecheck_module impl_table G m = MErr k j p ->
  exists it G', nth_error m k = Some it /\ env_after impl_table G m k = Some G' /\
                site_valid it j p /\ ~ well_typed_items G' [it].
Proof.
  intros H. apply error_site_lem in H. destruct H as (n & it & G' & -> & H1 & H2 & H3 & H4).
  exists it, G'. simpl. auto.
Qed.

Lemma doc_no_crash_lem G m k : typecheck_module doc_table G m <> MCrash k.
Proof. apply typecheck_items_doc_no_crash_lem. Qed.

Lemma impl_no_crash_lem G m k : typecheck_module impl_table G m <> MCrash k.
Proof. apply typecheck_items_impl_no_crash_lem. Qed.

Lemma ex_env_ok : env_ok ex_G ex_env.
Proof.
  split; intros i.
  - do 5 (destruct i as [|i]; [reflexivity|]). destruct i; reflexivity.
  - do 2 (destruct i as [|i]; [reflexivity|]). destruct i; reflexivity.
Qed.

Lemma example_nonvacuous_lem :
  mguard ex_G ex_module = true /\ typecheck_module impl_table ex_G ex_module = MOk /\
  well_typed_items ex_G ex_module /\ env_ok ex_G ex_env /\
  teval ex_env ex_expr = Some (VInt 7) /\ has_type ex_G ex_expr TInt.
Proof.
  assert (A : typecheck_module impl_table ex_G ex_module = MOk) by (vm_compute; reflexivity).
  assert (B : mguard ex_G ex_module = true) by (vm_compute; reflexivity).
  split; [exact B|]. split; [exact A|].
  split; [apply module_partial_lem; assumption|].
  split; [apply ex_env_ok|].
  split; [vm_compute; reflexivity|].
  apply typecheck_doc_iff_lem. vm_compute. reflexivity.
Qed.

(* $present(parameter) is well typed (faee5e1): a parameter is always present *)
Lemma present_param_lem G r i :
  has_type G (XFn FPresent [XParam i]) TBool /\ typecheck impl_table G (XFn FPresent [XParam i]) = TOk TBool /\
  teval r (XFn FPresent [XParam i]) = Some (VBool true).
Proof. split; [apply typecheck_doc_iff_lem; reflexivity|]. split; reflexivity. Qed.
