(* C13 — property theorems.  Statements only; every proof is `exact <lemma>`. *)
From Coq Require Import ZArith NArith List Bool.
Import ListNotations.
Require Import EmbossV.Types.Model EmbossV.Types.Proofs EmbossV.Types.ProofsModule EmbossV.Types.Exec EmbossV.Types.ProofsTop.

(* ---- the full statement (C13 as written): the implementation's checker accepts exactly
        the modules derivable in the documented relation ---- *)
(* [typecheck_sound_complete_statement] (Types.Model) :=
     forall G m, typecheck_module impl_table G m = MOk <-> well_typed_items G m. *)
(* It is FALSE of the faithful model; the one remaining witness is F13 (the other former
   witnesses were repaired in /repo and are now positive theorems below). *)
Theorem typecheck_sound_complete_refuted : ~ typecheck_sound_complete_statement.
Proof. exact typecheck_sound_complete_refuted_lem. Qed.

(* F13: `Aa.AX < Aa.AX` is accepted, not derivable *)
Theorem refuted_enum_ordering :
  typecheck_module impl_table G0 [ILet 0 (XFn FLt [XEnum 0 1; XEnum 0 1])] = MOk /\
  ~ well_typed_items G0 [ILet 0 (XFn FLt [XEnum 0 1; XEnum 0 1])].
Proof. exact module_refuted_expr_lem. Qed.

(* repaired in /repo (f16208c, a932bcc, b329c65): a value of another enum for an enum formal,
   a boolean enum value and a boolean actual for an integer formal are now REJECTED with a
   message (no acceptance, no assertion) *)
Theorem enum_parameter_of_other_enum_rejected :
  typecheck_module impl_table G0 [IPass [TEnum 0] [XEnum 1 0]] = MErr 0 0 [] /\
  ~ well_typed_items G0 [IPass [TEnum 0] [XEnum 1 0]].
Proof. exact enum_param_rejected_lem. Qed.

Theorem boolean_enum_value_rejected :
  typecheck_module impl_table G0 [IPos PEnumValue (XBool true)] = MErr 0 0 [] /\
  ~ well_typed_items G0 [IPos PEnumValue (XBool true)].
Proof. exact enum_value_rejected_lem. Qed.

Theorem boolean_actual_rejected :
  typecheck_module impl_table G0 [IPass [TInt] [XBool true]] = MErr 0 0 [].
Proof. exact bool_param_rejected_lem. Qed.

Theorem present_of_parameter_well_typed : forall G r i,
  has_type G (XFn FPresent [XParam i]) TBool /\ typecheck impl_table G (XFn FPresent [XParam i]) = TOk TBool /\
  teval r (XFn FPresent [XParam i]) = Some (VBool true).
Proof. exact present_param_lem. Qed.

(* ---- what does hold, for ALL expression trees and ALL modules ---- *)

(* the documented table decides the documented relation exactly *)
Theorem typecheck_doc_sound_complete : forall G e t,
  typecheck doc_table G e = TOk t <-> has_type G e t.
Proof. exact typecheck_doc_iff_lem. Qed.

Theorem module_doc_sound_complete : forall G m,
  typecheck_module doc_table G m = MOk <-> well_typed_items G m.
Proof. exact module_doc_iff_lem. Qed.

(* completeness of the implementation needs no guard: documented => accepted *)
Theorem typecheck_complete : forall G e t, has_type G e t -> typecheck impl_table G e = TOk t.
Proof. exact typecheck_complete_lem. Qed.

Theorem module_complete : forall G m, well_typed_items G m -> typecheck_module impl_table G m = MOk.
Proof. exact module_complete_lem. Qed.

(* soundness + completeness outside the excluded class.  The guard is the boolean
   [guard]/[mguard]: no ordering comparison of two enum values (F13); at module level also no
   actual passed for a formal whose declared type has no value (such a declaration is itself
   rejected). *)
Theorem typecheck_sound_complete_partial : forall G e t,
  guard G e = true -> (typecheck impl_table G e = TOk t <-> has_type G e t).
Proof. exact guard_doc_agree. Qed.

Theorem module_sound_complete_partial : forall G m,
  mguard G m = true -> (typecheck_module impl_table G m = MOk <-> well_typed_items G m).
Proof. exact module_partial_lem. Qed.

(* well-typed expressions evaluate, to a value of their type, in every well-typed environment *)
Theorem well_typed_eval : forall G r e t,
  env_ok G r -> has_type G e t -> exists v, teval r e = Some v /\ vty v = t.
Proof. exact well_typed_eval_lem. Qed.

Theorem accepted_eval_partial : forall G r e t,
  guard G e = true -> typecheck impl_table G e = TOk t -> env_ok G r ->
  exists v, teval r e = Some v /\ vty v = t.
Proof. exact accepted_eval_lem. Qed.

(* a reported error lies in the first item that is not well typed, at a node of that item *)
Theorem error_site_in_definition : forall G m k j p,
  typecheck_module impl_table G m = MErr k j p ->
  exists it G', nth_error m k = Some it /\ env_after impl_table G m k = Some G' /\
                site_valid it j p /\ ~ well_typed_items G' [it].
Proof. exact error_site_module_lem. Qed.

Theorem expression_error_site : forall T G e p,
  typecheck T G e = TErr p -> exists sub, subterm_at e p = Some sub.
Proof. exact typecheck_err_site_lem. Qed.

(* "never crashes": the assertion in _type_name_for_error_messages is gone (b329c65): neither
   table can reach a crash result, for any module *)
Theorem impl_table_never_crashes : forall G m k, typecheck_module impl_table G m <> MCrash k.
Proof. exact impl_no_crash_lem. Qed.

Theorem doc_table_never_crashes : forall G m k, typecheck_module doc_table G m <> MCrash k.
Proof. exact doc_no_crash_lem. Qed.

(* non-vacuity: a module with every kind of item that is guarded, accepted and well typed,
   and an environment in which its expressions evaluate *)
Example example_nonvacuous :
  mguard ex_G ex_module = true /\ typecheck_module impl_table ex_G ex_module = MOk /\
  well_typed_items ex_G ex_module /\ env_ok ex_G ex_env /\
  teval ex_env ex_expr = Some (VInt 7) /\ has_type ex_G ex_expr TInt.
Proof. exact example_nonvacuous_lem. Qed.
