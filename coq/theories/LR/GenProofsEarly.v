(* LR/GenProofsEarly.v -- proofs about the model generator LR/Gen.v, part 7:
     - the productivity fixed point Gen2.prod_marks yields a rank certificate: all_productive G = true
       implies check_productive G (pcert_of G) = true, and all_productive is complete (true whenever every
       nonterminal derives a terminal string);
     - the tables and item sets `generate` builds pass LR/Early.check_early (item cores valid), for every
       grammar, clean or not;
     - hence, for a grammar whose nonterminals are all productive: an error is never early
       (generate_error_not_early) and, with a clean verdict, generate_correct. *)
From Coq Require Import Arith NArith PArith List Bool Lia FMapPositive.
Require Import EmbossV.LR.Driver EmbossV.LR.Sound EmbossV.LR.Complete EmbossV.LR.Early EmbossV.LR.Gen
               EmbossV.LR.GenProofs EmbossV.LR.GenProofsItems EmbossV.LR.GenCert EmbossV.LR.GenProofsLink
               EmbossV.LR.GenCert2 EmbossV.LR.GenProofsColl EmbossV.LR.GenProofsFill EmbossV.LR.GenProofsSound.
Import ListNotations.
Open Scope N_scope.

(* ================================================================ productivity *)

Lemma assoc_app_some : forall (A : Type) X (m m' : list (N * A)) r, assoc X m = Some r -> assoc X (m ++ m') = Some r.
Proof.
  induction m as [|[k v] m IH]; intros m' r H; simpl in *; [discriminate|].
  destruct (N.eqb X k); [exact H|auto].
Qed.

Lemma assoc_app_none : forall (A : Type) X (m m' : list (N * A)), assoc X m = None -> assoc X (m ++ m') = assoc X m'.
Proof.
  induction m as [|[k v] m IH]; intros m' H; simpl in *; [reflexivity|].
  destruct (N.eqb X k); [discriminate|auto].
Qed.

Lemma assoc_none_fst : forall (A : Type) X (m : list (N * A)), ~ In X (map fst m) -> assoc X m = None.
Proof.
  induction m as [|[k v] m IH]; intros H; simpl in *; [reflexivity|].
  destruct (N.eqb X k) eqn:E; [apply N.eqb_eq in E; subst; exfalso; auto|auto].
Qed.

Lemma assoc_const : forall X (c : N) l r, assoc X (map (fun Y => (Y, c)) l) = Some r -> r = c /\ In X l.
Proof.
  induction l as [|Y l IH]; intros r H; simpl in *; [discriminate|].
  destruct (N.eqb X Y) eqn:E.
  - apply N.eqb_eq in E. inversion H. subst. auto.
  - destruct (IH _ H). auto.
Qed.

Lemma assoc_const_in : forall X (c : N) l, In X l -> assoc X (map (fun Y => (Y, c)) l) = Some c.
Proof.
  induction l as [|Y l IH]; intros H; simpl in *; [destruct H|].
  destruct (N.eqb X Y) eqn:E; [reflexivity|]. destruct H as [H|H]; [subst; rewrite N.eqb_refl in E; discriminate|auto].
Qed.

Lemma is_some_assoc : forall (A : Type) X (m : list (N * A)), is_some (assoc X m) = true -> exists r, assoc X m = Some r.
Proof. intros A X m H. destruct (assoc X m); [eauto|discriminate]. Qed.

Definition marks_inv (G : grammar) (m : list (N * N)) (round : N) : Prop :=
  forall X r, assoc X m = Some r -> r < round /\ exists rhs, In (X, rhs) (g_prods G) /\
    forall Y, In Y rhs -> is_nonterminal G Y = true -> exists r', assoc Y m = Some r' /\ r' < r.

Lemma prod_new_In : forall G m X, In X (prod_new G m) <->
  (exists rhs, In (X, rhs) (g_prods G) /\ rhs_ready G m rhs = true) /\ ~ In X (map fst m).
Proof.
  intros G m X. unfold prod_new. rewrite (fresh_In _ Neqb_spec). rewrite in_map_iff. split.
  - intros [[[l r] [H1 H2]] H3]. apply filter_In in H2. simpl in *. subst l. split; [exists r; tauto|exact H3].
  - intros [[rhs [H1 H2]] H3]. split; [|exact H3]. exists (X, rhs). split; [reflexivity|]. apply filter_In. auto.
Qed.

Lemma marks_inv_step : forall G m round, marks_inv G m round ->
  marks_inv G (m ++ map (fun X => (X, round)) (prod_new G m)) (N.succ round).
Proof.
  intros G m round Hinv X r H. destruct (assoc X m) as [r0|] eqn:E.
  - rewrite (assoc_app_some _ _ _ _ _ E) in H. inversion H. subst r0.
    destruct (Hinv _ _ E) as [H1 [rhs [H2 H3]]]. split; [lia|]. exists rhs. split; [exact H2|].
    intros Y HY Hnt. destruct (H3 _ HY Hnt) as [r' [H4 H5]]. exists r'. split; [apply assoc_app_some; exact H4|exact H5].
  - rewrite (assoc_app_none _ _ _ _ E) in H. apply assoc_const in H. destruct H as [Hr HX]. subst r.
    split; [lia|]. apply prod_new_In in HX. destruct HX as [[rhs [H1 H2]] _]. exists rhs. split; [exact H1|].
    intros Y HY Hnt. unfold rhs_ready in H2. rewrite forallb_forall in H2. specialize (H2 _ HY).
    rewrite Hnt in H2. simpl in H2. apply is_some_assoc in H2. destruct H2 as [r' H2].
    exists r'. split; [apply assoc_app_some; exact H2|]. exact (proj1 (Hinv _ _ H2)).
Qed.

Lemma prod_fix_S : forall G f round m, prod_fix G (S f) round m =
  match prod_new G m with
  | [] => m
  | _ :: _ => prod_fix G f (N.succ round) (m ++ map (fun X => (X, round)) (prod_new G m))
  end.
Proof. intros. simpl. destruct (prod_new G m); reflexivity. Qed.

Lemma prod_fix_inv : forall G fuel round m, marks_inv G m round -> exists round', marks_inv G (prod_fix G fuel round m) round'.
Proof.
  intros G. induction fuel as [|f IH]; intros round m H; [simpl; eauto|]. rewrite prod_fix_S.
  destruct (prod_new G m) as [|x new] eqn:E; [eauto|]. rewrite <- E. apply IH. apply marks_inv_step. exact H.
Qed.

Lemma prod_marks_inv : forall G, exists round, marks_inv G (prod_marks G) round.
Proof. intros G. apply prod_fix_inv. intros X r H. discriminate. Qed.

Lemma pcert_of_get : forall (m : list (N * N)) X,
  nget (fold_right (fun e c => nset c (fst e) (snd e)) nempty m) X = assoc X m.
Proof.
  induction m as [|[k v] m IH]; intros X; simpl; [apply nget_nempty|].
  destruct (N.eqb X k) eqn:E.
  - apply N.eqb_eq in E. subst. apply nget_nset_same.
  - apply N.eqb_neq in E. rewrite nget_nset_other by congruence. apply IH.
Qed.

Lemma rank_pcert_of : forall G X r, assoc X (prod_marks G) = Some r -> rank (pcert_of G) X = r.
Proof. intros G X r H. unfold rank, pcert_of. rewrite pcert_of_get, H. reflexivity. Qed.

(* the rank certificate computed from the grammar is accepted by the verified checker *)
Theorem all_productive_cert : forall G, all_productive G = true -> check_productive G (pcert_of G) = true.
Proof.
  intros G H. unfold all_productive in H. rewrite forallb_forall in H.
  destruct (prod_marks_inv G) as [round Hinv].
  unfold check_productive. apply forallb_forall. intros pr Hpr.
  destruct (is_some_assoc _ _ _ (H _ Hpr)) as [r Hr]. destruct (Hinv _ _ Hr) as [_ [rhs [H1 H2]]].
  apply existsb_exists. exists (fst pr, rhs). split; [exact H1|]. simpl. rewrite N.eqb_refl. simpl.
  apply forallb_forall. intros Y HY. destruct (is_nonterminal G Y) eqn:Hnt; [|reflexivity]. simpl.
  destruct (H2 _ HY Hnt) as [r' [H3 H4]]. rewrite (rank_pcert_of _ _ _ H3), (rank_pcert_of _ _ _ Hr).
  apply N.ltb_lt. exact H4.
Qed.

(* ---- completeness of the boolean: it is true for every grammar whose nonterminals are all productive ---- *)

Definition marked (m : list (N * N)) (X : N) : Prop := exists r, assoc X m = Some r.

Lemma rhs_ready_spec : forall G m rhs, rhs_ready G m rhs = true <->
  forall Y, In Y rhs -> is_nonterminal G Y = true -> marked m Y.
Proof.
  intros G m rhs. unfold rhs_ready. rewrite forallb_forall. split.
  - intros H Y HY Hnt. specialize (H _ HY). rewrite Hnt in H. simpl in H. apply is_some_assoc in H. exact H.
  - intros H Y HY. destruct (is_nonterminal G Y) eqn:Hnt; [|reflexivity]. simpl.
    destruct (H _ HY Hnt) as [r Hr]. rewrite Hr. reflexivity.
Qed.

(* a stable marking contains every productive nonterminal *)
Lemma stable_marks_complete : forall G m, prod_new G m = [] ->
  (forall X w, gen G X w -> is_nonterminal G X = true -> marked m X) /\
  (forall Xs w, gen_list G Xs w -> forall Y, In Y Xs -> is_nonterminal G Y = true -> marked m Y).
Proof.
  intros G m Hst. apply gen_mutind.
  - intros a Ha Hnt. congruence.
  - intros lhs rhs w Hin Hl IH _.
    destruct (assoc lhs m) as [r|] eqn:E; [exists r; exact E|]. exfalso.
    assert (Hnew : In lhs (prod_new G m)).
    { apply prod_new_In. split.
      - exists rhs. split; [exact Hin|]. apply rhs_ready_spec. exact IH.
      - intros Hc. apply in_map_iff in Hc. destruct Hc as [[k v] [Hk Hc]]. simpl in Hk. subst k.
        clear - E Hc. induction m as [|[k' v'] m IH]; [destruct Hc|]. simpl in E.
        destruct (N.eqb lhs k') eqn:E2; [discriminate|]. destruct Hc as [Hc|Hc]; [|auto].
        inversion Hc. subst. rewrite N.eqb_refl in E2. discriminate. }
    rewrite Hst in Hnew. destruct Hnew.
  - intros Y [].
  - intros X Xs w1 w2 H1 IH1 H2 IH2 Y [HY|HY] Hnt; [subst; auto|eauto].
Qed.

(* the number of marked nonterminals grows with every round that does not stop; it is bounded by the
   number of productions *)
Lemma prod_new_NoDup : forall G m, NoDup (prod_new G m).
Proof. intros G m. unfold prod_new. apply (fresh_NoDup _ Neqb_spec). Qed.

Definition marks_wf (G : grammar) (m : list (N * N)) : Prop :=
  NoDup (map fst m) /\ forall X, In X (map fst m) -> In X (map fst (g_prods G)).

Lemma marks_wf_step : forall G m c, marks_wf G m -> marks_wf G (m ++ map (fun X => (X, c)) (prod_new G m)).
Proof.
  intros G m c [Hnd Hsub].
  assert (E : map fst (m ++ map (fun X => (X, c)) (prod_new G m)) = map fst m ++ prod_new G m).
  { rewrite map_app, map_map. simpl. rewrite map_id. reflexivity. }
  split; rewrite E.
  - unfold prod_new. apply (app_fresh_NoDup _ Neqb_spec). exact Hnd.
  - intros X HX. apply in_app_iff in HX. destruct HX as [HX|HX]; [auto|].
    apply prod_new_In in HX. destruct HX as [[rhs [H1 _]] _]. apply in_map_iff. exists (X, rhs). auto.
Qed.

Lemma NoDup_incl_length_N : forall (l l' : list N), NoDup l -> incl l l' -> (length l <= length l')%nat.
Proof. intros. apply NoDup_incl_length; assumption. Qed.

Lemma prod_fix_stable : forall G fuel round m, marks_wf G m ->
  (length (g_prods G) < fuel + length m)%nat -> prod_new G (prod_fix G fuel round m) = [].
Proof.
  intros G. induction fuel as [|f IH]; intros round m Hwf Hlen.
  - exfalso. destruct Hwf as [Hnd Hsub].
    pose proof (NoDup_incl_length_N _ _ Hnd Hsub) as Hl. rewrite !map_length in Hl. simpl in Hlen.
    apply (Nat.lt_irrefl (length (g_prods G))). eapply Nat.lt_le_trans; [exact Hlen|exact Hl].
  - rewrite prod_fix_S. destruct (prod_new G m) as [|x new] eqn:E; [exact E|]. rewrite <- E. apply IH.
    + apply marks_wf_step. exact Hwf.
    + rewrite app_length, map_length, E. simpl. lia.
Qed.

Theorem all_productive_complete : forall G,
  (forall X, is_nonterminal G X = true -> exists w, gen G X w) -> all_productive G = true.
Proof.
  intros G H. unfold all_productive. apply forallb_forall. intros [lhs rhs] Hin. simpl.
  assert (Hst : prod_new G (prod_marks G) = []).
  { unfold prod_marks. apply prod_fix_stable; [split; [constructor|intros X []]|simpl; lia]. }
  assert (Hnt : is_nonterminal G lhs = true) by (eapply in_prods_nonterminal; eauto).
  destruct (H _ Hnt) as [w Hw].
  destruct (proj1 (stable_marks_complete G _ Hst) _ _ Hw Hnt) as [r Hr]. rewrite Hr. reflexivity.
Qed.

(* soundness of the boolean, spelled out: every nonterminal derives a terminal string *)
Theorem all_productive_sound : forall G, all_productive G = true ->
  forall X, exists w, gen G X w.
Proof.
  intros G H X. apply (productive_sym G (pcert_of G) (all_productive_cert G H) (S (N.to_nat (rank (pcert_of G) X)))). lia.
Qed.

(* ================================================================ check_early *)

Lemma after_dot_next_sym : forall G x, after_dot G (core_of x) = next_sym G x.
Proof.
  intros G x. unfold after_dot, next_sym, rhs_of, prod_rhs, core_of. cbn [fst snd].
  destruct (it_p x) as [p|]; [|reflexivity].
  destruct (nth_error (g_prods G) (N.to_nat p)); simpl; [reflexivity|]. destruct (it_d x); reflexivity.
Qed.

Lemma in_closure_shape2 : forall G root x, in_closure G root x ->
  x = root \/ (it_d x = O /\ exists q B gamma, it_p x = Some q /\ nth_error (g_prods G) (N.to_nat q) = Some (B, gamma)).
Proof.
  intros G root x H. destruct H as [|it new _ [B [q [gamma [u [_ [Hq [_ Hn]]]]]]]]; [auto|]. subst new. right. simpl. eauto 6.
Qed.

(* ---- the reachability fixed point of Early.check_closure ---- *)

Definition pentry := (bool * option N * option N)%type.

Lemma In_memN : forall x l, In x l -> memN x l = true.
Proof. intros x l H. unfold memN. apply existsb_exists. exists x. split; [exact H|apply N.eqb_refl]. Qed.

Definition rclosed (pl : list pentry) (R : list N) : Prop :=
  forall A Z, In (false, Some A, Some Z) pl -> In A R -> In Z R.

Lemma reach_pass_ext : forall pl acc, exists ext, reach_pass pl acc = ext ++ acc /\
  forall z, In z ext -> exists A, In (false, Some A, Some z) pl /\ ~ In z acc.
Proof.
  unfold reach_pass. induction pl as [|e pl IH]; intros acc; simpl.
  - exists []. split; [reflexivity|intros z []].
  - set (acc' := match e with
                 | (false, Some A, Some Z) => if memN A acc then (if memN Z acc then acc else Z :: acc) else acc
                 | _ => acc
                 end).
    destruct (IH acc') as [ext [H1 H2]].
    assert (Hacc : acc' = acc \/ exists A Z, e = (false, Some A, Some Z) /\ acc' = Z :: acc /\ ~ In Z acc).
    { unfold acc'. destruct e as [[[|] [A|]] [Z|]]; auto. destruct (memN A acc); auto.
      destruct (memN Z acc) eqn:EZ; auto. right. exists A, Z. split; [reflexivity|]. split; [reflexivity|].
      intros Hin. apply In_memN in Hin. congruence. }
    destruct Hacc as [Hacc|[A [Z [He [Hacc HZ]]]]].
    + exists ext. rewrite H1, Hacc. split; [reflexivity|]. intros z Hz. destruct (H2 _ Hz) as [A [Ha Hb]].
      exists A. split; [right; exact Ha|]. rewrite Hacc in Hb. exact Hb.
    + exists (ext ++ [Z]). rewrite H1, Hacc, <- app_assoc. split; [reflexivity|].
      intros z Hz. apply in_app_iff in Hz. destruct Hz as [Hz|[Hz|[]]].
      * destruct (H2 _ Hz) as [A' [Ha Hb]]. exists A'. split; [right; exact Ha|]. rewrite Hacc in Hb.
        intros Hc. apply Hb. right. exact Hc.
      * subst z. exists A. split; [left; exact He|exact HZ].
Qed.

Lemma reach_pass_closed : forall pl acc, length (reach_pass pl acc) = length acc -> rclosed pl acc.
Proof.
  unfold reach_pass. induction pl as [|e pl IH]; intros acc Hlen; simpl in Hlen.
  - intros A Z [].
  - set (acc' := match e with
                 | (false, Some A, Some Z) => if memN A acc then (if memN Z acc then acc else Z :: acc) else acc
                 | _ => acc
                 end) in *.
    destruct (reach_pass_ext pl acc') as [ext [H1 _]]. unfold reach_pass in H1.
    assert (Hge : (length acc' <= length (fold_left (fun acc0 e0 =>
                     match e0 with
                     | (false, Some A, Some Z) => if memN A acc0 then (if memN Z acc0 then acc0 else Z :: acc0) else acc0
                     | _ => acc0
                     end) pl acc'))%nat) by (rewrite H1, app_length; lia).
    assert (Hacc : acc' = acc).
    { unfold acc' in *. destruct e as [[[|] [A|]] [Z|]]; auto. destruct (memN A acc); auto.
      destruct (memN Z acc); auto. simpl in Hge. lia. }
    rewrite Hacc in *. pose proof (IH _ Hlen) as Hcl.
    intros A Z [He|He] HA; [|eapply Hcl; eauto]. subst e. unfold acc' in Hacc.
    rewrite (In_memN _ _ HA) in Hacc. destruct (memN Z acc) eqn:EZ; [apply memN_In; exact EZ|].
    exfalso. assert (length (Z :: acc) = length acc) by (rewrite Hacc; reflexivity). simpl in H. lia.
Qed.

Definition unk (acc : list N) (e : pentry) : bool :=
  match e with (false, Some _, Some Z) => negb (memN Z acc) | _ => false end.

Lemma filter_length_le : forall (A : Type) (f g : A -> bool) l, (forall x, In x l -> g x = true -> f x = true) ->
  (length (filter g l) <= length (filter f l))%nat.
Proof.
  induction l as [|x l IH]; intros H; simpl; [lia|].
  assert (IH' := IH (fun y hy => H y (or_intror hy))).
  destruct (g x) eqn:Eg; [rewrite (H x (or_introl eq_refl) Eg); simpl; lia|]. destruct (f x); simpl; lia.
Qed.

Lemma filter_length_lt : forall (A : Type) (f g : A -> bool) l, (forall x, In x l -> g x = true -> f x = true) ->
  (exists x, In x l /\ f x = true /\ g x = false) -> (length (filter g l) < length (filter f l))%nat.
Proof.
  induction l as [|x l IH]; intros H [y [Hy [Hf Hg]]]; [destruct Hy|]. simpl.
  pose proof (filter_length_le A f g l (fun z hz => H z (or_intror hz))) as Hle.
  destruct Hy as [Hy|Hy].
  - subst y. rewrite Hf, Hg. simpl. lia.
  - assert (IH' : (length (filter g l) < length (filter f l))%nat).
    { apply IH; [intros z hz; apply H; right; exact hz|exists y; auto]. }
    destruct (g x) eqn:Eg; [rewrite (H x (or_introl eq_refl) Eg); simpl; lia|]. destruct (f x); simpl; lia.
Qed.

Lemma reach_iter_closed : forall pl n acc, (length (filter (unk acc) pl) <= n)%nat ->
  rclosed pl (reach_iter pl n acc) /\ incl acc (reach_iter pl n acc).
Proof.
  intros pl. induction n as [|n IH]; intros acc Hm.
  - simpl. split; [|intros x h; exact h]. intros A Z Hin HA.
    destruct (memN Z acc) eqn:EZ; [apply memN_In; exact EZ|]. exfalso.
    assert (Hf : In (false, Some A, Some Z) (filter (unk acc) pl)) by (apply filter_In; split; [exact Hin|simpl; rewrite EZ; reflexivity]).
    destruct (filter (unk acc) pl); [destruct Hf|simpl in Hm; lia].
  - simpl. destruct (Nat.eqb (length (reach_pass pl acc)) (length acc)) eqn:El.
    + apply Nat.eqb_eq in El. split; [apply reach_pass_closed; exact El|intros x h; exact h].
    + apply Nat.eqb_neq in El. destruct (reach_pass_ext pl acc) as [ext [H1 H2]].
      destruct ext as [|z ext]; [rewrite H1 in El; simpl in El; lia|].
      destruct (H2 z (or_introl eq_refl)) as [A [HA Hz]].
      assert (Hsub : incl acc (reach_pass pl acc)) by (rewrite H1; intros x hx; apply in_app_iff; right; exact hx).
      destruct (IH (reach_pass pl acc)) as [I1 I2].
      * assert (Hlt : (length (filter (unk (reach_pass pl acc)) pl) < length (filter (unk acc) pl))%nat).
        { apply filter_length_lt.
          - intros [[k oa] oz] _ Hu. unfold unk in *. destruct k; [discriminate|]. destruct oa; [|discriminate].
            destruct oz as [Z|]; [|discriminate]. apply negb_true_iff in Hu. apply negb_true_iff.
            destruct (memN Z acc) eqn:E; [|reflexivity]. apply memN_In in E. apply Hsub in E. apply In_memN in E. congruence.
          - exists (false, Some A, Some z). split; [exact HA|]. simpl. split.
            + apply negb_true_iff. destruct (memN z acc) eqn:E; [|reflexivity]. apply memN_In in E. contradiction.
            + apply negb_false_iff. apply In_memN. rewrite H1. left. reflexivity. }
        lia.
      * split; [exact I1|]. intros x hx. apply I2. apply Hsub. exact hx.
Qed.

(* ---- one state ---- *)

Definition pre_l (G : grammar) (x : litem) : pentry :=
  (is_kernel (core_of x), lhs_of G (it_p x), after_dot G (core_of x)).

Lemma pre_item_row : forall G St, map (pre_item G) (icert_row St) = map (pre_l G) St.
Proof. intros G St. unfold icert_row. rewrite map_map. apply map_ext. intros x. reflexivity. Qed.

Lemma canon_roots : forall G eoi J, canon G eoi J -> forall x, In x J ->
  exists root, In root J /\ is_kernel (core_of root) = true /\ in_closure G root x.
Proof.
  intros G eoi J H x Hx. destruct H as [I0 HI|I0 X J _ _ HJ].
  - exists (seed_item eoi). split; [apply HI; constructor|]. split; [reflexivity|apply HI; exact Hx].
  - apply HJ in Hx. destruct Hx as [k [Hk [Hn Hc]]]. exists (advance k). split.
    + apply HJ. exists k. split; [exact Hk|]. split; [exact Hn|constructor].
    + split; [|exact Hc]. unfold is_kernel, core_of, advance. simpl. destruct (it_p k); reflexivity.
Qed.

Lemma state_check_closure : forall G eoi St, canon G eoi St -> closed_under_adds G St ->
  check_closure G (icert_row St) = true.
Proof.
  intros G eoi St Hcan Hclosed. unfold check_closure. rewrite pre_item_row.
  set (pl := map (pre_l G) St).
  assert (Hlen : length (icert_row St) = length pl) by (unfold icert_row, pl; rewrite !map_length; reflexivity).
  rewrite Hlen.
  destruct (reach_iter_closed pl (length pl) (kernel_syms pl)) as [Hcl Hinc].
  { pose proof (filter_length_le _ (fun _ => true) (unk (kernel_syms pl)) pl (fun _ _ _ => eq_refl)) as Hle.
    assert (E : filter (fun _ : pentry => true) pl = pl) by (clear; induction pl; simpl; congruence).
    rewrite E in Hle. exact Hle. }
  set (R := reach_iter pl (length pl) (kernel_syms pl)) in *.
  (* every item of the state: in the state, and kernel or its left-hand side is reachable *)
  assert (Hnext : forall x B, In x St -> next_sym G x = Some B ->
            (is_kernel (core_of x) = true \/ exists A, lhs_of G (it_p x) = Some A /\ In A R) -> In B R).
  { intros x B Hx Hn [Hk|[A [HA HR]]].
    - apply Hinc. unfold kernel_syms. apply in_flat_map. exists (pre_l G x). split; [apply in_map; exact Hx|].
      unfold pre_l. rewrite Hk, after_dot_next_sym, Hn. left. reflexivity.
    - destruct (is_kernel (core_of x)) eqn:Hk.
      + apply Hinc. unfold kernel_syms. apply in_flat_map. exists (pre_l G x). split; [apply in_map; exact Hx|].
        unfold pre_l. rewrite Hk, after_dot_next_sym, Hn. left. reflexivity.
      + apply (Hcl A B); [|exact HR]. unfold pl. apply in_map_iff. exists x. split; [|exact Hx].
        unfold pre_l. rewrite Hk, HA, after_dot_next_sym, Hn. reflexivity. }
  assert (Hitem : forall root x, In root St -> is_kernel (core_of root) = true -> in_closure G root x ->
            In x St /\ (is_kernel (core_of x) = true \/ exists A, lhs_of G (it_p x) = Some A /\ In A R)).
  { intros root x Hroot Hker Hc. induction Hc as [|it new Hc IH Hadd].
    - auto.
    - destruct IH as [Hit Hor]. split; [eapply Hclosed; eauto|]. right.
      destruct Hadd as [B [q [gamma [u [Hn [Hq [_ Hnew]]]]]]]. subst new. exists B. split.
      + simpl. unfold production in *. rewrite Hq. reflexivity.
      + eapply Hnext; eauto. }
  apply forallb_forall. intros e He. unfold pl in He. apply in_map_iff in He. destruct He as [x [He Hx]]. subst e.
  destruct (canon_roots _ _ _ Hcan _ Hx) as [root [Hroot [Hker Hc]]].
  destruct (Hitem _ _ Hroot Hker Hc) as [_ [Hk|[A [HA HR]]]]; unfold pre_l.
  - rewrite Hk. reflexivity.
  - destruct (is_kernel (core_of x)); [reflexivity|]. rewrite HA. apply In_memN. exact HR.
Qed.

Lemma icert_items_of : forall states k St, nth_error states (N.to_nat k) = Some St ->
  items_of (icert_of states) k = icert_row St.
Proof. intros states k St H. unfold items_of. rewrite icert_of_get, H. reflexivity. Qed.

Lemma core_eqb_refl : forall c, core_eqb c c = true.
Proof. intros [[p|] d]; unfold core_eqb; simpl; rewrite ?N.eqb_refl, Nat.eqb_refl; reflexivity. Qed.

Section EarlyLink.
  Variable G : grammar.
  Variable eoi : N.
  Variable tab : list fentry.
  Variable cf : nat.
  Variable states : list (list litem).
  Variable gotos : list (list (N * N)).
  Variable T : tables.
  Hypothesis Hcoll : coll_ok G tab eoi cf states gotos.
  Hypothesis Hcoll2 : coll_ok2 G eoi states gotos.
  Let fs := zip_fill G eoi states gotos.
  Hypothesis Hact : t_action T = rows_to_map 0 (map f_row fs) nempty.
  Hypothesis Hgoto : t_goto T = rows_to_map 0 (map (trim_goto G) gotos) nempty.
  Let Ic := icert_of states.

  Lemma st_edge : forall k S0 grow X j, nth_error states k = Some S0 -> nth_error gotos k = Some grow ->
    In (X, j) grow -> check_edge G Ic (N.of_nat k) X j = true.
  Proof.
    intros k S0 grow X j Hk Hg Hin.
    destruct (c2_rows _ _ _ _ Hcoll2 _ _ _ _ _ Hk Hg Hin) as [[it [Hit Hn]] [J' [HJ' HinJ]]].
    assert (Hadv : In (advance it) J') by (apply HinJ; exists it; split; [exact Hit|]; split; [exact Hn|constructor]).
    unfold check_edge. apply andb_true_iff. split.
    - apply negb_true_iff. apply N.eqb_neq. intros E. subst j.
      destruct (co_init _ _ _ _ _ _ Hcoll) as [I0 [H0 Hin0]]. change (N.to_nat 0) with O in HJ'. rewrite H0 in HJ'.
      inversion HJ'. subst J'. apply Hin0 in Hadv. destruct (in_closure_shape _ _ _ Hadv) as [E|E].
      + unfold advance, seed_item in E. inversion E.
      + unfold advance in E. simpl in E. discriminate.
    - unfold Ic. rewrite (icert_items_of _ _ _ HJ').
      destruct (icert_row J') as [|i0 l0] eqn:El.
      { unfold icert_row in El. destruct J'; [destruct Hadv|discriminate]. }
      rewrite <- El. apply forallb_forall. intros it' Hit'. unfold icert_row in Hit'. apply in_map_iff in Hit'.
      destruct Hit' as [x [Hx' Hx]]. subst it'. cbn [fst snd].
      apply HinJ in Hx. destruct Hx as [k' [Hk' [Hn' Hc']]].
      destruct (in_closure_shape2 _ _ _ Hc') as [E|[Ed [q [B [gamma [Ep _]]]]]].
      + subst x. assert (Hker : is_kernel (core_of (advance k')) = true).
        { unfold is_kernel, core_of, advance. simpl. destruct (it_p k'); reflexivity. }
        rewrite Hker. unfold core_of, advance. cbn [fst snd it_p it_d].
        rewrite (icert_items_of states (N.of_nat k) S0) by (rewrite Nat2N.id; exact Hk).
        apply andb_true_iff. split.
        * unfold has_core. apply existsb_exists. exists (core_of k', la_mask S0 (core_of k')). split.
          -- unfold icert_row. apply in_map_iff. exists k'. auto.
          -- apply core_eqb_refl.
        * change (it_p k', it_d k') with (core_of k'). rewrite after_dot_next_sym, Hn'. apply N.eqb_refl.
      + unfold is_kernel, core_of. cbn [fst snd]. rewrite Ep, Ed. reflexivity.
  Qed.

  Lemma tables_pass_check_early : check_early G T Ic = true.
  Proof.
    destruct (co_init _ _ _ _ _ _ Hcoll) as [I0 [H0 Hin0]].
    assert (Hseed : In (seed_item eoi) I0) by (apply Hin0; constructor).
    unfold check_early. repeat (apply andb_true_iff; split).
    - unfold Ic. rewrite (icert_items_of states 0 I0 H0). destruct I0; [destruct Hseed|reflexivity].
    - unfold Ic. rewrite (icert_items_of states 0 I0 H0). apply forallb_forall. intros it Hit.
      unfold icert_row in Hit. apply in_map_iff in Hit. destruct Hit as [x [Hx' Hx]]. subst it. cbn [fst].
      apply Hin0 in Hx. destruct (in_closure_shape2 _ _ _ Hx) as [E|[Ed [q [B [gamma [Ep _]]]]]].
      + subst x. reflexivity.
      + unfold is_kernel, core_of. cbn [fst snd]. rewrite Ep, Ed. reflexivity.
    - apply forallb_forall. intros [pos l] Hin. cbn [snd]. apply PositiveMap.elements_complete in Hin.
      assert (Hget : nget Ic (Pos.pred_N pos) = Some l) by (unfold nget; rewrite succ_pos_pred_N; exact Hin).
      unfold Ic in Hget. rewrite icert_of_get in Hget.
      destruct (nth_error states (N.to_nat (Pos.pred_N pos))) as [St|] eqn:Ek; [|discriminate].
      simpl in Hget. inversion Hget. subst l.
      assert (HSt : In St states) by (eapply nth_error_In; exact Ek).
      apply (state_check_closure G eoi); [apply (c2_canon _ _ _ _ Hcoll2); exact HSt|].
      exact (proj1 (co_good _ _ _ _ _ _ Hcoll _ HSt)).
    - apply forallb_forall. intros [pos row] Hin. cbn [fst snd]. apply PositiveMap.elements_complete in Hin.
      assert (Hget : nget (t_action T) (Pos.pred_N pos) = Some row) by (unfold nget; rewrite succ_pos_pred_N; exact Hin).
      rewrite Hact in Hget. apply rows_to_map_nth in Hget. rewrite nth_error_map in Hget.
      destruct (nth_error fs (N.to_nat (Pos.pred_N pos))) as [f|] eqn:Ef; [|discriminate].
      simpl in Hget. inversion Hget. subst row. clear Hget.
      destruct (zip_fill_nth_inv _ _ _ _ _ _ Ef) as [St [grow [Hk [Hg Hf]]]]. subst f.
      apply forallb_forall. intros [X j] He. unfold shift_edges in He. apply in_flat_map in He.
      destruct He as [[t a] [He1 He2]]. cbn [fst snd] in He2. destruct a as [j'|l r| |c]; [|destruct He2|destruct He2|destruct He2].
      destruct He2 as [H|[]]. inversion H. subst X j. cbn [fst snd].
      apply fill_state_just in He1. destruct He1 as [it [Hit Hkey]]. apply ekey_shift in Hkey.
      destruct Hkey as [_ [_ Ha]]. rewrite <- (N2Nat.id (Pos.pred_N pos)).
      eapply st_edge; [exact Hk|exact Hg|]. apply assoc_In. exact Ha.
    - apply forallb_forall. intros [pos row] Hin. cbn [fst snd]. apply PositiveMap.elements_complete in Hin.
      assert (Hget : nget (t_goto T) (Pos.pred_N pos) = Some row) by (unfold nget; rewrite succ_pos_pred_N; exact Hin).
      rewrite Hgoto in Hget. apply rows_to_map_nth in Hget. rewrite nth_error_map in Hget.
      destruct (nth_error gotos (N.to_nat (Pos.pred_N pos))) as [grow|] eqn:Eg; [|discriminate].
      simpl in Hget. inversion Hget. subst row. clear Hget.
      assert (Hkl : (N.to_nat (Pos.pred_N pos) < length states)%nat).
      { rewrite <- (co_len _ _ _ _ _ _ Hcoll). apply nth_error_Some. congruence. }
      destruct (nth_error states (N.to_nat (Pos.pred_N pos))) as [St|] eqn:Ek; [|apply nth_error_None in Ek; lia].
      apply forallb_forall. intros [X j] He. cbn [fst snd]. unfold trim_goto in He. apply filter_In in He.
      destruct He as [He _]. rewrite <- (N2Nat.id (Pos.pred_N pos)). eapply st_edge; eassumption.
  Qed.
End EarlyLink.

(* the tables and item sets the model generator builds pass check_early -- for EVERY grammar *)
Theorem generate_pass_check_early : forall G eoi sp ff cf sf r,
  is_nonterminal G eoi = false -> generate G eoi sp ff cf sf = GenOk r ->
  check_early G (g_tables r) (icert_of (g_states r)) = true.
Proof.
  intros G eoi sp ff cf sf r Heoi Hgen. unfold generate in Hgen.
  destruct (first_table G ff) as [tab|] eqn:Ef; [|discriminate].
  destruct (items G tab eoi cf sf) as [[states gotos]|] eqn:Ei; [|discriminate].
  inversion Hgen. subst r. clear Hgen. cbn [g_tables g_states].
  pose proof (first_table_sound _ _ _ Ef) as Hs. pose proof (first_fix_stable _ _ _ _ Ef) as Hst.
  eapply (tables_pass_check_early G eoi tab cf states gotos); try reflexivity.
  - eapply items_coll_ok; eassumption.
  - eapply items_coll_ok2; eassumption.
Qed.

(* ================================================================ corollaries *)

Lemma generate_eoi : forall G eoi sp ff cf sf r, generate G eoi sp ff cf sf = GenOk r -> t_eoi (g_tables r) = eoi.
Proof.
  intros G eoi sp ff cf sf r Hgen. unfold generate in Hgen. destruct (first_table G ff); [|discriminate].
  destruct (items G l eoi cf sf) as [[states gotos]|]; [|discriminate]. inversion Hgen. reflexivity.
Qed.

(* an error at index i: tokens 0..i-1 start a sentence (with or without conflicts) *)
Theorem generate_error_not_early : forall G eoi sp ff cf sf r fuel toks c i tok st e,
  is_nonterminal G eoi = false -> all_productive G = true ->
  generate G eoi sp ff cf sf = GenOk r ->
  run (g_tables r) fuel toks = Rejected c i tok st e ->
  exists suffix t, derives G (g_start G) t 0%nat (firstn i toks ++ suffix).
Proof.
  intros G eoi sp ff cf sf r fuel toks c i tok st e Heoi Hp Hgen Hr.
  eapply error_not_early; [| | |exact Hr].
  - eapply generate_pass_check_sound; eassumption.
  - eapply generate_pass_check_early; eassumption.
  - apply all_productive_cert. exact Hp.
Qed.

(* THE combined statement for the model generator: for a grammar all of whose nonterminals are productive
   and a clean verdict, the generated parser accepts exactly the sentences, returns their unique derivation
   tree, and reports an error exactly at the first token after the longest viable prefix *)
Theorem generate_correct : forall G eoi sp ff cf sf r,
  is_nonterminal G eoi = false -> all_productive G = true ->
  generate G eoi sp ff cf sf = GenOk r -> gen_clean r = true ->
  (forall toks t, ~ In eoi toks ->
     ((exists fuel, run (g_tables r) fuel toks = Accepted t) <-> derives G (g_start G) t 0%nat toks)) /\
  (forall toks t, derives G (g_start G) t 0%nat toks ->
     exists n, forall fuel, (n <= fuel)%nat -> run (g_tables r) fuel toks = Accepted t) /\
  (forall toks t1 t2, derives G (g_start G) t1 0%nat toks -> derives G (g_start G) t2 0%nat toks -> t1 = t2) /\
  (forall fuel toks c i tok st e, run (g_tables r) fuel toks = Rejected c i tok st e ->
     (exists suffix t, derives G (g_start G) t 0%nat (firstn i toks ++ suffix)) /\
     (forall toks' t, firstn (S i) toks' = firstn (S i) toks -> ~ derives G (g_start G) t 0%nat toks')).
Proof.
  intros G eoi sp ff cf sf r Heoi Hp Hgen Hclean.
  pose proof (generate_pass_check_sound _ _ _ _ _ _ _ Heoi Hgen) as Hsound.
  pose proof (generate_pass_check_early _ _ _ _ _ _ _ Heoi Hgen) as Hearly.
  pose proof (generate_pass_check_complete _ _ _ _ _ _ _ Heoi Hgen Hclean) as Hcomp.
  pose proof (all_productive_cert _ Hp) as Hprod.
  pose proof (generate_eoi _ _ _ _ _ _ _ Hgen) as He.
  split; [|split; [|split]].
  - intros toks t Hn. split.
    + intros [fuel Hr]. eapply run_sound; [exact Hsound|rewrite He; exact Hn|exact Hr].
    + intros Hd. destruct (run_complete _ _ _ _ _ _ Hcomp Hd) as [n Hn']. exists n. apply Hn'. lia.
  - intros toks t Hd. eapply run_complete; eassumption.
  - intros toks t1 t2 H1 H2. eapply unambiguous; eassumption.
  - intros fuel toks c i tok st e Hr. eapply error_position_exact; eassumption.
Qed.
