(* LR/Sound.v -- a validator `check_sound` for first-order LR tables and the proof
   that tables which pass it only accept derivation trees of the start symbol whose
   leaves are the input, in order (`run_sound`); plus `run_prefix_det`.

   The certificate C maps each state to a "known suffix": symbols that are
   guaranteed to label the topmost stack entries (top first) whenever the state is
   on top of the stack.  It is produced by untrusted code (harness/lr_tables.py);
   the theorem quantifies over all certificates. *)
From Coq Require Import Arith NArith PArith List Bool Lia FMapPositive.
Require Import EmbossV.LR.Driver.
Import ListNotations.
Open Scope N_scope.

Definition cert := nmap (list N).

(* a transition on symbol X into state s': the target's known suffix is X followed
   by a prefix of the source's known suffix *)
Definition check_target (C : cert) (ks : list N) (X s' : N) : bool :=
  match nget C s' with
  | Some (Y :: k') => N.eqb X Y && is_prefix k' ks
  | _ => false
  end.

Definition check_act (G : grammar) (C : cert) (ks : list N) (e : N * act) : bool :=
  match snd e with
  | Shift s' => negb (is_nonterminal G (fst e)) && check_target C ks (fst e) s'
  | Reduce lhs rhs => mem_prod (lhs, rhs) (g_prods G) && is_prefix (rev rhs) ks
  | Accept => match ks with X :: _ => N.eqb X (g_start G) | [] => false end
  | Err _ => true
  end.

Definition check_goto (C : cert) (ks : list N) (e : N * N) : bool :=
  check_target C ks (fst e) (snd e).

Definition check_rows {A : Type} (C : cert) (f : list N -> A -> bool) (m : nmap (list A)) : bool :=
  forallb (fun kr => match PositiveMap.find (fst kr) C with
                     | Some ks => forallb (f ks) (snd kr)
                     | None => false
                     end) (PositiveMap.elements m).

Definition check_sound (G : grammar) (T : tables) (C : cert) : bool :=
  match nget C 0 with Some [] => true | _ => false end
  && check_rows C (check_act G C) (t_action T)
  && check_rows C (check_goto C) (t_goto T).

(* ---------------------------------------------------------------- lists *)

Lemma list_N_eqb_eq : forall a b, list_N_eqb a b = true -> a = b.
Proof.
  induction a as [|x a IH]; destruct b as [|y b]; simpl; intros H; try discriminate; auto.
  apply andb_true_iff in H. destruct H as [H1 H2]. apply N.eqb_eq in H1. subst. f_equal. auto.
Qed.

Lemma list_N_eqb_refl : forall a, list_N_eqb a a = true.
Proof. induction a; simpl; auto. rewrite N.eqb_refl. auto. Qed.

Lemma prod_eqb_eq : forall p q, prod_eqb p q = true -> p = q.
Proof.
  intros [a b] [c d]. unfold prod_eqb. simpl. intros H.
  apply andb_true_iff in H. destruct H as [H1 H2]. apply N.eqb_eq in H1.
  apply list_N_eqb_eq in H2. subst. reflexivity.
Qed.

Lemma prod_eqb_refl : forall p, prod_eqb p p = true.
Proof. intros [a b]. unfold prod_eqb. simpl. rewrite N.eqb_refl, list_N_eqb_refl. reflexivity. Qed.

Lemma mem_prod_In : forall p l, mem_prod p l = true -> In p l.
Proof.
  unfold mem_prod. intros p l H. apply existsb_exists in H. destruct H as [q [Hin Heq]].
  apply prod_eqb_eq in Heq. subst. exact Hin.
Qed.

Lemma In_mem_prod : forall p l, In p l -> mem_prod p l = true.
Proof.
  unfold mem_prod. intros p l H. apply existsb_exists. exists p. split; auto. apply prod_eqb_refl.
Qed.

Lemma is_prefix_app : forall p l, is_prefix p l = true -> exists r, l = p ++ r.
Proof.
  induction p as [|x p IH]; intros l H.
  - exists l. reflexivity.
  - destruct l as [|y l]; simpl in H; [discriminate|].
    apply andb_true_iff in H. destruct H as [H1 H2]. apply N.eqb_eq in H1. subst.
    destruct (IH _ H2) as [r Hr]. exists r. simpl. rewrite Hr. reflexivity.
Qed.

Lemma is_prefix_of_app : forall p r, is_prefix p (p ++ r) = true.
Proof. induction p; simpl; intros; auto. rewrite N.eqb_refl. simpl. auto. Qed.

Lemma is_prefix_trans : forall a b c, is_prefix a b = true -> is_prefix b c = true -> is_prefix a c = true.
Proof.
  intros a b c H1 H2. apply is_prefix_app in H1. apply is_prefix_app in H2.
  destruct H1 as [r1 H1]. destruct H2 as [r2 H2]. subst. rewrite <- app_assoc. apply is_prefix_of_app.
Qed.

Lemma assoc_In : forall (A : Type) k (l : list (N * A)) v, assoc k l = Some v -> In (k, v) l.
Proof.
  induction l as [|[k' v'] l IH]; simpl; intros v H; [discriminate|].
  destruct (N.eqb k k') eqn:E.
  - apply N.eqb_eq in E. inversion H. subst. left. reflexivity.
  - right. apply IH. exact H.
Qed.

Lemma nget_elements : forall (A : Type) (m : nmap A) k v,
  nget m k = Some v -> In (N.succ_pos k, v) (PositiveMap.elements m).
Proof. intros. apply PositiveMap.elements_correct. exact H. Qed.

Lemma check_rows_get : forall (A : Type) C (f : list N -> A -> bool) m s row,
  check_rows C f m = true -> nget m s = Some row ->
  exists ks, nget C s = Some ks /\ forall e, In e row -> f ks e = true.
Proof.
  intros A C f m s row Hc Hg. unfold check_rows in Hc. rewrite forallb_forall in Hc.
  specialize (Hc _ (nget_elements _ _ _ _ Hg)). simpl in Hc.
  unfold nget. destruct (PositiveMap.find (N.succ_pos s) C) as [ks|]; [|discriminate].
  exists ks. split; [reflexivity|]. rewrite forallb_forall in Hc. exact Hc.
Qed.

(* ---------------------------------------------------------------- derivations *)

Lemma derives_list_snoc : forall G Xs ts i w1,
  derives_list G Xs ts i w1 -> forall X t w2,
  derives G X t (i + length w1)%nat w2 ->
  derives_list G (Xs ++ [X]) (ts ++ [t]) i (w1 ++ w2).
Proof.
  induction 1 as [i|X0 Xs t0 ts i wa wb Hd Hl IH]; intros X t w2 H2.
  - simpl in *. rewrite Nat.add_0_r in H2.
    replace w2 with (w2 ++ []) by apply app_nil_r.
    apply DL_cons; [exact H2|]. constructor.
  - simpl. rewrite <- app_assoc. apply DL_cons; [exact Hd|].
    apply IH. rewrite app_length in H2. rewrite Nat.add_assoc in H2. exact H2.
Qed.

Section Soundness.
  Variable G : grammar.
  Variable T : tables.
  Variable C : cert.

  Inductive stack_ok : stack -> nat -> list N -> Prop :=
  | SO_nil : stack_ok [] 0%nat []
  | SO_cons : forall s t stk i w wt ks,
      stack_ok stk i w ->
      derives G (root t) t i wt ->
      nget C s = Some ks ->
      is_prefix ks (root t :: roots stk) = true ->
      stack_ok ((s, t) :: stk) (i + length wt)%nat (w ++ wt).

  Hypothesis Hcheck : check_sound G T C = true.

  Lemma c_init : nget C 0 = Some [].
  Proof.
    unfold check_sound in Hcheck. apply andb_true_iff in Hcheck. destruct Hcheck as [H _].
    apply andb_true_iff in H. destruct H as [H _].
    destruct (nget C 0) as [[|]|]; try discriminate. reflexivity.
  Qed.

  Lemma c_actions : check_rows C (check_act G C) (t_action T) = true.
  Proof.
    unfold check_sound in Hcheck. apply andb_true_iff in Hcheck. destruct Hcheck as [H _].
    apply andb_true_iff in H. destruct H as [_ H]. exact H.
  Qed.

  Lemma c_gotos : check_rows C (check_goto C) (t_goto T) = true.
  Proof.
    unfold check_sound in Hcheck. apply andb_true_iff in Hcheck. destruct Hcheck as [_ H]. exact H.
  Qed.

  Lemma known_top : forall stk i w, stack_ok stk i w ->
    exists ks, nget C (top_state stk) = Some ks /\ is_prefix ks (roots stk) = true.
  Proof.
    intros stk i w H. destruct H.
    - exists []. split; [apply c_init|reflexivity].
    - exists ks. split; assumption.
  Qed.

  Lemma stack_split : forall n stk i w, stack_ok stk i w -> (n <= length stk)%nat ->
    exists i0 w0 wn,
      stack_ok (skipn n stk) i0 w0 /\
      derives_list G (rev (firstn n (roots stk))) (rev (map snd (firstn n stk))) i0 wn /\
      i = (i0 + length wn)%nat /\ w = w0 ++ wn.
  Proof.
    induction n as [|n IH]; intros stk i w Hok Hlen.
    - exists i, w, []. simpl. repeat split; auto.
      + constructor.
      + symmetry. apply app_nil_r.
    - destruct Hok as [|s t stk i w wt ks Hok Hd Hk Hp]; [simpl in Hlen; lia|].
      simpl in Hlen. assert (Hl : (n <= length stk)%nat) by lia.
      destruct (IH _ _ _ Hok Hl) as [i0 [w0 [wn [H1 [H2 [H3 H4]]]]]].
      exists i0, w0, (wn ++ wt). simpl. repeat split.
      + exact H1.
      + apply derives_list_snoc; [exact H2|]. rewrite <- H3. exact Hd.
      + rewrite app_length. lia.
      + rewrite H4. rewrite app_assoc. reflexivity.
  Qed.

  Lemma next_action_inv : forall st a x, next_action T st a = x -> is_err x = false ->
    exists r, nget (t_action T) st = Some r /\ In (a, x) r.
  Proof.
    unfold next_action. intros st a x H He.
    destruct (nget (t_action T) st) as [r|]; [|subst; discriminate].
    destruct (assoc a r) as [y|] eqn:E; [|subst; discriminate].
    subst. exists r. split; [reflexivity|]. apply assoc_In. exact E.
  Qed.

  Lemma transition_ok : forall stk i w X s' ks,
    stack_ok stk i w -> nget C (top_state stk) = Some ks ->
    check_target C ks X s' = true ->
    exists ks', nget C s' = Some ks' /\ is_prefix ks' (X :: roots stk) = true.
  Proof.
    intros stk i w X s' ks Hok Hks Hct. unfold check_target in Hct.
    destruct (nget C s') as [[|Y k']|]; try discriminate.
    apply andb_true_iff in Hct. destruct Hct as [H1 H2]. apply N.eqb_eq in H1. subst Y.
    exists (X :: k'). split; [reflexivity|]. simpl. rewrite N.eqb_refl. simpl.
    destruct (known_top _ _ _ Hok) as [ks0 [Hk0 Hp0]]. rewrite Hks in Hk0. inversion Hk0. subst ks0.
    eapply is_prefix_trans; eauto.
  Qed.

  Lemma loop_sound : forall fuel stk rest idx w t,
    stack_ok stk idx w -> loop T fuel stk rest idx = Accepted t ->
    exists pre post, rest = pre ++ t_eoi T :: post /\ derives G (g_start G) t 0%nat (w ++ pre).
  Proof.
    induction fuel as [|f IH]; intros stk rest idx w t Hok Hrun; [discriminate|].
    simpl in Hrun. destruct rest as [|a rest']; [discriminate|].
    destruct (next_action T (top_state stk) a) as [s'|lhs rhs| |c] eqn:Hact.
    - (* Shift *)
      destruct (next_action_inv _ _ _ Hact eq_refl) as [r [Hr Hin]].
      destruct (check_rows_get _ _ _ _ _ _ c_actions Hr) as [ks [Hks Hall]].
      specialize (Hall _ Hin). unfold check_act in Hall. simpl in Hall.
      apply andb_true_iff in Hall. destruct Hall as [Hterm Htgt].
      apply negb_true_iff in Hterm.
      destruct (transition_ok _ _ _ _ _ _ Hok Hks Htgt) as [ks' [Hks' Hp']].
      assert (Hok' : stack_ok ((s', PLeaf a idx) :: stk) (idx + length [a])%nat (w ++ [a])).
      { eapply SO_cons; eauto. simpl. constructor. exact Hterm. }
      simpl in Hok'. rewrite Nat.add_1_r in Hok'.
      destruct (IH _ _ _ _ _ Hok' Hrun) as [pre [post [H1 H2]]].
      exists (a :: pre), post. split; [simpl; rewrite H1; reflexivity|].
      rewrite <- app_assoc in H2. exact H2.
    - (* Reduce *)
      destruct (next_action_inv _ _ _ Hact eq_refl) as [r [Hr Hin]].
      destruct (check_rows_get _ _ _ _ _ _ c_actions Hr) as [ks [Hks Hall]].
      specialize (Hall _ Hin). unfold check_act in Hall. simpl in Hall.
      apply andb_true_iff in Hall. destruct Hall as [Hmem Hpre].
      apply mem_prod_In in Hmem.
      destruct (known_top _ _ _ Hok) as [ks0 [Hk0 Hp0]]. rewrite Hks in Hk0. inversion Hk0. subst ks0.
      pose proof (is_prefix_trans _ _ _ Hpre Hp0) as Hpr.
      apply is_prefix_app in Hpr. destruct Hpr as [rr Hrr].
      assert (Hlen : (length rhs <= length stk)%nat).
      { assert (length (roots stk) = length stk) by (unfold roots; apply map_length).
        rewrite <- H. rewrite Hrr. rewrite app_length, rev_length. lia. }
      unfold pop_count in Hrun. apply Nat.leb_le in Hlen. rewrite Hlen in Hrun. apply Nat.leb_le in Hlen.
      destruct (stack_split _ _ _ _ Hok Hlen) as [i0 [w0 [wn [Hs1 [Hs2 [Hs3 Hs4]]]]]].
      assert (Hfirst : rev (firstn (length rhs) (roots stk)) = rhs).
      { rewrite Hrr. rewrite <- (rev_length rhs) at 1. rewrite firstn_app.
        rewrite Nat.sub_diag. simpl. rewrite app_nil_r. rewrite firstn_all. apply rev_involutive. }
      rewrite Hfirst in Hs2.
      destruct (goto_of T (top_state (skipn (length rhs) stk)) lhs) as [s'|] eqn:Hgoto; [|discriminate].
      unfold goto_of in Hgoto.
      destruct (nget (t_goto T) (top_state (skipn (length rhs) stk))) as [grow|] eqn:Hgrow; [|discriminate].
      destruct (check_rows_get _ _ _ _ _ _ c_gotos Hgrow) as [ksg [Hksg Hallg]].
      specialize (Hallg _ (assoc_In _ _ _ _ Hgoto)). unfold check_goto in Hallg. simpl in Hallg.
      destruct (transition_ok _ _ _ _ _ _ Hs1 Hksg Hallg) as [ks' [Hks' Hp']].
      set (node := PNode lhs rhs (rev (map snd (firstn (length rhs) stk)))) in *.
      assert (Hok' : stack_ok ((s', node) :: skipn (length rhs) stk) (i0 + length wn)%nat (w0 ++ wn)).
      { eapply SO_cons; eauto. simpl. constructor; assumption. }
      rewrite <- Hs3, <- Hs4 in Hok'.
      exact (IH _ _ _ _ _ Hok' Hrun).
    - (* Accept *)
      destruct (next_action_inv _ _ _ Hact eq_refl) as [r [Hr Hin]].
      destruct (check_rows_get _ _ _ _ _ _ c_actions Hr) as [ks [Hks Hall]].
      specialize (Hall _ Hin). unfold check_act in Hall. simpl in Hall.
      destruct stk as [|[s t0] [|e stk]]; try discriminate.
      destruct (N.eqb a (t_eoi T)) eqn:Ea; [|discriminate].
      apply N.eqb_eq in Ea. subst a. inversion Hrun. subst t0. clear Hrun.
      destruct (known_top _ _ _ Hok) as [ks0 [Hk0 Hp0]]. rewrite Hks in Hk0. inversion Hk0. subst ks0.
      destruct ks as [|X ks]; [discriminate|]. apply N.eqb_eq in Hall. subst X.
      simpl in Hp0. apply andb_true_iff in Hp0. destruct Hp0 as [Hroot _]. apply N.eqb_eq in Hroot.
      inversion Hok as [|s0 t1 stk0 i0 w0 wt ks1 Hok0 Hd Hk1 Hp1]. subst.
      inversion Hok0. subst.
      exists [], rest'. split; [reflexivity|]. rewrite app_nil_r. simpl. rewrite Hroot. exact Hd.
    - (* Err *)
      destruct (nget (t_action T) (top_state stk)); [discriminate|].
      destruct (t_dflt T); discriminate.
  Qed.

  Theorem run_sound_gen : forall fuel toks t,
    run T fuel toks = Accepted t ->
    exists pre post, toks ++ [t_eoi T] = pre ++ t_eoi T :: post /\ derives G (g_start G) t 0%nat pre.
  Proof.
    intros fuel toks t H. unfold run in H.
    destruct (loop_sound _ _ _ _ _ _ SO_nil H) as [pre [post [H1 H2]]].
    exists pre, post. split; assumption.
  Qed.
End Soundness.

Lemma split_at_first : forall (x : N) toks pre post,
  ~ In x toks -> toks ++ [x] = pre ++ x :: post -> pre = toks.
Proof.
  induction toks as [|a toks IH]; intros pre post Hn H.
  - destruct pre as [|p pre]; [reflexivity|]. simpl in H. inversion H.
    destruct pre; discriminate.
  - destruct pre as [|p pre].
    + simpl in H. inversion H. subst. exfalso. apply Hn. left. reflexivity.
    + simpl in H. inversion H. subst. f_equal. eapply IH; eauto.
      intros Hin. apply Hn. right. exact Hin.
Qed.

(* Accepted => the returned tree is a derivation tree of the start symbol whose leaves
   are exactly the input tokens, in order, carrying their input positions.
   (A token whose symbol is END_OF_INPUT itself would end the input early in
   Parser.parse; `run_sound_gen` covers that case.) *)
Theorem run_sound : forall G T C fuel toks t,
  check_sound G T C = true ->
  ~ In (t_eoi T) toks ->
  run T fuel toks = Accepted t ->
  derives G (g_start G) t 0%nat toks.
Proof.
  intros G T C fuel toks t Hc Hn Hr.
  destruct (run_sound_gen G T C Hc fuel toks t Hr) as [pre [post [H1 H2]]].
  apply split_at_first in H1; [|exact Hn]. subst. exact H2.
Qed.

(* ---------------------------------------------------------------- prefix determinism *)

Lemma loop_rejected_idx : forall T fuel stk rest idx c i tok st e,
  loop T fuel stk rest idx = Rejected c i tok st e -> (idx <= i)%nat.
Proof.
  induction fuel as [|f IH]; intros stk rest idx c i tok st e H; [discriminate|].
  simpl in H. destruct rest as [|a rest']; [discriminate|].
  destruct (next_action T (top_state stk) a) as [s'|lhs rhs| |c0].
  - apply IH in H. lia.
  - destruct (pop_count (length rhs) (length stk)); [|discriminate].
    destruct (goto_of T _ lhs); [|discriminate]. apply IH in H. exact H.
  - destruct stk as [|[s t0] [|e0 stk]]; try discriminate.
    destruct (N.eqb a (t_eoi T)); discriminate.
  - destruct (nget (t_action T) (top_state stk)).
    + inversion H. lia.
    + destruct (t_dflt T); [|discriminate]. inversion H. lia.
Qed.

Lemma loop_prefix_det : forall T fuel stk pre x r1 r2 idx c i tok st e,
  loop T fuel stk (pre ++ x :: r1) idx = Rejected c i tok st e ->
  i = (idx + length pre)%nat ->
  loop T fuel stk (pre ++ x :: r2) idx = Rejected c i tok st e.
Proof.
  induction fuel as [|f IH]; intros stk pre x r1 r2 idx c i tok st e H Hi; [discriminate|].
  destruct pre as [|p pre]; simpl in *.
  - destruct (next_action T (top_state stk) x) as [s'|lhs rhs| |c0].
    + apply loop_rejected_idx in H. lia.
    + destruct (pop_count (length rhs) (length stk)); [|discriminate].
      destruct (goto_of T _ lhs); [|discriminate].
      apply (IH _ [] x r1 r2); assumption.
    + exact H.
    + exact H.
  - destruct (next_action T (top_state stk) p) as [s'|lhs rhs| |c0].
    + apply (IH _ pre x r1 r2); [assumption|lia].
    + destruct (pop_count (length rhs) (length stk)); [|discriminate].
      destruct (goto_of T _ lhs); [|discriminate].
      apply (IH _ (p :: pre) x r1 r2); [assumption|simpl; lia].
    + exact H.
    + destruct (nget (t_action T) (top_state stk)).
      * inversion H. lia.
      * destruct (t_dflt T); [|discriminate]. inversion H. lia.
Qed.

Lemma firstn_S_agree : forall (i : nat) (a b : list N),
  firstn (S i) a = firstn (S i) b ->
  a = b \/ exists pre x r1 r2, a = pre ++ x :: r1 /\ b = pre ++ x :: r2 /\ length pre = i.
Proof.
  induction i as [|i IH]; intros a b H.
  - destruct a as [|x a]; destruct b as [|y b]; simpl in H; try discriminate.
    + left. reflexivity.
    + inversion H. subst. right. exists [], y, a, b. auto.
  - destruct a as [|x a]; destruct b as [|y b]; try (simpl in H; discriminate).
    + left. reflexivity.
    + change (x :: firstn (S i) a = y :: firstn (S i) b) in H. inversion H. subst.
      destruct (IH _ _ H2) as [Heq|[pre [z [r1 [r2 [Ha [Hb Hl]]]]]]].
      * left. subst. reflexivity.
      * right. exists (y :: pre), z, r1, r2. subst. simpl. auto.
Qed.

(* A run that ends in an error at token index i has looked at tokens 0..i only. *)
Theorem run_prefix_det : forall T fuel a b c i tok st e,
  firstn (S i) a = firstn (S i) b ->
  run T fuel a = Rejected c i tok st e ->
  run T fuel b = Rejected c i tok st e.
Proof.
  intros T fuel a b c i tok st e Hf Hr.
  destruct (firstn_S_agree _ _ _ Hf) as [Heq|[pre [x [r1 [r2 [Ha [Hb Hl]]]]]]].
  - subst. exact Hr.
  - subst a b. unfold run in *. rewrite <- app_assoc in *. simpl in *.
    eapply loop_prefix_det; eauto.
Qed.
