(* LR/Complete.v -- a validator `check_complete` for first-order LR(1) tables and the
   proof that tables which pass it return every derivation tree of the start symbol
   (`run_complete`), hence never report an error on (a prefix of) a sentence
   (`error_not_late`).

   Certificates (produced by untrusted code from lr1.py's item sets and FIRST sets;
   the theorems quantify over all certificates):
     F : nonterminal -> (nullable?, FIRST as a bit mask over symbol numbers)
     I : state -> list of LR(1) item cores (production index | seed, dot) each with
         the set of look-aheads as a bit mask.
   check_complete asks that F is closed under the productions (an over-approximation
   of FIRST/nullable suffices), that state 0 holds [S' -> . start, $], and for every
   item [A -> alpha . X beta, L] of a state s:
     - the transition on X exists (Shift for a terminal, goto for a nonterminal) and its
       target holds [A -> alpha X . beta, L' >= L];
     - if X is a nonterminal, s holds [X -> . gamma, L'' >= FIRST(beta L)] for every
       production X -> gamma;
   for every complete item [A -> alpha ., L]: action(s, b) = Reduce(A -> alpha) for all b in L;
   for [S' -> start ., L] with $ in L: action(s, $) = Accept. *)
From Coq Require Import Arith NArith PArith List Bool Lia FMapPositive.
Require Import EmbossV.LR.Driver EmbossV.LR.Sound.
Import ListNotations.
Open Scope N_scope.

(* ---------------------------------------------------------------- bit masks *)

Definition bit (b : N) : N := N.shiftl 1 b.
Definition mem (m b : N) : bool := N.testbit m b.
Definition subset (a b : N) : bool := N.eqb (N.ldiff a b) 0.

Lemma mem_bit_same : forall b, mem (bit b) b = true.
Proof. intros. unfold mem, bit. rewrite N.shiftl_1_l. apply N.pow2_bits_true. Qed.

Lemma mem_bit_other : forall a b, a <> b -> mem (bit a) b = false.
Proof. intros. unfold mem, bit. rewrite N.shiftl_1_l. apply N.pow2_bits_false. congruence. Qed.

Lemma subset_mem : forall a b k, subset a b = true -> mem a k = true -> mem b k = true.
Proof.
  unfold subset, mem. intros a b k H Ha. apply N.eqb_eq in H.
  assert (E : N.testbit (N.ldiff a b) k = false) by (rewrite H; apply N.bits_0).
  rewrite N.ldiff_spec in E. rewrite Ha in E. simpl in E. apply negb_false_iff in E. exact E.
Qed.

Lemma mem_lor : forall a b k, mem (N.lor a b) k = mem a k || mem b k.
Proof. intros. unfold mem. apply N.lor_spec. Qed.

Lemma mem_0 : forall k, mem 0 k = false.
Proof. intros. unfold mem. apply N.bits_0. Qed.

(* ---------------------------------------------------------------- FIRST certificate *)

Definition fcert := nmap (bool * N).

Definition first_sym (G : grammar) (F : fcert) (X : N) : bool * N :=
  if is_nonterminal G X
  then match nget F X with Some r => r | None => (false, 0) end
  else (false, bit X).

Fixpoint first_seq (G : grammar) (F : fcert) (l : list N) : N :=
  match l with
  | [] => 0
  | X :: r => N.lor (snd (first_sym G F X)) (if fst (first_sym G F X) then first_seq G F r else 0)
  end.

Fixpoint nullable_seq (G : grammar) (F : fcert) (l : list N) : bool :=
  match l with
  | [] => true
  | X :: r => fst (first_sym G F X) && nullable_seq G F r
  end.

Definition check_first (G : grammar) (F : fcert) : bool :=
  forallb (fun pr => match nget F (fst pr) with
                     | Some (n, m) => subset (first_seq G F (snd pr)) m
                                      && implb (nullable_seq G F (snd pr)) n
                     | None => false
                     end) (g_prods G).

(* ---------------------------------------------------------------- item certificate *)

Definition core := (option N * nat)%type.          (* production index (None = S' -> start), dot *)
Definition item := (core * N)%type.                (* core, look-ahead mask *)
Definition icert := nmap (list item).

Definition opt_N_eqb (a b : option N) : bool :=
  match a, b with
  | Some x, Some y => N.eqb x y
  | None, None => true
  | _, _ => false
  end.

Definition core_eqb (a b : core) : bool := opt_N_eqb (fst a) (fst b) && Nat.eqb (snd a) (snd b).

Fixpoint find_core (c : core) (l : list item) : option N :=
  match l with
  | [] => None
  | (c', la) :: r => if core_eqb c c' then Some la else find_core c r
  end.

(* state s holds an item with core c whose look-ahead set covers `need`
   (nothing is required when `need` is empty: lr1.py creates no item without look-aheads) *)
Definition has_item (I : icert) (s : N) (c : core) (need : N) : bool :=
  N.eqb need 0
  || match nget I s with
     | Some l => match find_core c l with Some la => subset need la | None => false end
     | None => false
     end.

Definition rhs_of (G : grammar) (po : option N) : option (list N) :=
  match po with
  | None => Some [g_start G]
  | Some p => option_map snd (nth_error (g_prods G) (N.to_nat p))
  end.

Definition trans (G : grammar) (T : tables) (s X : N) : option N :=
  if is_nonterminal G X then goto_of T s X
  else match nget (t_action T) s with
       | Some r => match assoc X r with Some (Shift s') => Some s' | _ => None end
       | None => None
       end.

Definition is_reduce_of (x : act) (lhs : N) (rhs : list N) : bool :=
  match x with Reduce l r => prod_eqb (l, r) (lhs, rhs) | _ => false end.

(* the terminals on which the row's (first) entry is Reduce(lhs -> rhs) *)
Fixpoint reduce_mask (row : list (N * act)) (lhs : N) (rhs : list N) : N :=
  match row with
  | [] => 0
  | (k, x) :: r =>
      if is_reduce_of x lhs rhs then N.lor (bit k) (reduce_mask r lhs rhs)
      else N.ldiff (reduce_mask r lhs rhs) (bit k)
  end.

Fixpoint forallb_idx {A : Type} (f : N -> A -> bool) (i : N) (l : list A) : bool :=
  match l with
  | [] => true
  | x :: r => f i x && forallb_idx f (N.succ i) r
  end.

Definition arow (T : tables) (s : N) : list (N * act) :=
  match nget (t_action T) s with Some r => r | None => [] end.

Definition check_item (G : grammar) (T : tables) (I : icert) (F : fcert) (s : N) (it : item) : bool :=
  let po := fst (fst it) in
  let d := snd (fst it) in
  let la := snd it in
  match rhs_of G po with
  | None => false
  | Some rhs =>
      match nth_error rhs d with
      | Some X =>
          match trans G T s X with
          | Some s' => has_item I s' (po, S d) la
          | None => false
          end
          && (if is_nonterminal G X then
                let beta := skipn (S d) rhs in
                let need := N.lor (first_seq G F beta) (if nullable_seq G F beta then la else 0) in
                forallb_idx (fun q pr => negb (N.eqb (fst pr) X) || has_item I s (Some q, O) need) 0 (g_prods G)
              else true)
      | None =>
          Nat.eqb d (length rhs)
          && match po with
             | None => negb (mem la (t_eoi T))
                       || match assoc (t_eoi T) (arow T s) with Some Accept => true | _ => false end
             | Some p =>
                 match nth_error (g_prods G) (N.to_nat p) with
                 | Some (lhs, _) => subset la (reduce_mask (arow T s) lhs rhs)
                 | None => false
                 end
             end
      end
  end.

Definition check_complete (G : grammar) (T : tables) (I : icert) (F : fcert) : bool :=
  check_first G F
  && has_item I 0 (None, O) (bit (t_eoi T))
  && forallb (fun kl => forallb (check_item G T I F (Pos.pred_N (fst kl))) (snd kl)) (PositiveMap.elements I).

(* ---------------------------------------------------------------- FIRST is an over-approximation *)

Definition first_prop (G : grammar) (F : fcert) (X : N) (w : list N) : Prop :=
  match w with
  | [] => fst (first_sym G F X) = true
  | c :: _ => mem (snd (first_sym G F X)) c = true
  end.

Definition first_prop_seq (G : grammar) (F : fcert) (Xs : list N) (w : list N) : Prop :=
  match w with
  | [] => nullable_seq G F Xs = true
  | c :: _ => mem (first_seq G F Xs) c = true
  end.

Lemma in_prods_nonterminal : forall G lhs rhs, In (lhs, rhs) (g_prods G) -> is_nonterminal G lhs = true.
Proof.
  intros G lhs rhs H. unfold is_nonterminal. apply existsb_exists. exists (lhs, rhs).
  split; [exact H|]. simpl. apply N.eqb_refl.
Qed.

Lemma first_sound : forall G F, check_first G F = true ->
  (forall X t i w, derives G X t i w -> first_prop G F X w) /\
  (forall Xs ts i w, derives_list G Xs ts i w -> first_prop_seq G F Xs w).
Proof.
  intros G F Hc. unfold check_first in Hc. rewrite forallb_forall in Hc.
  apply derives_mutind.
  - intros a i Hn. unfold first_prop, first_sym. rewrite Hn. simpl. apply mem_bit_same.
  - intros lhs rhs cs i w Hin Hd IH. specialize (Hc _ Hin). simpl in Hc.
    unfold first_prop, first_sym. rewrite (in_prods_nonterminal _ _ _ Hin).
    destruct (nget F lhs) as [[n m]|]; [|discriminate].
    apply andb_true_iff in Hc. destruct Hc as [Hs Hn]. simpl.
    unfold first_prop_seq in IH. destruct w as [|c w].
    + rewrite IH in Hn. simpl in Hn. exact Hn.
    + eapply subset_mem; eauto.
  - intros i. reflexivity.
  - intros X Xs t ts i w1 w2 Hd IH1 Hl IH2. unfold first_prop in IH1. unfold first_prop_seq in *.
    destruct w1 as [|c w1]; simpl.
    + destruct w2 as [|c w2].
      * rewrite IH1. simpl. exact IH2.
      * rewrite IH1. rewrite mem_lor. rewrite IH2. apply orb_true_r.
    + rewrite mem_lor. rewrite IH1. reflexivity.
Qed.

(* ---------------------------------------------------------------- small facts *)

Lemma opt_N_eqb_eq : forall a b, opt_N_eqb a b = true -> a = b.
Proof.
  intros [a|] [b|]; simpl; intros H; try discriminate; auto. apply N.eqb_eq in H. subst. reflexivity.
Qed.

Lemma find_core_In : forall c l la, find_core c l = Some la -> In (c, la) l.
Proof.
  induction l as [|[c' la'] l IH]; simpl; intros la H; [discriminate|].
  destruct (core_eqb c c') eqn:E.
  - inversion H. subst. left. unfold core_eqb in E. apply andb_true_iff in E. destruct E as [E1 E2].
    apply opt_N_eqb_eq in E1. apply Nat.eqb_eq in E2. destruct c, c'. simpl in *. subst. reflexivity.
  - right. apply IH. exact H.
Qed.

Lemma reduce_mask_spec : forall row lhs rhs b, mem (reduce_mask row lhs rhs) b = true ->
  assoc b row = Some (Reduce lhs rhs).
Proof.
  induction row as [|[k x] row IH]; intros lhs rhs b H; cbn [reduce_mask assoc] in *.
  - rewrite mem_0 in H. discriminate.
  - destruct (is_reduce_of x lhs rhs) eqn:E.
    + destruct (N.eqb b k) eqn:Ebk.
      * destruct x as [s|l r| |c]; simpl in E; try discriminate.
        apply prod_eqb_eq in E. inversion E. subst. reflexivity.
      * rewrite mem_lor in H. apply N.eqb_neq in Ebk.
        rewrite mem_bit_other in H by congruence. simpl in H. apply IH. exact H.
    + unfold mem in H. rewrite N.ldiff_spec in H. apply andb_true_iff in H. destruct H as [H1 H2].
      destruct (N.eqb b k) eqn:Ebk.
      * apply N.eqb_eq in Ebk. subst. fold (mem (bit k) k) in H2. rewrite mem_bit_same in H2. discriminate.
      * apply IH. exact H1.
Qed.

Lemma forallb_idx_nth : forall (A : Type) (f : N -> A -> bool) l i, forallb_idx f i l = true ->
  forall q x, nth_error l q = Some x -> f (i + N.of_nat q) x = true.
Proof.
  induction l as [|y l IH]; intros i H q x Hn.
  - destruct q; discriminate.
  - simpl in H. apply andb_true_iff in H. destruct H as [H1 H2]. destruct q as [|q].
    + simpl in Hn. inversion Hn. subst. rewrite N.add_0_r. exact H1.
    + simpl in Hn. specialize (IH _ H2 _ _ Hn).
      replace (i + N.of_nat (S q)) with (N.succ i + N.of_nat q) by lia. exact IH.
Qed.

Lemma loop_fuel_mono : forall T f stk rest idx r,
  loop T f stk rest idx = r -> r <> OutOfFuel -> forall k, loop T (f + k) stk rest idx = r.
Proof.
  induction f as [|f IH]; intros stk rest idx r H Hr k.
  - simpl in H. congruence.
  - simpl in *. destruct rest as [|a rest']; [exact H|].
    destruct (next_action T (top_state stk) a) as [s'|lhs rhs| |c].
    + apply IH; assumption.
    + destruct (pop_count (length rhs) (length stk)); [|exact H].
      destruct (goto_of T _ lhs); [|exact H]. apply IH; assumption.
    + exact H.
    + exact H.
Qed.

(* ---------------------------------------------------------------- completeness *)

Section Completeness.
  Variable G : grammar.
  Variable T : tables.
  Variable I : icert.
  Variable F : fcert.
  Hypothesis Hcheck : check_complete G T I F = true.

  (* state s holds an item with this core whose look-ahead set contains b *)
  Definition holds (s : N) (c : core) (b : N) : Prop :=
    exists l la, nget I s = Some l /\ In (c, la) l /\ mem la b = true.

  Lemma c_first : check_first G F = true.
  Proof.
    unfold check_complete in Hcheck. apply andb_true_iff in Hcheck. destruct Hcheck as [H _].
    apply andb_true_iff in H. destruct H as [H _]. exact H.
  Qed.

  Lemma c_item : forall s l it, nget I s = Some l -> In it l -> check_item G T I F s it = true.
  Proof.
    intros s l it Hg Hin. unfold check_complete in Hcheck. apply andb_true_iff in Hcheck.
    destruct Hcheck as [_ H]. rewrite forallb_forall in H.
    specialize (H _ (nget_elements _ _ _ _ Hg)). simpl in H. rewrite N.pos_pred_succ in H.
    rewrite forallb_forall in H. apply H. exact Hin.
  Qed.

  Lemma has_item_holds : forall s c need b, has_item I s c need = true -> mem need b = true -> holds s c b.
  Proof.
    unfold has_item. intros s c need b H Hm.
    destruct (N.eqb need 0) eqn:E0.
    { apply N.eqb_eq in E0. subst. rewrite mem_0 in Hm. discriminate. }
    simpl in H.
    destruct (nget I s) as [l|] eqn:El; [|discriminate].
    destruct (find_core c l) as [la|] eqn:Ef; [|discriminate].
    exists l, la. split; [exact El|]. split; [apply find_core_In; exact Ef|].
    eapply subset_mem; eauto.
  Qed.

  Lemma c_init : holds 0 (None, O) (t_eoi T).
  Proof.
    unfold check_complete in Hcheck. apply andb_true_iff in Hcheck. destruct Hcheck as [H _].
    apply andb_true_iff in H. destruct H as [_ H].
    eapply has_item_holds; [exact H|apply mem_bit_same].
  Qed.

  (* L1: the transition on the symbol after the dot exists and carries the item over *)
  Lemma item_step : forall s l po d la rhs X,
    nget I s = Some l -> In ((po, d), la) l -> rhs_of G po = Some rhs -> nth_error rhs d = Some X ->
    exists s', trans G T s X = Some s' /\ forall b, mem la b = true -> holds s' (po, S d) b.
  Proof.
    intros s l po d la rhs X Hg Hin Hr Hn. pose proof (c_item _ _ _ Hg Hin) as Hc.
    unfold check_item in Hc. cbn [fst snd] in Hc. rewrite Hr, Hn in Hc.
    apply andb_true_iff in Hc. destruct Hc as [Hc _].
    destruct (trans G T s X) as [s'|]; [|discriminate].
    exists s'. split; [reflexivity|]. intros b Hb. eapply has_item_holds; eauto.
  Qed.

  (* L2: closure *)
  Lemma item_closure : forall s l po d la rhs X q gamma b,
    nget I s = Some l -> In ((po, d), la) l -> rhs_of G po = Some rhs -> nth_error rhs d = Some X ->
    nth_error (g_prods G) q = Some (X, gamma) ->
    (mem (first_seq G F (skipn (S d) rhs)) b = true \/
     (nullable_seq G F (skipn (S d) rhs) = true /\ mem la b = true)) ->
    holds s (Some (N.of_nat q), O) b.
  Proof.
    intros s l po d la rhs X q gamma b Hg Hin Hr Hn Hq Hb. pose proof (c_item _ _ _ Hg Hin) as Hc.
    unfold check_item in Hc. cbn [fst snd] in Hc. rewrite Hr, Hn in Hc.
    apply andb_true_iff in Hc. destruct Hc as [_ Hc].
    assert (Hnt : is_nonterminal G X = true).
    { eapply in_prods_nonterminal. eapply nth_error_In. exact Hq. }
    rewrite Hnt in Hc.
    pose proof (forallb_idx_nth _ _ _ _ Hc _ _ Hq) as Hx. cbn [fst snd N.add] in Hx. rewrite N.eqb_refl in Hx. cbn [negb orb] in Hx.
    eapply has_item_holds; [exact Hx|]. rewrite mem_lor.
    destruct Hb as [Hb|[Hb1 Hb2]].
    - rewrite Hb. reflexivity.
    - rewrite Hb1, Hb2. apply orb_true_r.
  Qed.

  (* L3: complete items reduce *)
  Lemma item_reduce : forall s l p la lhs rhs b,
    nget I s = Some l -> In ((Some p, length rhs), la) l ->
    nth_error (g_prods G) (N.to_nat p) = Some (lhs, rhs) -> mem la b = true ->
    next_action T s b = Reduce lhs rhs.
  Proof.
    intros s l p la lhs rhs b Hg Hin Hp Hb. pose proof (c_item _ _ _ Hg Hin) as Hc.
    assert (Hr : rhs_of G (Some p) = Some rhs) by (unfold rhs_of; rewrite Hp; reflexivity).
    assert (Hnone : nth_error rhs (length rhs) = None) by (apply nth_error_None; lia).
    unfold check_item in Hc. cbn [fst snd] in Hc. rewrite Hr, Hnone, Hp in Hc.
    apply andb_true_iff in Hc. destruct Hc as [_ Hc].
    pose proof (subset_mem _ _ _ Hc Hb) as Hm. apply reduce_mask_spec in Hm.
    unfold next_action. unfold arow in Hm.
    destruct (nget (t_action T) s) as [r|]; [|discriminate]. rewrite Hm. reflexivity.
  Qed.

  (* L4: the completed seed item accepts *)
  Lemma item_accept : forall s l la,
    nget I s = Some l -> In ((None, 1%nat), la) l -> mem la (t_eoi T) = true ->
    next_action T s (t_eoi T) = Accept.
  Proof.
    intros s l la Hg Hin Hb. pose proof (c_item _ _ _ Hg Hin) as Hc.
    unfold check_item in Hc. cbn [fst snd rhs_of nth_error] in Hc. rewrite Hb in Hc.
    cbn [negb orb length Nat.eqb andb] in Hc.
    unfold next_action. unfold arow in Hc.
    destruct (nget (t_action T) s) as [r|]; [|discriminate].
    destruct (assoc (t_eoi T) r) as [[s'|lh rh| |c]|]; try discriminate. reflexivity.
  Qed.

  Definition P_tree (X : N) (t : ptree) (i : nat) (w : list N) : Prop :=
    forall stk b rest' po d la rhs l,
      nget I (top_state stk) = Some l -> In ((po, d), la) l ->
      rhs_of G po = Some rhs -> nth_error rhs d = Some X ->
      (mem (first_seq G F (skipn (S d) rhs)) b = true \/
       (nullable_seq G F (skipn (S d) rhs) = true /\ mem la b = true)) ->
      exists n s', trans G T (top_state stk) X = Some s' /\
        forall k, loop T (n + k) stk (w ++ b :: rest') i = loop T k ((s', t) :: stk) (b :: rest') (i + length w)%nat.

  Definition P_list (Xs : list N) (ts : list ptree) (i : nat) (w : list N) : Prop :=
    forall stk b rest' po d la rhs l,
      nget I (top_state stk) = Some l -> In ((po, d), la) l ->
      rhs_of G po = Some rhs -> skipn d rhs = Xs -> mem la b = true ->
      exists n pushed,
        (forall k, loop T (n + k) stk (w ++ b :: rest') i = loop T k (pushed ++ stk) (b :: rest') (i + length w)%nat) /\
        length pushed = length Xs /\ rev (map snd pushed) = ts /\
        holds (top_state (pushed ++ stk)) (po, (d + length Xs)%nat) b.

  Lemma skipn_cons_nth : forall (A : Type) d (l : list A) x r, skipn d l = x :: r ->
    nth_error l d = Some x /\ skipn (S d) l = r.
  Proof.
    induction d as [|d IH]; intros l x r H.
    - simpl in H. subst. split; reflexivity.
    - destruct l as [|y l]; [simpl in H; discriminate|]. simpl in H. apply IH in H. exact H.
  Qed.

  Lemma complete_aux :
    (forall X t i w, derives G X t i w -> P_tree X t i w) /\
    (forall Xs ts i w, derives_list G Xs ts i w -> P_list Xs ts i w).
  Proof.
    apply derives_mutind.
    - (* leaf *)
      intros a i Hterm stk b rest' po d la rhs l Hg Hin Hr Hn Hb.
      destruct (item_step _ _ _ _ _ _ _ Hg Hin Hr Hn) as [s' [Htr _]].
      exists 1%nat, s'. split; [exact Htr|]. intros k. simpl.
      unfold trans in Htr. rewrite Hterm in Htr. unfold next_action.
      destruct (nget (t_action T) (top_state stk)) as [r|]; [|discriminate].
      destruct (assoc a r) as [[s1|lh rh| |c]|]; try discriminate.
      inversion Htr. subst. rewrite Nat.add_1_r. reflexivity.
    - (* node *)
      intros lhs gamma cs i w Hprod Hd IH stk b rest' po d la rhs l Hg Hin Hr Hn Hb.
      destruct (item_step _ _ _ _ _ _ _ Hg Hin Hr Hn) as [s' [Htr _]].
      destruct (In_nth_error _ _ Hprod) as [q Hq].
      pose proof (item_closure _ _ _ _ _ _ _ _ _ _ Hg Hin Hr Hn Hq Hb) as [l2 [la2 [Hg2 [Hin2 Hm2]]]].
      assert (Hrq : rhs_of G (Some (N.of_nat q)) = Some gamma).
      { unfold rhs_of. rewrite Nat2N.id. unfold production in *. rewrite Hq. reflexivity. }
      destruct (IH stk b rest' (Some (N.of_nat q)) O la2 gamma l2 Hg2 Hin2 Hrq eq_refl Hm2)
        as [n [pushed [Heq [Hlen [Hts [l3 [la3 [Hg3 [Hin3 Hm3]]]]]]]]].
      simpl in Hin3.
      assert (Hred : next_action T (top_state (pushed ++ stk)) b = Reduce lhs gamma).
      { eapply item_reduce; eauto. rewrite Nat2N.id. exact Hq. }
      exists (n + 1)%nat, s'. split; [exact Htr|]. intros k.
      rewrite <- Nat.add_assoc. rewrite Heq. simpl. rewrite Hred.
      assert (Hpop : pop_count (length gamma) (length (pushed ++ stk)) = Some (length gamma)).
      { unfold pop_count. rewrite app_length, Hlen.
        replace (Nat.leb (length gamma) (length gamma + length stk)) with true; [reflexivity|].
        symmetry. apply Nat.leb_le. lia. }
      rewrite Hpop. rewrite <- Hlen.
      rewrite firstn_app, skipn_app, Nat.sub_diag, firstn_all, skipn_all. simpl. rewrite app_nil_r.
      rewrite Hts.
      unfold trans in Htr. rewrite (in_prods_nonterminal _ _ _ Hprod) in Htr. rewrite Htr. reflexivity.
    - (* nil *)
      intros i stk b rest' po d la rhs l Hg Hin Hr Hsk Hb.
      exists O, []. simpl. split; [intros k; rewrite Nat.add_0_r; reflexivity|].
      split; [reflexivity|]. split; [reflexivity|].
      rewrite Nat.add_0_r. exists l, la. auto.
    - (* cons *)
      intros X Xs t ts i w1 w2 Hd1 IH1 Hd2 IH2 stk b rest' po d la rhs l Hg Hin Hr Hsk Hb.
      destruct (skipn_cons_nth _ _ _ _ _ Hsk) as [Hn Hsk'].
      assert (Hfirst : forall c, hd b w2 = c ->
                mem (first_seq G F (skipn (S d) rhs)) c = true \/
                (nullable_seq G F (skipn (S d) rhs) = true /\ mem la c = true)).
      { intros c Hc. rewrite Hsk'. pose proof (proj2 (first_sound G F c_first) _ _ _ _ Hd2) as Hf.
        unfold first_prop_seq in Hf. destruct w2 as [|c2 w2]; simpl in Hc; subst.
        - right. split; assumption.
        - left. exact Hf. }
      assert (Hshape : exists c rest2, w2 ++ b :: rest' = c :: rest2 /\ hd b w2 = c).
      { destruct w2 as [|c2 w2]; simpl; eauto. }
      destruct Hshape as [c [rest2 [Hshape Hhd]]].
      destruct (IH1 stk c rest2 po d la rhs l Hg Hin Hr Hn (Hfirst c Hhd)) as [n1 [s' [Htr Heq1]]].
      destruct (item_step _ _ _ _ _ _ _ Hg Hin Hr Hn) as [s'' [Htr' Hcarry]].
      rewrite Htr in Htr'. inversion Htr'. subst s''.
      destruct (Hcarry b Hb) as [l1 [la1 [Hg1 [Hin1 Hm1]]]].
      destruct (IH2 ((s', t) :: stk) b rest' po (S d) la1 rhs l1 Hg1 Hin1 Hr Hsk' Hm1)
        as [n2 [pushed [Heq2 [Hlen [Hts Hholds]]]]].
      exists (n1 + n2)%nat, (pushed ++ [(s', t)]).
      split; [|split; [|split]].
      + intros k. rewrite <- app_assoc. rewrite Hshape. rewrite <- Nat.add_assoc. rewrite Heq1.
        rewrite <- Hshape. rewrite Heq2. rewrite <- app_assoc. simpl.
        rewrite app_length. rewrite Nat.add_assoc. reflexivity.
      + rewrite app_length. simpl. lia.
      + rewrite map_app, rev_app_distr. simpl. rewrite Hts. reflexivity.
      + rewrite <- app_assoc. simpl.
        replace (d + S (length Xs))%nat with (S d + length Xs)%nat by lia. exact Hholds.
  Qed.

  Theorem run_complete_gen : forall t toks, derives G (g_start G) t 0%nat toks ->
    exists n, forall k, run T (n + k) toks = Accepted t.
  Proof.
    intros t toks Hd.
    destruct c_init as [l0 [la0 [Hg0 [Hin0 Hm0]]]].
    pose proof (proj1 complete_aux _ _ _ _ Hd) as HP.
    destruct (HP [] (t_eoi T) [] None O la0 [g_start G] l0 Hg0 Hin0 eq_refl eq_refl
                 (or_intror (conj eq_refl Hm0))) as [n [s' [Htr Heq]]].
    destruct (item_step _ _ _ _ _ _ _ Hg0 Hin0 (eq_refl : rhs_of G None = Some [g_start G]) eq_refl)
      as [s'' [Htr' Hcarry]].
    simpl in Htr, Htr'. rewrite Htr in Htr'. inversion Htr'. subst s''.
    destruct (Hcarry _ Hm0) as [l1 [la1 [Hg1 [Hin1 Hm1]]]].
    pose proof (item_accept _ _ _ Hg1 Hin1 Hm1) as Hacc.
    exists (n + 1)%nat. intros k. unfold run. rewrite <- Nat.add_assoc. rewrite Heq. simpl.
    rewrite Hacc. rewrite N.eqb_refl. reflexivity.
  Qed.
End Completeness.

(* Every derivation tree of the start symbol is returned, given enough fuel. *)
Theorem run_complete : forall G T I F t toks,
  check_complete G T I F = true -> derives G (g_start G) t 0%nat toks ->
  exists n, forall fuel, (n <= fuel)%nat -> run T fuel toks = Accepted t.
Proof.
  intros G T I F t toks Hc Hd. destruct (run_complete_gen G T I F Hc t toks Hd) as [n Hn].
  exists n. intros fuel Hle. replace fuel with (n + (fuel - n))%nat by lia. apply Hn.
Qed.

(* An error at token index i means that no sentence of the grammar starts with tokens
   0..i (in particular the rejected input is not a sentence). *)
Theorem error_not_late : forall G T I F fuel toks c i tok st e,
  check_complete G T I F = true ->
  run T fuel toks = Rejected c i tok st e ->
  forall toks' t, firstn (S i) toks' = firstn (S i) toks -> ~ derives G (g_start G) t 0%nat toks'.
Proof.
  intros G T I F fuel toks c i tok st e Hc Hr toks' t Hf Hd.
  destruct (run_complete_gen G T I F Hc t toks' Hd) as [n Hn].
  symmetry in Hf. pose proof (run_prefix_det T fuel toks toks' c i tok st e Hf Hr) as Hr'.
  unfold run in Hr'. pose proof (loop_fuel_mono _ _ _ _ _ _ Hr') as Hm.
  assert (Hne : Rejected c i tok st e <> OutOfFuel) by discriminate.
  specialize (Hm Hne n). specialize (Hn fuel). unfold run in Hn.
  rewrite Nat.add_comm in Hn. rewrite Hn in Hm. discriminate.
Qed.

(* On a sentence, whatever `run` returns before running out of fuel is its tree:
   no crash, no error, no other tree. *)
Theorem sentence_result : forall G T I F t toks fuel,
  check_complete G T I F = true -> derives G (g_start G) t 0%nat toks ->
  run T fuel toks = Accepted t \/ run T fuel toks = OutOfFuel.
Proof.
  intros G T I F t toks fuel Hc Hd. destruct (run_complete_gen G T I F Hc t toks Hd) as [n Hn].
  assert (Hgen : forall r, run T fuel toks = r -> r <> OutOfFuel -> r = Accepted t).
  { intros r E Hne. unfold run in E. pose proof (loop_fuel_mono _ _ _ _ _ _ E Hne n) as Hm.
    specialize (Hn fuel). unfold run in Hn. rewrite Nat.add_comm in Hn. rewrite Hn in Hm.
    symmetry. exact Hm. }
  destruct (run T fuel toks) as [t0|c i tok st e|k|] eqn:E.
  - left. apply Hgen; [reflexivity|discriminate].
  - left. apply Hgen; [reflexivity|discriminate].
  - left. apply Hgen; [reflexivity|discriminate].
  - right. reflexivity.
Qed.

(* Tables that pass check_complete exist only for unambiguous grammars: two derivation
   trees of the same token string are equal. *)
Theorem unambiguous : forall G T I F t1 t2 toks,
  check_complete G T I F = true ->
  derives G (g_start G) t1 0%nat toks -> derives G (g_start G) t2 0%nat toks -> t1 = t2.
Proof.
  intros G T I F t1 t2 toks Hc H1 H2.
  destruct (run_complete_gen G T I F Hc t1 toks H1) as [n1 E1].
  destruct (run_complete_gen G T I F Hc t2 toks H2) as [n2 E2].
  specialize (E1 n2). specialize (E2 n1). rewrite Nat.add_comm in E2. rewrite E1 in E2.
  inversion E2. reflexivity.
Qed.
