(* LR/GenExec.v -- executable glue for the C08 harness (definitions only), part 2:
   evaluation of the certificates of LR/GenCert2.v, (a) on the model generator's own tables and
   (b) on the tables and item sets lr1.py built (dumped as lines for LR/Exec.final).

   gen_certify G eoi sp sf  ->  [1; check_sound (scert_of); check_early; all_productive; check_productive (pcert_of);
                                 gen_clean; n; (X rank)^n]   the ranks of prod_marks sorted as computed
                              |  [2; stage]                  out of fuel
   lr1_certify lines g slot ->  [check_sound G T (scert_of_icert G Its); check_productive G (pcert_of G)]
                                 for the grammar in slot g and lr1.py's tables T / item cores Its in slot `slot`:
                                 the known-suffix certificate is built from lr1.py's OWN item sets with the same
                                 function (longest symbols-before-the-dot) and must validate lr1.py's OWN tables. *)
From Coq Require Import Arith NArith PArith List Bool FMapPositive.
Require Import EmbossV.LR.Driver EmbossV.LR.Sound EmbossV.LR.Complete EmbossV.LR.Early EmbossV.LR.Gen
               EmbossV.LR.GenCert EmbossV.LR.GenCert2 EmbossV.LR.Exec.
Import ListNotations.
Open Scope N_scope.

Definition before_dot_core (G : grammar) (c : core) : list N := rev (firstn (snd c) (prod_rhs G (fst c))).

Definition ksuf_cores (G : grammar) (l : list item) : list N :=
  fold_left (fun acc it => longer acc (before_dot_core G (fst it))) l [].

Definition scert_of_icert (G : grammar) (Its : icert) : cert := PositiveMap.map (ksuf_cores G) Its.

Definition enc_marks (m : list (N * N)) : list N := nlen m :: flat_map (fun e => [fst e; snd e]) m.

Definition gen_certify (G : grammar) (eoi sp : N) (sf : nat) : list N :=
  match generate G eoi sp (first_fuel G) (closure_fuel G) sf with
  | GenOk r =>
      [1; b2n (check_sound G (g_tables r) (scert_of G (g_states r)));
          b2n (check_early G (g_tables r) (icert_of (g_states r)));
          b2n (all_productive G); b2n (check_productive G (pcert_of G)); b2n (gen_clean r)]
      ++ enc_marks (prod_marks G)
  | GenOutOfFuel stage => [2; stage]
  end.

Definition lr1_certify (lines : list (list N)) (g slot : N) : list N :=
  let s := final lines in
  let G := slot_grammar s g in
  [b2n (check_sound G (slot_tables s slot) (scert_of_icert G (slot_items s slot)));
   b2n (check_productive G (pcert_of G))].

(* one case of the harness: (lines, g, slot, eoi, sp, collection fuel; 0 = skip the model generator) *)
Definition certify (c : list (list N) * N * N * N * N * N) : list N :=
  match c with
  | (lines, g, slot, eoi, sp, sf) =>
      lr1_certify lines g slot ++
      (if N.eqb sf 0 then [0] else gen_certify (slot_grammar (final lines) g) eoi sp (N.to_nat sf))
  end.

