(* LR/GenProofs.v -- proofs about the model generator LR/Gen.v, part 1:
   list sets, FIRST (first_sound, first_complete, fuel bound), closure, goto. *)
From Coq Require Import Arith NArith PArith List Bool Lia FMapPositive.
Require Import EmbossV.LR.Driver EmbossV.LR.Sound EmbossV.LR.Complete EmbossV.LR.Gen.
Import ListNotations.
Open Scope N_scope.

(* ---------------------------------------------------------------- list sets *)

Section ListSet.
  Context {A : Type}.
  Variable eqb : A -> A -> bool.
  Hypothesis eqb_spec : forall x y, eqb x y = true <-> x = y.

  Lemma memb_In : forall x l, memb eqb x l = true <-> In x l.
  Proof.
    unfold memb. intros x l. rewrite existsb_exists. split.
    - intros [y [Hy He]]. apply eqb_spec in He. subst. exact Hy.
    - intros H. exists x. split; [exact H|]. apply eqb_spec. reflexivity.
  Qed.

  Lemma memb_false : forall x l, memb eqb x l = false <-> ~ In x l.
  Proof.
    intros x l. split.
    - intros H Hin. apply memb_In in Hin. congruence.
    - intros H. destruct (memb eqb x l) eqn:E; [|reflexivity]. apply memb_In in E. contradiction.
  Qed.

  Lemma In_dec_b : forall (x : A) (l : list A), In x l \/ ~ In x l.
  Proof. intros x l. destruct (memb eqb x l) eqn:E; [left; apply memb_In; exact E|right; apply memb_false; exact E]. Qed.

  Lemma fresh_In : forall new acc x, In x (fresh eqb acc new) <-> In x new /\ ~ In x acc.
  Proof.
    induction new as [|y r IH]; intros acc x; simpl.
    - tauto.
    - destruct (memb eqb y acc) eqn:E.
      + rewrite IH. apply memb_In in E. split.
        * intros [H1 H2]. auto.
        * intros [[H|H] H2]; [subst; contradiction|auto].
      + apply memb_false in E. simpl. rewrite IH. simpl. split.
        * intros [H1|[H1 H2]]; [subst; auto|]. split; auto.
        * intros [[H1|H1] H2]; [auto|].
          destruct (eqb y x) eqn:Eyx.
          -- apply eqb_spec in Eyx. auto.
          -- right. split; [exact H1|]. intros [H|H]; [|contradiction].
             apply eqb_spec in H. congruence.
  Qed.

  Lemma fresh_NoDup : forall new acc, NoDup (fresh eqb acc new).
  Proof.
    induction new as [|y r IH]; intros acc; simpl; [constructor|].
    destruct (memb eqb y acc); [apply IH|].
    constructor; [|apply IH]. intros H. apply fresh_In in H. destruct H as [_ H]. apply H. left. reflexivity.
  Qed.

  Lemma app_fresh_In : forall acc new x, In x (acc ++ fresh eqb acc new) <-> In x acc \/ In x new.
  Proof.
    intros acc new x. rewrite in_app_iff, fresh_In. split.
    - intros [H|[H _]]; auto.
    - intros [H|H]; [auto|]. destruct (In_dec_b x acc); auto.
  Qed.

  Lemma app_fresh_NoDup : forall acc new, NoDup acc -> NoDup (acc ++ fresh eqb acc new).
  Proof.
    intros acc new H. induction acc as [|a acc IH] in new, H |- *.
    - simpl. apply fresh_NoDup.
    - assert (Hg : forall l1 l2 : list A, NoDup l1 -> NoDup l2 -> (forall x, In x l1 -> ~ In x l2) -> NoDup (l1 ++ l2)).
      { clear. induction l1 as [|b l1 IH1]; intros l2 H1 H2 Hd; simpl; [exact H2|].
        inversion H1; subst. constructor.
        - rewrite in_app_iff. intros [Hb|Hb]; [contradiction|]. apply (Hd b); [left; reflexivity|exact Hb].
        - apply IH1; auto. intros x Hx. apply Hd. right. exact Hx. }
      apply Hg; [exact H|apply fresh_NoDup|].
      intros x Hx Hf. apply fresh_In in Hf. destruct Hf as [_ Hf]. contradiction.
  Qed.
End ListSet.

Lemma oN_eqb_spec : forall a b, oN_eqb a b = true <-> a = b.
Proof.
  intros [a|] [b|]; simpl; split; intros H; try discriminate; try reflexivity.
  - apply N.eqb_eq in H. subst. reflexivity.
  - inversion H. apply N.eqb_refl.
Qed.

Lemma fentry_eqb_spec : forall a b, fentry_eqb a b = true <-> a = b.
Proof.
  intros [a1 a2] [b1 b2]. unfold fentry_eqb. simpl. rewrite andb_true_iff, N.eqb_eq, oN_eqb_spec.
  split; [intros [H1 H2]; subst; reflexivity|intros H; inversion H; auto].
Qed.

Lemma litem_eqb_spec : forall a b, litem_eqb a b = true <-> a = b.
Proof.
  intros [p d a] [p' d' a']. unfold litem_eqb. simpl.
  rewrite !andb_true_iff, oN_eqb_spec, Nat.eqb_eq, N.eqb_eq.
  split; [intros [[H1 H2] H3]; subst; reflexivity|intros H; inversion H; auto].
Qed.

Lemma Neqb_spec : forall a b : N, N.eqb a b = true <-> a = b.
Proof. intros. apply N.eqb_eq. Qed.

(* ---------------------------------------------------------------- FIRST: membership lemmas *)

Lemma firsts_of_In : forall G tab X o,
  In o (firsts_of G tab X) <->
  (is_nonterminal G X = true /\ In (X, o) tab) \/ (is_nonterminal G X = false /\ o = Some X).
Proof.
  intros G tab X o. unfold firsts_of. destruct (is_nonterminal G X).
  - rewrite in_map_iff. split.
    + intros [[Y o'] [H1 H2]]. simpl in H1. subst o'. apply filter_In in H2. destruct H2 as [H2 H3].
      simpl in H3. apply N.eqb_eq in H3. subst Y. left. auto.
    + intros [[_ H]|[H _]]; [|discriminate]. exists (X, o). split; [reflexivity|].
      apply filter_In. split; [exact H|]. simpl. apply N.eqb_refl.
  - simpl. split.
    + intros [H|[]]. right. auto.
    + intros [[H _]|[_ H]]; [discriminate|]. left. auto.
Qed.

Lemma filter_is_some_In : forall (l : list (option N)) o, In o (filter is_some l) <-> In o l /\ o <> None.
Proof.
  intros l o. rewrite filter_In. destruct o; simpl.
  - split; intros [H1 H2]; split; auto. discriminate.
  - split; intros [H1 H2]; [discriminate|]. exfalso. apply H2. reflexivity.
Qed.

Lemma first_seq_cons_some : forall G tab X r t,
  In (Some t) (first_seq G tab (X :: r)) <->
  In (Some t) (firsts_of G tab X) \/ (In None (firsts_of G tab X) /\ In (Some t) (first_seq G tab r)).
Proof.
  intros G tab X r t. cbn [first_seq]. rewrite in_app_iff, filter_is_some_In.
  destruct (memb oN_eqb None (firsts_of G tab X)) eqn:E.
  - apply (memb_In _ oN_eqb_spec) in E. split.
    + intros [[H _]|H]; auto.
    + intros [H|[_ H]]; [left; split; [exact H|discriminate]|auto].
  - apply (memb_false _ oN_eqb_spec) in E. split.
    + intros [[H _]|[]]. auto.
    + intros [H|[H _]]; [left; split; [exact H|discriminate]|contradiction].
Qed.

Lemma first_seq_cons_none : forall G tab X r,
  In None (first_seq G tab (X :: r)) <-> In None (firsts_of G tab X) /\ In None (first_seq G tab r).
Proof.
  intros G tab X r. cbn [first_seq]. rewrite in_app_iff, filter_is_some_In.
  destruct (memb oN_eqb None (firsts_of G tab X)) eqn:E.
  - apply (memb_In _ oN_eqb_spec) in E. split.
    + intros [[_ H]|H]; [congruence|auto].
    + intros [_ H]. auto.
  - apply (memb_false _ oN_eqb_spec) in E. split.
    + intros [[_ H]|[]]. congruence.
    + intros [H _]. contradiction.
Qed.

Lemma first_round_In : forall G tab e,
  In e (first_round G tab) <-> exists rhs, In (fst e, rhs) (g_prods G) /\ In (snd e) (first_seq G tab rhs).
Proof.
  intros G tab [X o]. unfold first_round. rewrite in_flat_map. simpl. split.
  - intros [[lhs rhs] [H1 H2]]. simpl in H2. apply in_map_iff in H2. destruct H2 as [o' [H2 H3]].
    inversion H2. subst. exists rhs. auto.
  - intros [rhs [H1 H2]]. exists (X, rhs). split; [exact H1|]. simpl. apply in_map_iff. exists o. auto.
Qed.

(* ---------------------------------------------------------------- sentential derivations *)

Lemma sder_list_refl : forall G l, sder_list G l l.
Proof.
  induction l as [|X l IH]; [constructor|].
  change (X :: l) with ([X] ++ l) at 2. constructor; [constructor|exact IH].
Qed.

Lemma derives_sder : forall G,
  (forall X t i w, derives G X t i w -> sder G X w) /\
  (forall Xs ts i w, derives_list G Xs ts i w -> sder_list G Xs w).
Proof.
  intros G. apply derives_mutind; intros.
  - constructor.
  - eapply SD_prod; eauto.
  - constructor.
  - constructor; assumption.
Qed.

(* ---------------------------------------------------------------- FIRST: soundness *)

Definition entry_ok (G : grammar) (X : N) (o : option N) : Prop :=
  match o with
  | Some t => is_nonterminal G t = false /\ exists w, sder G X (t :: w)
  | None => sder G X []
  end.

Definition tab_sound (G : grammar) (tab : list fentry) : Prop :=
  forall X o, In (X, o) tab -> is_nonterminal G X = true /\ entry_ok G X o.

Definition seq_ok (G : grammar) (l : list N) (o : option N) : Prop :=
  match o with
  | Some t => starts_with G l t
  | None => nullable_str G l
  end.

Lemma firsts_of_sound : forall G tab, tab_sound G tab -> forall X o, In o (firsts_of G tab X) -> entry_ok G X o.
Proof.
  intros G tab Hs X o H. apply firsts_of_In in H. destruct H as [[Hn H]|[Hn H]].
  - apply Hs in H. tauto.
  - subst o. simpl. split; [exact Hn|]. exists []. constructor.
Qed.

Lemma first_seq_sound : forall G tab, tab_sound G tab -> forall l o, In o (first_seq G tab l) -> seq_ok G l o.
Proof.
  intros G tab Hs. induction l as [|X r IH]; intros o H.
  - simpl in H. destruct H as [H|[]]. subst o. simpl. constructor.
  - destruct o as [t|].
    + apply first_seq_cons_some in H. destruct H as [H|[H1 H2]].
      * apply (firsts_of_sound _ _ Hs) in H. simpl in H. destruct H as [Ht [w Hw]].
        split; [exact Ht|]. exists (w ++ r). change (t :: w ++ r) with ((t :: w) ++ r).
        constructor; [exact Hw|apply sder_list_refl].
      * apply (firsts_of_sound _ _ Hs) in H1. simpl in H1. apply IH in H2. simpl in H2.
        destruct H2 as [Ht [w Hw]]. split; [exact Ht|]. exists w.
        exact (SDL_cons G X r [] (t :: w) H1 Hw).
    + apply first_seq_cons_none in H. destruct H as [H1 H2].
      apply (firsts_of_sound _ _ Hs) in H1. simpl in H1. apply IH in H2. simpl in H2.
      unfold nullable_str in *. exact (SDL_cons G X r [] [] H1 H2).
Qed.

Lemma seq_ok_entry : forall G lhs rhs o, In (lhs, rhs) (g_prods G) -> seq_ok G rhs o -> entry_ok G lhs o.
Proof.
  intros G lhs rhs o Hin H. destruct o as [t|]; simpl in *.
  - destruct H as [Ht [w Hw]]. split; [exact Ht|]. exists w. eapply SD_prod; eauto.
  - eapply SD_prod; eauto.
Qed.

Lemma first_round_sound : forall G tab, tab_sound G tab -> forall X o, In (X, o) (first_round G tab) ->
  is_nonterminal G X = true /\ entry_ok G X o.
Proof.
  intros G tab Hs X o H. apply first_round_In in H. simpl in H. destruct H as [rhs [H1 H2]].
  split; [eapply in_prods_nonterminal; eauto|].
  eapply seq_ok_entry; eauto. eapply first_seq_sound; eauto.
Qed.

Lemma first_fix_sound : forall G fuel tab tab', tab_sound G tab -> first_fix G fuel tab = Some tab' -> tab_sound G tab'.
Proof.
  intros G. induction fuel as [|f IH]; intros tab tab' Hs H; [discriminate|].
  simpl in H. destruct (fresh fentry_eqb tab (first_round G tab)) as [|e new] eqn:E.
  - inversion H. subst. exact Hs.
  - apply IH in H; [exact H|]. intros X o Hin. apply in_app_iff in Hin. destruct Hin as [Hin|Hin]; [auto|].
    rewrite <- E in Hin. apply (fresh_In _ fentry_eqb_spec) in Hin. destruct Hin as [Hin _].
    eapply first_round_sound; eauto.
Qed.

Lemma first_table_sound : forall G fuel tab, first_table G fuel = Some tab -> tab_sound G tab.
Proof. intros G fuel tab H. eapply first_fix_sound; [|exact H]. intros X o []. Qed.

(* t in FIRST(alpha) computed  ->  alpha =>* t w for a terminal t;  epsilon in it  ->  alpha =>* empty *)
Theorem first_sound : forall G fuel tab alpha,
  first_table G fuel = Some tab ->
  (forall t, In (Some t) (first_seq G tab alpha) -> starts_with G alpha t) /\
  (In None (first_seq G tab alpha) -> nullable_str G alpha).
Proof.
  intros G fuel tab alpha H. apply first_table_sound in H. split.
  - intros t Ht. exact (first_seq_sound _ _ H _ _ Ht).
  - intros Hn. exact (first_seq_sound _ _ H _ _ Hn).
Qed.

(* ---------------------------------------------------------------- FIRST: completeness *)

Lemma first_stable_spec : forall G tab, first_stable G tab = true <->
  (forall e, In e (first_round G tab) -> In e tab).
Proof.
  intros G tab. unfold first_stable. rewrite forallb_forall. split; intros H e He.
  - apply (memb_In _ fentry_eqb_spec). auto.
  - apply (memb_In _ fentry_eqb_spec). auto.
Qed.

Lemma first_fix_stable : forall G fuel tab tab', first_fix G fuel tab = Some tab' -> first_stable G tab' = true.
Proof.
  intros G. induction fuel as [|f IH]; intros tab tab' H; [discriminate|].
  simpl in H. destruct (fresh fentry_eqb tab (first_round G tab)) as [|e new] eqn:E.
  - inversion H. subst. apply first_stable_spec. intros e He.
    destruct (In_dec_b _ fentry_eqb_spec e tab') as [Hi|Hi]; [exact Hi|].
    assert (Hf : In e (fresh fentry_eqb tab' (first_round G tab'))) by (apply (fresh_In _ fentry_eqb_spec); auto).
    rewrite E in Hf. destruct Hf.
  - eapply IH. exact H.
Qed.

Definition sym_complete (G : grammar) (tab : list fentry) (X : N) (w : list N) : Prop :=
  match w with
  | [] => In None (firsts_of G tab X)
  | t :: _ => is_nonterminal G t = false -> In (Some t) (firsts_of G tab X)
  end.

Definition seq_complete (G : grammar) (tab : list fentry) (l : list N) (w : list N) : Prop :=
  match w with
  | [] => In None (first_seq G tab l)
  | t :: _ => is_nonterminal G t = false -> In (Some t) (first_seq G tab l)
  end.

Lemma first_complete_gen : forall G tab, first_stable G tab = true ->
  (forall X w, sder G X w -> sym_complete G tab X w) /\
  (forall l w, sder_list G l w -> seq_complete G tab l w).
Proof.
  intros G tab Hst. rewrite first_stable_spec in Hst. apply sder_mutind.
  - intros X. simpl. intros Hn. apply firsts_of_In. right. auto.
  - intros lhs rhs w Hin _ IH.
    assert (Hnt : is_nonterminal G lhs = true) by (eapply in_prods_nonterminal; eauto).
    assert (Hadd : forall o, In o (first_seq G tab rhs) -> In o (firsts_of G tab lhs)).
    { intros o Ho. apply firsts_of_In. left. split; [exact Hnt|]. apply Hst.
      apply first_round_In. exists rhs. auto. }
    destruct w as [|t w]; simpl in *; auto.
  - simpl. left. reflexivity.
  - intros X Xs w1 w2 _ IH1 _ IH2. destruct w1 as [|t w1]; simpl in *.
    + destruct w2 as [|t w2]; simpl in *.
      * apply first_seq_cons_none. auto.
      * intros Ht. apply first_seq_cons_some. right. auto.
    + intros Ht. apply first_seq_cons_some. left. auto.
Qed.

(* whatever first_table returns is a fixed point, and a fixed point contains every terminal
   that can start a sentential form derived from alpha (and epsilon when alpha is nullable) *)
Theorem first_complete : forall G fuel tab alpha,
  first_table G fuel = Some tab ->
  (forall t, starts_with G alpha t -> In (Some t) (first_seq G tab alpha)) /\
  (nullable_str G alpha -> In None (first_seq G tab alpha)).
Proof.
  intros G fuel tab alpha H. apply first_fix_stable in H.
  destruct (first_complete_gen G tab H) as [_ Hl]. split.
  - intros t [Ht [w Hw]]. exact (Hl _ _ Hw Ht).
  - intros Hn. exact (Hl _ _ Hn).
Qed.

Theorem first_complete_stable : forall G tab alpha,
  first_stable G tab = true ->
  (forall t, starts_with G alpha t -> In (Some t) (first_seq G tab alpha)) /\
  (nullable_str G alpha -> In None (first_seq G tab alpha)).
Proof.
  intros G tab alpha H. destruct (first_complete_gen G tab H) as [_ Hl]. split.
  - intros t [Ht [w Hw]]. exact (Hl _ _ Hw Ht).
  - intros Hn. exact (Hl _ _ Hn).
Qed.

(* ---------------------------------------------------------------- closure *)

Lemma somes_In : forall l t, In t (somes l) <-> In (Some t) l.
Proof.
  intros l t. unfold somes. rewrite in_flat_map. split.
  - intros [[u|] [H1 H2]]; simpl in H2; [|destruct H2]. destruct H2 as [H2|[]]. subst. exact H1.
  - intros H. exists (Some t). split; [exact H|]. left. reflexivity.
Qed.

Lemma prods_of_from_In : forall B ps i q,
  In q (prods_of_from B i ps) <-> exists k gamma, nth_error ps k = Some (B, gamma) /\ q = i + N.of_nat k.
Proof.
  intros B. induction ps as [|[l r] ps IH]; intros i q; simpl.
  - split; [intros []|]. intros [k [gamma [H _]]]. destruct k; discriminate.
  - assert (Hshift : (exists k gamma, nth_error ps k = Some (B, gamma) /\ q = N.succ i + N.of_nat k) <->
                     (exists k gamma, nth_error ((l, r) :: ps) (S k) = Some (B, gamma) /\ q = i + N.of_nat (S k))).
    { split; intros [k [gamma [H1 H2]]]; exists k, gamma; simpl in *; split; auto; lia. }
    destruct (N.eqb l B) eqn:E.
    + apply N.eqb_eq in E. subst l. simpl. rewrite IH, Hshift. split.
      * intros [H|[k [gamma [H1 H2]]]].
        -- exists O, r. simpl. split; [reflexivity|lia].
        -- exists (S k), gamma. auto.
      * intros [[|k] [gamma [H1 H2]]].
        -- left. simpl in H2. lia.
        -- right. exists k, gamma. auto.
    + rewrite IH, Hshift. split.
      * intros [k [gamma [H1 H2]]]. exists (S k), gamma. auto.
      * intros [[|k] [gamma [H1 H2]]].
        -- simpl in H1. inversion H1. subst. rewrite N.eqb_refl in E. discriminate.
        -- exists k, gamma. auto.
Qed.

Lemma prods_of_In : forall G B q,
  In q (prods_of G B) <-> exists gamma, nth_error (g_prods G) (N.to_nat q) = Some (B, gamma).
Proof.
  intros G B q. unfold prods_of. rewrite prods_of_from_In. split.
  - intros [k [gamma [H1 H2]]]. exists gamma. subst q. simpl. rewrite Nat2N.id. exact H1.
  - intros [gamma H]. exists (N.to_nat q), gamma. split; [exact H|]. rewrite N2Nat.id. reflexivity.
Qed.

Lemma single_level_In : forall G tab it new,
  In new (single_level G tab it) <->
  exists B q u, next_sym G it = Some B /\ In q (prods_of G B) /\ In u (item_las G tab it) /\ new = mk_item (Some q) 0 u.
Proof.
  intros G tab it new. unfold single_level. destruct (next_sym G it) as [B|].
  - rewrite in_flat_map. split.
    + intros [q [H1 H2]]. apply in_map_iff in H2. destruct H2 as [u [H2 H3]]. exists B, q, u. auto.
    + intros [B' [q [u [H1 [H2 [H3 H4]]]]]]. inversion H1. subst B'. exists q. split; [exact H2|].
      apply in_map_iff. exists u. auto.
  - split; [intros []|]. intros [B [q [u [H _]]]]. discriminate.
Qed.

(* with a FIRST table computed by first_table, the items one item adds are exactly `adds` *)
Lemma single_level_adds : forall G tab it new, tab_sound G tab -> first_stable G tab = true ->
  (In new (single_level G tab it) <-> adds G it new).
Proof.
  intros G tab it new Hs Hst. rewrite single_level_In. unfold adds. split.
  - intros [B [q [u [H1 [H2 [H3 H4]]]]]]. apply prods_of_In in H2. destruct H2 as [gamma H2].
    exists B, q, gamma, u. split; [exact H1|]. split; [exact H2|]. split; [|exact H4].
    unfold item_las in H3. apply somes_In in H3. exact (first_seq_sound _ _ Hs _ _ H3).
  - intros [B [q [gamma [u [H1 [H2 [H3 H4]]]]]]]. exists B, q, u.
    split; [exact H1|]. split; [|split; [|exact H4]].
    + apply prods_of_In. exists gamma. exact H2.
    + unfold item_las. apply somes_In. apply (first_complete_stable G tab _ Hst). exact H3.
Qed.

Section Closure.
  Variable G : grammar.
  Variable tab : list fentry.

  Definition sl_closed (R : list litem) : Prop :=
    forall it new, In it R -> In new (single_level G tab it) -> In new R.

  Lemma closure_loop_closed : forall fuel todo acc R,
    closure_loop G tab fuel todo acc = Some R ->
    (forall it, In it acc -> In it todo \/ forall new, In new (single_level G tab it) -> In new acc) ->
    incl acc R /\ sl_closed R.
  Proof.
    induction fuel as [|f IH]; intros todo acc R H Hinv; [discriminate|].
    simpl in H. destruct todo as [|it rest].
    - inversion H. subst. split; [apply incl_refl|].
      intros x new Hx Hn. destruct (Hinv _ Hx) as [[]|Hc]. auto.
    - apply IH in H.
      + destruct H as [H1 H2]. split; [|exact H2]. intros x Hx. apply H1. apply in_app_iff. auto.
      + intros x Hx. apply (app_fresh_In _ litem_eqb_spec) in Hx.
        assert (Hit : forall new, In new (single_level G tab it) ->
                                  In new (acc ++ fresh litem_eqb acc (single_level G tab it))).
        { intros new Hn. apply (app_fresh_In _ litem_eqb_spec). auto. }
        destruct Hx as [Hx|Hx].
        * destruct (Hinv _ Hx) as [[Hx'|Hx']|Hc].
          -- subst x. right. exact Hit.
          -- left. apply in_app_iff. auto.
          -- right. intros new Hn. apply in_app_iff. left. auto.
        * destruct (In_dec_b _ litem_eqb_spec x acc) as [Ha|Ha].
          -- destruct (Hinv _ Ha) as [[Hx'|Hx']|Hc].
             ++ subst x. right. exact Hit.
             ++ left. apply in_app_iff. auto.
             ++ right. intros new Hn. apply in_app_iff. left. auto.
          -- left. apply in_app_iff. right. apply (fresh_In _ litem_eqb_spec). auto.
  Qed.

  Lemma closure_loop_inv : forall (P : litem -> Prop),
    (forall it new, P it -> In new (single_level G tab it) -> P new) ->
    forall fuel todo acc R, closure_loop G tab fuel todo acc = Some R ->
    (forall it, In it todo -> P it) -> (forall it, In it acc -> P it) -> forall it, In it R -> P it.
  Proof.
    intros P HP. induction fuel as [|f IH]; intros todo acc R H Ht Ha; [discriminate|].
    simpl in H. destruct todo as [|it rest].
    - inversion H. subst. exact Ha.
    - assert (Hnew : forall x, In x (fresh litem_eqb acc (single_level G tab it)) -> P x).
      { intros x Hx. apply (fresh_In _ litem_eqb_spec) in Hx. destruct Hx as [Hx _].
        eapply HP; [|exact Hx]. apply Ht. left. reflexivity. }
      eapply IH; [exact H| |].
      + intros x Hx. apply in_app_iff in Hx. destruct Hx as [Hx|Hx]; [apply Ht; right; exact Hx|auto].
      + intros x Hx. apply in_app_iff in Hx. destruct Hx as [Hx|Hx]; auto.
  Qed.

  Hypothesis Hs : tab_sound G tab.
  Hypothesis Hst : first_stable G tab = true.

  Lemma closure_item_exact : forall fuel root R, closure_item G tab fuel root = Some R ->
    forall x, In x R <-> in_closure G root x.
  Proof.
    intros fuel root R H x. unfold closure_item in H. split.
    - revert x. eapply (closure_loop_inv (in_closure G root)); [|exact H| |].
      + intros it new Hi Hn. eapply IC_step; [exact Hi|]. apply (single_level_adds G tab it new Hs Hst). exact Hn.
      + intros it [Hi|[]]. subst. constructor.
      + intros it [Hi|[]]. subst. constructor.
    - apply closure_loop_closed in H.
      + destruct H as [H1 H2]. induction 1 as [|it new Hi IH Ha].
        * apply H1. left. reflexivity.
        * eapply H2; [exact IH|]. apply (single_level_adds G tab it new Hs Hst). exact Ha.
      + intros it Hi. left. exact Hi.
  Qed.

  Lemma in_closure_trans : forall root it x, in_closure G root it -> in_closure G it x -> in_closure G root x.
  Proof. intros root it x H1 H2. induction H2; [exact H1|]. eapply IC_step; eauto. Qed.

  Lemma union_closures_exact : forall fuel its acc R, union_closures G tab fuel its acc = Some R ->
    forall x, In x R <-> In x acc \/ exists k, In k its /\ in_closure G k x.
  Proof.
    intros fuel. induction its as [|k its IH]; intros acc R H x; simpl in H.
    - inversion H. subst. split; [auto|]. intros [Hx|[k [[] _]]]. exact Hx.
    - destruct (closure_item G tab fuel k) as [c|] eqn:Ec; [|discriminate].
      rewrite (IH _ _ H x). rewrite (app_fresh_In _ litem_eqb_spec). rewrite (closure_item_exact _ _ _ Ec). split.
      + intros [[Hx|Hx]|[k' [H1 H2]]]; [auto| |].
        * right. exists k. split; [left; reflexivity|exact Hx].
        * right. exists k'. split; [right; exact H1|exact H2].
      + intros [Hx|[k' [[H1|H1] H2]]]; [auto| |].
        * subst k'. left. right. exact H2.
        * right. exists k'. auto.
  Qed.

  Lemma goto_exact : forall fuel I X J, goto G tab fuel I X = Some J ->
    forall x, In x J <-> in_goto G I X x.
  Proof.
    intros fuel I X J H x. unfold goto in H. rewrite (union_closures_exact _ _ _ _ H x). unfold in_goto. split.
    - intros [[]|[k' [H1 H2]]]. apply in_map_iff in H1. destruct H1 as [k [H1 H3]]. subst k'.
      apply filter_In in H3. destruct H3 as [H3 H4]. unfold moves_on in H4.
      destruct (next_sym G k) as [Y|] eqn:En; [|discriminate]. apply N.eqb_eq in H4. subst Y.
      exists k. auto.
    - intros [k [H1 [H2 H3]]]. right. exists (advance k). split; [|exact H3].
      apply in_map_iff. exists k. split; [reflexivity|]. apply filter_In. split; [exact H1|].
      unfold moves_on. rewrite H2. apply N.eqb_refl.
  Qed.
End Closure.

Lemma in_closure_closed : forall G root it new, in_closure G root it -> adds G it new -> in_closure G root new.
Proof. intros. eapply IC_step; eauto. Qed.

(* ---------------------------------------------------------------- FIRST: the fuel bound *)

Definition first_universe (G : grammar) : list fentry :=
  list_prod (all_syms G) (None :: map Some (all_syms G)).

Lemma all_syms_In : forall G x, In x (all_syms G) <-> In x (flat_map (fun p => fst p :: snd p) (g_prods G)).
Proof. intros G x. unfold all_syms. rewrite (fresh_In _ Neqb_spec). simpl. tauto. Qed.

Lemma prod_syms : forall G lhs rhs, In (lhs, rhs) (g_prods G) -> In lhs (all_syms G) /\ forall Y, In Y rhs -> In Y (all_syms G).
Proof.
  intros G lhs rhs H. split; [|intros Y HY]; apply all_syms_In; apply in_flat_map; exists (lhs, rhs); simpl; auto.
Qed.

Lemma first_seq_universe : forall G tab, incl tab (first_universe G) ->
  forall l, (forall Y, In Y l -> In Y (all_syms G)) ->
  forall o, In o (first_seq G tab l) -> In o (None :: map Some (all_syms G)).
Proof.
  intros G tab Hu. induction l as [|X r IH]; intros Hl o Ho.
  - simpl in Ho. destruct Ho as [Ho|[]]. subst. left. reflexivity.
  - destruct o as [t|]; [|left; reflexivity].
    apply first_seq_cons_some in Ho. destruct Ho as [Ho|[_ Ho]].
    + apply firsts_of_In in Ho. destruct Ho as [[_ Ho]|[_ Ho]].
      * apply Hu in Ho. unfold first_universe in Ho. apply in_prod_iff in Ho. tauto.
      * inversion Ho. subst. right. apply in_map. apply Hl. left. reflexivity.
    + apply IH; [|exact Ho]. intros Y HY. apply Hl. right. exact HY.
Qed.

Lemma first_round_universe : forall G tab, incl tab (first_universe G) -> incl (first_round G tab) (first_universe G).
Proof.
  intros G tab Hu [X o] H. apply first_round_In in H. simpl in H. destruct H as [rhs [H1 H2]].
  destruct (prod_syms _ _ _ H1) as [HX Hr]. unfold first_universe. apply in_prod_iff. split; [exact HX|].
  eapply first_seq_universe; eauto.
Qed.

Lemma first_fix_enough : forall G f tab, NoDup tab -> incl tab (first_universe G) ->
  (length (first_universe G) - length tab < f)%nat -> first_fix G f tab <> None.
Proof.
  intros G. induction f as [|f IH]; intros tab Hnd Hu Hlt; [lia|].
  simpl. destruct (fresh fentry_eqb tab (first_round G tab)) as [|e new] eqn:E; [discriminate|].
  assert (Hnd' : NoDup (tab ++ e :: new)) by (rewrite <- E; apply (app_fresh_NoDup _ fentry_eqb_spec); exact Hnd).
  assert (Hu' : incl (tab ++ e :: new) (first_universe G)).
  { intros x Hx. apply in_app_iff in Hx. destruct Hx as [Hx|Hx]; [auto|]. rewrite <- E in Hx.
    apply (fresh_In _ fentry_eqb_spec) in Hx. destruct Hx as [Hx _]. eapply first_round_universe; eauto. }
  apply IH; [exact Hnd'|exact Hu'|].
  pose proof (NoDup_incl_length Hnd' Hu') as Hle. rewrite app_length in *. simpl in *. lia.
Qed.

(* first_fuel rounds always suffice: the FIRST computation of the model never runs out of fuel *)
Theorem first_fuel_enough : forall G, first_table G (first_fuel G) <> None.
Proof.
  intros G. unfold first_table. apply first_fix_enough; [constructor|intros x []|].
  unfold first_universe, first_fuel, fentry.
  pose proof (prod_length (all_syms G) (None :: map Some (all_syms G))) as Hl.
  simpl in Hl. rewrite map_length in Hl. simpl. lia.
Qed.
