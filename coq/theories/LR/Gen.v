(* LR/Gen.v -- definitions only.

   Executable model of the LR(1) GENERATOR of /repo/compiler/front_end/lr1.py
   (class Grammar), over the first-order grammars and tables of LR/Driver.v.

   What is mirrored (algorithm, not data structures):
     Grammar._first                 first_seq      FIRST of a symbol string from the current table: the
                                                   non-epsilon entries of each symbol while all earlier
                                                   ones contain epsilon; epsilon iff all contain it
     Grammar._compute_seed_firsts   first_fix      rounds over ALL productions against the table of the
                                                   previous round (firsts_to_add), stop when nothing is new;
                                                   the table starts empty for nonterminals, {t} for terminals
     Grammar._closure_of_item       closure_item   work list in insertion order; an item with a symbol after
                                                   the dot adds [B -> . gamma, u] for every production of B
                                                   (in production order) and every u in FIRST(beta t)
                                                   (the two memo caches are transparent and not modelled)
     Grammar._parallel_goto         goto           union of the closures of the advanced items, per symbol
     Grammar._items                 items_loop     canonical collection: work list over the states found so
                                                   far, a goto target is looked up by SET equality and
                                                   appended when new; goto table for all symbols
     Grammar.parser                 fill_state / generate
                                                   one pass over the items of each state: Reduce for a complete
                                                   non-seed item on its look-ahead, Shift(goto) for a terminal
                                                   after the dot, a Conflict when the cell holds a different
                                                   action (last writer wins), Accept for [S' -> start ., $]
                                                   with the `assert` as a flag (g_clash), goto trimmed to
                                                   nonterminals.
   Items refer to productions by their index in the grammar (None = the seed S' -> start), so
   the model coincides with lr1.py for duplicate-free production lists whose symbols differ from
   "S'" and "$" (restriction checked by the harness).  The order in which lr1.py enumerates a
   Python set is not modelled: states are compared as sets, state numbers up to the renaming
   induced by the item sets; for a grammar with conflicts the surviving action of a conflicting
   cell depends on that order and only the set of conflicting cells is compared.
   Every loop has explicit fuel; running out of fuel is the distinct outcome GenOutOfFuel. *)
From Coq Require Import Arith NArith PArith List Bool FMapPositive.
Require Import EmbossV.LR.Driver.
Import ListNotations.
Open Scope N_scope.

(* ---------------------------------------------------------------- list sets *)

Definition memb {A : Type} (eqb : A -> A -> bool) (x : A) (l : list A) : bool := existsb (eqb x) l.

(* the elements of `new` that are not in `acc`, each once, in order *)
Fixpoint fresh {A : Type} (eqb : A -> A -> bool) (acc new : list A) : list A :=
  match new with
  | [] => []
  | x :: r => if memb eqb x acc then fresh eqb acc r else x :: fresh eqb (x :: acc) r
  end.

Definition oN_eqb (a b : option N) : bool :=
  match a, b with
  | Some x, Some y => N.eqb x y
  | None, None => true
  | _, _ => false
  end.

Definition is_some {A : Type} (o : option A) : bool := match o with Some _ => true | None => false end.

Definition somes (l : list (option N)) : list N :=
  flat_map (fun o => match o with Some t => [t] | None => [] end) l.

(* ---------------------------------------------------------------- FIRST *)

(* (X, Some t): t in self.firsts[X];  (X, None): epsilon (Python None) in self.firsts[X] *)
Definition fentry := (N * option N)%type.
Definition fentry_eqb (a b : fentry) : bool := N.eqb (fst a) (fst b) && oN_eqb (snd a) (snd b).

(* self.firsts[X] *)
Definition firsts_of (G : grammar) (tab : list fentry) (X : N) : list (option N) :=
  if is_nonterminal G X then map snd (filter (fun e => N.eqb (fst e) X) tab) else [Some X].

(* Grammar._first(symbols) *)
Fixpoint first_seq (G : grammar) (tab : list fentry) (l : list N) : list (option N) :=
  match l with
  | [] => [None]
  | X :: r =>
      let f := firsts_of G tab X in
      filter is_some f ++ (if memb oN_eqb None f then first_seq G tab r else [])
  end.

(* one round of the `while True` loop: everything _first yields for each production *)
Definition first_round (G : grammar) (tab : list fentry) : list fentry :=
  flat_map (fun p => map (fun o => (fst p, o)) (first_seq G tab (snd p))) (g_prods G).

Fixpoint first_fix (G : grammar) (fuel : nat) (tab : list fentry) : option (list fentry) :=
  match fuel with
  | O => None
  | S f =>
      match fresh fentry_eqb tab (first_round G tab) with
      | [] => Some tab                                   (* if not firsts_to_add: break *)
      | new => first_fix G f (tab ++ new)
      end
  end.

Definition first_table (G : grammar) (fuel : nat) : option (list fentry) := first_fix G fuel [].

(* the fixed-point condition, as a checkable boolean *)
Definition first_stable (G : grammar) (tab : list fentry) : bool :=
  forallb (fun e => memb fentry_eqb e tab) (first_round G tab).

(* symbols of the grammar and a number of rounds that always suffices *)
Definition all_syms (G : grammar) : list N :=
  fresh N.eqb [] (flat_map (fun p => fst p :: snd p) (g_prods G)).
Definition first_fuel (G : grammar) : nat :=
  S (length (all_syms G) * S (length (all_syms G))).

(* a closure fuel that always suffices (LR/GenProofsFuel.closure_fuel_enough) *)
Definition closure_fuel (G : grammar) : nat :=
  (2 * S (length (g_prods G) * S (length (all_syms G))) + 2)%nat.

(* ---------------------------------------------------------------- items *)

(* an LR(1) item: production index (None = S' -> start), dot, look-ahead terminal *)
Record litem := mk_item { it_p : option N; it_d : nat; it_a : N }.

Definition litem_eqb (a b : litem) : bool :=
  oN_eqb (it_p a) (it_p b) && Nat.eqb (it_d a) (it_d b) && N.eqb (it_a a) (it_a b).

Definition prod_rhs (G : grammar) (po : option N) : list N :=
  match po with
  | None => [g_start G]
  | Some p => match nth_error (g_prods G) (N.to_nat p) with Some pr => snd pr | None => [] end
  end.

(* Item.next_symbol *)
Definition next_sym (G : grammar) (it : litem) : option N := nth_error (prod_rhs G (it_p it)) (it_d it).

(* self._productions_by_lhs[B], as indices *)
Fixpoint prods_of_from (B : N) (i : N) (ps : list production) : list N :=
  match ps with
  | [] => []
  | p :: r => if N.eqb (fst p) B then i :: prods_of_from B (N.succ i) r else prods_of_from B (N.succ i) r
  end.
Definition prods_of (G : grammar) (B : N) : list N := prods_of_from B 0 (g_prods G).

(* the look-aheads FIRST(beta t) of the items an item adds *)
Definition item_las (G : grammar) (tab : list fentry) (it : litem) : list N :=
  somes (first_seq G tab (skipn (S (it_d it)) (prod_rhs G (it_p it)) ++ [it_a it])).

(* self._single_level_closure_of_item_cache[item] *)
Definition single_level (G : grammar) (tab : list fentry) (it : litem) : list litem :=
  match next_sym G it with
  | None => []
  | Some B => flat_map (fun q => map (fun u => mk_item (Some q) 0 u) (item_las G tab it)) (prods_of G B)
  end.

(* the `while i < len(item_list)` loop: todo = item_list[i:], acc = item_list *)
Fixpoint closure_loop (G : grammar) (tab : list fentry) (fuel : nat) (todo acc : list litem) : option (list litem) :=
  match fuel with
  | O => None
  | S f =>
      match todo with
      | [] => Some acc
      | it :: rest =>
          let new := fresh litem_eqb acc (single_level G tab it) in
          closure_loop G tab f (rest ++ new) (acc ++ new)
      end
  end.

Definition closure_item (G : grammar) (tab : list fentry) (fuel : nat) (it : litem) : option (list litem) :=
  closure_loop G tab fuel [it] [it].

Definition advance (it : litem) : litem := mk_item (it_p it) (S (it_d it)) (it_a it).

Definition moves_on (G : grammar) (X : N) (it : litem) : bool :=
  match next_sym G it with Some Y => N.eqb X Y | None => false end.

Fixpoint union_closures (G : grammar) (tab : list fentry) (fuel : nat) (its acc : list litem) : option (list litem) :=
  match its with
  | [] => Some acc
  | it :: r =>
      match closure_item G tab fuel it with
      | None => None
      | Some c => union_closures G tab fuel r (acc ++ fresh litem_eqb acc c)
      end
  end.

(* _parallel_goto(items)[X] *)
Definition goto (G : grammar) (tab : list fentry) (fuel : nat) (I : list litem) (X : N) : option (list litem) :=
  union_closures G tab fuel (map advance (filter (moves_on G X) I)) [].

Definition next_syms (G : grammar) (I : list litem) : list N :=
  fresh N.eqb [] (flat_map (fun it => match next_sym G it with Some X => [X] | None => [] end) I).

(* ---------------------------------------------------------------- canonical collection *)

Definition iset_sub (a b : list litem) : bool := forallb (fun x => memb litem_eqb x b) a.
Definition iset_eqb (a b : list litem) : bool := iset_sub a b && iset_sub b a.

(* items[goto] for a frozenset key *)
Fixpoint find_state (J : list litem) (states : list (list litem)) (i : N) : option N :=
  match states with
  | [] => None
  | s :: r => if iset_eqb J s then Some i else find_state J r (N.succ i)
  end.

Definition nlength {A : Type} (l : list A) : N := N.of_nat (length l).

(* `for symbol, goto in sorted(gotos.items())` for one state *)
Fixpoint trans_of (G : grammar) (tab : list fentry) (cfuel : nat) (I : list litem) (syms : list N)
         (states : list (list litem)) (row : list (N * N)) : option (list (list litem) * list (N * N)) :=
  match syms with
  | [] => Some (states, row)
  | X :: r =>
      match goto G tab cfuel I X with
      | None => None
      | Some J =>
          match find_state J states 0 with
          | Some j => trans_of G tab cfuel I r states (row ++ [(X, j)])
          | None => trans_of G tab cfuel I r (states ++ [J]) (row ++ [(X, nlength states)])
          end
      end
  end.

(* `while i < len(item_list)`; gotos has one row per processed state *)
Fixpoint items_loop (G : grammar) (tab : list fentry) (cfuel fuel : nat)
         (states : list (list litem)) (gotos : list (list (N * N))) (i : nat)
  : option (list (list litem) * list (list (N * N))) :=
  match fuel with
  | O => None
  | S f =>
      match nth_error states i with
      | None => Some (states, gotos)
      | Some st =>
          match trans_of G tab cfuel st (next_syms G st) states [] with
          | None => None
          | Some (states', row) => items_loop G tab cfuel f states' (gotos ++ [row]) (S i)
          end
      end
  end.

Definition seed_item (eoi : N) : litem := mk_item None 0 eoi.

Definition items (G : grammar) (tab : list fentry) (eoi : N) (cfuel fuel : nat)
  : option (list (list litem) * list (list (N * N))) :=
  match closure_item G tab cfuel (seed_item eoi) with
  | None => None
  | Some st0 => items_loop G tab cfuel fuel [st0] [] 0
  end.

(* ---------------------------------------------------------------- table filling *)

Definition act_eqb (a b : act) : bool :=
  match a, b with
  | Shift s, Shift s' => N.eqb s s'
  | Reduce l r, Reduce l' r' => prod_eqb (l, r) (l', r')
  | Accept, Accept => true
  | Err c, Err c' => N.eqb c c'
  | _, _ => false
  end.

(* row[k] = v on a dict kept as an association list *)
Fixpoint row_set {A : Type} (k : N) (v : A) (row : list (N * A)) : list (N * A) :=
  match row with
  | [] => [(k, v)]
  | (k', v') :: r => if N.eqb k k' then (k, v) :: r else (k', v') :: row_set k v r
  end.

Inductive entry := E_none | E_act (t : N) (a : act) | E_accept.

(* what one item contributes to the action row of its state (grow = goto[i], all symbols) *)
Definition entry_of (G : grammar) (eoi : N) (grow : list (N * N)) (it : litem) : entry :=
  match next_sym G it with
  | None =>
      match it_p it with
      | Some p =>
          match nth_error (g_prods G) (N.to_nat p) with
          | Some (lhs, rhs) => E_act (it_a it) (Reduce lhs rhs)
          | None => E_none
          end
      | None => if Nat.eqb (it_d it) 1 && N.eqb (it_a it) eoi then E_accept else E_none
      end
  | Some X =>
      if is_nonterminal G X then E_none
      else match assoc X grow with
           | Some j => E_act X (Shift j)
           | None => E_none              (* assert goto[i][terminal] is not None *)
           end
  end.

Record fill_st := { f_row : list (N * act); f_conf : list N; f_clash : bool }.

Definition fill_item (G : grammar) (eoi : N) (grow : list (N * N)) (st : fill_st) (it : litem) : fill_st :=
  match entry_of G eoi grow it with
  | E_none => st
  | E_act t a =>
      {| f_row := row_set t a (f_row st);
         f_conf := match assoc t (f_row st) with
                   | Some a' => if act_eqb a' a then f_conf st else t :: f_conf st
                   | None => f_conf st
                   end;
         f_clash := f_clash st |}
  | E_accept =>
      {| f_row := row_set eoi Accept (f_row st);
         f_conf := f_conf st;
         f_clash := f_clash st || match assoc eoi (f_row st) with
                                  | Some a' => negb (act_eqb a' Accept)
                                  | None => false
                                  end |}
  end.

Definition fill_state (G : grammar) (eoi : N) (grow : list (N * N)) (I : list litem) : fill_st :=
  fold_left (fill_item G eoi grow) I {| f_row := []; f_conf := []; f_clash := false |}.

Definition trim_goto (G : grammar) (grow : list (N * N)) : list (N * N) :=
  filter (fun e => is_nonterminal G (fst e)) grow.

(* dict of rows; a row that was never touched does not exist *)
Fixpoint rows_to_map {A : Type} (i : N) (rows : list (list A)) (m : nmap (list A)) : nmap (list A) :=
  match rows with
  | [] => m
  | r :: t => rows_to_map (N.succ i) t (match r with [] => m | _ :: _ => nset m i r end)
  end.

Fixpoint zip_fill (G : grammar) (eoi : N) (states : list (list litem)) (gotos : list (list (N * N))) : list fill_st :=
  match states, gotos with
  | s :: ss, g :: gs => fill_state G eoi g s :: zip_fill G eoi ss gs
  | _, _ => []
  end.

Fixpoint conflicts_from (i : N) (fs : list fill_st) : list (N * N) :=
  match fs with
  | [] => []
  | f :: r => map (fun t => (i, t)) (f_conf f) ++ conflicts_from (N.succ i) r
  end.

Record gen_result := {
  g_first : list fentry;                 (* Grammar.firsts (nonterminals) *)
  g_states : list (list litem);          (* item_sets *)
  g_gotos : list (list (N * N));         (* goto_table of _items (all symbols) *)
  g_fill : list fill_st;                 (* per state: action row, conflicting terminals, assert flag *)
  g_tables : tables;                     (* Parser(action, trimmed goto) *)
  g_conflicts : list (N * N);            (* (state, terminal) of each Conflict *)
  g_clash : bool                         (* the `assert action[i].get($, Accept) == Accept` would fail *)
}.

Inductive gen_outcome :=
| GenOk (r : gen_result)
| GenOutOfFuel (stage : N).              (* 1 FIRST, 2 closure/items *)

Definition generate (G : grammar) (eoi sp : N) (ffuel cfuel ifuel : nat) : gen_outcome :=
  match first_table G ffuel with
  | None => GenOutOfFuel 1
  | Some tab =>
      match items G tab eoi cfuel ifuel with
      | None => GenOutOfFuel 2
      | Some (states, gotos) =>
          let fs := zip_fill G eoi states gotos in
          GenOk {| g_first := tab; g_states := states; g_gotos := gotos; g_fill := fs;
                   g_tables := {| t_action := rows_to_map 0 (map f_row fs) nempty;
                                  t_goto := rows_to_map 0 (map (trim_goto G) gotos) nempty;
                                  t_derr := nempty; t_dflt := true; t_eoi := eoi;
                                  t_prods := g_prods G ++ [(sp, [g_start G])] |};
                   g_conflicts := conflicts_from 0 fs;
                   g_clash := existsb f_clash fs |}
      end
  end.

(* the verdict `not parser.conflicts` (and no AssertionError) *)
Definition gen_clean (r : gen_result) : bool :=
  match g_conflicts r with [] => negb (g_clash r) | _ :: _ => false end.

(* ---------------------------------------------------------------- specification side *)

(* sder G X w: the symbol X derives the SENTENTIAL FORM w (terminals and nonterminals) in zero
   or more steps, X =>* w, as a partial derivation tree whose frontier is w; sder_list for
   symbol strings.  (Driver.derives is the special case where every leaf is a terminal.) *)
Inductive sder (G : grammar) : N -> list N -> Prop :=
| SD_sym : forall X, sder G X [X]
| SD_prod : forall lhs rhs w, In (lhs, rhs) (g_prods G) -> sder_list G rhs w -> sder G lhs w
with sder_list (G : grammar) : list N -> list N -> Prop :=
| SDL_nil : sder_list G [] []
| SDL_cons : forall X Xs w1 w2, sder G X w1 -> sder_list G Xs w2 -> sder_list G (X :: Xs) (w1 ++ w2).

Scheme sder_min := Minimality for sder Sort Prop
  with sder_list_min := Minimality for sder_list Sort Prop.
Combined Scheme sder_mutind from sder_min, sder_list_min.

(* t is in FIRST(alpha) / alpha is nullable, as a specification *)
Definition starts_with (G : grammar) (alpha : list N) (t : N) : Prop :=
  is_nonterminal G t = false /\ exists w, sder_list G alpha (t :: w).
Definition nullable_str (G : grammar) (alpha : list N) : Prop := sder_list G alpha [].

(* an item is well formed: its production exists and the dot is inside it *)
Definition item_ok (G : grammar) (it : litem) : Prop :=
  (it_d it <= length (prod_rhs G (it_p it)))%nat /\
  match it_p it with Some p => (N.to_nat p < length (g_prods G))%nat | None => True end.

(* [B -> . gamma, u] is added by [A -> alpha . B beta, t]: B -> gamma is production q, u in FIRST(beta t) *)
Definition adds (G : grammar) (it new : litem) : Prop :=
  exists B q gamma u,
    next_sym G it = Some B /\ nth_error (g_prods G) (N.to_nat q) = Some (B, gamma) /\
    starts_with G (skipn (S (it_d it)) (prod_rhs G (it_p it)) ++ [it_a it]) u /\
    new = mk_item (Some q) 0 u.

(* the least set containing the root and closed under `adds` *)
Inductive in_closure (G : grammar) (root : litem) : litem -> Prop :=
| IC_root : in_closure G root root
| IC_step : forall it new, in_closure G root it -> adds G it new -> in_closure G root new.

Definition closed_under_adds (G : grammar) (S : list litem) : Prop :=
  forall it new, In it S -> adds G it new -> In new S.

(* GOTO(I, X) of ALSU as a specification: the closure of the advanced items *)
Definition in_goto (G : grammar) (S : list litem) (X : N) (it : litem) : Prop :=
  exists k, In k S /\ next_sym G k = Some X /\ in_closure G (advance k) it.

Definition same_set (a b : list litem) : Prop := forall x, In x a <-> In x b.
