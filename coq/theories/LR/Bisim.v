(* LR/Bisim.v -- a checker for bisimilarity of two first-order LR tables and the
   proof that bisimilar tables make `run` return the same result on every input.

   R is a candidate relation between the states of A and of B (a -> list of b),
   produced by untrusted code (the pairs reachable from (0,0)); the theorems
   quantify over all R.  `bisim_check_rel` checks that R contains (0,0) and is
   closed under every shift and goto with equal observable behaviour at each
   related pair; `rel_diag` additionally asks that R relates equal state numbers
   only, because Parser.parse reports the number of the error state
   (ParseError.state). *)
From Coq Require Import Arith NArith PArith List Bool Lia FMapPositive.
Require Import EmbossV.LR.Driver EmbossV.LR.Sound.
Import ListNotations.
Open Scope N_scope.

Definition rel := nmap (list N).

Definition in_rel (R : rel) (a b : N) : bool :=
  match nget R a with Some bs => existsb (N.eqb b) bs | None => false end.

Definition act_ok (R : rel) (x y : act) : bool :=
  match x, y with
  | Shift s, Shift s' => in_rel R s s'
  | Reduce l r, Reduce l' r' => N.eqb l l' && list_N_eqb r r'
  | Accept, Accept => true
  | Err c, Err c' => N.eqb c c'
  | _, _ => false
  end.

(* rows are compared entry by entry, in order (the translator sorts rows by symbol) *)
Fixpoint row_ok {A : Type} (f : A -> A -> bool) (ra rb : list (N * A)) : bool :=
  match ra, rb with
  | [], [] => true
  | (k, x) :: ra', (k', y) :: rb' => N.eqb k k' && f x y && row_ok f ra' rb'
  | _, _ => false
  end.

Definition orow {A : Type} (o : option (list A)) : list A :=
  match o with Some r => r | None => [] end.

Definition pair_ok (R : rel) (A B : tables) (a b : N) : bool :=
  match nget (t_action A) a, nget (t_action B) b with
  | Some ra, Some rb => row_ok (act_ok R) ra rb
  | None, None => Bool.eqb (t_dflt A) (t_dflt B)
  | _, _ => false
  end
  && N.eqb (derr_code A a) (derr_code B b)
  && row_ok (in_rel R) (orow (nget (t_goto A) a)) (orow (nget (t_goto B) b)).

Definition bisim_check_rel (R : rel) (A B : tables) : bool :=
  in_rel R 0 0
  && N.eqb (t_eoi A) (t_eoi B)
  && forallb (fun kbs => forallb (pair_ok R A B (Pos.pred_N (fst kbs))) (snd kbs)) (PositiveMap.elements R).

Definition rel_diag (R : rel) : bool :=
  forallb (fun kbs => forallb (N.eqb (Pos.pred_N (fst kbs))) (snd kbs)) (PositiveMap.elements R).

Definition bisim_check (R : rel) (A B : tables) : bool := bisim_check_rel R A B && rel_diag R.

Definition result_sim (R : rel) (x y : result) : Prop :=
  match x, y with
  | Accepted t, Accepted t' => t = t'
  | Rejected c i tok st e, Rejected c' i' tok' st' e' =>
      c = c' /\ i = i' /\ tok = tok' /\ in_rel R st st' = true /\ e = e'
  | Crashed k, Crashed k' => k = k'
  | OutOfFuel, OutOfFuel => True
  | _, _ => False
  end.

(* ---------------------------------------------------------------- *)

Lemma in_rel_elements : forall R a b, in_rel R a b = true ->
  exists bs, In (N.succ_pos a, bs) (PositiveMap.elements R) /\ In b bs.
Proof.
  unfold in_rel. intros R a b H. destruct (nget R a) as [bs|] eqn:E; [|discriminate].
  exists bs. split; [apply nget_elements; exact E|].
  apply existsb_exists in H. destruct H as [x [Hin Hx]]. apply N.eqb_eq in Hx. subst. exact Hin.
Qed.

Lemma row_ok_assoc : forall (A : Type) (f : A -> A -> bool) ra rb, row_ok f ra rb = true ->
  forall k, match assoc k ra, assoc k rb with
            | Some x, Some y => f x y = true
            | None, None => True
            | _, _ => False
            end.
Proof.
  induction ra as [|[k x] ra IH]; destruct rb as [|[k' y] rb]; simpl; intros H q; try discriminate; auto.
  apply andb_true_iff in H. destruct H as [H H3]. apply andb_true_iff in H. destruct H as [H1 H2].
  apply N.eqb_eq in H1. subst k'. destruct (N.eqb q k); [exact H2|]. apply IH. exact H3.
Qed.

Lemma act_ok_is_err : forall R x y, act_ok R x y = true -> is_err x = is_err y.
Proof. intros R [s|l r| |c] [s'|l' r'| |c']; simpl; intros H; try discriminate; reflexivity. Qed.

Lemma row_ok_expected : forall R ra rb, row_ok (act_ok R) ra rb = true -> expected ra = expected rb.
Proof.
  induction ra as [|[k x] ra IH]; destruct rb as [|[k' y] rb]; simpl; intros H; try discriminate; auto.
  apply andb_true_iff in H. destruct H as [H H3]. apply andb_true_iff in H. destruct H as [H1 H2].
  apply N.eqb_eq in H1. subst k'. rewrite (act_ok_is_err _ _ _ H2). rewrite (IH _ H3). reflexivity.
Qed.

Inductive stk_rel (R : rel) : stack -> stack -> Prop :=
| SR_nil : stk_rel R [] []
| SR_cons : forall s s' t sa sb, in_rel R s s' = true -> stk_rel R sa sb ->
    stk_rel R ((s, t) :: sa) ((s', t) :: sb).

Lemma stk_rel_length : forall R sa sb, stk_rel R sa sb -> length sa = length sb.
Proof. induction 1; simpl; auto. Qed.

Lemma stk_rel_skipn : forall R m sa sb, stk_rel R sa sb -> stk_rel R (skipn m sa) (skipn m sb).
Proof.
  induction m as [|m IH]; intros sa sb H; [exact H|].
  destruct H; simpl; [constructor|]. apply IH. exact H0.
Qed.

Lemma stk_rel_firstn_trees : forall R m sa sb, stk_rel R sa sb ->
  map snd (firstn m sa) = map snd (firstn m sb).
Proof.
  induction m as [|m IH]; intros sa sb H; [reflexivity|].
  destruct H; simpl; [reflexivity|]. f_equal. apply IH. exact H0.
Qed.

Section Bisim.
  Variable R : rel.
  Variables A B : tables.
  Hypothesis Hcheck : bisim_check_rel R A B = true.

  Lemma b_init : in_rel R 0 0 = true.
  Proof.
    unfold bisim_check_rel in Hcheck. apply andb_true_iff in Hcheck. destruct Hcheck as [H _].
    apply andb_true_iff in H. destruct H as [H _]. exact H.
  Qed.

  Lemma b_eoi : t_eoi A = t_eoi B.
  Proof.
    unfold bisim_check_rel in Hcheck. apply andb_true_iff in Hcheck. destruct Hcheck as [H _].
    apply andb_true_iff in H. destruct H as [_ H]. apply N.eqb_eq. exact H.
  Qed.

  Lemma b_pair : forall a b, in_rel R a b = true -> pair_ok R A B a b = true.
  Proof.
    intros a b H. destruct (in_rel_elements _ _ _ H) as [bs [H1 H2]].
    unfold bisim_check_rel in Hcheck. apply andb_true_iff in Hcheck. destruct Hcheck as [_ Hall].
    rewrite forallb_forall in Hall. specialize (Hall _ H1). simpl in Hall.
    rewrite forallb_forall in Hall. specialize (Hall _ H2).
    rewrite N.pos_pred_succ in Hall. exact Hall.
  Qed.

  Lemma top_rel : forall sa sb, stk_rel R sa sb -> in_rel R (top_state sa) (top_state sb) = true.
  Proof. intros sa sb H. destruct H; simpl; [apply b_init|assumption]. Qed.

  Lemma next_action_rel : forall a b x, in_rel R a b = true ->
    act_ok R (next_action A a x) (next_action B b x) = true.
  Proof.
    intros a b x H. pose proof (b_pair _ _ H) as Hp. unfold pair_ok in Hp.
    apply andb_true_iff in Hp. destruct Hp as [Hp _]. apply andb_true_iff in Hp. destruct Hp as [Hrow Hd].
    unfold next_action.
    destruct (nget (t_action A) a) as [ra|]; destruct (nget (t_action B) b) as [rb|]; try discriminate.
    - pose proof (row_ok_assoc _ _ _ _ Hrow x) as Hx.
      destruct (assoc x ra); destruct (assoc x rb); try contradiction; [exact Hx|].
      simpl. exact Hd.
    - simpl. exact Hd.
  Qed.

  Lemma goto_rel : forall a b X, in_rel R a b = true ->
    match goto_of A a X, goto_of B b X with
    | Some s, Some s' => in_rel R s s' = true
    | None, None => True
    | _, _ => False
    end.
  Proof.
    intros a b X H. pose proof (b_pair _ _ H) as Hp. unfold pair_ok in Hp.
    apply andb_true_iff in Hp. destruct Hp as [_ Hg].
    pose proof (row_ok_assoc _ _ _ _ Hg X) as Hx. unfold goto_of.
    destruct (nget (t_goto A) a); destruct (nget (t_goto B) b); simpl in Hx; exact Hx.
  Qed.

  Lemma loop_sim : forall fuel sa sb rest idx, stk_rel R sa sb ->
    result_sim R (loop A fuel sa rest idx) (loop B fuel sb rest idx).
  Proof.
    induction fuel as [|f IH]; intros sa sb rest idx Hs; [exact I|].
    simpl. destruct rest as [|x rest']; [reflexivity|].
    pose proof (top_rel _ _ Hs) as Htop.
    pose proof (next_action_rel _ _ x Htop) as Hact.
    destruct (next_action A (top_state sa) x) as [s|l r| |c] eqn:Ea;
      destruct (next_action B (top_state sb) x) as [s'|l' r'| |c'] eqn:Eb; simpl in Hact; try discriminate.
    - apply IH. constructor; assumption.
    - apply andb_true_iff in Hact. destruct Hact as [H1 H2]. apply N.eqb_eq in H1.
      apply list_N_eqb_eq in H2. subst l' r'.
      rewrite <- (stk_rel_length _ _ _ Hs).
      destruct (pop_count (length r) (length sa)) as [m|]; [|reflexivity].
      pose proof (stk_rel_skipn _ m _ _ Hs) as Hs'.
      pose proof (goto_rel _ _ l (top_rel _ _ Hs')) as Hg.
      rewrite <- (stk_rel_firstn_trees _ m _ _ Hs).
      destruct (goto_of A (top_state (skipn m sa)) l); destruct (goto_of B (top_state (skipn m sb)) l);
        try contradiction; [|reflexivity].
      apply IH. constructor; assumption.
    - rewrite <- b_eoi.
      destruct Hs as [|s s' t sa sb Hr Hs]; [reflexivity|].
      destruct Hs; [|reflexivity].
      destruct (N.eqb x (t_eoi A)); reflexivity.
    - apply N.eqb_eq in Hact. subst c'.
      pose proof (b_pair _ _ Htop) as Hp. unfold pair_ok in Hp.
      apply andb_true_iff in Hp. destruct Hp as [Hp _]. apply andb_true_iff in Hp. destruct Hp as [Hrow _].
      destruct (nget (t_action A) (top_state sa)) as [ra|];
        destruct (nget (t_action B) (top_state sb)) as [rb|]; try discriminate.
      + simpl. rewrite (row_ok_expected _ _ _ Hrow). auto.
      + apply eqb_prop in Hrow. rewrite <- Hrow. destruct (t_dflt A); simpl; auto.
  Qed.

  Theorem bisim_rel_sound : forall fuel toks, result_sim R (run A fuel toks) (run B fuel toks).
  Proof. intros. unfold run. rewrite <- b_eoi. apply loop_sim. constructor. Qed.
End Bisim.

Lemma rel_diag_eq : forall R a b, rel_diag R = true -> in_rel R a b = true -> a = b.
Proof.
  intros R a b Hd H. destruct (in_rel_elements _ _ _ H) as [bs [H1 H2]].
  unfold rel_diag in Hd. rewrite forallb_forall in Hd. specialize (Hd _ H1). simpl in Hd.
  rewrite forallb_forall in Hd. specialize (Hd _ H2). rewrite N.pos_pred_succ in Hd.
  apply N.eqb_eq in Hd. exact Hd.
Qed.

Theorem bisim_sound : forall R A B, bisim_check R A B = true ->
  forall fuel toks, run A fuel toks = run B fuel toks.
Proof.
  intros R A B H fuel toks. unfold bisim_check in H. apply andb_true_iff in H. destruct H as [H1 H2].
  pose proof (bisim_rel_sound R A B H1 fuel toks) as Hs.
  destruct (run A fuel toks) as [t|c i tok st e|k|]; destruct (run B fuel toks) as [t'|c' i' tok' st' e'|k'|];
    simpl in Hs; try contradiction.
  - subst. reflexivity.
  - destruct Hs as [Hc [Hi [Ht [Hst He]]]]. subst. apply (rel_diag_eq _ _ _ H2) in Hst. subst. reflexivity.
  - subst. reflexivity.
  - reflexivity.
Qed.

(* ---- parser._load_module_parser: the cached parser is used iff its production
   set equals module_ir's (plus S' -> start); otherwise a fresh one is generated ---- *)

Definition subset_prods (a b : list production) : bool := forallb (fun p => mem_prod p b) a.
Definition prodset_eqb (a b : list production) : bool := subset_prods a b && subset_prods b a.

Definition load (cached fresh : tables) (ir_prods : list production) : tables :=
  if prodset_eqb (t_prods cached) ir_prods then cached else fresh.

Theorem load_equiv : forall R cached fresh ir_prods,
  bisim_check R cached fresh = true ->
  forall fuel toks, run (load cached fresh ir_prods) fuel toks = run fresh fuel toks.
Proof.
  intros R cached fresh irp H fuel toks. unfold load.
  destruct (prodset_eqb (t_prods cached) irp); [|reflexivity].
  eapply bisim_sound; eauto.
Qed.

Lemma prodset_eqb_In : forall a b, prodset_eqb a b = true -> forall p, In p a <-> In p b.
Proof.
  unfold prodset_eqb, subset_prods. intros a b H p. apply andb_true_iff in H. destruct H as [H1 H2].
  rewrite forallb_forall in H1, H2. split; intros Hin.
  - apply mem_prod_In. apply H1. exact Hin.
  - apply mem_prod_In. apply H2. exact Hin.
Qed.

(* Equal production sets define the same derivation trees (hence the same language). *)
Lemma is_nonterminal_ext : forall G1 G2, (forall p, In p (g_prods G1) <-> In p (g_prods G2)) ->
  forall X, is_nonterminal G1 X = is_nonterminal G2 X.
Proof.
  intros G1 G2 H X. unfold is_nonterminal.
  destruct (existsb (fun p => N.eqb (fst p) X) (g_prods G1)) eqn:E1;
    destruct (existsb (fun p => N.eqb (fst p) X) (g_prods G2)) eqn:E2; auto.
  - apply existsb_exists in E1. destruct E1 as [p [Hin Hp]]. apply H in Hin.
    assert (existsb (fun p => N.eqb (fst p) X) (g_prods G2) = true) by (apply existsb_exists; eauto).
    congruence.
  - apply existsb_exists in E2. destruct E2 as [p [Hin Hp]]. apply H in Hin.
    assert (existsb (fun p => N.eqb (fst p) X) (g_prods G1) = true) by (apply existsb_exists; eauto).
    congruence.
Qed.

Lemma derives_ext_aux : forall G1 G2, (forall p, In p (g_prods G1) <-> In p (g_prods G2)) ->
  (forall X t i w, derives G1 X t i w -> derives G2 X t i w) /\
  (forall Xs ts i w, derives_list G1 Xs ts i w -> derives_list G2 Xs ts i w).
Proof.
  intros G1 G2 H. apply derives_mutind.
  - intros a i Hn. constructor. rewrite <- (is_nonterminal_ext G1 G2 H). exact Hn.
  - intros lhs rhs cs i w Hin Hd IH. constructor; [apply H; exact Hin|exact IH].
  - intros. constructor.
  - intros X Xs t ts i w1 w2 Hd IH1 Hl IH2. constructor; assumption.
Qed.

Theorem same_prods_same_derivations : forall s P Q, prodset_eqb P Q = true ->
  forall X t i w, derives {| g_start := s; g_prods := P |} X t i w <->
                  derives {| g_start := s; g_prods := Q |} X t i w.
Proof.
  intros s P Q H X t i w. pose proof (prodset_eqb_In _ _ H) as HI. split; intros Hd.
  - eapply (proj1 (derives_ext_aux _ _ _)); eauto. Unshelve. simpl. exact HI.
  - eapply (proj1 (derives_ext_aux _ _ _)); eauto. Unshelve. simpl. intros p. symmetry. apply HI.
Qed.
