(* C08 -- the LR(1) generator builds a parser for exactly the grammar's language.

   Proved here, for ALL first-order tables T, certificates C, grammars G, token lists
   and fuel (no size bound):
     run_sound       tables accepted by `check_sound` only ever return derivation trees
                     of the start symbol whose leaves are the input tokens in order;
     run_sound_gen   the same without the side condition that no input token carries the
                     END_OF_INPUT symbol (Parser.parse stops at the first such token);
     run_prefix_det  an error at index i depends only on tokens 0..i.
   The generator lr1.py is covered per instance: harness/props/c08.py applies the
   verified `check_sound` to the tables lr1.py builds on every run.

   GAP (named in META.level_note as "sound; completeness partial"): `run_complete`
   (every derivation tree is returned) and `error_not_late`/`error_not_early` are not
   proved; that direction is covered by differential testing against an independent
   Earley recogniser only. *)
From Coq Require Import NArith List.
Require Import EmbossV.LR.Driver EmbossV.LR.Sound EmbossV.LR.Examples.
Import ListNotations.

Theorem run_sound : forall G T C fuel toks t,
  check_sound G T C = true -> ~ In (t_eoi T) toks ->
  run T fuel toks = Accepted t -> derives G (g_start G) t 0%nat toks.
Proof. exact Sound.run_sound. Qed.

Theorem run_sound_gen : forall G T C, check_sound G T C = true -> forall fuel toks t,
  run T fuel toks = Accepted t ->
  exists pre post, toks ++ [t_eoi T] = pre ++ t_eoi T :: post /\ derives G (g_start G) t 0%nat pre.
Proof. exact Sound.run_sound_gen. Qed.

Theorem run_prefix_det : forall T fuel a b c i tok st e,
  firstn (S i) a = firstn (S i) b ->
  run T fuel a = Rejected c i tok st e -> run T fuel b = Rejected c i tok st e.
Proof. exact Sound.run_prefix_det. Qed.

Theorem check_sound_nonvacuous :
  exists G T C toks fuel t,
    check_sound G T C = true /\ ~ In (t_eoi T) toks /\ run T fuel toks = Accepted t /\ toks <> [].
Proof. exact Examples.check_sound_nonvacuous. Qed.
