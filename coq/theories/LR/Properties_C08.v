(* C08 -- the LR(1) generator builds a parser for exactly the grammar's language.

   Proved here, for ALL first-order tables T, certificates, grammars G, token lists
   and fuel (no size bound):
     run_sound       tables accepted by `check_sound` only ever return derivation trees
                     of the start symbol whose leaves are the input tokens in order;
     run_sound_gen   the same without the side condition that no input token carries the
                     END_OF_INPUT symbol (Parser.parse stops at the first such token);
     run_prefix_det  an error at index i depends only on tokens 0..i;
     run_complete    tables accepted by `check_complete` (LR(1) item sets + FIRST sets as
                     certificate) return every derivation tree of the start symbol, given
                     enough fuel;
     error_not_late  with `check_complete`, an error at index i means that no sentence
                     starts with tokens 0..i (so a rejected input is not a sentence);
     sentence_result on a sentence `run` returns its tree or runs out of fuel, nothing else.
     unambiguous     tables passing `check_complete` exist only for unambiguous grammars (so a
                     conflict-free report validated by the checker cannot hide an ambiguity).
   run_sound + run_complete: accepted <-> derivable, and the tree is THE derivation given.
     error_not_early  with `check_sound`, `check_early` (item cores valid) and `check_productive`
                     (every nonterminal derives a terminal string; rank certificate), an error at
                     index i means that tokens 0..i-1 DO start a sentence: no token is shifted
                     unless some sentence continues;
     error_position_exact  error_not_early + error_not_late: the error is raised exactly at the
                     first token that no sentence can continue with;
     error_not_early_refuted  without productivity the statement is false: S -> a S passes every
                     other checker, lr1.py reports no conflict, `a a a` is rejected at index 3 and
                     the language is empty (finding lr1-error-reported-late:unproductive-nonterminals).
   THE GENERATOR (LR/Gen.v, a Gallina model of lr1.Grammar: FIRST fixed point, item closure, goto,
   canonical collection, table filling with conflict detection; diffed against lr1.py's own FIRST sets,
   item sets, goto/action tables and conflict verdict on every random and corpus grammar of each run).
   For ALL grammars, fuel values and results (no size bound):
     first_sound / first_complete   the computed FIRST(alpha) is exactly {t terminal | alpha =>* t w}, and it
                     contains epsilon exactly when alpha =>* empty (sentential-form derivations `sder`);
                     first_complete_stable: the same from the checkable fixed-point condition first_stable;
     first_fuel_enough / closure_fuel_enough / goto_fuel_enough   the FIRST computation never runs out of fuel
                     with first_fuel rounds, item closure and goto never with closure_fuel;
     closure_closed / closure_sound / closure_exact   the computed closure of an item is exactly the least
                     set containing it and closed under "[A -> alpha . B beta, t], B -> gamma, u in FIRST(beta t)
                     adds [B -> . gamma, u]";  goto_spec: the computed goto is exactly ALSU's GOTO;
     items_closed    the computed collection starts with the closure of [S' -> . start, $] and every symbol
                     after a dot in a state leads, through the goto table, to a state of the collection that
                     is exactly the GOTO of that state;
     generate_pass_check_complete   whenever the model generator reports neither a conflict nor the Accept
                     clash, its tables pass the verified checker check_complete -- so for the model generator
                     translation validation is a theorem:  generate_run_complete (every derivation tree of the
                     start symbol is returned by `run` on the generated tables), generate_error_not_late,
                     generate_clean_unambiguous (a clean verdict implies that the grammar is unambiguous: an
                     ambiguous grammar is never reported conflict-free);
     generate_nonvacuous   a non-trivial instance (corpus grammar nullable_chain_after_nonterminal).
     generate_pass_check_sound / generate_pass_check_early   the tables and item sets of the model generator pass
                     check_sound (known-suffix certificate scert_of computed from the item sets) and check_early -- for
                     EVERY grammar, with or without conflicts (each surviving action entry is justified by an item);
     all_productive_cert / all_productive_sound / all_productive_complete   the productivity fixed point prod_marks
                     (rank = round in which a nonterminal is marked) yields a certificate check_productive accepts; the
                     boolean all_productive G is true exactly when every nonterminal derives a terminal string;
     generate_run_sound, generate_error_not_early, and the combined generate_correct: for a grammar all of whose
                     nonterminals are productive and a clean verdict, `run` on the generated tables accepts exactly the
                     sentences, returns their unique derivation tree, and reports an error exactly at the first token
                     after the longest viable prefix (generate_correct_nonvacuous: a non-trivial instance);
     generate_fuel_monotone / items_fuel_monotone / generate_fuel_independent   more fuel (FIRST rounds, closure steps,
                     collection steps) never changes a result that was returned;
     items_complete_when_some   a returned collection is, up to set equality, exactly the canonical collection
                     (Gen2.canon: closure of the start item, closed under GOTO), every item set once;
     gen_clean_iff_lr1   the verdict of the model generator is a property of the grammar alone: clean <-> no item set
                     of the canonical collection has two items asking for different actions in one cell;
     generate_verdict_order_independent_partial   hence ANY presentation of the canonical collection (any work-list
                     order, any order of the items inside a state -- lr1.py iterates Python sets) is filled without
                     Conflict / Accept clash exactly when the model reports clean.  Partial: the production LIST is the
                     same on both sides (items carry production indices) and equality of the tables up to state
                     renaming is not proved.  not_clean_kind_order_dependent_refuted: WHICH kind of "not clean" (Conflict or
                     Accept clash) is reported does depend on the item order (finding lr1-assert-accept-reduce-clash).
   Termination of the collection loop is by fuel: no a-priori bound is given (the number of LR(1) item sets is only
   exponentially bounded); the harness passes the number of states lr1.py built + slack and GenOutOfFuel 2 is a
   distinct outcome that the correspondence reports as a difference.
   The generator lr1.py itself is covered per instance: harness/props/c08.py applies the verified checkers
   to the tables and item sets lr1.py builds on every run (translation validation, not a proof
   about lr1.py); "conflicts are reported whenever the construction is not
   deterministic" is covered through check_complete/unambiguous on conflict-free reports. *)
From Coq Require Import NArith List.
Require Import EmbossV.LR.Driver EmbossV.LR.Sound EmbossV.LR.Complete EmbossV.LR.Early EmbossV.LR.Examples.
Require Import EmbossV.LR.Gen EmbossV.LR.GenCert EmbossV.LR.GenProofs EmbossV.LR.GenProofsItems EmbossV.LR.GenProofsLink EmbossV.LR.GenProofsFuel EmbossV.LR.GenProofsExample.
Require Import EmbossV.LR.GenCert2 EmbossV.LR.GenProofsColl EmbossV.LR.GenProofsFill EmbossV.LR.GenProofsSound EmbossV.LR.GenProofsEarly EmbossV.LR.GenProofsMono EmbossV.LR.GenProofsExample2 EmbossV.LR.GenExec EmbossV.LR.GenProofsExec.
Import ListNotations.

Theorem run_sound : forall G T C fuel toks t,
  check_sound G T C = true -> ~ In (t_eoi T) toks ->
  run T fuel toks = Accepted t -> derives G (g_start G) t 0%nat toks.
Proof. exact Sound.run_sound. Qed.

Theorem run_sound_gen : forall G T C, check_sound G T C = true -> forall fuel toks t,
  run T fuel toks = Accepted t ->
  exists pre post, toks ++ [t_eoi T] = pre ++ t_eoi T :: post /\ derives G (g_start G) t 0%nat pre.
Proof. exact Sound.run_sound_gen. Qed.

Theorem run_prefix_det : forall T fuel a b c i tok st e,
  firstn (S i) a = firstn (S i) b ->
  run T fuel a = Rejected c i tok st e -> run T fuel b = Rejected c i tok st e.
Proof. exact Sound.run_prefix_det. Qed.

Theorem check_sound_nonvacuous :
  exists G T C toks fuel t,
    check_sound G T C = true /\ ~ In (t_eoi T) toks /\ run T fuel toks = Accepted t /\ toks <> [].
Proof. exact Examples.check_sound_nonvacuous. Qed.

Theorem run_complete : forall G T I F t toks,
  check_complete G T I F = true -> derives G (g_start G) t 0%nat toks ->
  exists n, forall fuel, (n <= fuel)%nat -> run T fuel toks = Accepted t.
Proof. exact Complete.run_complete. Qed.

Theorem error_not_late : forall G T I F fuel toks c i tok st e,
  check_complete G T I F = true ->
  run T fuel toks = Rejected c i tok st e ->
  forall toks' t, firstn (S i) toks' = firstn (S i) toks -> ~ derives G (g_start G) t 0%nat toks'.
Proof. exact Complete.error_not_late. Qed.

Theorem sentence_result : forall G T I F t toks fuel,
  check_complete G T I F = true -> derives G (g_start G) t 0%nat toks ->
  run T fuel toks = Accepted t \/ run T fuel toks = OutOfFuel.
Proof. exact Complete.sentence_result. Qed.

Theorem check_complete_nonvacuous :
  exists G T I F t toks, check_complete G T I F = true /\ derives G (g_start G) t 0%nat toks /\ toks <> [].
Proof. exact Examples.check_complete_nonvacuous. Qed.

Theorem unambiguous : forall G T I F t1 t2 toks,
  check_complete G T I F = true ->
  derives G (g_start G) t1 0%nat toks -> derives G (g_start G) t2 0%nat toks -> t1 = t2.
Proof. exact Complete.unambiguous. Qed.

Theorem error_not_early : forall G T C I R fuel toks c i tok st e,
  check_sound G T C = true -> check_early G T I = true -> check_productive G R = true ->
  run T fuel toks = Rejected c i tok st e ->
  exists suffix t, derives G (g_start G) t 0%nat (firstn i toks ++ suffix).
Proof. exact Early.error_not_early. Qed.

Theorem error_position_exact : forall G T C I F R fuel toks c i tok st e,
  check_sound G T C = true -> check_complete G T I F = true ->
  check_early G T I = true -> check_productive G R = true ->
  run T fuel toks = Rejected c i tok st e ->
  (exists suffix t, derives G (g_start G) t 0%nat (firstn i toks ++ suffix)) /\
  (forall toks' t, firstn (S i) toks' = firstn (S i) toks -> ~ derives G (g_start G) t 0%nat toks').
Proof. exact Early.error_position_exact. Qed.

Theorem error_not_early_nonvacuous :
  exists G T C I R fuel toks c i tok st e,
    check_sound G T C = true /\ check_early G T I = true /\ check_productive G R = true /\
    run T fuel toks = Rejected c i tok st e /\ (0 < i)%nat.
Proof. exact Examples.error_not_early_nonvacuous. Qed.

Theorem error_not_early_refuted :
  exists G T C I F fuel toks c i tok st e,
    check_sound G T C = true /\ check_complete G T I F = true /\ check_early G T I = true /\
    (forall R, check_productive G R = false) /\
    run T fuel toks = Rejected c i tok st e /\
    ~ exists suffix t, derives G (g_start G) t 0%nat (firstn i toks ++ suffix).
Proof. exact Examples.error_not_early_refuted. Qed.

(* ---------------------------------------------------------------- the model generator LR/Gen.v *)

Theorem first_sound : forall G fuel tab alpha,
  first_table G fuel = Some tab ->
  (forall t, In (Some t) (Gen.first_seq G tab alpha) -> starts_with G alpha t) /\
  (In None (Gen.first_seq G tab alpha) -> nullable_str G alpha).
Proof. exact GenProofs.first_sound. Qed.

Theorem first_complete : forall G fuel tab alpha,
  first_table G fuel = Some tab ->
  (forall t, starts_with G alpha t -> In (Some t) (Gen.first_seq G tab alpha)) /\
  (nullable_str G alpha -> In None (Gen.first_seq G tab alpha)).
Proof. exact GenProofs.first_complete. Qed.

Theorem first_complete_stable : forall G tab alpha,
  first_stable G tab = true ->
  (forall t, starts_with G alpha t -> In (Some t) (Gen.first_seq G tab alpha)) /\
  (nullable_str G alpha -> In None (Gen.first_seq G tab alpha)).
Proof. exact GenProofs.first_complete_stable. Qed.

Theorem first_fuel_enough : forall G, first_table G (first_fuel G) <> None.
Proof. exact GenProofs.first_fuel_enough. Qed.

Theorem closure_fuel_enough : forall G ffuel tab root,
  first_table G ffuel = Some tab -> closure_item G tab (closure_fuel G) root <> None.
Proof. exact GenProofsFuel.closure_fuel_enough. Qed.

Theorem goto_fuel_enough : forall G ffuel tab I X,
  first_table G ffuel = Some tab -> goto G tab (closure_fuel G) I X <> None.
Proof. exact GenProofsFuel.goto_fuel_enough. Qed.

(* terminal-string derivations (Driver.derives) are sentential-form derivations *)
Theorem derives_sder : forall G,
  (forall X t i w, derives G X t i w -> sder G X w) /\
  (forall Xs ts i w, derives_list G Xs ts i w -> sder_list G Xs w).
Proof. exact GenProofs.derives_sder. Qed.

Theorem closure_closed : forall G ffuel tab cfuel root R,
  first_table G ffuel = Some tab -> closure_item G tab cfuel root = Some R ->
  In root R /\ closed_under_adds G R.
Proof. exact GenProofsItems.closure_closed. Qed.

Theorem closure_sound : forall G ffuel tab cfuel root R,
  first_table G ffuel = Some tab -> closure_item G tab cfuel root = Some R ->
  forall new, In new R <-> new = root \/ exists it, In it R /\ adds G it new.
Proof. exact GenProofsItems.closure_sound. Qed.

Theorem closure_exact : forall G ffuel tab cfuel root R,
  first_table G ffuel = Some tab -> closure_item G tab cfuel root = Some R ->
  forall x, In x R <-> in_closure G root x.
Proof. exact GenProofsItems.closure_exact. Qed.

Theorem goto_spec : forall G ffuel tab cfuel I X J,
  first_table G ffuel = Some tab -> goto G tab cfuel I X = Some J ->
  forall x, In x J <-> in_goto G I X x.
Proof. exact GenProofsItems.goto_spec. Qed.

Theorem items_closed : forall G ffuel tab eoi cfuel fuel states gotos,
  first_table G ffuel = Some tab -> is_nonterminal G eoi = false ->
  items G tab eoi cfuel fuel = Some (states, gotos) ->
  (exists I0, nth_error states 0 = Some I0 /\ forall x, In x I0 <-> in_closure G (seed_item eoi) x) /\
  (forall k I X, nth_error states k = Some I -> (exists it, In it I /\ next_sym G it = Some X) ->
     exists row j J, nth_error gotos k = Some row /\ assoc X row = Some j /\
                     nth_error states (N.to_nat j) = Some J /\ forall x, In x J <-> in_goto G I X x).
Proof. exact GenProofsItems.items_closed. Qed.

Theorem generate_pass_check_complete : forall G eoi sp ff cf sf r,
  is_nonterminal G eoi = false ->
  generate G eoi sp ff cf sf = GenOk r -> gen_clean r = true ->
  check_complete G (g_tables r) (icert_of (g_states r)) (fcert_of G (g_first r)) = true.
Proof. exact GenProofsLink.generate_pass_check_complete. Qed.

Theorem generate_run_complete : forall G eoi sp ff cf sf r t toks,
  is_nonterminal G eoi = false -> generate G eoi sp ff cf sf = GenOk r -> gen_clean r = true ->
  derives G (g_start G) t 0%nat toks ->
  exists n, forall fuel, (n <= fuel)%nat -> run (g_tables r) fuel toks = Accepted t.
Proof. exact GenProofsLink.generate_run_complete. Qed.

Theorem generate_error_not_late : forall G eoi sp ff cf sf r fuel toks c i tok st e,
  is_nonterminal G eoi = false -> generate G eoi sp ff cf sf = GenOk r -> gen_clean r = true ->
  run (g_tables r) fuel toks = Rejected c i tok st e ->
  forall toks' t, firstn (S i) toks' = firstn (S i) toks -> ~ derives G (g_start G) t 0%nat toks'.
Proof. exact GenProofsLink.generate_error_not_late. Qed.

Theorem generate_clean_unambiguous : forall G eoi sp ff cf sf r t1 t2 toks,
  is_nonterminal G eoi = false -> generate G eoi sp ff cf sf = GenOk r -> gen_clean r = true ->
  derives G (g_start G) t1 0%nat toks -> derives G (g_start G) t2 0%nat toks -> t1 = t2.
Proof. exact GenProofsLink.generate_clean_unambiguous. Qed.

Theorem generate_nonvacuous :
  exists G eoi sp ff cf sf r t toks,
    is_nonterminal G eoi = false /\ generate G eoi sp ff cf sf = GenOk r /\ gen_clean r = true /\
    (2 <= length (g_states r))%nat /\ derives G (g_start G) t 0%nat toks /\ toks <> [] /\
    run (g_tables r) 100 toks = Accepted t.
Proof. exact GenProofsExample.generate_nonvacuous. Qed.

(* ---------------------------------------------------------------- the model generator, part 2 *)

Theorem generate_pass_check_sound : forall G eoi sp ff cf sf r,
  is_nonterminal G eoi = false -> generate G eoi sp ff cf sf = GenOk r ->
  check_sound G (g_tables r) (scert_of G (g_states r)) = true.
Proof. exact GenProofsSound.generate_pass_check_sound. Qed.

Theorem generate_pass_check_early : forall G eoi sp ff cf sf r,
  is_nonterminal G eoi = false -> generate G eoi sp ff cf sf = GenOk r ->
  check_early G (g_tables r) (icert_of (g_states r)) = true.
Proof. exact GenProofsEarly.generate_pass_check_early. Qed.

Theorem all_productive_cert : forall G, all_productive G = true -> check_productive G (pcert_of G) = true.
Proof. exact GenProofsEarly.all_productive_cert. Qed.

Theorem all_productive_sound : forall G, all_productive G = true -> forall X, exists w, Early.gen G X w.
Proof. exact GenProofsEarly.all_productive_sound. Qed.

Theorem all_productive_complete : forall G,
  (forall X, is_nonterminal G X = true -> exists w, Early.gen G X w) -> all_productive G = true.
Proof. exact GenProofsEarly.all_productive_complete. Qed.

Theorem generate_run_sound : forall G eoi sp ff cf sf r fuel toks t,
  is_nonterminal G eoi = false -> generate G eoi sp ff cf sf = GenOk r ->
  ~ In eoi toks -> run (g_tables r) fuel toks = Accepted t -> derives G (g_start G) t 0%nat toks.
Proof. exact GenProofsSound.generate_run_sound. Qed.

Theorem generate_error_not_early : forall G eoi sp ff cf sf r fuel toks c i tok st e,
  is_nonterminal G eoi = false -> all_productive G = true ->
  generate G eoi sp ff cf sf = GenOk r ->
  run (g_tables r) fuel toks = Rejected c i tok st e ->
  exists suffix t, derives G (g_start G) t 0%nat (firstn i toks ++ suffix).
Proof. exact GenProofsEarly.generate_error_not_early. Qed.

Theorem generate_correct : forall G eoi sp ff cf sf r,
  is_nonterminal G eoi = false -> all_productive G = true ->
  generate G eoi sp ff cf sf = GenOk r -> gen_clean r = true ->
  (forall toks t, ~ In eoi toks ->
     ((exists fuel, run (g_tables r) fuel toks = Accepted t) <-> derives G (g_start G) t 0%nat toks)) /\
  (forall toks t, derives G (g_start G) t 0%nat toks ->
     exists n, forall fuel, (n <= fuel)%nat -> run (g_tables r) fuel toks = Accepted t) /\
  (forall toks t1 t2, derives G (g_start G) t1 0%nat toks -> derives G (g_start G) t2 0%nat toks -> t1 = t2) /\
  (forall fuel toks c i tok st e, run (g_tables r) fuel toks = Rejected c i tok st e ->
     (exists suffix t, derives G (g_start G) t 0%nat (firstn i toks ++ suffix)) /\
     (forall toks' t, firstn (S i) toks' = firstn (S i) toks -> ~ derives G (g_start G) t 0%nat toks')).
Proof. exact GenProofsEarly.generate_correct. Qed.

Theorem generate_correct_nonvacuous :
  exists G eoi sp ff cf sf r fuel toks c i tok st e,
    is_nonterminal G eoi = false /\ all_productive G = true /\
    generate G eoi sp ff cf sf = GenOk r /\ gen_clean r = true /\
    run (g_tables r) fuel toks = Rejected c i tok st e /\ (0 < i)%nat /\ (3 <= length (g_states r))%nat.
Proof. exact GenProofsExample2.generate_correct_nonvacuous. Qed.

Theorem items_fuel_monotone : forall G tab eoi cf cf' f f' r,
  items G tab eoi cf f = Some r -> (cf <= cf')%nat -> (f <= f')%nat -> items G tab eoi cf' f' = Some r.
Proof. exact GenProofsMono.items_fuel_monotone. Qed.

Theorem generate_fuel_monotone : forall G eoi sp ff cf sf ff' cf' sf' r,
  generate G eoi sp ff cf sf = GenOk r -> (ff <= ff')%nat -> (cf <= cf')%nat -> (sf <= sf')%nat ->
  generate G eoi sp ff' cf' sf' = GenOk r.
Proof. exact GenProofsMono.generate_fuel_monotone. Qed.

Theorem generate_fuel_independent : forall G eoi sp ff cf sf ff' cf' sf' r r',
  generate G eoi sp ff cf sf = GenOk r -> generate G eoi sp ff' cf' sf' = GenOk r' -> r = r'.
Proof. exact GenProofsMono.generate_fuel_independent. Qed.

Theorem items_complete_when_some : forall G ffuel tab eoi cfuel fuel states gotos,
  first_table G ffuel = Some tab -> is_nonterminal G eoi = false ->
  items G tab eoi cfuel fuel = Some (states, gotos) ->
  (forall J, canon G eoi J -> exists k J', nth_error states k = Some J' /\ same_set J J') /\
  (forall J', In J' states -> canon G eoi J') /\
  distinct_states states /\
  length gotos = length states.
Proof. exact GenProofsMono.items_complete_when_some. Qed.

Theorem gen_clean_iff_lr1 : forall G eoi sp ff cf sf r,
  is_nonterminal G eoi = false -> generate G eoi sp ff cf sf = GenOk r ->
  (gen_clean r = true <-> lr1_conflict_free G eoi).
Proof. exact GenProofsFill.gen_clean_iff_lr1. Qed.

Theorem generate_is_collection : forall G eoi sp ff cf sf r,
  is_nonterminal G eoi = false -> generate G eoi sp ff cf sf = GenOk r ->
  is_collection G eoi (g_states r) (g_gotos r).
Proof. exact GenProofsFill.generate_is_collection. Qed.

Theorem generate_verdict_order_independent_partial : forall G eoi sp ff cf sf r states' gotos',
  is_nonterminal G eoi = false -> generate G eoi sp ff cf sf = GenOk r ->
  is_collection G eoi states' gotos' ->
  (gen_clean r = true <-> fill_clean G eoi states' gotos').
Proof. exact GenProofsFill.generate_verdict_order_independent_partial. Qed.

(* the same with the certificate built from item CORES (the form in which the harness dumps lr1.py's item sets and
   evaluates it on lr1.py's own tables: LR/GenExec.lr1_certify) *)
Theorem generate_pass_check_sound_cores : forall G eoi sp ff cf sf r,
  is_nonterminal G eoi = false -> generate G eoi sp ff cf sf = GenOk r ->
  check_sound G (g_tables r) (scert_of_icert G (icert_of (g_states r))) = true.
Proof. exact GenProofsExec.generate_pass_check_sound_cores. Qed.

(* only the verdict is order independent: WHICH kind of "not clean" (a Conflict or the Accept clash = lr1.py's
   AssertionError) is reported depends on the order of the items inside the accepting state (finding
   lr1-assert-accept-reduce-clash, grammar S -> A | a; A -> S) *)
Theorem not_clean_kind_order_dependent_refuted :
  exists G eoi grow it1 it2,
    f_conf (fill_state G eoi grow [it1; it2]) <> [] /\ f_clash (fill_state G eoi grow [it1; it2]) = false /\
    f_conf (fill_state G eoi grow [it2; it1]) = [] /\ f_clash (fill_state G eoi grow [it2; it1]) = true.
Proof. exact GenProofsExample2.not_clean_kind_order_dependent. Qed.
