(* C08 -- the LR(1) generator builds a parser for exactly the grammar's language.

   Proved here, for ALL first-order tables T, certificates, grammars G, token lists
   and fuel (no size bound):
     run_sound       tables accepted by `check_sound` only ever return derivation trees
                     of the start symbol whose leaves are the input tokens in order;
     run_sound_gen   the same without the side condition that no input token carries the
                     END_OF_INPUT symbol (Parser.parse stops at the first such token);
     run_prefix_det  an error at index i depends only on tokens 0..i;
     run_complete    tables accepted by `check_complete` (LR(1) item sets + FIRST sets as
                     certificate) return every derivation tree of the start symbol, given
                     enough fuel;
     error_not_late  with `check_complete`, an error at index i means that no sentence
                     starts with tokens 0..i (so a rejected input is not a sentence);
     sentence_result on a sentence `run` returns its tree or runs out of fuel, nothing else.
     unambiguous     tables passing `check_complete` exist only for unambiguous grammars (so a
                     conflict-free report validated by the checker cannot hide an ambiguity).
   run_sound + run_complete: accepted <-> derivable, and the tree is THE derivation given.
     error_not_early  with `check_sound`, `check_early` (item cores valid) and `check_productive`
                     (every nonterminal derives a terminal string; rank certificate), an error at
                     index i means that tokens 0..i-1 DO start a sentence: no token is shifted
                     unless some sentence continues;
     error_position_exact  error_not_early + error_not_late: the error is raised exactly at the
                     first token that no sentence can continue with;
     error_not_early_refuted  without productivity the statement is false: S -> a S passes every
                     other checker, lr1.py reports no conflict, `a a a` is rejected at index 3 and
                     the language is empty (finding lr1-error-reported-late:unproductive-nonterminals).
   The generator lr1.py is covered per instance: harness/props/c08.py applies the verified checkers
   to the tables and item sets lr1.py builds on every run (translation validation, not a proof
   about lr1.py); "conflicts are reported whenever the construction is not
   deterministic" is covered through check_complete/unambiguous on conflict-free reports. *)
From Coq Require Import NArith List.
Require Import EmbossV.LR.Driver EmbossV.LR.Sound EmbossV.LR.Complete EmbossV.LR.Early EmbossV.LR.Examples.
Import ListNotations.

Theorem run_sound : forall G T C fuel toks t,
  check_sound G T C = true -> ~ In (t_eoi T) toks ->
  run T fuel toks = Accepted t -> derives G (g_start G) t 0%nat toks.
Proof. exact Sound.run_sound. Qed.

Theorem run_sound_gen : forall G T C, check_sound G T C = true -> forall fuel toks t,
  run T fuel toks = Accepted t ->
  exists pre post, toks ++ [t_eoi T] = pre ++ t_eoi T :: post /\ derives G (g_start G) t 0%nat pre.
Proof. exact Sound.run_sound_gen. Qed.

Theorem run_prefix_det : forall T fuel a b c i tok st e,
  firstn (S i) a = firstn (S i) b ->
  run T fuel a = Rejected c i tok st e -> run T fuel b = Rejected c i tok st e.
Proof. exact Sound.run_prefix_det. Qed.

Theorem check_sound_nonvacuous :
  exists G T C toks fuel t,
    check_sound G T C = true /\ ~ In (t_eoi T) toks /\ run T fuel toks = Accepted t /\ toks <> [].
Proof. exact Examples.check_sound_nonvacuous. Qed.

Theorem run_complete : forall G T I F t toks,
  check_complete G T I F = true -> derives G (g_start G) t 0%nat toks ->
  exists n, forall fuel, (n <= fuel)%nat -> run T fuel toks = Accepted t.
Proof. exact Complete.run_complete. Qed.

Theorem error_not_late : forall G T I F fuel toks c i tok st e,
  check_complete G T I F = true ->
  run T fuel toks = Rejected c i tok st e ->
  forall toks' t, firstn (S i) toks' = firstn (S i) toks -> ~ derives G (g_start G) t 0%nat toks'.
Proof. exact Complete.error_not_late. Qed.

Theorem sentence_result : forall G T I F t toks fuel,
  check_complete G T I F = true -> derives G (g_start G) t 0%nat toks ->
  run T fuel toks = Accepted t \/ run T fuel toks = OutOfFuel.
Proof. exact Complete.sentence_result. Qed.

Theorem check_complete_nonvacuous :
  exists G T I F t toks, check_complete G T I F = true /\ derives G (g_start G) t 0%nat toks /\ toks <> [].
Proof. exact Examples.check_complete_nonvacuous. Qed.

Theorem unambiguous : forall G T I F t1 t2 toks,
  check_complete G T I F = true ->
  derives G (g_start G) t1 0%nat toks -> derives G (g_start G) t2 0%nat toks -> t1 = t2.
Proof. exact Complete.unambiguous. Qed.

Theorem error_not_early : forall G T C I R fuel toks c i tok st e,
  check_sound G T C = true -> check_early G T I = true -> check_productive G R = true ->
  run T fuel toks = Rejected c i tok st e ->
  exists suffix t, derives G (g_start G) t 0%nat (firstn i toks ++ suffix).
Proof. exact Early.error_not_early. Qed.

Theorem error_position_exact : forall G T C I F R fuel toks c i tok st e,
  check_sound G T C = true -> check_complete G T I F = true ->
  check_early G T I = true -> check_productive G R = true ->
  run T fuel toks = Rejected c i tok st e ->
  (exists suffix t, derives G (g_start G) t 0%nat (firstn i toks ++ suffix)) /\
  (forall toks' t, firstn (S i) toks' = firstn (S i) toks -> ~ derives G (g_start G) t 0%nat toks').
Proof. exact Early.error_position_exact. Qed.

Theorem error_not_early_nonvacuous :
  exists G T C I R fuel toks c i tok st e,
    check_sound G T C = true /\ check_early G T I = true /\ check_productive G R = true /\
    run T fuel toks = Rejected c i tok st e /\ (0 < i)%nat.
Proof. exact Examples.error_not_early_nonvacuous. Qed.

Theorem error_not_early_refuted :
  exists G T C I F fuel toks c i tok st e,
    check_sound G T C = true /\ check_complete G T I F = true /\ check_early G T I = true /\
    (forall R, check_productive G R = false) /\
    run T fuel toks = Rejected c i tok st e /\
    ~ exists suffix t, derives G (g_start G) t 0%nat (firstn i toks ++ suffix).
Proof. exact Examples.error_not_early_refuted. Qed.
