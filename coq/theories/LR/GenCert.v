(* LR/GenCert.v -- definitions only.
   The certificates LR/Complete.check_complete asks for, built from the results of the model
   generator LR/Gen.v: the FIRST certificate (nullable flag + bit mask per nonterminal) from the
   FIRST table, the item certificate (cores with look-ahead masks per state) from the item sets. *)
From Coq Require Import Arith NArith PArith List Bool FMapPositive.
Require Import EmbossV.LR.Driver EmbossV.LR.Complete EmbossV.LR.Gen.
Import ListNotations.
Open Scope N_scope.

Definition mask_list (l : list N) : N := fold_right (fun t m => N.lor (bit t) m) 0 l.

Definition fcert_entry (G : grammar) (tab : list fentry) (X : N) : bool * N :=
  (memb oN_eqb None (firsts_of G tab X), mask_list (somes (firsts_of G tab X))).

Definition fcert_of (G : grammar) (tab : list fentry) : fcert :=
  fold_right (fun p m => nset m (fst p) (fcert_entry G tab (fst p))) nempty (g_prods G).

Definition core_of (it : litem) : core := (it_p it, it_d it).

Definition la_mask (I : list litem) (c : core) : N :=
  fold_right (fun it m => if core_eqb c (core_of it) then N.lor (bit (it_a it)) m else m) 0 I.

Definition icert_row (I : list litem) : list item :=
  map (fun it => (core_of it, la_mask I (core_of it))) I.

Fixpoint list_to_map {A : Type} (i : N) (l : list A) (m : nmap A) : nmap A :=
  match l with
  | [] => m
  | x :: t => list_to_map (N.succ i) t (nset m i x)
  end.

Definition icert_of (states : list (list litem)) : icert := list_to_map 0 (map icert_row states) nempty.
