(* LR/GenProofsSound.v -- proofs about the model generator LR/Gen.v, part 6:
   the tables `generate` builds pass the verified checker LR/Sound.check_sound with the known-suffix
   certificate Gen2.scert_of computed from the item sets -- for every grammar, with or without
   conflicts (each action entry is justified by an item whichever writer survives). *)
From Coq Require Import Arith NArith PArith List Bool Lia FMapPositive.
Require Import EmbossV.LR.Driver EmbossV.LR.Sound EmbossV.LR.Complete EmbossV.LR.Early EmbossV.LR.Gen
               EmbossV.LR.GenProofs EmbossV.LR.GenProofsItems EmbossV.LR.GenCert EmbossV.LR.GenProofsLink
               EmbossV.LR.GenCert2 EmbossV.LR.GenProofsColl EmbossV.LR.GenProofsFill.
Import ListNotations.
Open Scope N_scope.

(* ---------------------------------------------------------------- prefixes *)

Lemma is_prefix_refl : forall a, is_prefix a a = true.
Proof. induction a; simpl; auto. rewrite N.eqb_refl. auto. Qed.

Lemma is_prefix_nil_r : forall a, is_prefix a [] = true -> a = [].
Proof. destruct a; simpl; [reflexivity|discriminate]. Qed.

Lemma prefix_comparable : forall a b c, is_prefix a c = true -> is_prefix b c = true ->
  (length a <= length b)%nat -> is_prefix a b = true.
Proof.
  induction a as [|x a IH]; intros b c Ha Hb Hl; [reflexivity|].
  destruct b as [|y b]; [simpl in Hl; lia|]. destruct c as [|z c]; [discriminate|].
  simpl in *. apply andb_true_iff in Ha. destruct Ha as [Ha1 Ha2]. apply andb_true_iff in Hb. destruct Hb as [Hb1 Hb2].
  apply N.eqb_eq in Ha1. apply N.eqb_eq in Hb1. subst. rewrite N.eqb_refl. simpl. eapply IH; eauto. lia.
Qed.

Definition chain (G : grammar) (S : list litem) (ks0 : list N) : Prop :=
  forall it, In it S -> is_prefix (before_dot G it) ks0 = true.

Lemma ksuf_fold : forall G ks0 l acc, is_prefix acc ks0 = true ->
  (forall it, In it l -> is_prefix (before_dot G it) ks0 = true) ->
  is_prefix (fold_left (fun acc it => longer acc (before_dot G it)) l acc) ks0 = true /\
  is_prefix acc (fold_left (fun acc it => longer acc (before_dot G it)) l acc) = true /\
  (forall it, In it l -> is_prefix (before_dot G it) (fold_left (fun acc it => longer acc (before_dot G it)) l acc) = true) /\
  (fold_left (fun acc it => longer acc (before_dot G it)) l acc = acc \/
   exists it, In it l /\ fold_left (fun acc it => longer acc (before_dot G it)) l acc = before_dot G it).
Proof.
  intros G ks0. induction l as [|it l IH]; intros acc Hacc Hall; simpl.
  - split; [exact Hacc|]. split; [apply is_prefix_refl|]. split; [intros it []|left; reflexivity].
  - assert (Hbd : is_prefix (before_dot G it) ks0 = true) by (apply Hall; left; reflexivity).
    assert (Hl : is_prefix (longer acc (before_dot G it)) ks0 = true /\
                 is_prefix acc (longer acc (before_dot G it)) = true /\
                 is_prefix (before_dot G it) (longer acc (before_dot G it)) = true /\
                 (longer acc (before_dot G it) = acc \/ longer acc (before_dot G it) = before_dot G it)).
    { unfold longer. destruct (Nat.leb (length (before_dot G it)) (length acc)) eqn:E.
      - apply Nat.leb_le in E. split; [exact Hacc|]. split; [apply is_prefix_refl|].
        split; [eapply prefix_comparable; eauto|left; reflexivity].
      - apply Nat.leb_gt in E. split; [exact Hbd|]. split; [eapply prefix_comparable; eauto; lia|].
        split; [apply is_prefix_refl|right; reflexivity]. }
    destruct Hl as [L1 [L2 [L3 L4]]].
    destruct (IH (longer acc (before_dot G it)) L1 (fun x h => Hall x (or_intror h))) as [I1 [I2 [I3 I4]]].
    split; [exact I1|]. split; [eapply is_prefix_trans; eauto|]. split.
    + intros x [Hx|Hx]; [subst x; eapply is_prefix_trans; eauto|auto].
    + destruct I4 as [I4|[x [Hx I4]]].
      * destruct L4 as [L4|L4]; [left; congruence|right; exists it; split; [left; reflexivity|congruence]].
      * right. exists x. split; [right; exact Hx|exact I4].
Qed.

Lemma ksuf_spec : forall G S ks0, chain G S ks0 ->
  is_prefix (ksuf G S) ks0 = true /\
  (forall it, In it S -> is_prefix (before_dot G it) (ksuf G S) = true) /\
  (ksuf G S = [] \/ exists it, In it S /\ ksuf G S = before_dot G it).
Proof.
  intros G S ks0 H. destruct (ksuf_fold G ks0 S [] eq_refl H) as [H1 [_ [H3 H4]]]. auto.
Qed.

(* ---------------------------------------------------------------- shape of the items of a state *)

Lemma in_closure_shape : forall G root x, in_closure G root x -> x = root \/ it_d x = O.
Proof. intros G root x H. destruct H as [|it new _ [B [q [gamma [u [_ [_ [_ Hn]]]]]]]]; [auto|]. subst new. auto. Qed.

Lemma before_dot_zero : forall G x, it_d x = O -> before_dot G x = [].
Proof. intros G x H. unfold before_dot. rewrite H. reflexivity. Qed.

Lemma before_dot_advance : forall G k X, next_sym G k = Some X -> before_dot G (advance k) = X :: before_dot G k.
Proof.
  intros G k X H. unfold before_dot, advance, next_sym in *. cbn [it_p it_d].
  rewrite (firstn_S_nth _ _ _ _ H). rewrite rev_app_distr. reflexivity.
Qed.

Lemma canon_chain : forall G eoi J, canon G eoi J -> exists ks0, chain G J ks0.
Proof.
  intros G eoi J H. induction H as [I HI|I X J HI [ks0 IH] _ HJ].
  - exists []. intros it Hit. apply HI in Hit. destruct (in_closure_shape _ _ _ Hit) as [E|E].
    + subst it. reflexivity.
    + rewrite before_dot_zero by exact E. reflexivity.
  - exists (X :: ks0). intros x Hx. apply HJ in Hx. destruct Hx as [k [Hk [Hn Hc]]].
    destruct (in_closure_shape _ _ _ Hc) as [E|E].
    + subst x. rewrite (before_dot_advance _ _ _ Hn). simpl. rewrite N.eqb_refl. simpl. apply IH. exact Hk.
    + rewrite before_dot_zero by exact E. reflexivity.
Qed.

Lemma scert_of_get : forall G states k, nget (scert_of G states) k = option_map (ksuf G) (nth_error states (N.to_nat k)).
Proof.
  intros G states k. unfold scert_of. rewrite list_to_map_get.
  assert (E : N.ltb k 0 = false) by (apply N.ltb_ge; lia). rewrite E. rewrite N.sub_0_r.
  rewrite nth_error_map. destruct (nth_error states (N.to_nat k)); simpl; [reflexivity|apply nget_nempty].
Qed.

Lemma zip_fill_nth_inv : forall G eoi states gotos k f, nth_error (zip_fill G eoi states gotos) k = Some f ->
  exists St grow, nth_error states k = Some St /\ nth_error gotos k = Some grow /\ f = fill_state G eoi grow St.
Proof.
  intros G eoi. induction states as [|s ss IH]; intros gotos k f H; [destruct k; discriminate|].
  destruct gotos as [|g gs]; [destruct k; discriminate|]. destruct k as [|k]; simpl in H.
  - inversion H. exists s, g. auto.
  - apply IH in H. exact H.
Qed.

(* ---------------------------------------------------------------- the link *)

Section SoundLink.
  Variable G : grammar.
  Variable eoi : N.
  Variable tab : list fentry.
  Variable cf : nat.
  Variable states : list (list litem).
  Variable gotos : list (list (N * N)).
  Variable T : tables.
  Hypothesis Hcoll : coll_ok G tab eoi cf states gotos.
  Hypothesis Hcoll2 : coll_ok2 G eoi states gotos.
  Let fs := zip_fill G eoi states gotos.
  Hypothesis Hact : t_action T = rows_to_map 0 (map f_row fs) nempty.
  Hypothesis Hgoto : t_goto T = rows_to_map 0 (map (trim_goto G) gotos) nempty.
  Let C := scert_of G states.

  Section State.
    Variable k : nat.
    Variable S0 : list litem.
    Variable grow : list (N * N).
    Hypothesis Hk : nth_error states k = Some S0.
    Hypothesis Hg : nth_error gotos k = Some grow.

    Lemma st_target : forall X j, In (X, j) grow -> check_target C (ksuf G S0) X j = true.
    Proof.
      intros X j Hin. destruct (c2_rows _ _ _ _ Hcoll2 _ _ _ _ _ Hk Hg Hin) as [[it [Hit Hn]] [J' [HJ' HinJ]]].
      assert (Hcan : canon G eoi S0) by (apply (c2_canon _ _ _ _ Hcoll2); eapply nth_error_In; exact Hk).
      destruct (canon_chain _ _ _ Hcan) as [ks0 Hch].
      destruct (ksuf_spec _ _ _ Hch) as [_ [Hall _]].
      assert (Hcan' : canon G eoi J') by (apply (c2_canon _ _ _ _ Hcoll2); eapply nth_error_In; exact HJ').
      destruct (canon_chain _ _ _ Hcan') as [ks1 Hch1].
      destruct (ksuf_spec _ _ _ Hch1) as [_ [Hall1 Hwit]].
      assert (Hadv : In (advance it) J') by (apply HinJ; exists it; split; [exact Hit|]; split; [exact Hn|constructor]).
      pose proof (Hall1 _ Hadv) as Hp. rewrite (before_dot_advance _ _ _ Hn) in Hp.
      unfold check_target, C. rewrite scert_of_get, HJ'. simpl.
      destruct Hwit as [E|[x [Hx E]]]; [rewrite E in Hp; discriminate|].
      apply HinJ in Hx. destruct Hx as [k' [Hk' [Hn' Hc']]].
      destruct (in_closure_shape _ _ _ Hc') as [Ex|Ex].
      - subst x. rewrite E, (before_dot_advance _ _ _ Hn'). rewrite N.eqb_refl. simpl. apply Hall. exact Hk'.
      - rewrite (before_dot_zero _ _ Ex) in E. rewrite E in Hp. discriminate.
    Qed.

    Lemma st_act : forall t a, In (t, a) (f_row (fill_state G eoi grow S0)) -> check_act G C (ksuf G S0) (t, a) = true.
    Proof.
      intros t a Hin. apply fill_state_just in Hin. destruct Hin as [it [Hit Hk']].
      assert (Hcan : canon G eoi S0) by (apply (c2_canon _ _ _ _ Hcoll2); eapply nth_error_In; exact Hk).
      destruct (canon_chain _ _ _ Hcan) as [ks0 Hch].
      destruct (ksuf_spec _ _ _ Hch) as [_ [Hall _]]. pose proof (Hall _ Hit) as Hp.
      unfold check_act. cbn [fst snd]. destruct a as [j|l r| |c].
      - apply ekey_shift in Hk'. destruct Hk' as [_ [Ht Ha]]. rewrite Ht. simpl.
        apply st_target. apply assoc_In. exact Ha.
      - apply ekey_reduce in Hk'. destruct Hk' as [Hn [_ [p [Hp1 Hp2]]]].
        apply andb_true_iff. split; [apply In_mem_prod; eapply nth_error_In; exact Hp2|].
        unfold before_dot in Hp. unfold next_sym in Hn. apply nth_error_None in Hn.
        rewrite firstn_all2 in Hp by exact Hn. unfold prod_rhs in Hp. rewrite Hp1, Hp2 in Hp. exact Hp.
      - apply ekey_accept in Hk'. destruct Hk' as [_ [_ [Hp1 [Hd _]]]].
        unfold before_dot, prod_rhs in Hp. rewrite Hp1, Hd in Hp. simpl in Hp.
        destruct (ksuf G S0) as [|X ks]; [discriminate|]. simpl in Hp. apply andb_true_iff in Hp. destruct Hp as [Hp _].
        rewrite N.eqb_sym. exact Hp.
      - reflexivity.
    Qed.

    Lemma st_goto_entry : forall e, In e (trim_goto G grow) -> check_goto C (ksuf G S0) e = true.
    Proof.
      intros [X j] Hin. unfold trim_goto in Hin. apply filter_In in Hin. destruct Hin as [Hin _].
      unfold check_goto. simpl. apply st_target. exact Hin.
    Qed.
  End State.

  Lemma C_find : forall pos St, nth_error states (N.to_nat (Pos.pred_N pos)) = Some St ->
    PositiveMap.find pos C = Some (ksuf G St).
  Proof.
    intros pos St H. pose proof (scert_of_get G states (Pos.pred_N pos)) as E. rewrite H in E. simpl in E.
    unfold nget in E. rewrite succ_pos_pred_N in E. exact E.
  Qed.

  Lemma tables_pass_check_sound : check_sound G T C = true.
  Proof.
    unfold check_sound. apply andb_true_iff. split; [apply andb_true_iff; split|].
    - destruct (co_init _ _ _ _ _ _ Hcoll) as [I0 [H0 Hin0]]. unfold C. rewrite scert_of_get. change (N.to_nat 0) with O. rewrite H0. cbn [option_map].
      assert (Hch : chain G I0 []).
      { intros it Hit. apply Hin0 in Hit. destruct (in_closure_shape _ _ _ Hit) as [E|E].
        - subst it. reflexivity.
        - rewrite before_dot_zero by exact E. reflexivity. }
      destruct (ksuf_spec _ _ _ Hch) as [Hp _]. apply is_prefix_nil_r in Hp. rewrite Hp. reflexivity.
    - unfold check_rows. apply forallb_forall. intros [pos row] Hin. cbn [fst snd].
      apply PositiveMap.elements_complete in Hin.
      assert (Hget : nget (t_action T) (Pos.pred_N pos) = Some row) by (unfold nget; rewrite succ_pos_pred_N; exact Hin).
      rewrite Hact in Hget. apply rows_to_map_nth in Hget. rewrite nth_error_map in Hget.
      destruct (nth_error fs (N.to_nat (Pos.pred_N pos))) as [f|] eqn:Ef; [|discriminate].
      simpl in Hget. inversion Hget. subst row. clear Hget.
      destruct (zip_fill_nth_inv _ _ _ _ _ _ Ef) as [St [grow [Hk [Hg Hf]]]]. subst f.
      rewrite (C_find _ _ Hk). apply forallb_forall. intros [t a] He. eapply st_act; eassumption.
    - unfold check_rows. apply forallb_forall. intros [pos row] Hin. cbn [fst snd].
      apply PositiveMap.elements_complete in Hin.
      assert (Hget : nget (t_goto T) (Pos.pred_N pos) = Some row) by (unfold nget; rewrite succ_pos_pred_N; exact Hin).
      rewrite Hgoto in Hget. apply rows_to_map_nth in Hget. rewrite nth_error_map in Hget.
      destruct (nth_error gotos (N.to_nat (Pos.pred_N pos))) as [grow|] eqn:Eg; [|discriminate].
      simpl in Hget. inversion Hget. subst row. clear Hget.
      assert (Hkl : (N.to_nat (Pos.pred_N pos) < length states)%nat).
      { rewrite <- (co_len _ _ _ _ _ _ Hcoll). apply nth_error_Some. congruence. }
      destruct (nth_error states (N.to_nat (Pos.pred_N pos))) as [St|] eqn:Ek; [|apply nth_error_None in Ek; lia].
      rewrite (C_find _ _ Ek). apply forallb_forall. intros e He. eapply st_goto_entry; eassumption.
  Qed.
End SoundLink.

(* the tables the model generator builds pass check_sound -- for EVERY grammar, clean or not *)
Theorem generate_pass_check_sound : forall G eoi sp ff cf sf r,
  is_nonterminal G eoi = false -> generate G eoi sp ff cf sf = GenOk r ->
  check_sound G (g_tables r) (scert_of G (g_states r)) = true.
Proof.
  intros G eoi sp ff cf sf r Heoi Hgen. unfold generate in Hgen.
  destruct (first_table G ff) as [tab|] eqn:Ef; [|discriminate].
  destruct (items G tab eoi cf sf) as [[states gotos]|] eqn:Ei; [|discriminate].
  inversion Hgen. subst r. clear Hgen. cbn [g_tables g_states].
  pose proof (first_table_sound _ _ _ Ef) as Hs. pose proof (first_fix_stable _ _ _ _ Ef) as Hst.
  eapply (tables_pass_check_sound G eoi tab cf states gotos); try reflexivity.
  - eapply items_coll_ok; eassumption.
  - eapply items_coll_ok2; eassumption.
Qed.

(* accepted => the tree is a derivation of the input, for the model generator's tables *)
Theorem generate_run_sound : forall G eoi sp ff cf sf r fuel toks t,
  is_nonterminal G eoi = false -> generate G eoi sp ff cf sf = GenOk r ->
  ~ In eoi toks -> run (g_tables r) fuel toks = Accepted t -> derives G (g_start G) t 0%nat toks.
Proof.
  intros G eoi sp ff cf sf r fuel toks t Heoi Hgen Hn Hr.
  eapply run_sound; [eapply generate_pass_check_sound; eassumption| |exact Hr].
  unfold generate in Hgen. destruct (first_table G ff); [|discriminate].
  destruct (items G l eoi cf sf) as [[states gotos]|]; [|discriminate]. inversion Hgen. subst r. exact Hn.
Qed.
