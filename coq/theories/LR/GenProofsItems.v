(* LR/GenProofsItems.v -- proofs about the model generator LR/Gen.v, part 2:
   the canonical collection (items_loop): every recorded transition leads to a state that is,
   as a set, the GOTO of its source; all next symbols of all states have a transition. *)
From Coq Require Import Arith NArith PArith List Bool Lia FMapPositive.
Require Import EmbossV.LR.Driver EmbossV.LR.Sound EmbossV.LR.Complete EmbossV.LR.Gen EmbossV.LR.GenProofs.
Import ListNotations.
Open Scope N_scope.

Lemma iset_sub_spec : forall a b, iset_sub a b = true <-> incl a b.
Proof.
  intros a b. unfold iset_sub. rewrite forallb_forall. split; intros H x Hx.
  - apply (memb_In _ litem_eqb_spec). auto.
  - apply (memb_In _ litem_eqb_spec). auto.
Qed.

Lemma iset_eqb_spec : forall a b, iset_eqb a b = true <-> same_set a b.
Proof.
  intros a b. unfold iset_eqb, same_set. rewrite andb_true_iff, !iset_sub_spec. split.
  - intros [H1 H2] x. split; auto.
  - intros H. split; intros x Hx; apply H; exact Hx.
Qed.

Lemma same_set_refl : forall a, same_set a a.
Proof. intros a x. tauto. Qed.

Lemma find_state_spec : forall J states i j, find_state J states i = Some j ->
  exists k J', j = i + N.of_nat k /\ nth_error states k = Some J' /\ same_set J J'.
Proof.
  intros J. induction states as [|s r IH]; intros i j H; simpl in H; [discriminate|].
  destruct (iset_eqb J s) eqn:E.
  - inversion H. subst. exists O, s. simpl. split; [lia|]. split; [reflexivity|]. apply iset_eqb_spec. exact E.
  - apply IH in H. destruct H as [k [J' [H1 [H2 H3]]]]. exists (S k), J'. simpl. split; [lia|]. auto.
Qed.

Lemma assoc_some_of_In : forall (A : Type) (l : list (N * A)) k v, In (k, v) l -> exists v', assoc k l = Some v'.
Proof.
  induction l as [|[k' v'] l IH]; intros k v H; [destruct H|]. simpl.
  destruct (N.eqb k k') eqn:E; [eauto|]. destruct H as [H|H].
  - inversion H. subst. rewrite N.eqb_refl in E. discriminate.
  - eapply IH. exact H.
Qed.

Lemma next_syms_In : forall G I X, In X (next_syms G I) <-> exists it, In it I /\ next_sym G it = Some X.
Proof.
  intros G I X. unfold next_syms. rewrite (fresh_In _ Neqb_spec). rewrite in_flat_map. split.
  - intros [[it [H1 H2]] _]. exists it. split; [exact H1|]. destruct (next_sym G it) as [Y|]; [|destruct H2].
    destruct H2 as [H2|[]]. subst. reflexivity.
  - intros [it [H1 H2]]. split; [|intros []]. exists it. split; [exact H1|]. rewrite H2. left. reflexivity.
Qed.

Section Items.
  Variable G : grammar.
  Variable tab : list fentry.
  Variable cfuel : nat.

  (* the row of state I: every entry (X, j) points to a state that is the goto of I on X, as a set *)
  Definition row_ok (states : list (list litem)) (I : list litem) (row : list (N * N)) : Prop :=
    forall X j, In (X, j) row ->
      exists J J', goto G tab cfuel I X = Some J /\ nth_error states (N.to_nat j) = Some J' /\ same_set J J'.

  Lemma row_ok_ext : forall states ext I row, row_ok states I row -> row_ok (states ++ ext) I row.
  Proof.
    intros states ext I row H X j Hin. destruct (H _ _ Hin) as [J [J' [H1 [H2 H3]]]].
    exists J, J'. split; [exact H1|]. split; [|exact H3].
    rewrite nth_error_app1; [exact H2|]. apply nth_error_Some. congruence.
  Qed.

  Variable P : list litem -> Prop.
  Hypothesis P_goto : forall I X J, P I -> goto G tab cfuel I X = Some J -> P J.

  Lemma trans_of_spec : forall I, P I -> forall syms states row states' row',
    trans_of G tab cfuel I syms states row = Some (states', row') ->
    row_ok states I row -> (forall s, In s states -> P s) ->
    (exists ext, states' = states ++ ext) /\ row_ok states' I row' /\ (forall s, In s states' -> P s) /\
    (forall X, (In X syms \/ exists j, In (X, j) row) -> exists j, In (X, j) row').
  Proof.
    intros I HPI. induction syms as [|X r IH]; intros states row states' row' H Hrow HP; simpl in H.
    - inversion H. subst. split; [exists []; symmetry; apply app_nil_r|]. split; [exact Hrow|]. split; [exact HP|].
      intros X [[]|Hx]. exact Hx.
    - destruct (goto G tab cfuel I X) as [J|] eqn:Eg; [|discriminate].
      destruct (find_state J states 0) as [j|] eqn:Ef.
      + apply find_state_spec in Ef. destruct Ef as [k [J' [Hj [Hk Hss]]]].
        apply IH in H; [| |exact HP].
        * destruct H as [H1 [H2 [H3 H4]]]. split; [exact H1|]. split; [exact H2|]. split; [exact H3|].
          intros Y [[Hy|Hy]|[j' Hy]].
          -- subst Y. apply H4. right. exists j. apply in_app_iff. right. left. reflexivity.
          -- apply H4. auto.
          -- apply H4. right. exists j'. apply in_app_iff. auto.
        * intros Y j' Hin. apply in_app_iff in Hin. destruct Hin as [Hin|[Hin|[]]]; [auto|].
          inversion Hin. subst Y j'. exists J, J'. split; [exact Eg|]. split; [|exact Hss].
          rewrite Hj. simpl. rewrite Nat2N.id. exact Hk.
      + apply IH in H.
        * destruct H as [[ext H1] [H2 [H3 H4]]]. split; [exists ([J] ++ ext); rewrite H1, <- app_assoc; reflexivity|].
          split; [exact H2|]. split; [exact H3|].
          intros Y [[Hy|Hy]|[j' Hy]].
          -- subst Y. apply H4. right. exists (nlength states). apply in_app_iff. right. left. reflexivity.
          -- apply H4. auto.
          -- apply H4. right. exists j'. apply in_app_iff. auto.
        * intros Y j' Hin. apply in_app_iff in Hin. destruct Hin as [Hin|[Hin|[]]].
          -- exact (row_ok_ext _ [J] _ _ Hrow _ _ Hin).
          -- inversion Hin. subst Y j'. exists J, J. split; [exact Eg|]. split; [|apply same_set_refl].
             unfold nlength. rewrite Nat2N.id. rewrite nth_error_app2 by lia. rewrite Nat.sub_diag. reflexivity.
        * intros s Hs. apply in_app_iff in Hs. destruct Hs as [Hs|[Hs|[]]]; [auto|]. subst s. eapply P_goto; eauto.
  Qed.

  (* all processed states have a complete, correct row *)
  Definition rows_ok (states : list (list litem)) (gotos : list (list (N * N))) : Prop :=
    forall k I row, nth_error states k = Some I -> nth_error gotos k = Some row ->
      row_ok states I row /\ forall X, In X (next_syms G I) -> exists j, In (X, j) row.

  Lemma items_loop_spec : forall fuel states gotos i states' gotos',
    items_loop G tab cfuel fuel states gotos i = Some (states', gotos') ->
    length gotos = i -> (i <= length states)%nat -> rows_ok states gotos -> (forall s, In s states -> P s) ->
    (exists ext, states' = states ++ ext) /\ length gotos' = length states' /\ rows_ok states' gotos' /\
    (forall s, In s states' -> P s).
  Proof.
    induction fuel as [|f IH]; intros states gotos i states' gotos' H Hlen Hle Hrows HP; [discriminate|].
    simpl in H. destruct (nth_error states i) as [I|] eqn:Ei.
    - destruct (trans_of G tab cfuel I (next_syms G I) states []) as [[st2 row]|] eqn:Et; [|discriminate].
      assert (HPI : P I) by (apply HP; eapply nth_error_In; eauto).
      destruct (trans_of_spec I HPI _ _ _ _ _ Et) as [[ext Hext] [Hrow [HP2 Htot]]].
      { intros X j []. }
      { exact HP. }
      assert (Hi : (i < length states)%nat) by (apply nth_error_Some; congruence).
      apply IH in H.
      + destruct H as [[ext2 H1] H2]. split; [|exact H2]. exists (ext ++ ext2). rewrite H1, Hext, app_assoc. reflexivity.
      + rewrite app_length. simpl. lia.
      + subst st2. rewrite app_length. lia.
      + intros k I' row' Hk Hg. destruct (Nat.eq_dec k i) as [Hki|Hki].
        * subst k. rewrite nth_error_app2 in Hg by lia. rewrite Hlen, Nat.sub_diag in Hg. simpl in Hg.
          inversion Hg. subst row'. subst st2. rewrite nth_error_app1 in Hk by lia. rewrite Ei in Hk.
          inversion Hk. subst I'. split; [exact Hrow|]. intros X HX. apply Htot. auto.
        * assert (Hk2 : (k < length gotos)%nat).
          { assert (Hk3 : (k < length (gotos ++ [row]))%nat) by (apply nth_error_Some; congruence).
            rewrite app_length in Hk3. simpl in Hk3. lia. }
          rewrite nth_error_app1 in Hg by exact Hk2. subst st2.
          rewrite nth_error_app1 in Hk by lia.
          destruct (Hrows _ _ _ Hk Hg) as [Hr1 Hr2]. split; [apply row_ok_ext; exact Hr1|exact Hr2].
      + exact HP2.
    - inversion H. subst. apply nth_error_None in Ei.
      split; [exists []; symmetry; apply app_nil_r|]. split; [lia|]. split; [exact Hrows|exact HP].
  Qed.
End Items.

(* ---------------------------------------------------------------- well-formed, closed states *)

Definition good_state (G : grammar) (S : list litem) : Prop :=
  closed_under_adds G S /\ forall it, In it S -> item_ok G it /\ is_nonterminal G (it_a it) = false.

Lemma adds_ok : forall G it new, adds G it new -> item_ok G new /\ is_nonterminal G (it_a new) = false.
Proof.
  intros G it new [B [q [gamma [u [H1 [H2 [[H3 _] H4]]]]]]]. subst new. simpl. split; [|exact H3].
  unfold item_ok. simpl. split; [lia|]. apply nth_error_Some. congruence.
Qed.

Lemma in_closure_ok : forall G root x, in_closure G root x ->
  item_ok G root /\ is_nonterminal G (it_a root) = false ->
  item_ok G x /\ is_nonterminal G (it_a x) = false.
Proof. intros G root x H Hr. induction H; [exact Hr|]. eapply adds_ok; eauto. Qed.

Lemma advance_ok : forall G k X, item_ok G k -> next_sym G k = Some X -> item_ok G (advance k).
Proof.
  intros G k X [H1 H2] Hn. unfold item_ok, advance. simpl. split; [|exact H2].
  unfold next_sym in Hn. assert (it_d k < length (prod_rhs G (it_p k)))%nat by (apply nth_error_Some; congruence). lia.
Qed.

Section Good.
  Variable G : grammar.
  Variable tab : list fentry.
  Hypothesis Hs : tab_sound G tab.
  Hypothesis Hst : first_stable G tab = true.

  Lemma closure_good : forall fuel root R, closure_item G tab fuel root = Some R ->
    item_ok G root -> is_nonterminal G (it_a root) = false -> good_state G R.
  Proof.
    intros fuel root R H Hok Ht. pose proof (closure_item_exact G tab Hs Hst _ _ _ H) as Hex. split.
    - intros it new Hi Ha. apply Hex. apply Hex in Hi. eapply IC_step; eauto.
    - intros it Hi. apply Hex in Hi. eapply in_closure_ok; eauto.
  Qed.

  Lemma goto_good : forall fuel I X J, good_state G I -> goto G tab fuel I X = Some J -> good_state G J.
  Proof.
    intros fuel I X J [Hc Hok] H. pose proof (goto_exact G tab Hs Hst _ _ _ _ H) as Hex. split.
    - intros it new Hi Ha. apply Hex. apply Hex in Hi. destruct Hi as [k [H1 [H2 H3]]].
      exists k. split; [exact H1|]. split; [exact H2|]. eapply IC_step; eauto.
    - intros it Hi. apply Hex in Hi. destruct Hi as [k [H1 [H2 H3]]].
      eapply in_closure_ok; [exact H3|]. destruct (Hok _ H1) as [Ho Ht]. split; [eapply advance_ok; eauto|exact Ht].
  Qed.

  (* everything the later proofs need to know about the canonical collection *)
  Record coll_ok (eoi : N) (cfuel : nat) (states : list (list litem)) (gotos : list (list (N * N))) : Prop := {
    co_len : length gotos = length states;
    co_init : exists I0, nth_error states 0 = Some I0 /\ forall x, In x I0 <-> in_closure G (seed_item eoi) x;
    co_good : forall s, In s states -> good_state G s;
    co_rows : rows_ok G tab cfuel states gotos
  }.

  Lemma items_coll_ok : forall eoi cfuel fuel states gotos,
    is_nonterminal G eoi = false ->
    items G tab eoi cfuel fuel = Some (states, gotos) -> coll_ok eoi cfuel states gotos.
  Proof.
    intros eoi cfuel fuel states gotos Heoi H. unfold items in H.
    destruct (closure_item G tab cfuel (seed_item eoi)) as [I0|] eqn:E0; [|discriminate].
    assert (Hg0 : good_state G I0).
    { eapply closure_good; [exact E0| |exact Heoi]. unfold item_ok, seed_item. simpl. split; [lia|exact I]. }
    destruct (items_loop_spec G tab cfuel (good_state G) (fun I X J HI HJ => goto_good cfuel I X J HI HJ)
                _ _ _ _ _ _ H eq_refl) as [[ext Hext] [Hlen [Hrows HP]]].
    - simpl. lia.
    - intros k I row Hk Hg. destruct k; discriminate.
    - intros s [Hs0|[]]. subst. exact Hg0.
    - constructor; [exact Hlen| |exact HP|exact Hrows].
      exists I0. subst states. split; [reflexivity|]. apply (closure_item_exact G tab Hs Hst _ _ _ E0).
  Qed.
End Good.

(* d. the computed collection contains the closure of the start item and is closed under GOTO:
   for every state and every symbol X after a dot in it, the goto row of the state sends X to a
   state of the collection that is exactly (as a set) GOTO(state, X) *)
Theorem items_closed : forall G ffuel tab eoi cfuel fuel states gotos,
  first_table G ffuel = Some tab -> is_nonterminal G eoi = false ->
  items G tab eoi cfuel fuel = Some (states, gotos) ->
  (exists I0, nth_error states 0 = Some I0 /\ forall x, In x I0 <-> in_closure G (seed_item eoi) x) /\
  (forall k I X, nth_error states k = Some I -> (exists it, In it I /\ next_sym G it = Some X) ->
     exists row j J, nth_error gotos k = Some row /\ assoc X row = Some j /\
                     nth_error states (N.to_nat j) = Some J /\ forall x, In x J <-> in_goto G I X x).
Proof.
  intros G ffuel tab eoi cfuel fuel states gotos Hf Heoi H.
  pose proof (first_table_sound _ _ _ Hf) as Hs. pose proof (first_fix_stable _ _ _ _ Hf) as Hst.
  destruct (items_coll_ok G tab Hs Hst _ _ _ _ _ Heoi H) as [Hlen Hinit Hgood Hrows].
  split; [exact Hinit|].
  intros k I X Hk Hx. apply next_syms_In in Hx.
  assert (Hkl : (k < length gotos)%nat) by (rewrite Hlen; apply nth_error_Some; congruence).
  destruct (nth_error gotos k) as [row|] eqn:Eg; [|apply nth_error_None in Eg; lia].
  destruct (Hrows _ _ _ Hk Eg) as [Hr1 Hr2]. destruct (Hr2 _ Hx) as [j0 Hj0].
  destruct (assoc_some_of_In _ _ _ _ Hj0) as [j Hj]. pose proof (assoc_In _ _ _ _ Hj) as Hj'.
  destruct (Hr1 _ _ Hj') as [J [J' [H1 [H2 H3]]]].
  exists row, j, J'. split; [reflexivity|]. split; [exact Hj|]. split; [exact H2|].
  intros x. rewrite <- (H3 x). apply (goto_exact G tab Hs Hst _ _ _ _ H1).
Qed.

(* ---------------------------------------------------------------- c. closure and goto, stated on first_table *)

Theorem closure_exact : forall G ffuel tab cfuel root R,
  first_table G ffuel = Some tab -> closure_item G tab cfuel root = Some R ->
  forall x, In x R <-> in_closure G root x.
Proof.
  intros G ffuel tab cfuel root R Hf H.
  exact (closure_item_exact G tab (first_table_sound _ _ _ Hf) (first_fix_stable _ _ _ _ Hf) _ _ _ H).
Qed.

Theorem closure_closed : forall G ffuel tab cfuel root R,
  first_table G ffuel = Some tab -> closure_item G tab cfuel root = Some R ->
  In root R /\ closed_under_adds G R.
Proof.
  intros G ffuel tab cfuel root R Hf H. pose proof (closure_exact _ _ _ _ _ _ Hf H) as Hex. split.
  - apply Hex. constructor.
  - intros it new Hi Ha. apply Hex. apply Hex in Hi. eapply IC_step; eauto.
Qed.

(* every item of the computed closure is the root or is justified by an item of the closure:
   [A -> alpha . B beta, t] in R, B -> gamma in G, u in FIRST(beta t)  <->  [B -> . gamma, u] in R beyond the root *)
Theorem closure_sound : forall G ffuel tab cfuel root R,
  first_table G ffuel = Some tab -> closure_item G tab cfuel root = Some R ->
  forall new, In new R <-> new = root \/ exists it, In it R /\ adds G it new.
Proof.
  intros G ffuel tab cfuel root R Hf H new. pose proof (closure_exact _ _ _ _ _ _ Hf H) as Hex. split.
  - intros Hn. apply Hex in Hn. destruct Hn as [|it new Hi Ha]; [left; reflexivity|].
    right. exists it. split; [apply Hex; exact Hi|exact Ha].
  - intros [Hn|[it [Hi Ha]]]; apply Hex; [subst; constructor|]. apply Hex in Hi. eapply IC_step; eauto.
Qed.

Theorem goto_spec : forall G ffuel tab cfuel I X J,
  first_table G ffuel = Some tab -> goto G tab cfuel I X = Some J ->
  forall x, In x J <-> in_goto G I X x.
Proof.
  intros G ffuel tab cfuel I X J Hf H.
  exact (goto_exact G tab (first_table_sound _ _ _ Hf) (first_fix_stable _ _ _ _ Hf) _ _ _ _ H).
Qed.
