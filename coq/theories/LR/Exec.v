(* LR/Exec.v -- executable glue for the C08/C09 harness (definitions only).

   The harness (harness/lr_tables.py) dumps tables, certificates and commands as
   lines of natural numbers; `main` interprets the lines and returns lines of
   numbers.  The same function is run either as extracted OCaml
   (extract/lr/driver.ml only converts between text and `list (list N)`) or inside
   Coq by vm_compute on a generated literal.

   Input lines (first number = tag):
     [1; slot; eoi; dflt]              begin a table
     [2; idx; lhs; rhs...]             production table entry (shared by all tables)
     [3; state; (sym kind arg)*]       action row; kind 0 Shift(state) 1 Reduce(prod idx) 2 Accept 3 Error(code)
     [4; state; (sym target)*]         goto row
     [5; state; code]                  default error
     [6; idx*]                         Parser.productions
     [7; state; sym*]                  known-suffix certificate entry (top of stack first)
     [8]                               end of table: store it in its slot
     [9; gslot; start; idx*]           define a grammar
     [10; gslot; slot]                 -> [10; gslot; slot; check_sound]
     [11; a; b*]                       relation entry a -> bs
     [12; slotA; slotB]                -> [12; slotA; slotB; bisim_check_rel; rel_diag]   (and clears the relation)
     [13; slot; fuel; tok*]            -> [13; encoded result of run]
     [14; slotC; slotF; idx*]          -> [14; 1 if load picks the cached table else 0]
     [15; n; idx^n; idx*]              -> [15; prodset_eqb of the two production lists]
     [20; state; pcode; dot; sym*]     LR(1) item core of the current table: pcode 0 = S' -> start, k+1 = k-th
                                       production of the grammar it will be checked against; sym* = look-aheads
     [21; X; nullable; sym*]           FIRST certificate entry for nonterminal X
     [22; gslot; slot]                 -> [22; gslot; slot; check_complete]   (and clears the FIRST certificate)
     [23; X; rank]                     productivity certificate entry for nonterminal X
     [24; gslot; slot]                 -> [24; gslot; slot; check_early; check_productive]  (and clears the ranks)
     [30; gslot; eoi; sp; ffuel; cfuel; ifuel]
                                       run the MODEL GENERATOR LR/Gen.generate on the grammar (ffuel 0 = Gen.first_fuel, cfuel 0 = Gen.closure_fuel)
                                       -> [30; gslot; 1; enc_gen result]  or  [30; gslot; 2; stage] when out of fuel
     [31; gslot; ffuel]                -> [31; gslot; 1; first_stable; enc_first (Gen.first_table)]  or  [31; gslot; 2]
   Anything else (or a reference to an undefined slot/production)  -> [0; tag]. *)
From Coq Require Import Arith NArith PArith List Bool FMapPositive.
Require Import EmbossV.LR.Driver EmbossV.LR.Sound EmbossV.LR.Bisim EmbossV.LR.Complete EmbossV.LR.Early EmbossV.LR.Gen.
Import ListNotations.
Open Scope N_scope.

Definition empty_tables (eoi : N) (dflt : bool) : tables :=
  {| t_action := nempty; t_goto := nempty; t_derr := nempty; t_dflt := dflt; t_eoi := eoi; t_prods := [] |}.

Record xstate := {
  x_ptab : nmap production;
  x_slot : N;
  x_cur : tables;
  x_cert : cert;
  x_items : icert;
  x_first : fcert;
  x_rank : pcert;
  x_slots : nmap (tables * cert * icert);
  x_grams : nmap grammar;
  x_rel : rel;
  x_out : list (list N)            (* reversed *)
}.

Definition x_init : xstate :=
  {| x_ptab := nempty; x_slot := 0; x_cur := empty_tables 0 false; x_cert := nempty; x_items := nempty;
     x_first := nempty; x_rank := nempty; x_slots := nempty; x_grams := nempty; x_rel := nempty; x_out := [] |}.

Definition emit (s : xstate) (l : list N) : xstate :=
  {| x_ptab := x_ptab s; x_slot := x_slot s; x_cur := x_cur s; x_cert := x_cert s; x_items := x_items s;
     x_first := x_first s; x_rank := x_rank s; x_slots := x_slots s; x_grams := x_grams s; x_rel := x_rel s; x_out := l :: x_out s |}.

Definition with_cur (s : xstate) (slot : N) (t : tables) (c : cert) : xstate :=
  {| x_ptab := x_ptab s; x_slot := slot; x_cur := t; x_cert := c; x_items := x_items s;
     x_first := x_first s; x_rank := x_rank s; x_slots := x_slots s; x_grams := x_grams s; x_rel := x_rel s; x_out := x_out s |}.

Definition with_items (s : xstate) (i : icert) : xstate :=
  {| x_ptab := x_ptab s; x_slot := x_slot s; x_cur := x_cur s; x_cert := x_cert s; x_items := i;
     x_first := x_first s; x_rank := x_rank s; x_slots := x_slots s; x_grams := x_grams s; x_rel := x_rel s; x_out := x_out s |}.

Definition with_first (s : xstate) (f : fcert) : xstate :=
  {| x_ptab := x_ptab s; x_slot := x_slot s; x_cur := x_cur s; x_cert := x_cert s; x_items := x_items s;
     x_first := f; x_rank := x_rank s; x_slots := x_slots s; x_grams := x_grams s; x_rel := x_rel s; x_out := x_out s |}.

Definition with_rank (s : xstate) (r : pcert) : xstate :=
  {| x_ptab := x_ptab s; x_slot := x_slot s; x_cur := x_cur s; x_cert := x_cert s; x_items := x_items s;
     x_first := x_first s; x_rank := r; x_slots := x_slots s; x_grams := x_grams s; x_rel := x_rel s; x_out := x_out s |}.

Definition with_ptab (s : xstate) (p : nmap production) : xstate :=
  {| x_ptab := p; x_slot := x_slot s; x_cur := x_cur s; x_cert := x_cert s; x_items := x_items s;
     x_first := x_first s; x_rank := x_rank s; x_slots := x_slots s; x_grams := x_grams s; x_rel := x_rel s; x_out := x_out s |}.

Definition with_slots (s : xstate) (m : nmap (tables * cert * icert)) : xstate :=
  {| x_ptab := x_ptab s; x_slot := x_slot s; x_cur := x_cur s; x_cert := x_cert s; x_items := x_items s;
     x_first := x_first s; x_rank := x_rank s; x_slots := m; x_grams := x_grams s; x_rel := x_rel s; x_out := x_out s |}.

Definition with_grams (s : xstate) (m : nmap grammar) : xstate :=
  {| x_ptab := x_ptab s; x_slot := x_slot s; x_cur := x_cur s; x_cert := x_cert s; x_items := x_items s;
     x_first := x_first s; x_rank := x_rank s; x_slots := x_slots s; x_grams := m; x_rel := x_rel s; x_out := x_out s |}.

Definition with_rel (s : xstate) (r : rel) : xstate :=
  {| x_ptab := x_ptab s; x_slot := x_slot s; x_cur := x_cur s; x_cert := x_cert s; x_items := x_items s;
     x_first := x_first s; x_rank := x_rank s; x_slots := x_slots s; x_grams := x_grams s; x_rel := r; x_out := x_out s |}.

Definition mask_of (l : list N) : N := fold_left (fun m b => N.lor m (bit b)) l 0.

Fixpoint decode_acts (pt : nmap production) (l : list N) : option (list (N * act)) :=
  match l with
  | [] => Some []
  | sym :: kind :: arg :: rest =>
      match decode_acts pt rest with
      | None => None
      | Some r =>
          match kind with
          | 0 => Some ((sym, Shift arg) :: r)
          | 1 => match nget pt arg with Some (lhs, rhs) => Some ((sym, Reduce lhs rhs) :: r) | None => None end
          | 2 => Some ((sym, Accept) :: r)
          | 3 => Some ((sym, Err arg) :: r)
          | _ => None
          end
      end
  | _ => None
  end.

Fixpoint decode_pairs (l : list N) : option (list (N * N)) :=
  match l with
  | [] => Some []
  | a :: b :: rest => match decode_pairs rest with Some r => Some ((a, b) :: r) | None => None end
  | _ => None
  end.

Fixpoint decode_prods (pt : nmap production) (l : list N) : option (list production) :=
  match l with
  | [] => Some []
  | i :: rest =>
      match nget pt i, decode_prods pt rest with
      | Some p, Some r => Some (p :: r)
      | _, _ => None
      end
  end.

Definition set_action (t : tables) (st : N) (r : list (N * act)) : tables :=
  {| t_action := nset (t_action t) st r; t_goto := t_goto t; t_derr := t_derr t;
     t_dflt := t_dflt t; t_eoi := t_eoi t; t_prods := t_prods t |}.
Definition set_goto (t : tables) (st : N) (r : list (N * N)) : tables :=
  {| t_action := t_action t; t_goto := nset (t_goto t) st r; t_derr := t_derr t;
     t_dflt := t_dflt t; t_eoi := t_eoi t; t_prods := t_prods t |}.
Definition set_derr (t : tables) (st c : N) : tables :=
  {| t_action := t_action t; t_goto := t_goto t; t_derr := nset (t_derr t) st c;
     t_dflt := t_dflt t; t_eoi := t_eoi t; t_prods := t_prods t |}.
Definition set_prods (t : tables) (ps : list production) : tables :=
  {| t_action := t_action t; t_goto := t_goto t; t_derr := t_derr t;
     t_dflt := t_dflt t; t_eoi := t_eoi t; t_prods := ps |}.

Definition b2n (b : bool) : N := if b then 1 else 0.

Definition crash_code (k : crash) : N :=
  match k with
  | CrashTokenIndex => 1 | CrashAssertAccept => 2 | CrashEmptyStack => 3
  | CrashGotoKey => 4 | CrashActionKey => 5
  end.

Definition nlen {A : Type} (l : list A) : N := N.of_nat (length l).

Fixpoint enc_tree (t : ptree) : list N :=
  match t with
  | PLeaf a i => [0; a; N.of_nat i]
  | PNode lhs rhs cs =>
      1 :: lhs :: nlen rhs :: rhs ++ nlen cs ::
        (fix encl (l : list ptree) : list N :=
           match l with [] => [] | c :: l' => enc_tree c ++ encl l' end) cs
  end.

Definition enc_result (r : result) : list N :=
  match r with
  | Accepted t => 1 :: enc_tree t
  | Rejected c i tok st e => 2 :: c :: N.of_nat i :: tok :: st :: nlen e :: e
  | Crashed k => [3; crash_code k]
  | OutOfFuel => [4]
  end.

(* ---- encoding of the model generator's results (LR/Gen.v) as one line of numbers ----
   enc_gen:  FIRST      n (X o)*                      o = 0 epsilon | t+1
             states     n (k (pcode dot la)^k)^n      pcode 0 = S' -> start | index+1
             gotos      n (k (X j)^k)^n               goto table of _items, all symbols, one row per state
             fill       n (k t^k clash)^n             per state: terminals with a Conflict, assert flag
             action     n (state k entry^k)^n         rows of t_action; entry = t 0 j | t 1 lhs m rhs^m | t 2 0 | t 3 c
             goto       n (state k (X j)^k)^n         rows of t_goto (trimmed to nonterminals)
             clean      gen_clean *)
Definition enc_o (o : option N) : N := match o with None => 0 | Some t => N.succ t end.
Definition enc_first (tab : list fentry) : list N := nlen tab :: flat_map (fun e => [fst e; enc_o (snd e)]) tab.
Definition enc_litem (it : litem) : list N := [enc_o (it_p it); N.of_nat (it_d it); it_a it].
Definition enc_state (st : list litem) : list N := nlen st :: flat_map enc_litem st.
Definition enc_pairs (l : list (N * N)) : list N := nlen l :: flat_map (fun e => [fst e; snd e]) l.
Definition enc_act (e : N * act) : list N :=
  match snd e with
  | Shift j => [fst e; 0; j]
  | Reduce l r => fst e :: 1 :: l :: nlen r :: r
  | Accept => [fst e; 2; 0]
  | Err c => [fst e; 3; c]
  end.
Definition enc_arow (r : list (N * act)) : list N := nlen r :: flat_map enc_act r.
Definition enc_amap (m : nmap (list (N * act))) : list N :=
  let el := PositiveMap.elements m in
  nlen el :: flat_map (fun kr => Pos.pred_N (fst kr) :: enc_arow (snd kr)) el.
Definition enc_gmap (m : nmap (list (N * N))) : list N :=
  let el := PositiveMap.elements m in
  nlen el :: flat_map (fun kr => Pos.pred_N (fst kr) :: enc_pairs (snd kr)) el.
Definition enc_fill (f : fill_st) : list N := nlen (f_conf f) :: f_conf f ++ [b2n (f_clash f)].
Definition enc_gen (r : gen_result) : list N :=
  enc_first (g_first r)
  ++ (nlen (g_states r) :: flat_map enc_state (g_states r))
  ++ (nlen (g_gotos r) :: flat_map enc_pairs (g_gotos r))
  ++ (nlen (g_fill r) :: flat_map enc_fill (g_fill r))
  ++ enc_amap (t_action (g_tables r))
  ++ enc_gmap (t_goto (g_tables r))
  ++ [b2n (gen_clean r)].

Definition fuel_or (G : grammar) (f : N) : nat := if N.eqb f 0 then first_fuel G else N.to_nat f.
Definition cfuel_or (G : grammar) (f : N) : nat := if N.eqb f 0 then closure_fuel G else N.to_nat f.

Definition step (s : xstate) (line : list N) : xstate :=
  match line with
  | [1; slot; eoi; dflt] =>
      with_items (with_cur s slot (empty_tables eoi (negb (N.eqb dflt 0))) nempty) nempty
  | 2 :: idx :: lhs :: rhs => with_ptab s (nset (x_ptab s) idx (lhs, rhs))
  | 3 :: st :: l =>
      match decode_acts (x_ptab s) l with
      | Some r => with_cur s (x_slot s) (set_action (x_cur s) st r) (x_cert s)
      | None => emit s [0; 3; st]
      end
  | 4 :: st :: l =>
      match decode_pairs l with
      | Some r => with_cur s (x_slot s) (set_goto (x_cur s) st r) (x_cert s)
      | None => emit s [0; 4; st]
      end
  | [5; st; c] => with_cur s (x_slot s) (set_derr (x_cur s) st c) (x_cert s)
  | 6 :: l =>
      match decode_prods (x_ptab s) l with
      | Some ps => with_cur s (x_slot s) (set_prods (x_cur s) ps) (x_cert s)
      | None => emit s [0; 6]
      end
  | 7 :: st :: ks => with_cur s (x_slot s) (x_cur s) (nset (x_cert s) st ks)
  | [8] => with_slots s (nset (x_slots s) (x_slot s) (x_cur s, x_cert s, x_items s))
  | 9 :: g :: start :: l =>
      match decode_prods (x_ptab s) l with
      | Some ps => with_grams s (nset (x_grams s) g {| g_start := start; g_prods := ps |})
      | None => emit s [0; 9; g]
      end
  | [10; g; slot] =>
      match nget (x_grams s) g, nget (x_slots s) slot with
      | Some G, Some (T, C, _) => emit s [10; g; slot; b2n (check_sound G T C)]
      | _, _ => emit s [0; 10; g; slot]
      end
  | 11 :: a :: bs => with_rel s (nset (x_rel s) a bs)
  | [12; sa; sb] =>
      match nget (x_slots s) sa, nget (x_slots s) sb with
      | Some (A, _, _), Some (B, _, _) =>
          with_rel (emit s [12; sa; sb; b2n (bisim_check_rel (x_rel s) A B); b2n (rel_diag (x_rel s))]) nempty
      | _, _ => emit s [0; 12; sa; sb]
      end
  | 13 :: slot :: fuel :: toks =>
      match nget (x_slots s) slot with
      | Some (T, _, _) => emit s (13 :: enc_result (run T (N.to_nat fuel) toks))
      | None => emit s [0; 13; slot]
      end
  | 14 :: sc :: sf :: l =>
      match nget (x_slots s) sc, nget (x_slots s) sf, decode_prods (x_ptab s) l with
      | Some (Cd, _, _), Some (_, _, _), Some irp =>
          emit s [14; b2n (prodset_eqb (t_prods Cd) irp)]
      | _, _, _ => emit s [0; 14; sc; sf]
      end
  | 15 :: n :: l =>
      match decode_prods (x_ptab s) (firstn (N.to_nat n) l), decode_prods (x_ptab s) (skipn (N.to_nat n) l) with
      | Some p, Some q => emit s [15; b2n (prodset_eqb p q)]
      | _, _ => emit s [0; 15]
      end
  | 20 :: st :: pcode :: d :: las =>
      let po := match pcode with 0 => None | _ => Some (N.pred pcode) end in
      let old := match nget (x_items s) st with Some l => l | None => [] end in
      with_items s (nset (x_items s) st (((po, N.to_nat d), mask_of las) :: old))
  | 21 :: X :: nl :: syms => with_first s (nset (x_first s) X (negb (N.eqb nl 0), mask_of syms))
  | [22; g; slot] =>
      match nget (x_grams s) g, nget (x_slots s) slot with
      | Some G, Some (T, _, Its) => with_first (emit s [22; g; slot; b2n (check_complete G T Its (x_first s))]) nempty
      | _, _ => emit s [0; 22; g; slot]
      end
  | [23; X; r] => with_rank s (nset (x_rank s) X r)
  | [24; g; slot] =>
      match nget (x_grams s) g, nget (x_slots s) slot with
      | Some G, Some (T, _, Its) =>
          with_rank (emit s [24; g; slot; b2n (check_early G T Its); b2n (check_productive G (x_rank s))]) nempty
      | _, _ => emit s [0; 24; g; slot]
      end
  | [30; g; eoi; sp; ff; cf; sf] =>
      match nget (x_grams s) g with
      | Some G =>
          match generate G eoi sp (fuel_or G ff) (cfuel_or G cf) (N.to_nat sf) with
          | GenOk r => emit s (30 :: g :: 1 :: enc_gen r)
          | GenOutOfFuel stage => emit s [30; g; 2; stage]
          end
      | None => emit s [0; 30; g]
      end
  | [31; g; ff] =>
      match nget (x_grams s) g with
      | Some G =>
          match first_table G (fuel_or G ff) with
          | Some tab => emit s (31 :: g :: 1 :: b2n (first_stable G tab) :: enc_first tab)
          | None => emit s [31; g; 2]
          end
      | None => emit s [0; 31; g]
      end
  | tag :: _ => emit s [0; tag]
  | [] => s
  end.

Definition main (lines : list (list N)) : list (list N) :=
  rev_append (x_out (fold_left step lines x_init)) [].

(* building tables/certificates directly from lines, for examples and instance theorems *)
Definition final (lines : list (list N)) : xstate := fold_left step lines x_init.
Definition slot_tables (s : xstate) (slot : N) : tables :=
  match nget (x_slots s) slot with Some (T, _, _) => T | None => empty_tables 0 false end.
Definition slot_cert (s : xstate) (slot : N) : cert :=
  match nget (x_slots s) slot with Some (_, C, _) => C | None => nempty end.
Definition slot_items (s : xstate) (slot : N) : icert :=
  match nget (x_slots s) slot with Some (_, _, Its) => Its | None => nempty end.
Definition slot_grammar (s : xstate) (g : N) : grammar :=
  match nget (x_grams s) g with Some G => G | None => {| g_start := 0; g_prods := [] |} end.
