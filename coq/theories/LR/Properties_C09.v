(* C09 -- the shipped parser tables are the parser of the documented grammar.

   For ALL tables A B and relations R (no size bound):
     bisim_sound      bisim_check R A B = true  ->  run A = run B on every token list and fuel
                      (accept/reject, tree, error index, error token, error code, error state,
                      expected set, crashes, step count);
     bisim_rel_sound  the same up to R on the reported error state when R is not diagonal;
     load_equiv       parser._load_module_parser's choice (cached iff production sets are
                      equal, else fresh) behaves like the fresh parser;
     same_prods_same_derivations  equal production sets have the same derivation trees.
   The instances (cached vs freshly generated Emboss tables; module_ir vs doc/grammar.md
   vs cached production sets) are decided on every run by harness/props/c09.py. *)
From Coq Require Import NArith List.
Require Import EmbossV.LR.Driver EmbossV.LR.Sound EmbossV.LR.Bisim EmbossV.LR.Examples.
Import ListNotations.

Theorem bisim_sound : forall R A B, bisim_check R A B = true ->
  forall fuel toks, run A fuel toks = run B fuel toks.
Proof. exact Bisim.bisim_sound. Qed.

Theorem bisim_rel_sound : forall R A B, bisim_check_rel R A B = true ->
  forall fuel toks, result_sim R (run A fuel toks) (run B fuel toks).
Proof. exact Bisim.bisim_rel_sound. Qed.

Theorem load_equiv : forall R cached fresh ir_prods, bisim_check R cached fresh = true ->
  forall fuel toks, run (load cached fresh ir_prods) fuel toks = run fresh fuel toks.
Proof. exact Bisim.load_equiv. Qed.

Theorem same_prods_same_derivations : forall s P Q, prodset_eqb P Q = true ->
  forall X t i w, derives {| g_start := s; g_prods := P |} X t i w <->
                  derives {| g_start := s; g_prods := Q |} X t i w.
Proof. exact Bisim.same_prods_same_derivations. Qed.

Theorem bisim_check_nonvacuous :
  exists R A B, bisim_check R A B = true /\ t_dflt A <> t_dflt B /\
                exists toks fuel t, run A fuel toks = Accepted t.
Proof. exact Examples.bisim_check_nonvacuous. Qed.

Theorem bisim_check_discriminates :
  exists R A B toks fuel, bisim_check R A B = false /\ run A fuel toks <> run B fuel toks.
Proof. exact Examples.bisim_check_discriminates. Qed.
