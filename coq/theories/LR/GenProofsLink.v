(* LR/GenProofsLink.v -- proofs about the model generator LR/Gen.v, part 3:
   the tables `generate` builds from a conflict-free collection pass the verified checker
   LR/Complete.check_complete (with the certificates of LR/GenCert.v), for every grammar. *)
From Coq Require Import Arith NArith PArith List Bool Lia FMapPositive.
Require Import EmbossV.LR.Driver EmbossV.LR.Sound EmbossV.LR.Complete EmbossV.LR.Gen
               EmbossV.LR.GenProofs EmbossV.LR.GenProofsItems EmbossV.LR.GenCert.
Import ListNotations.
Open Scope N_scope.

(* ---------------------------------------------------------------- maps *)

Lemma nget_nset_same : forall (A : Type) (m : nmap A) k v, nget (nset m k v) k = Some v.
Proof. intros. unfold nget, nset. apply PositiveMap.gss. Qed.

Lemma succ_pos_inj : forall a b, N.succ_pos a = N.succ_pos b -> a = b.
Proof.
  intros a b H. assert (E : Pos.pred_N (N.succ_pos a) = Pos.pred_N (N.succ_pos b)) by (rewrite H; reflexivity).
  rewrite !N.pos_pred_succ in E. exact E.
Qed.

Lemma nget_nset_other : forall (A : Type) (m : nmap A) k k' v, k <> k' -> nget (nset m k v) k' = nget m k'.
Proof.
  intros. unfold nget, nset. apply PositiveMap.gso. intros E. apply succ_pos_inj in E. congruence.
Qed.

Lemma succ_pos_pred_N : forall p, N.succ_pos (Pos.pred_N p) = p.
Proof. intros [p|p|]; simpl; [reflexivity|apply Pos.succ_pred_double|reflexivity]. Qed.

Lemma nget_nempty : forall (A : Type) k, nget (@nempty A) k = None.
Proof. intros. unfold nget, nempty. apply PositiveMap.gempty. Qed.

Lemma list_to_map_get : forall (A : Type) (l : list A) i m k,
  nget (list_to_map i l m) k =
  if N.ltb k i then nget m k
  else match nth_error l (N.to_nat (k - i)) with Some x => Some x | None => nget m k end.
Proof.
  induction l as [|x t IH]; intros i m k; simpl.
  - destruct (N.ltb k i); [reflexivity|]. destruct (N.to_nat (k - i)); reflexivity.
  - rewrite IH. destruct (N.ltb k i) eqn:E1.
    + apply N.ltb_lt in E1. assert (E2 : N.ltb k (N.succ i) = true) by (apply N.ltb_lt; lia).
      rewrite E2. apply nget_nset_other. lia.
    + apply N.ltb_ge in E1. destruct (N.eqb k i) eqn:E3.
      * apply N.eqb_eq in E3. subst k. assert (E2 : N.ltb i (N.succ i) = true) by (apply N.ltb_lt; lia).
        rewrite E2. rewrite N.sub_diag. simpl. apply nget_nset_same.
      * apply N.eqb_neq in E3. assert (E2 : N.ltb k (N.succ i) = false) by (apply N.ltb_ge; lia).
        rewrite E2. replace (N.to_nat (k - i)) with (S (N.to_nat (k - N.succ i))) by lia. simpl.
        destruct (nth_error t (N.to_nat (k - N.succ i))); [reflexivity|]. apply nget_nset_other. lia.
Qed.

Lemma icert_of_get : forall states k, nget (icert_of states) k = option_map icert_row (nth_error states (N.to_nat k)).
Proof.
  intros states k. unfold icert_of. rewrite list_to_map_get.
  assert (E : N.ltb k 0 = false) by (apply N.ltb_ge; lia). rewrite E. rewrite N.sub_0_r.
  rewrite nth_error_map. destruct (nth_error states (N.to_nat k)); simpl; [reflexivity|apply nget_nempty].
Qed.

Definition row_at {A : Type} (rows : list (list A)) (k : N) : list A := nth (N.to_nat k) rows [].

Lemma rows_to_map_lt : forall (A : Type) (rows : list (list A)) i m k,
  k < i -> nget (rows_to_map i rows m) k = nget m k.
Proof.
  induction rows as [|r t IH]; intros i m k Hk; simpl; [reflexivity|].
  rewrite IH by lia. destruct r; [reflexivity|]. apply nget_nset_other. lia.
Qed.

Lemma rows_to_map_get : forall (A : Type) (rows : list (list A)) i m k,
  (forall k', i <= k' -> nget m k' = None) -> i <= k ->
  match nget (rows_to_map i rows m) k with Some r => r | None => [] end = nth (N.to_nat (k - i)) rows [].
Proof.
  induction rows as [|r t IH]; intros i m k Hm Hk; simpl.
  - rewrite Hm by exact Hk. destruct (N.to_nat (k - i)); reflexivity.
  - destruct (N.eqb k i) eqn:E.
    + apply N.eqb_eq in E. subst k. rewrite N.sub_diag. simpl. rewrite rows_to_map_lt by lia.
      destruct r as [|a r]; [rewrite Hm by lia; reflexivity|]. rewrite nget_nset_same. reflexivity.
    + apply N.eqb_neq in E. replace (N.to_nat (k - i)) with (S (N.to_nat (k - N.succ i))) by lia.
      simpl. apply IH; [|lia]. intros k' Hk'. destruct r; [apply Hm; lia|].
      rewrite nget_nset_other by lia. apply Hm. lia.
Qed.

Lemma rows_to_map_row : forall (A : Type) (rows : list (list A)) k,
  match nget (rows_to_map 0 rows nempty) k with Some r => r | None => [] end = row_at rows k.
Proof.
  intros. unfold row_at. rewrite rows_to_map_get; [rewrite N.sub_0_r; reflexivity| |lia].
  intros. apply nget_nempty.
Qed.

(* ---------------------------------------------------------------- bit masks *)

Lemma mem_bit_iff : forall a b, mem (bit a) b = true <-> a = b.
Proof.
  intros a b. split.
  - intros H. destruct (N.eq_dec a b) as [E|E]; [exact E|]. rewrite mem_bit_other in H by exact E. discriminate.
  - intros H. subst. apply mem_bit_same.
Qed.

Lemma mask_list_mem : forall l b, mem (mask_list l) b = true <-> In b l.
Proof.
  induction l as [|t l IH]; intros b.
  - unfold mask_list. cbn [fold_right In]. rewrite mem_0. split; [discriminate|intros []].
  - change (mask_list (t :: l)) with (N.lor (bit t) (mask_list l)). cbn [In].
    rewrite mem_lor, orb_true_iff, mem_bit_iff, IH. tauto.
Qed.

Lemma subset_of_mem : forall a b, (forall k, mem a k = true -> mem b k = true) -> subset a b = true.
Proof.
  intros a b H. unfold subset. apply N.eqb_eq. apply N.bits_inj. intros k.
  rewrite N.ldiff_spec, N.bits_0. destruct (N.testbit a k) eqn:Ea; [|reflexivity].
  unfold mem in H. rewrite (H _ Ea). reflexivity.
Qed.

Lemma mask_nonzero : forall a, a <> 0 -> exists b, mem a b = true.
Proof. intros a H. exists (N.log2 a). unfold mem. apply N.bit_log2. exact H. Qed.

Lemma la_mask_mem : forall I c b, mem (la_mask I c) b = true <-> In (mk_item (fst c) (snd c) b) I.
Proof.
  intros I c b. unfold la_mask. induction I as [|it I IH]; cbn [fold_right In].
  - rewrite mem_0. split; [discriminate|intros []].
  - destruct (core_eqb c (core_of it)) eqn:E.
    + rewrite mem_lor, orb_true_iff, mem_bit_iff, IH.
      unfold core_eqb in E. apply andb_true_iff in E. destruct E as [E1 E2].
      apply opt_N_eqb_eq in E1. apply Nat.eqb_eq in E2. destruct it as [p d a]. simpl in *. split.
      * intros [H|H]; [left; subst; destruct c; simpl in *; subst; reflexivity|right; exact H].
      * intros [H|H]; [left; inversion H; reflexivity|right; exact H].
    + rewrite IH. split; [auto|]. intros [H|H]; [|exact H]. subst it. unfold core_of in E. simpl in E.
      unfold core_eqb in E. simpl in E. destruct c as [p d]. simpl in E.
      assert (opt_N_eqb p p = true) by (destruct p; simpl; [apply N.eqb_refl|reflexivity]).
      rewrite H, Nat.eqb_refl in E. discriminate.
Qed.

Lemma find_core_row : forall I c l, (exists it, In it l /\ core_of it = c) ->
  find_core c (map (fun it => (core_of it, la_mask I (core_of it))) l) = Some (la_mask I c).
Proof.
  intros I c. induction l as [|it l IH]; intros [x [Hx Hc]]; [destruct Hx|]. simpl.
  destruct (core_eqb c (core_of it)) eqn:E.
  - unfold core_eqb in E. apply andb_true_iff in E. destruct E as [E1 E2].
    apply opt_N_eqb_eq in E1. apply Nat.eqb_eq in E2.
    assert (Hcc : core_of it = c) by (destruct c, (core_of it); simpl in *; subst; reflexivity).
    rewrite Hcc. reflexivity.
  - destruct Hx as [Hx|Hx].
    + subst x. rewrite Hc in E. unfold core_eqb in E. destruct c as [p d]. simpl in E.
      assert (opt_N_eqb p p = true) by (destruct p; simpl; [apply N.eqb_refl|reflexivity]).
      rewrite H, Nat.eqb_refl in E. discriminate.
    + apply IH. exists x. auto.
Qed.

(* how has_item is established on the certificate built from the item sets *)
Lemma has_item_intro : forall states s S c need,
  nth_error states (N.to_nat s) = Some S ->
  (forall b, mem need b = true -> In (mk_item (fst c) (snd c) b) S) ->
  has_item (icert_of states) s c need = true.
Proof.
  intros states s S c need Hs H. unfold has_item. destruct (N.eqb need 0) eqn:E0; [reflexivity|]. simpl.
  apply N.eqb_neq in E0. destruct (mask_nonzero _ E0) as [b0 Hb0].
  rewrite icert_of_get, Hs. simpl. unfold icert_row. rewrite (find_core_row S c S).
  - apply subset_of_mem. intros k Hk. apply la_mask_mem. auto.
  - exists (mk_item (fst c) (snd c) b0). split; [auto|]. destruct c; reflexivity.
Qed.

(* ---------------------------------------------------------------- the FIRST certificate *)

Lemma fcert_of_get : forall G tab X,
  nget (fcert_of G tab) X = if is_nonterminal G X then Some (fcert_entry G tab X) else None.
Proof.
  intros G tab X. unfold fcert_of, is_nonterminal. induction (g_prods G) as [|p ps IH]; simpl.
  - apply nget_nempty.
  - destruct (N.eqb (fst p) X) eqn:E.
    + apply N.eqb_eq in E. subst X. simpl. apply nget_nset_same.
    + apply N.eqb_neq in E. simpl. rewrite nget_nset_other by exact E. exact IH.
Qed.

Section FirstCert.
  Variable G : grammar.
  Variable tab : list fentry.
  Let F := fcert_of G tab.

  Lemma first_sym_fst : forall X, fst (first_sym G F X) = true <-> In None (firsts_of G tab X).
  Proof.
    intros X. unfold first_sym, F. rewrite fcert_of_get. destruct (is_nonterminal G X) eqn:E; simpl.
    - apply (memb_In _ oN_eqb_spec).
    - split; [discriminate|]. intros H. apply firsts_of_In in H. destruct H as [[H _]|[_ H]]; congruence.
  Qed.

  Lemma first_sym_snd : forall X b, mem (snd (first_sym G F X)) b = true <-> In (Some b) (firsts_of G tab X).
  Proof.
    intros X b. unfold first_sym, F. rewrite fcert_of_get. destruct (is_nonterminal G X) eqn:E; cbn [fst snd fcert_entry].
    - rewrite mask_list_mem. apply somes_In.
    - rewrite mem_bit_iff. unfold firsts_of. rewrite E. cbn [In]. split; [intros; subst; auto|].
      intros [H|[]]. inversion H. reflexivity.
  Qed.

  Lemma nullable_seq_iff : forall l, Complete.nullable_seq G F l = true <-> In None (Gen.first_seq G tab l).
  Proof.
    induction l as [|X r IH].
    - simpl. split; auto.
    - cbn [Complete.nullable_seq]. rewrite andb_true_iff, first_sym_fst, IH. symmetry. apply first_seq_cons_none.
  Qed.

  Lemma first_seq_iff : forall l b, mem (Complete.first_seq G F l) b = true <-> In (Some b) (Gen.first_seq G tab l).
  Proof.
    induction l as [|X r IH]; intros b.
    - cbn [Complete.first_seq Gen.first_seq In]. rewrite mem_0. split; [discriminate|]. intros [H|[]]. discriminate.
    - cbn [Complete.first_seq]. rewrite mem_lor, orb_true_iff, first_sym_snd, first_seq_cons_some.
      destruct (fst (first_sym G F X)) eqn:E.
      + apply first_sym_fst in E. rewrite IH. tauto.
      + rewrite mem_0. split; [intros [H|H]; [auto|discriminate]|].
        intros [H|[H _]]; [auto|]. apply first_sym_fst in H. congruence.
  Qed.

  Lemma check_first_of_stable : first_stable G tab = true -> check_first G F = true.
  Proof.
    intros Hst. rewrite first_stable_spec in Hst. unfold check_first. apply forallb_forall. intros [lhs rhs] Hin.
    simpl. unfold F at 1. rewrite fcert_of_get. rewrite (in_prods_nonterminal _ _ _ Hin). unfold fcert_entry.
    assert (Hadd : forall o, In o (Gen.first_seq G tab rhs) -> In o (firsts_of G tab lhs)).
    { intros o Ho. apply firsts_of_In. left. split; [eapply in_prods_nonterminal; eauto|]. apply Hst.
      apply first_round_In. exists rhs. auto. }
    apply andb_true_iff. split.
    - apply subset_of_mem. intros k Hk. apply mask_list_mem. apply somes_In. apply Hadd. apply first_seq_iff. exact Hk.
    - destruct (Complete.nullable_seq G F rhs) eqn:En; [|reflexivity]. simpl.
      apply (memb_In _ oN_eqb_spec). apply Hadd. apply nullable_seq_iff. exact En.
  Qed.
End FirstCert.

(* ---------------------------------------------------------------- table filling *)

Lemma act_eqb_eq : forall a b, act_eqb a b = true -> a = b.
Proof.
  intros [s|l r| |c] [s'|l' r'| |c']; simpl; intros H; try discriminate; try reflexivity.
  - apply N.eqb_eq in H. subst. reflexivity.
  - apply prod_eqb_eq in H. inversion H. reflexivity.
  - apply N.eqb_eq in H. subst. reflexivity.
Qed.

Lemma assoc_row_set_same : forall (A : Type) k (v : A) row, assoc k (row_set k v row) = Some v.
Proof.
  induction row as [|[k' v'] row IH]; simpl.
  - rewrite N.eqb_refl. reflexivity.
  - destruct (N.eqb k k') eqn:E; simpl; rewrite ?N.eqb_refl; [reflexivity|]. rewrite E. exact IH.
Qed.

Lemma assoc_row_set_other : forall (A : Type) k k' (v : A) row, k' <> k -> assoc k' (row_set k v row) = assoc k' row.
Proof.
  induction row as [|[k2 v2] row IH]; intros Hne; simpl.
  - assert (E : N.eqb k' k = false) by (apply N.eqb_neq; exact Hne). rewrite E. reflexivity.
  - destruct (N.eqb k k2) eqn:E; simpl.
    + apply N.eqb_eq in E. subst k2. assert (E2 : N.eqb k' k = false) by (apply N.eqb_neq; exact Hne).
      rewrite E2. reflexivity.
    + destruct (N.eqb k' k2); [reflexivity|]. apply IH. exact Hne.
Qed.

Definition entry_in (eoi : N) (e : entry) (row : list (N * act)) : Prop :=
  match e with
  | E_none => True
  | E_act t a => assoc t row = Some a
  | E_accept => assoc eoi row = Some Accept
  end.

Lemma fill_fold : forall G eoi grow l st0,
  f_conf (fold_left (fill_item G eoi grow) l st0) = [] ->
  f_clash (fold_left (fill_item G eoi grow) l st0) = false ->
  (f_conf st0 = [] /\ f_clash st0 = false) /\
  (forall t a, assoc t (f_row st0) = Some a -> assoc t (f_row (fold_left (fill_item G eoi grow) l st0)) = Some a) /\
  (forall it, In it l -> entry_in eoi (entry_of G eoi grow it) (f_row (fold_left (fill_item G eoi grow) l st0))).
Proof.
  intros G eoi grow. induction l as [|it l IH]; intros st0 Hc Hk; simpl in *.
  - split; [auto|]. split; [auto|]. intros it [].
  - destruct (IH _ Hc Hk) as [[Hc1 Hk1] [Hrow Hall]]. clear IH.
    unfold fill_item in Hc1, Hk1, Hrow, Hall |- *.
    destruct (entry_of G eoi grow it) as [|t a|] eqn:Ee.
    + split; [auto|]. split; [exact Hrow|]. intros x [Hx|Hx]; [subst x; rewrite Ee; exact I|auto].
    + simpl in Hc1, Hk1, Hrow.
      assert (Hold : f_conf st0 = [] /\ forall a', assoc t (f_row st0) = Some a' -> a' = a).
      { destruct (assoc t (f_row st0)) as [a'|] eqn:Ea.
        - destruct (act_eqb a' a) eqn:Eq; [|discriminate]. split; [exact Hc1|].
          intros a2 H2. inversion H2. subst. apply act_eqb_eq. exact Eq.
        - split; [exact Hc1|]. intros a2 H2. discriminate. }
      destruct Hold as [Hc0 Hsame]. split; [auto|]. split.
      * intros t' a' Ha. apply Hrow. destruct (N.eq_dec t' t) as [E|E].
        -- subst t'. rewrite (Hsame _ Ha). apply assoc_row_set_same.
        -- rewrite assoc_row_set_other by exact E. exact Ha.
      * intros x [Hx|Hx]; [|auto]. subst x. rewrite Ee. simpl. apply Hrow. apply assoc_row_set_same.
    + simpl in Hc1, Hk1, Hrow. apply orb_false_iff in Hk1. destruct Hk1 as [Hk0 Hk1].
      assert (Hsame : forall a', assoc eoi (f_row st0) = Some a' -> a' = Accept).
      { intros a' Ha. rewrite Ha in Hk1. apply negb_false_iff in Hk1. apply act_eqb_eq. exact Hk1. }
      split; [auto|]. split.
      * intros t' a' Ha. apply Hrow. destruct (N.eq_dec t' eoi) as [E|E].
        -- subst t'. rewrite (Hsame _ Ha). apply assoc_row_set_same.
        -- rewrite assoc_row_set_other by exact E. exact Ha.
      * intros x [Hx|Hx]; [|auto]. subst x. rewrite Ee. simpl. apply Hrow. apply assoc_row_set_same.
Qed.

Lemma fill_state_spec : forall G eoi grow I,
  f_conf (fill_state G eoi grow I) = [] -> f_clash (fill_state G eoi grow I) = false ->
  forall it, In it I -> entry_in eoi (entry_of G eoi grow it) (f_row (fill_state G eoi grow I)).
Proof. intros G eoi grow I Hc Hk. exact (proj2 (proj2 (fill_fold G eoi grow I _ Hc Hk))). Qed.

Lemma zip_fill_nth : forall G eoi states gotos k I grow,
  nth_error states k = Some I -> nth_error gotos k = Some grow ->
  nth_error (zip_fill G eoi states gotos) k = Some (fill_state G eoi grow I).
Proof.
  intros G eoi. induction states as [|s ss IH]; intros gotos k I grow Hs Hg; [destruct k; discriminate|].
  destruct gotos as [|g gs]; [destruct k; discriminate|]. destruct k as [|k]; simpl in *.
  - inversion Hs. inversion Hg. reflexivity.
  - apply IH; assumption.
Qed.

Lemma conflicts_from_nil : forall fs i, conflicts_from i fs = [] -> forall f, In f fs -> f_conf f = [].
Proof.
  induction fs as [|f0 fs IH]; intros i H f Hf; [destruct Hf|]. simpl in H.
  apply app_eq_nil in H. destruct H as [H1 H2]. destruct Hf as [Hf|Hf].
  - subst f0. destruct (f_conf f); [reflexivity|discriminate].
  - eapply IH; eauto.
Qed.

Lemma reduce_mask_complete : forall row lhs rhs b, assoc b row = Some (Reduce lhs rhs) ->
  mem (reduce_mask row lhs rhs) b = true.
Proof.
  induction row as [|[k x] row IH]; intros lhs rhs b H; cbn [reduce_mask assoc] in *; [discriminate|].
  destruct (N.eqb b k) eqn:Ebk.
  - apply N.eqb_eq in Ebk. subst k. inversion H. subst x. cbn [is_reduce_of]. rewrite prod_eqb_refl.
    rewrite mem_lor, mem_bit_same. reflexivity.
  - apply N.eqb_neq in Ebk. destruct (is_reduce_of x lhs rhs).
    + rewrite mem_lor, (IH _ _ _ H). apply orb_true_r.
    + unfold mem. rewrite N.ldiff_spec. fold (mem (reduce_mask row lhs rhs) b). rewrite (IH _ _ _ H).
      fold (mem (bit k) b). rewrite mem_bit_other by congruence. reflexivity.
Qed.

Lemma forallb_idx_intro : forall (A : Type) (f : N -> A -> bool) l i,
  (forall q x, nth_error l q = Some x -> f (i + N.of_nat q) x = true) -> forallb_idx f i l = true.
Proof.
  induction l as [|y l IH]; intros i H; simpl; [reflexivity|]. apply andb_true_iff. split.
  - specialize (H O y eq_refl). rewrite N.add_0_r in H. exact H.
  - apply IH. intros q x Hq. specialize (H (S q) x Hq).
    replace (N.succ i + N.of_nat q) with (i + N.of_nat (S q)) by lia. exact H.
Qed.

Lemma assoc_filter : forall (f : N -> bool) (l : list (N * N)) X, f X = true ->
  assoc X (filter (fun e => f (fst e)) l) = assoc X l.
Proof.
  intros f. induction l as [|[k v] l IH]; intros X HX; simpl; [reflexivity|].
  destruct (f k) eqn:Ek; simpl.
  - destruct (N.eqb X k); [reflexivity|]. apply IH. exact HX.
  - destruct (N.eqb X k) eqn:E; [|apply IH; exact HX]. apply N.eqb_eq in E. subst. congruence.
Qed.

Lemma sder_list_app : forall G A w1, sder_list G A w1 -> forall B w2, sder_list G B w2 ->
  sder_list G (A ++ B) (w1 ++ w2).
Proof.
  intros G A w1 H. induction H as [|X Xs wa wb Hx Hl IH]; intros B w2 HB; simpl; [exact HB|].
  rewrite <- app_assoc. constructor; [exact Hx|]. apply IH. exact HB.
Qed.

(* ---------------------------------------------------------------- the link *)

Lemma row_at_nth : forall (A : Type) (rows : list (list A)) k r, nth_error rows k = Some r -> row_at rows (N.of_nat k) = r.
Proof. intros A rows k r H. unfold row_at. rewrite Nat2N.id. apply nth_error_nth. exact H. Qed.

Lemma rhs_of_prod_rhs : forall G it, item_ok G it -> rhs_of G (it_p it) = Some (prod_rhs G (it_p it)).
Proof.
  intros G it [_ H]. unfold rhs_of, prod_rhs. destruct (it_p it) as [p|]; [|reflexivity].
  destruct (nth_error (g_prods G) (N.to_nat p)) as [pr|] eqn:E; [reflexivity|].
  apply nth_error_None in E. lia.
Qed.

Lemma starts_with_app : forall G beta gamma b, starts_with G beta b -> starts_with G (beta ++ gamma) b.
Proof.
  intros G beta gamma b [Hb [w Hw]]. split; [exact Hb|]. exists (w ++ gamma).
  change (b :: w ++ gamma) with ((b :: w) ++ gamma). apply sder_list_app; [exact Hw|apply sder_list_refl].
Qed.

Lemma starts_with_nullable : forall G beta b, nullable_str G beta -> is_nonterminal G b = false ->
  starts_with G (beta ++ [b]) b.
Proof.
  intros G beta b Hn Hb. split; [exact Hb|]. exists [].
  change [b] with ([] ++ [b]) at 2. apply sder_list_app; [exact Hn|apply sder_list_refl].
Qed.

Section Link.
  Variable G : grammar.
  Variable eoi : N.
  Variable tab : list fentry.
  Variable cf : nat.
  Variable states : list (list litem).
  Variable gotos : list (list (N * N)).
  Variable T : tables.
  Hypothesis Hs : tab_sound G tab.
  Hypothesis Hst : first_stable G tab = true.
  Hypothesis Heoi : is_nonterminal G eoi = false.
  Hypothesis Hcoll : coll_ok G tab eoi cf states gotos.
  Let fs := zip_fill G eoi states gotos.
  Hypothesis Hclean : forall f, In f fs -> f_conf f = [] /\ f_clash f = false.
  Hypothesis Hact : t_action T = rows_to_map 0 (map f_row fs) nempty.
  Hypothesis Hgoto : t_goto T = rows_to_map 0 (map (trim_goto G) gotos) nempty.
  Hypothesis Hteoi : t_eoi T = eoi.
  Let F := fcert_of G tab.
  Let Ic := icert_of states.

  Section State.
    Variable k : nat.
    Variable S0 : list litem.
    Variable grow : list (N * N).
    Hypothesis Hk : nth_error states k = Some S0.
    Hypothesis Hg : nth_error gotos k = Some grow.

    Lemma st_good : good_state G S0.
    Proof. apply (co_good _ _ _ _ _ _ Hcoll). eapply nth_error_In. exact Hk. Qed.

    Lemma st_row : forall it, In it S0 ->
      entry_in eoi (entry_of G eoi grow it) (f_row (fill_state G eoi grow S0)).
    Proof.
      assert (Hf : In (fill_state G eoi grow S0) fs).
      { eapply nth_error_In. unfold fs. apply zip_fill_nth; eassumption. }
      destruct (Hclean _ Hf) as [H1 H2]. apply fill_state_spec; assumption.
    Qed.

    Lemma st_arow : arow T (N.of_nat k) = f_row (fill_state G eoi grow S0).
    Proof.
      unfold arow. rewrite Hact. rewrite rows_to_map_row. apply row_at_nth.
      rewrite nth_error_map. unfold fs. rewrite (zip_fill_nth _ _ _ _ _ _ _ Hk Hg). reflexivity.
    Qed.

    Lemma st_action : forall X a, assoc X (f_row (fill_state G eoi grow S0)) = Some a ->
      exists r, nget (t_action T) (N.of_nat k) = Some r /\ assoc X r = Some a.
    Proof.
      intros X a H. pose proof st_arow as Ha. unfold arow in Ha.
      destruct (nget (t_action T) (N.of_nat k)) as [r|].
      - exists r. split; [reflexivity|]. rewrite Ha. exact H.
      - rewrite <- Ha in H. discriminate.
    Qed.

    Lemma st_goto : forall X j, is_nonterminal G X = true -> assoc X grow = Some j ->
      goto_of T (N.of_nat k) X = Some j.
    Proof.
      intros X j HX H. unfold goto_of.
      pose proof (rows_to_map_row _ (map (trim_goto G) gotos) (N.of_nat k)) as Hr. rewrite <- Hgoto in Hr.
      rewrite (row_at_nth _ _ k (trim_goto G grow)) in Hr by (rewrite nth_error_map, Hg; reflexivity).
      assert (Ha : assoc X (trim_goto G grow) = Some j).
      { unfold trim_goto. rewrite (assoc_filter (is_nonterminal G)) by exact HX. exact H. }
      destruct (nget (t_goto T) (N.of_nat k)) as [r|].
      - rewrite Hr. exact Ha.
      - rewrite <- Hr in Ha. discriminate.
    Qed.

    (* the transition of the state on X, from the collection *)
    Lemma st_trans_target : forall it X, In it S0 -> next_sym G it = Some X ->
      exists j J', assoc X grow = Some j /\ nth_error states (N.to_nat j) = Some J' /\
                   forall x, in_goto G S0 X x -> In x J'.
    Proof.
      intros it X Hit Hn.
      destruct (co_rows _ _ _ _ _ _ Hcoll _ _ _ Hk Hg) as [Hr1 Hr2].
      assert (HX : In X (next_syms G S0)) by (apply next_syms_In; exists it; auto).
      destruct (Hr2 _ HX) as [j0 Hj0]. destruct (assoc_some_of_In _ _ _ _ Hj0) as [j Hj].
      destruct (Hr1 _ _ (assoc_In _ _ _ _ Hj)) as [J [J' [H1 [H2 H3]]]].
      exists j, J'. split; [exact Hj|]. split; [exact H2|].
      intros x Hx. apply H3. apply (goto_exact G tab Hs Hst _ _ _ _ H1). exact Hx.
    Qed.

    Lemma st_trans : forall it X, In it S0 -> next_sym G it = Some X ->
      exists j J', trans G T (N.of_nat k) X = Some j /\ nth_error states (N.to_nat j) = Some J' /\
                   forall x, in_goto G S0 X x -> In x J'.
    Proof.
      intros it X Hit Hn. destruct (st_trans_target it X Hit Hn) as [j [J' [H1 [H2 H3]]]].
      exists j, J'. split; [|auto]. unfold trans. destruct (is_nonterminal G X) eqn:Ent.
      - apply st_goto; assumption.
      - pose proof (st_row it Hit) as He. unfold entry_of in He. rewrite Hn, Ent, H1 in He. simpl in He.
        destruct (st_action _ _ He) as [r [Hr1 Hr2]]. rewrite Hr1, Hr2. reflexivity.
    Qed.

    Lemma st_check_item : forall it0, In it0 S0 ->
      check_item G T Ic F (N.of_nat k) (core_of it0, la_mask S0 (core_of it0)) = true.
    Proof.
      intros it0 Hit0. destruct st_good as [Hclosed Hok]. destruct (Hok _ Hit0) as [Hiok Hterm0].
      set (po := it_p it0). set (d := it_d it0). set (la := la_mask S0 (core_of it0)).
      assert (Hla : forall b, mem la b = true -> In (mk_item po d b) S0).
      { intros b Hb. apply la_mask_mem in Hb. exact Hb. }
      unfold check_item. cbn [fst snd core_of]. fold po d la.
      pose proof (rhs_of_prod_rhs G it0 Hiok) as Hrhs0. fold po in Hrhs0. rewrite Hrhs0.
      destruct (nth_error (prod_rhs G po) d) as [X|] eqn:En.
      - assert (Hn0 : next_sym G it0 = Some X) by exact En.
        destruct (st_trans it0 X Hit0 Hn0) as [j [J' [Htr [HJ' Hgo]]]]. rewrite Htr.
        apply andb_true_iff. split.
        + apply (has_item_intro states j J' (po, Datatypes.S d) la HJ'). cbn [fst snd]. intros b Hb.
          apply Hgo. exists (mk_item po d b). split; [apply Hla; exact Hb|]. split; [exact En|]. constructor.
        + destruct (is_nonterminal G X) eqn:Ent; [|reflexivity].
          apply forallb_idx_intro. intros q pr Hq. cbn [fst snd].
          destruct (N.eqb (fst pr) X) eqn:Ex; [|reflexivity]. cbn [negb orb].
          apply N.eqb_eq in Ex. rewrite N.add_0_l.
          apply (has_item_intro states (N.of_nat k) S0 (Some (N.of_nat q), O)); [rewrite Nat2N.id; exact Hk|].
          cbn [fst snd]. intros b Hb. rewrite mem_lor in Hb. apply orb_true_iff in Hb.
          assert (Hadd : forall it', In it' S0 -> it_p it' = po -> it_d it' = d ->
                     starts_with G (skipn (Datatypes.S d) (prod_rhs G po) ++ [it_a it']) b ->
                     In (mk_item (Some (N.of_nat q)) 0 b) S0).
          { intros it' Hi' Hp' Hd' Hsw. apply (Hclosed it'); [exact Hi'|].
            exists X, (N.of_nat q), (snd pr), b. split; [unfold next_sym; rewrite Hp', Hd'; exact En|].
            split; [rewrite Nat2N.id; unfold production in *; rewrite Hq; destruct pr; simpl in *; subst; reflexivity|].
            split; [rewrite Hp', Hd'; exact Hsw|reflexivity]. }
          destruct Hb as [Hb|Hb].
          * apply (Hadd it0 Hit0 eq_refl eq_refl). apply starts_with_app.
            apply (first_seq_iff G tab) in Hb. exact (first_seq_sound _ _ Hs _ _ Hb).
          * destruct (Complete.nullable_seq G F (skipn (Datatypes.S d) (prod_rhs G po))) eqn:Enl;
              [|rewrite mem_0 in Hb; discriminate].
            apply (nullable_seq_iff G tab) in Enl. pose proof (first_seq_sound _ _ Hs _ _ Enl) as Hnl. simpl in Hnl.
            pose proof (Hla _ Hb) as Hib. destruct (Hok _ Hib) as [_ Htb]. simpl in Htb.
            apply (Hadd (mk_item po d b) Hib eq_refl eq_refl). simpl. apply starts_with_nullable; assumption.
      - assert (Hd : d = length (prod_rhs G po)).
        { apply nth_error_None in En. destruct Hiok as [H1 _]. fold po d in H1. lia. }
        apply andb_true_iff. split; [apply Nat.eqb_eq; exact Hd|].
        destruct po as [p|] eqn:Epo.
        + destruct Hiok as [_ Hp]. fold po in Hp. rewrite Epo in Hp.
          destruct (nth_error (g_prods G) (N.to_nat p)) as [[lhs rhs]|] eqn:Ep; [|apply nth_error_None in Ep; lia].
          assert (Hrhs : prod_rhs G (Some p) = rhs) by (unfold prod_rhs; rewrite Ep; reflexivity).
          rewrite Hrhs in *. apply subset_of_mem. intros b Hb. pose proof (Hla _ Hb) as Hib.
          pose proof (st_row _ Hib) as He. unfold entry_of, next_sym in He. cbn [it_p it_d it_a] in He.
          rewrite Hrhs, En, Ep in He. simpl in He. rewrite st_arow. apply reduce_mask_complete. exact He.
        + rewrite Hteoi. destruct (mem la eoi) eqn:Em; [|reflexivity]. cbn [negb orb].
          pose proof (Hla _ Em) as Hib. pose proof (st_row _ Hib) as He.
          unfold entry_of, next_sym in He. cbn [it_p it_d it_a] in He. rewrite En in He.
          simpl in Hd. rewrite Hd, N.eqb_refl in He. simpl in He. rewrite st_arow, He. reflexivity.
    Qed.
  End State.

  Lemma tables_pass_check_complete : check_complete G T Ic F = true.
  Proof.
    unfold check_complete. apply andb_true_iff. split; [apply andb_true_iff; split|].
    - apply check_first_of_stable. exact Hst.
    - destruct (co_init _ _ _ _ _ _ Hcoll) as [I0 [H0 Hin0]]. rewrite Hteoi.
      apply (has_item_intro states 0 I0 (None, O) (bit eoi) H0). cbn [fst snd]. intros b Hb.
      apply mem_bit_iff in Hb. subst b. apply Hin0. constructor.
    - apply forallb_forall. intros [pos l] Hin. cbn [fst snd].
      apply PositiveMap.elements_complete in Hin.
      assert (Hget : nget Ic (Pos.pred_N pos) = Some l).
      { unfold nget. rewrite succ_pos_pred_N. exact Hin. }
      unfold Ic in Hget. rewrite icert_of_get in Hget.
      destruct (nth_error states (N.to_nat (Pos.pred_N pos))) as [S0|] eqn:Ek; [|discriminate].
      simpl in Hget. inversion Hget. subst l. clear Hget.
      assert (Hkl : (N.to_nat (Pos.pred_N pos) < length gotos)%nat).
      { rewrite (co_len _ _ _ _ _ _ Hcoll). apply nth_error_Some. congruence. }
      destruct (nth_error gotos (N.to_nat (Pos.pred_N pos))) as [grow|] eqn:Eg; [|apply nth_error_None in Eg; lia].
      apply forallb_forall. intros [c la] Hit. unfold icert_row in Hit. apply in_map_iff in Hit.
      destruct Hit as [it0 [Heq Hit0]]. inversion Heq. subst c la.
      rewrite <- (N2Nat.id (Pos.pred_N pos)). eapply st_check_item; eassumption.
  Qed.
End Link.

Lemma existsb_false_all : forall (A : Type) (f : A -> bool) l, existsb f l = false -> forall x, In x l -> f x = false.
Proof.
  intros A f l H x Hx. destruct (f x) eqn:E; [|reflexivity].
  assert (existsb f l = true) by (apply existsb_exists; exists x; auto). congruence.
Qed.

(* e. the tables the model generator builds, whenever it reports neither a conflict nor the
   Accept clash, pass the verified checker check_complete -- for EVERY grammar *)
Theorem generate_pass_check_complete : forall G eoi sp ff cf sf r,
  is_nonterminal G eoi = false ->
  generate G eoi sp ff cf sf = GenOk r -> gen_clean r = true ->
  check_complete G (g_tables r) (icert_of (g_states r)) (fcert_of G (g_first r)) = true.
Proof.
  intros G eoi sp ff cf sf r Heoi Hgen Hclean. unfold generate in Hgen.
  destruct (first_table G ff) as [tab|] eqn:Ef; [|discriminate].
  destruct (items G tab eoi cf sf) as [[states gotos]|] eqn:Ei; [|discriminate].
  inversion Hgen. subst r. clear Hgen. unfold gen_clean in Hclean. cbn [g_conflicts g_clash g_tables g_states g_first] in *.
  pose proof (first_table_sound _ _ _ Ef) as Hs. pose proof (first_fix_stable _ _ _ _ Ef) as Hst.
  destruct (conflicts_from 0 (zip_fill G eoi states gotos)) eqn:Ec; [|discriminate].
  apply negb_true_iff in Hclean.
  eapply (tables_pass_check_complete G eoi tab cf states gotos); try reflexivity; try assumption.
  - eapply items_coll_ok; eassumption.
  - intros f Hf. split; [eapply conflicts_from_nil; eassumption|eapply existsb_false_all; eassumption].
Qed.

(* hence, for the model generator and every grammar: every derivation tree of the start symbol is
   returned by the driver on the generated tables, an error is never late, and a clean verdict
   implies that the grammar is unambiguous *)
Theorem generate_run_complete : forall G eoi sp ff cf sf r t toks,
  is_nonterminal G eoi = false -> generate G eoi sp ff cf sf = GenOk r -> gen_clean r = true ->
  derives G (g_start G) t 0%nat toks ->
  exists n, forall fuel, (n <= fuel)%nat -> run (g_tables r) fuel toks = Accepted t.
Proof.
  intros. eapply run_complete; [|eassumption]. eapply generate_pass_check_complete; eassumption.
Qed.

Theorem generate_error_not_late : forall G eoi sp ff cf sf r fuel toks c i tok st e,
  is_nonterminal G eoi = false -> generate G eoi sp ff cf sf = GenOk r -> gen_clean r = true ->
  run (g_tables r) fuel toks = Rejected c i tok st e ->
  forall toks' t, firstn (S i) toks' = firstn (S i) toks -> ~ derives G (g_start G) t 0%nat toks'.
Proof.
  intros. eapply error_not_late; [|eassumption|eassumption]. eapply generate_pass_check_complete; eassumption.
Qed.

Theorem generate_clean_unambiguous : forall G eoi sp ff cf sf r t1 t2 toks,
  is_nonterminal G eoi = false -> generate G eoi sp ff cf sf = GenOk r -> gen_clean r = true ->
  derives G (g_start G) t1 0%nat toks -> derives G (g_start G) t2 0%nat toks -> t1 = t2.
Proof.
  intros. eapply unambiguous; [|eassumption|eassumption]. eapply generate_pass_check_complete; eassumption.
Qed.
