(* LR/GenProofsMono.v -- proofs about the model generator LR/Gen.v, part 8: fuel.
     - every loop is monotone in its fuel: once a result is Some / GenOk, more fuel (of any of the three
       kinds) returns the same result (generate_fuel_monotone, items_fuel_monotone);
     - a collection that is returned is complete and exact: its states are, up to set equality, exactly the
       item sets of the canonical collection, each once (items_complete_when_some).
   No a-priori bound on the fuel of the collection loop is given (the number of LR(1) item sets is only
   bounded by an exponential); the harness passes the number of states lr1.py built plus slack, and
   GenOutOfFuel 2 is a distinct outcome that the correspondence check reports as a difference. *)
From Coq Require Import Arith NArith PArith List Bool Lia FMapPositive.
Require Import EmbossV.LR.Driver EmbossV.LR.Sound EmbossV.LR.Complete EmbossV.LR.Early EmbossV.LR.Gen
               EmbossV.LR.GenProofs EmbossV.LR.GenProofsItems EmbossV.LR.GenCert EmbossV.LR.GenProofsLink
               EmbossV.LR.GenCert2 EmbossV.LR.GenProofsColl EmbossV.LR.GenProofsFill.
Import ListNotations.
Open Scope N_scope.

Lemma first_fix_mono : forall G f f' tab r, first_fix G f tab = Some r -> (f <= f')%nat -> first_fix G f' tab = Some r.
Proof.
  intros G. induction f as [|f IH]; intros f' tab r H Hle; [discriminate|].
  destruct f' as [|f']; [lia|]. simpl in *.
  destruct (fresh fentry_eqb tab (first_round G tab)); [exact H|]. apply IH; [exact H|lia].
Qed.

Lemma closure_loop_mono : forall G tab f f' todo acc r,
  closure_loop G tab f todo acc = Some r -> (f <= f')%nat -> closure_loop G tab f' todo acc = Some r.
Proof.
  intros G tab. induction f as [|f IH]; intros f' todo acc r H Hle; [discriminate|].
  destruct f' as [|f']; [lia|]. simpl in *. destruct todo as [|it rest]; [exact H|]. apply IH; [exact H|lia].
Qed.

Lemma union_closures_mono : forall G tab f f' its acc r,
  union_closures G tab f its acc = Some r -> (f <= f')%nat -> union_closures G tab f' its acc = Some r.
Proof.
  intros G tab f f'. induction its as [|it its IH]; intros acc r H Hle; simpl in *; [exact H|].
  unfold closure_item in *. destruct (closure_loop G tab f [it] [it]) as [c|] eqn:E; [|discriminate].
  rewrite (closure_loop_mono _ _ _ _ _ _ _ E Hle). apply IH; assumption.
Qed.

Lemma goto_mono : forall G tab f f' I0 X r, goto G tab f I0 X = Some r -> (f <= f')%nat -> goto G tab f' I0 X = Some r.
Proof. intros. unfold goto in *. eapply union_closures_mono; eauto. Qed.

Lemma trans_of_mono : forall G tab f f' I0 syms states row r,
  trans_of G tab f I0 syms states row = Some r -> (f <= f')%nat -> trans_of G tab f' I0 syms states row = Some r.
Proof.
  intros G tab f f' I0. induction syms as [|X syms IH]; intros states row r H Hle; simpl in *; [exact H|].
  destruct (goto G tab f I0 X) as [J|] eqn:E; [|discriminate]. rewrite (goto_mono _ _ _ _ _ _ _ E Hle).
  destruct (find_state J states 0); apply IH; assumption.
Qed.

Lemma items_loop_mono : forall G tab cf cf' f f' states gotos i r,
  items_loop G tab cf f states gotos i = Some r -> (cf <= cf')%nat -> (f <= f')%nat ->
  items_loop G tab cf' f' states gotos i = Some r.
Proof.
  intros G tab cf cf'. induction f as [|f IH]; intros f' states gotos i r H Hc Hle; [discriminate|].
  destruct f' as [|f']; [lia|]. simpl in *. destruct (nth_error states i) as [st|]; [|exact H].
  destruct (trans_of G tab cf st (next_syms G st) states []) as [[states' row]|] eqn:E; [|discriminate].
  rewrite (trans_of_mono _ _ _ _ _ _ _ _ _ E Hc). apply IH; [exact H|exact Hc|lia].
Qed.

(* more fuel never changes a collection that was returned *)
Theorem items_fuel_monotone : forall G tab eoi cf cf' f f' r,
  items G tab eoi cf f = Some r -> (cf <= cf')%nat -> (f <= f')%nat -> items G tab eoi cf' f' = Some r.
Proof.
  intros G tab eoi cf cf' f f' r H Hc Hle. unfold items, closure_item in *.
  destruct (closure_loop G tab cf [seed_item eoi] [seed_item eoi]) as [st0|] eqn:E; [|discriminate].
  rewrite (closure_loop_mono _ _ _ _ _ _ _ E Hc). eapply items_loop_mono; eauto.
Qed.

(* ... nor the result of the whole generator, whichever of the three fuels grows *)
Theorem generate_fuel_monotone : forall G eoi sp ff cf sf ff' cf' sf' r,
  generate G eoi sp ff cf sf = GenOk r -> (ff <= ff')%nat -> (cf <= cf')%nat -> (sf <= sf')%nat ->
  generate G eoi sp ff' cf' sf' = GenOk r.
Proof.
  intros G eoi sp ff cf sf ff' cf' sf' r H H1 H2 H3. unfold generate, first_table in *.
  destruct (first_fix G ff []) as [tab|] eqn:Ef; [|discriminate]. rewrite (first_fix_mono _ _ _ _ _ Ef H1).
  destruct (items G tab eoi cf sf) as [[states gotos]|] eqn:Ei; [|discriminate].
  rewrite (items_fuel_monotone _ _ _ _ _ _ _ _ Ei H2 H3). exact H.
Qed.

(* two successful runs of the generator on the same grammar return the same result *)
Theorem generate_fuel_independent : forall G eoi sp ff cf sf ff' cf' sf' r r',
  generate G eoi sp ff cf sf = GenOk r -> generate G eoi sp ff' cf' sf' = GenOk r' -> r = r'.
Proof.
  intros G eoi sp ff cf sf ff' cf' sf' r r' H H'.
  pose proof (generate_fuel_monotone _ _ _ _ _ _ (Nat.max ff ff') (Nat.max cf cf') (Nat.max sf sf') _ H
                (Nat.le_max_l _ _) (Nat.le_max_l _ _) (Nat.le_max_l _ _)) as E.
  pose proof (generate_fuel_monotone _ _ _ _ _ _ (Nat.max ff ff') (Nat.max cf cf') (Nat.max sf sf') _ H'
                (Nat.le_max_r _ _) (Nat.le_max_r _ _) (Nat.le_max_r _ _)) as E'.
  congruence.
Qed.

(* a returned collection is the canonical collection: complete, exact, without repetition *)
Theorem items_complete_when_some : forall G ffuel tab eoi cfuel fuel states gotos,
  first_table G ffuel = Some tab -> is_nonterminal G eoi = false ->
  items G tab eoi cfuel fuel = Some (states, gotos) ->
  (forall J, canon G eoi J -> exists k J', nth_error states k = Some J' /\ same_set J J') /\
  (forall J', In J' states -> canon G eoi J') /\
  distinct_states states /\
  length gotos = length states.
Proof.
  intros G ffuel tab eoi cfuel fuel states gotos Hf Heoi H.
  pose proof (first_table_sound _ _ _ Hf) as Hs. pose proof (first_fix_stable _ _ _ _ Hf) as Hst.
  pose proof (items_coll_ok G tab Hs Hst _ _ _ _ _ Heoi H) as Hc1.
  pose proof (items_coll_ok2 G tab Hs Hst eoi _ _ _ _ H) as Hc2.
  split; [intros J HJ; eapply canon_complete; [eapply coll_is_collection; eassumption|exact HJ]|].
  split; [exact (c2_canon _ _ _ _ Hc2)|]. split; [exact (c2_distinct _ _ _ _ Hc2)|exact (co_len _ _ _ _ _ _ Hc1)].
Qed.
