(* LR/GenProofsColl.v -- proofs about the model generator LR/Gen.v, part 4:
   finer facts about the canonical collection and the table filling that the soundness / early
   checkers and the verdict characterisation need:
     - every entry (X, j) of a goto row stems from an item with X after the dot, and state j is GOTO(I, X);
     - every state of the collection is canonical (Gen2.canon), no two states are equal as sets;
     - every entry of an action row is justified by an item of the state (with or without conflicts);
     - the verdict of one state (no Conflict, no Accept clash) is exactly pairwise consistency of the
       cells its items ask for. *)
From Coq Require Import Arith NArith PArith List Bool Lia FMapPositive.
Require Import EmbossV.LR.Driver EmbossV.LR.Sound EmbossV.LR.Complete EmbossV.LR.Early EmbossV.LR.Gen
               EmbossV.LR.GenProofs EmbossV.LR.GenProofsItems EmbossV.LR.GenCert EmbossV.LR.GenProofsLink
               EmbossV.LR.GenCert2.
Import ListNotations.
Open Scope N_scope.

(* ---------------------------------------------------------------- maps *)

Lemma rows_to_map_some : forall (A : Type) (rows : list (list A)) i m k r,
  nget (rows_to_map i rows m) k = Some r ->
  nget m k = Some r \/ (i <= k /\ nth_error rows (N.to_nat (k - i)) = Some r).
Proof.
  induction rows as [|r0 t IH]; intros i m k r H; simpl in H; [left; exact H|].
  apply IH in H. destruct H as [H|[H1 H2]].
  - destruct r0 as [|a r0]; [left; exact H|].
    destruct (N.eq_dec i k) as [E|E].
    + subst k. rewrite nget_nset_same in H. right. split; [lia|]. rewrite N.sub_diag. simpl. exact H.
    + rewrite nget_nset_other in H by exact E. left. exact H.
  - right. split; [lia|]. replace (N.to_nat (k - i)) with (S (N.to_nat (k - N.succ i))) by lia. exact H2.
Qed.

Lemma rows_to_map_nth : forall (A : Type) (rows : list (list A)) k r,
  nget (rows_to_map 0 rows nempty) k = Some r -> nth_error rows (N.to_nat k) = Some r.
Proof.
  intros A rows k r H. apply rows_to_map_some in H. destruct H as [H|[_ H]].
  - rewrite nget_nempty in H. discriminate.
  - rewrite N.sub_0_r in H. exact H.
Qed.

Lemma find_state_none : forall J states i, find_state J states i = None ->
  forall k S, nth_error states k = Some S -> ~ same_set J S.
Proof.
  intros J. induction states as [|s r IH]; intros i H k S Hk; [destruct k; discriminate|].
  simpl in H. destruct (iset_eqb J s) eqn:E; [discriminate|]. destruct k as [|k]; simpl in Hk.
  - inversion Hk. subst s. intros Hss. apply iset_eqb_spec in Hss. congruence.
  - eapply IH; eauto.
Qed.

(* ---------------------------------------------------------------- the collection loop, finer invariants *)

Section Items2.
  Variable G : grammar.
  Variable tab : list fentry.
  Variable cfuel : nat.

  Definition row_ok2 (states : list (list litem)) (I : list litem) (row : list (N * N)) : Prop :=
    forall X j, In (X, j) row -> In X (next_syms G I) /\
      exists J J', goto G tab cfuel I X = Some J /\ nth_error states (N.to_nat j) = Some J' /\ same_set J J'.

  Lemma row_ok2_ext : forall states ext I row, row_ok2 states I row -> row_ok2 (states ++ ext) I row.
  Proof.
    intros states ext I row H X j Hin. destruct (H _ _ Hin) as [Hx [J [J' [H1 [H2 H3]]]]].
    split; [exact Hx|]. exists J, J'. split; [exact H1|]. split; [|exact H3].
    rewrite nth_error_app1; [exact H2|]. apply nth_error_Some. congruence.
  Qed.

  Variable Q : list (list litem) -> Prop.
  Hypothesis Q_ext : forall states I X J, Q states -> In I states -> In X (next_syms G I) ->
    goto G tab cfuel I X = Some J -> find_state J states 0 = None -> Q (states ++ [J]).

  Lemma trans_of_spec2 : forall I syms states row states' row',
    trans_of G tab cfuel I syms states row = Some (states', row') ->
    In I states -> incl syms (next_syms G I) -> row_ok2 states I row -> Q states ->
    (exists ext, states' = states ++ ext) /\ row_ok2 states' I row' /\ Q states'.
  Proof.
    intros I. induction syms as [|X r IH]; intros states row states' row' H HI Hsub Hrow HQ; simpl in H.
    - inversion H. subst. split; [exists []; symmetry; apply app_nil_r|]. split; assumption.
    - destruct (goto G tab cfuel I X) as [J|] eqn:Eg; [|discriminate].
      assert (HX : In X (next_syms G I)) by (apply Hsub; left; reflexivity).
      assert (Hsub' : incl r (next_syms G I)) by (intros y Hy; apply Hsub; right; exact Hy).
      destruct (find_state J states 0) as [j|] eqn:Ef.
      + pose proof (find_state_spec _ _ _ _ Ef) as [k [J' [Hj [Hk Hss]]]].
        apply IH in H; try assumption.
        intros Y j' Hin. apply in_app_iff in Hin. destruct Hin as [Hin|[Hin|[]]]; [auto|].
        inversion Hin. subst Y j'. split; [exact HX|]. exists J, J'. split; [exact Eg|]. split; [|exact Hss].
        rewrite Hj. simpl. rewrite Nat2N.id. exact Hk.
      + apply IH in H.
        * destruct H as [[ext H1] H2]. split; [|exact H2]. exists ([J] ++ ext). rewrite H1, <- app_assoc. reflexivity.
        * apply in_app_iff. left. exact HI.
        * exact Hsub'.
        * intros Y j' Hin. apply in_app_iff in Hin. destruct Hin as [Hin|[Hin|[]]].
          -- exact (row_ok2_ext _ [J] _ _ Hrow _ _ Hin).
          -- inversion Hin. subst Y j'. split; [exact HX|]. exists J, J. split; [exact Eg|]. split; [|apply same_set_refl].
             unfold nlength. rewrite Nat2N.id. rewrite nth_error_app2 by lia. rewrite Nat.sub_diag. reflexivity.
        * eapply Q_ext; eauto.
  Qed.

  Definition rows_ok2 (states : list (list litem)) (gotos : list (list (N * N))) : Prop :=
    forall k I row, nth_error states k = Some I -> nth_error gotos k = Some row -> row_ok2 states I row.

  Lemma items_loop_spec2 : forall fuel states gotos i states' gotos',
    items_loop G tab cfuel fuel states gotos i = Some (states', gotos') ->
    length gotos = i -> (i <= length states)%nat -> rows_ok2 states gotos -> Q states ->
    rows_ok2 states' gotos' /\ Q states'.
  Proof.
    induction fuel as [|f IH]; intros states gotos i states' gotos' H Hlen Hle Hrows HQ; [discriminate|].
    simpl in H. destruct (nth_error states i) as [I|] eqn:Ei.
    - destruct (trans_of G tab cfuel I (next_syms G I) states []) as [[st2 row]|] eqn:Et; [|discriminate].
      assert (HI : In I states) by (eapply nth_error_In; eauto).
      destruct (trans_of_spec2 _ _ _ _ _ _ Et HI (fun x h => h)) as [[ext Hext] [Hrow HQ2]].
      { intros X j []. }
      { exact HQ. }
      assert (Hi : (i < length states)%nat) by (apply nth_error_Some; congruence).
      apply IH in H; [exact H| | | |exact HQ2].
      + rewrite app_length. simpl. lia.
      + subst st2. rewrite app_length. lia.
      + intros k I' row' Hk Hg. destruct (Nat.eq_dec k i) as [Hki|Hki].
        * subst k. rewrite nth_error_app2 in Hg by lia. rewrite Hlen, Nat.sub_diag in Hg. simpl in Hg.
          inversion Hg. subst row'. subst st2. rewrite nth_error_app1 in Hk by lia. rewrite Ei in Hk.
          inversion Hk. subst I'. exact Hrow.
        * assert (Hk2 : (k < length gotos)%nat).
          { assert (Hk3 : (k < length (gotos ++ [row]))%nat) by (apply nth_error_Some; congruence).
            rewrite app_length in Hk3. simpl in Hk3. lia. }
          rewrite nth_error_app1 in Hg by exact Hk2. subst st2.
          rewrite nth_error_app1 in Hk by lia. apply row_ok2_ext. eapply Hrows; eauto.
    - inversion H. subst. split; assumption.
  Qed.
End Items2.

(* ---------------------------------------------------------------- canonical, pairwise distinct states *)

Definition distinct_states (states : list (list litem)) : Prop :=
  forall a b Sa Sb, nth_error states a = Some Sa -> nth_error states b = Some Sb -> same_set Sa Sb -> a = b.

Lemma same_set_sym : forall a b, same_set a b -> same_set b a.
Proof. intros a b H x. symmetry. apply H. Qed.

Lemma same_set_trans : forall a b c, same_set a b -> same_set b c -> same_set a c.
Proof. intros a b c H1 H2 x. rewrite (H1 x). apply H2. Qed.

Lemma in_goto_same_set : forall G I I' X x, same_set I I' -> in_goto G I X x -> in_goto G I' X x.
Proof. intros G I I' X x H [k [H1 H2]]. exists k. split; [apply H; exact H1|exact H2]. Qed.

Section Coll2.
  Variable G : grammar.
  Variable tab : list fentry.
  Hypothesis Hs : tab_sound G tab.
  Hypothesis Hst : first_stable G tab = true.
  Variable eoi : N.
  Hypothesis Heoi : is_nonterminal G eoi = false.

  Record coll_ok2 (states : list (list litem)) (gotos : list (list (N * N))) : Prop := {
    c2_rows : forall k S grow X j, nth_error states k = Some S -> nth_error gotos k = Some grow -> In (X, j) grow ->
      (exists it, In it S /\ next_sym G it = Some X) /\
      exists J', nth_error states (N.to_nat j) = Some J' /\ forall x, In x J' <-> in_goto G S X x;
    c2_canon : forall S, In S states -> canon G eoi S;
    c2_distinct : distinct_states states
  }.

  Definition Qcoll (sts : list (list litem)) : Prop :=
    (forall S, In S sts -> canon G eoi S) /\ distinct_states sts.

  Lemma Qcoll_ext : forall cfuel states I X J, Qcoll states -> In I states -> In X (next_syms G I) ->
    goto G tab cfuel I X = Some J -> find_state J states 0 = None -> Qcoll (states ++ [J]).
  Proof.
    intros cfuel states I X J [Hcan Hdis] HI HX Hg Hf. split.
    - intros S HS. apply in_app_iff in HS. destruct HS as [HS|[HS|[]]]; [auto|]. subst S.
      apply (canon_step G eoi I X J); [auto|apply next_syms_In; exact HX|].
      apply (goto_exact G tab Hs Hst _ _ _ _ Hg).
    - pose proof (find_state_none _ _ _ Hf) as Hnone.
      assert (Hlast : forall a Sa, nth_error (states ++ [J]) a = Some Sa ->
                (a < length states)%nat /\ nth_error states a = Some Sa \/ a = length states /\ Sa = J).
      { intros a Sa Ha. destruct (Nat.lt_ge_cases a (length states)) as [Hlt|Hge].
        - left. rewrite nth_error_app1 in Ha by exact Hlt. auto.
        - right. rewrite nth_error_app2 in Ha by exact Hge.
          destruct (a - length states)%nat as [|n] eqn:En; simpl in Ha; [|destruct n; discriminate].
          inversion Ha. split; [lia|reflexivity]. }
      intros a b Sa Sb Ha Hb Hss.
      destruct (Hlast _ _ Ha) as [[Ha1 Ha2]|[Ha1 Ha2]]; destruct (Hlast _ _ Hb) as [[Hb1 Hb2]|[Hb1 Hb2]].
      + eapply Hdis; eauto.
      + subst Sb. exfalso. apply (Hnone _ _ Ha2). apply same_set_sym. exact Hss.
      + subst Sa. exfalso. apply (Hnone _ _ Hb2). exact Hss.
      + lia.
  Qed.

  Lemma items_coll_ok2 : forall cfuel fuel states gotos,
    items G tab eoi cfuel fuel = Some (states, gotos) -> coll_ok2 states gotos.
  Proof.
    intros cfuel fuel states gotos H. unfold items in H.
    destruct (closure_item G tab cfuel (seed_item eoi)) as [I0|] eqn:E0; [|discriminate].
    pose proof (closure_item_exact G tab Hs Hst _ _ _ E0) as Hex0.
    destruct (items_loop_spec2 G tab cfuel Qcoll (Qcoll_ext cfuel) _ _ _ _ _ _ H eq_refl) as [Hrows [Hcan Hdis]].
    - simpl. lia.
    - intros k I row Hk Hg. destruct k; discriminate.
    - split.
      + intros S [HS|[]]. subst S. apply canon_init. exact Hex0.
      + intros a b Sa Sb Ha Hb _. destruct a as [|a]; [|destruct a; discriminate].
        destruct b as [|b]; [reflexivity|destruct b; discriminate].
    - constructor; [|exact Hcan|exact Hdis].
      intros k S grow X j Hk Hg Hin. destruct (Hrows _ _ _ Hk Hg _ _ Hin) as [HX [J [J' [H1 [H2 H3]]]]].
      split; [apply next_syms_In; exact HX|]. exists J'. split; [exact H2|].
      intros x. rewrite <- (H3 x). apply (goto_exact G tab Hs Hst _ _ _ _ H1).
  Qed.
End Coll2.
