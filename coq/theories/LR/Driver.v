(* LR/Driver.v -- definitions only.

   First-order model of the shift-reduce driver `Parser.parse` of
   /repo/compiler/front_end/lr1.py (lines 604-721), over first-order tables.

   Symbols, states and error codes are numbers (`N`); the translator
   harness/lr_tables.py interns the Python strings.  Error code 0 stands for
   Python `None` (an `Error(None)` entry and a missing entry are not
   distinguishable through `parse` either).

   What is mirrored, statement by statement:
     tokens = list(tokens); tokens.append(Token(END_OF_INPUT, "", end_location))
                                                           run: toks ++ [t_eoi]
     stack = [(0, None)]                                   stk = [] (the bottom entry is implicit)
     tokens[cursor]                                        head of `rest`; IndexError past the end -> CrashTokenIndex
     self.action.get(state(), {}) / default_errors         `next_action`
     Shift                                                 push (state, leaf), cursor+1
     Accept + its two asserts                              Accepted / CrashAssertAccept
     Reduce: children = stack[len(stack)-n:] ; del ...     `pop_count` (including Python's negative-slice behaviour
                                                           when n exceeds the stack, and the empty-stack IndexError)
             self.goto[state()][lhs]                       KeyError -> CrashGotoKey
     Error: ParseError(code, cursor, token, state, {k | action[state][k] not Error})
            self.action[state()] on a plain dict w/o row   KeyError -> CrashActionKey (cached tables are dicts,
                                                           freshly generated ones defaultdicts: `t_dflt`)
   One unit of fuel = one iteration of `while True`.
   Not modelled: Reduction.source_location (derived from the leaves; the harness checks it on the Python side). *)
From Coq Require Import NArith PArith List Bool FMapPositive.
Import ListNotations.
Open Scope N_scope.

Definition nmap := PositiveMap.t.
Definition nget {A : Type} (m : nmap A) (k : N) : option A := PositiveMap.find (N.succ_pos k) m.
Definition nset {A : Type} (m : nmap A) (k : N) (v : A) : nmap A := PositiveMap.add (N.succ_pos k) v m.
Definition nempty {A : Type} : nmap A := PositiveMap.empty A.

Fixpoint assoc {A : Type} (k : N) (l : list (N * A)) : option A :=
  match l with
  | [] => None
  | (k', v) :: t => if N.eqb k k' then Some v else assoc k t
  end.

Definition production := (N * list N)%type.

Inductive act :=
| Shift (s : N)
| Reduce (lhs : N) (rhs : list N)      (* lr1.Reduce(rule): the production itself, as in Python *)
| Accept
| Err (c : N).                         (* lr1.Error(code) entries written by mark_error *)

Record tables := {
  t_action : nmap (list (N * act));    (* Parser.action : state -> {symbol: action} *)
  t_goto   : nmap (list (N * N));      (* Parser.goto   : state -> {nonterminal: state} *)
  t_derr   : nmap N;                   (* Parser.default_errors *)
  t_dflt   : bool;                     (* Parser.action is a collections.defaultdict(dict) *)
  t_eoi    : N;                        (* lr1.END_OF_INPUT *)
  t_prods  : list production           (* Parser.productions (used only by parser._load_module_parser) *)
}.

(* Parse trees: a leaf is the token object (its symbol and its index in the input),
   an inner node is lr1.Reduction(symbol, children, production, _). *)
Inductive ptree :=
| PLeaf (sym : N) (idx : nat)
| PNode (lhs : N) (rhs : list N) (cs : list ptree).

Inductive crash :=
| CrashTokenIndex      (* IndexError: tokens[cursor] after END_OF_INPUT was shifted *)
| CrashAssertAccept    (* AssertionError: "Accepted incompletely-reduced input." / "Accepted parse before end of input." *)
| CrashEmptyStack      (* IndexError: state() after `del` removed the bottom entry *)
| CrashGotoKey         (* KeyError: self.goto[state()][lhs] *)
| CrashActionKey.      (* KeyError: self.action[state()] in the Error branch, plain dict, no row *)

Inductive result :=
| Accepted (t : ptree)
| Rejected (code : N) (idx : nat) (tok : N) (st : N) (expected : list N)
| Crashed (k : crash)
| OutOfFuel.

Definition stack := list (N * ptree).        (* top first; the bottom (0, None) is implicit *)

Definition top_state (stk : stack) : N :=
  match stk with [] => 0 | (s, _) :: _ => s end.

Definition derr_code (T : tables) (st : N) : N :=
  match nget (t_derr T) st with Some c => c | None => 0 end.

(* if tokens[cursor].symbol not in self.action.get(state(), {}): Error(default or None) else the entry *)
Definition next_action (T : tables) (st a : N) : act :=
  match nget (t_action T) st with
  | Some r => match assoc a r with Some x => x | None => Err (derr_code T st) end
  | None => Err (derr_code T st)
  end.

Definition is_err (x : act) : bool := match x with Err _ => true | _ => false end.

(* set(k for k in self.action[state()].keys() if not isinstance(self.action[state()][k], Error)) *)
Fixpoint expected (r : list (N * act)) : list N :=
  match r with
  | [] => []
  | (k, x) :: t => if is_err x then expected t else k :: expected t
  end.

Definition goto_of (T : tables) (st X : N) : option N :=
  match nget (t_goto T) st with Some r => assoc X r | None => None end.

(* Number of entries removed by `del stack[len(stack) - n:]`, for a Python stack of
   L+1 entries (L above the bottom).  None: the bottom entry is removed too.
     n <= L      : start = L+1-n >= 1, n entries go
     n  = L+1    : start = 0, everything goes
     n  > L+1    : negative start k = L+1-n is taken from the end: start = max(2(L+1)-n, 0) *)
Definition pop_count (n L : nat) : option nat :=
  if Nat.leb n L then Some n
  else if Nat.eqb n (S L) then None
  else let start := (2 * S L - n)%nat in
       if Nat.eqb start 0 then None else Some (S L - start)%nat.

Fixpoint loop (T : tables) (fuel : nat) (stk : stack) (rest : list N) (idx : nat) : result :=
  match fuel with
  | O => OutOfFuel
  | S f =>
    match rest with
    | [] => Crashed CrashTokenIndex
    | a :: rest' =>
      let st := top_state stk in
      match next_action T st a with
      | Shift s' => loop T f ((s', PLeaf a idx) :: stk) rest' (S idx)
      | Accept =>
          match stk with
          | [(_, t)] => if N.eqb a (t_eoi T) then Accepted t else Crashed CrashAssertAccept
          | _ => Crashed CrashAssertAccept
          end
      | Reduce lhs rhs =>
          match pop_count (length rhs) (length stk) with
          | None => Crashed CrashEmptyStack
          | Some m =>
              let cs := rev (map snd (firstn m stk)) in
              let stk' := skipn m stk in
              match goto_of T (top_state stk') lhs with
              | None => Crashed CrashGotoKey
              | Some s' => loop T f ((s', PNode lhs rhs cs) :: stk') rest idx
              end
          end
      | Err c =>
          match nget (t_action T) st with
          | Some r => Rejected c idx a st (expected r)
          | None => if t_dflt T then Rejected c idx a st [] else Crashed CrashActionKey
          end
      end
    end
  end.

Definition run (T : tables) (fuel : nat) (toks : list N) : result :=
  loop T fuel [] (toks ++ [t_eoi T]) 0.

(* ---- grammars and derivation trees (the specification side) ---- *)

Record grammar := { g_start : N; g_prods : list production }.

(* lr1.Grammar._compute_symbols: nonterminals are the symbols that occur as a left-hand side *)
Definition is_nonterminal (G : grammar) (X : N) : bool :=
  existsb (fun p => N.eqb (fst p) X) (g_prods G).

(* derives G X t i w : t is a derivation tree of symbol X in G whose leaves, left to
   right, are the terminals w, carrying the consecutive input indices i, i+1, ... *)
Inductive derives (G : grammar) : N -> ptree -> nat -> list N -> Prop :=
| D_leaf : forall a i, is_nonterminal G a = false -> derives G a (PLeaf a i) i [a]
| D_node : forall lhs rhs cs i w,
    In (lhs, rhs) (g_prods G) -> derives_list G rhs cs i w -> derives G lhs (PNode lhs rhs cs) i w
with derives_list (G : grammar) : list N -> list ptree -> nat -> list N -> Prop :=
| DL_nil : forall i, derives_list G [] [] i []
| DL_cons : forall X Xs t ts i w1 w2,
    derives G X t i w1 -> derives_list G Xs ts (i + length w1)%nat w2 ->
    derives_list G (X :: Xs) (t :: ts) i (w1 ++ w2).

Scheme derives_ind2 := Induction for derives Sort Prop
  with derives_list_ind2 := Induction for derives_list Sort Prop.
Combined Scheme derives_mutind from derives_ind2, derives_list_ind2.

Definition root (t : ptree) : N :=
  match t with PLeaf a _ => a | PNode lhs _ _ => lhs end.

Definition roots (stk : stack) : list N := map (fun e => root (snd e)) stk.

Fixpoint is_prefix (p l : list N) : bool :=
  match p, l with
  | [], _ => true
  | x :: p', y :: l' => N.eqb x y && is_prefix p' l'
  | _ :: _, [] => false
  end.

Fixpoint list_N_eqb (a b : list N) : bool :=
  match a, b with
  | [], [] => true
  | x :: a', y :: b' => N.eqb x y && list_N_eqb a' b'
  | _, _ => false
  end.

Definition prod_eqb (p q : production) : bool :=
  N.eqb (fst p) (fst q) && list_N_eqb (snd p) (snd q).

Definition mem_prod (p : production) (l : list production) : bool := existsb (prod_eqb p) l.
