(* LR/GenProofsExec.v -- the certificate LR/GenExec.scert_of_icert (built from item CORES, the form in which the
   harness dumps lr1.py's item sets) coincides with Gen2.scert_of on the model generator's item sets, so
   generate_pass_check_sound also holds for it. *)
From Coq Require Import Arith NArith PArith List Bool Lia FMapPositive.
Require Import EmbossV.LR.Driver EmbossV.LR.Sound EmbossV.LR.Complete EmbossV.LR.Early EmbossV.LR.Gen
               EmbossV.LR.GenCert EmbossV.LR.GenProofsLink EmbossV.LR.GenCert2 EmbossV.LR.GenProofsSound EmbossV.LR.GenExec.
Import ListNotations.
Open Scope N_scope.

Lemma ksuf_cores_map : forall G (f : litem -> N) l acc,
  fold_left (fun acc it => longer acc (before_dot_core G (fst it))) (map (fun it => (core_of it, f it)) l) acc =
  fold_left (fun acc it => longer acc (before_dot G it)) l acc.
Proof. intros G f. induction l as [|x l IH]; intros acc; simpl; [reflexivity|]. apply IH. Qed.

Lemma ksuf_cores_row : forall G St, ksuf_cores G (icert_row St) = ksuf G St.
Proof. intros G St. unfold ksuf_cores, ksuf, icert_row. apply ksuf_cores_map. Qed.

Lemma scert_of_icert_find : forall G states p,
  PositiveMap.find p (scert_of_icert G (icert_of states)) = PositiveMap.find p (scert_of G states).
Proof.
  intros G states p. unfold scert_of_icert, PositiveMap.map. rewrite PositiveMap.gmapi.
  pose proof (icert_of_get states (Pos.pred_N p)) as E1. pose proof (scert_of_get G states (Pos.pred_N p)) as E2.
  unfold nget in E1, E2. rewrite succ_pos_pred_N in E1, E2. rewrite E1, E2.
  destruct (nth_error states (N.to_nat (Pos.pred_N p))); simpl; [rewrite ksuf_cores_row|]; reflexivity.
Qed.

Lemma forallb_ext' : forall (A : Type) (f g : A -> bool) l, (forall x, f x = g x) -> forallb f l = forallb g l.
Proof. intros A f g l H. induction l as [|x l IH]; simpl; [reflexivity|]. rewrite H, IH. reflexivity. Qed.

Lemma check_sound_ext : forall G T C C', (forall p, PositiveMap.find p C = PositiveMap.find p C') ->
  check_sound G T C = check_sound G T C'.
Proof.
  intros G T C C' H.
  assert (Hn : forall k, nget C k = nget C' k) by (intros; unfold nget; apply H).
  assert (Ht : forall ks X s, check_target C ks X s = check_target C' ks X s) by (intros; unfold check_target; rewrite Hn; reflexivity).
  unfold check_sound. rewrite Hn. f_equal; [f_equal|]; unfold check_rows; apply forallb_ext'; intros [p row]; cbn [fst snd]; rewrite H;
    destruct (PositiveMap.find p C'); try reflexivity; apply forallb_ext'; intros e.
  - unfold check_act. destruct (snd e); try reflexivity. rewrite Ht. reflexivity.
  - unfold check_goto. apply Ht.
Qed.

Theorem generate_pass_check_sound_cores : forall G eoi sp ff cf sf r,
  is_nonterminal G eoi = false -> generate G eoi sp ff cf sf = GenOk r ->
  check_sound G (g_tables r) (scert_of_icert G (icert_of (g_states r))) = true.
Proof.
  intros. rewrite (check_sound_ext _ _ _ (scert_of G (g_states r))); [|apply scert_of_icert_find].
  eapply generate_pass_check_sound; eassumption.
Qed.
