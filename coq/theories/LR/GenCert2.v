(* LR/GenCert2.v -- definitions only.
   The certificates LR/Sound.check_sound and LR/Early.check_productive ask for, computed from the
   results of the model generator LR/Gen.v resp. from the grammar alone:
     scert_of       known-suffix certificate: for each state the longest "symbols before the dot"
                    (top of stack first) among its items;
     prod_marks     productivity fixed point: round r marks the nonterminals that have a production
                    whose nonterminals were all marked in rounds < r; the rank of a nonterminal is
                    the round in which it is marked (1, 2, ...);
     all_productive the checkable hypothesis "every nonterminal derives a terminal string";
     pcert_of       the rank certificate for check_productive;
   and the specification side of the canonical collection (canon) and of the conflict verdict
   (cell_kind, state_consistent, lr1_conflict_free), which mention neither fuel nor any order. *)
From Coq Require Import Arith NArith PArith List Bool FMapPositive.
Require Import EmbossV.LR.Driver EmbossV.LR.Sound EmbossV.LR.Complete EmbossV.LR.Early
               EmbossV.LR.Gen EmbossV.LR.GenCert.
Import ListNotations.
Open Scope N_scope.

(* ---------------------------------------------------------------- known suffixes *)

(* the symbols before the dot, last one first *)
Definition before_dot (G : grammar) (it : litem) : list N :=
  rev (firstn (it_d it) (prod_rhs G (it_p it))).

Definition longer (a b : list N) : list N := if Nat.leb (length b) (length a) then a else b.

Definition ksuf (G : grammar) (S : list litem) : list N :=
  fold_left (fun acc it => longer acc (before_dot G it)) S [].

Definition scert_of (G : grammar) (states : list (list litem)) : cert :=
  list_to_map 0 (map (ksuf G) states) nempty.

(* ---------------------------------------------------------------- productivity *)

(* every nonterminal of rhs is marked *)
Definition rhs_ready (G : grammar) (m : list (N * N)) (rhs : list N) : bool :=
  forallb (fun Y => negb (is_nonterminal G Y) || is_some (assoc Y m)) rhs.

(* the nonterminals a round newly marks *)
Definition prod_new (G : grammar) (m : list (N * N)) : list N :=
  fresh N.eqb (map fst m) (map fst (filter (fun p => rhs_ready G m (snd p)) (g_prods G))).

Fixpoint prod_fix (G : grammar) (fuel : nat) (round : N) (m : list (N * N)) : list (N * N) :=
  match fuel with
  | O => m
  | S f =>
      match prod_new G m with
      | [] => m
      | new => prod_fix G f (N.succ round) (m ++ map (fun X => (X, round)) new)
      end
  end.

(* (nonterminal, round in which it was marked); one more round than there are productions *)
Definition prod_marks (G : grammar) : list (N * N) := prod_fix G (S (length (g_prods G))) 1 [].

Definition all_productive (G : grammar) : bool :=
  forallb (fun p => is_some (assoc (fst p) (prod_marks G))) (g_prods G).

Definition pcert_of (G : grammar) : pcert :=
  fold_right (fun e c => nset c (fst e) (snd e)) nempty (prod_marks G).

(* ---------------------------------------------------------------- specification of the collection *)

(* the LR(1) item sets of ALSU's canonical collection, as lists up to set equality:
   the closure of [S' -> . start, $] and GOTO(I, X) for every canonical I and every X after a dot in I *)
Inductive canon (G : grammar) (eoi : N) : list litem -> Prop :=
| canon_init : forall I, (forall x, In x I <-> in_closure G (seed_item eoi) x) -> canon G eoi I
| canon_step : forall I X J, canon G eoi I -> (exists it, In it I /\ next_sym G it = Some X) ->
    (forall x, In x J <-> in_goto G I X x) -> canon G eoi J.

(* what an item asks of the action row of its state, without the shift target *)
Inductive ckind := KShift | KReduce (lhs : N) (rhs : list N) | KAccept.

Definition cell_kind (G : grammar) (eoi : N) (it : litem) : option (N * ckind) :=
  match next_sym G it with
  | None =>
      match it_p it with
      | Some p =>
          match nth_error (g_prods G) (N.to_nat p) with
          | Some (lhs, rhs) => Some (it_a it, KReduce lhs rhs)
          | None => None
          end
      | None => if Nat.eqb (it_d it) 1 && N.eqb (it_a it) eoi then Some (eoi, KAccept) else None
      end
  | Some X => if is_nonterminal G X then None else Some (X, KShift)
  end.

(* no two items of the state ask for different actions in the same cell *)
Definition state_consistent (G : grammar) (eoi : N) (S : list litem) : Prop :=
  forall it1 it2 t k1 k2, In it1 S -> In it2 S ->
    cell_kind G eoi it1 = Some (t, k1) -> cell_kind G eoi it2 = Some (t, k2) -> k1 = k2.

(* the grammar is LR(1) in the sense of lr1.py: no state of the canonical collection has a cell
   with two different actions (shift/reduce, reduce/reduce with different productions, accept/other) *)
Definition lr1_conflict_free (G : grammar) (eoi : N) : Prop :=
  forall J, canon G eoi J -> state_consistent G eoi J.

(* a list of item sets with goto rows IS a presentation of the canonical collection -- in whatever
   order the states were found and whatever the order of the items inside a state *)
Record is_collection (G : grammar) (eoi : N) (states : list (list litem)) (gotos : list (list (N * N))) : Prop := {
  ic_len : length gotos = length states;
  ic_init : exists I0, nth_error states 0 = Some I0 /\ forall x, In x I0 <-> in_closure G (seed_item eoi) x;
  ic_total : forall k S grow, nth_error states k = Some S -> nth_error gotos k = Some grow ->
    forall X, In X (next_syms G S) -> exists j, assoc X grow = Some j;
  ic_rows : forall k S grow X j, nth_error states k = Some S -> nth_error gotos k = Some grow -> In (X, j) grow ->
    (exists it, In it S /\ next_sym G it = Some X) /\
    exists J', nth_error states (N.to_nat j) = Some J' /\ forall x, In x J' <-> in_goto G S X x;
  ic_canon : forall S, In S states -> canon G eoi S
}.

(* the verdict `no Conflict, no Accept clash` of the table filling on a presentation *)
Definition fill_clean (G : grammar) (eoi : N) (states : list (list litem)) (gotos : list (list (N * N))) : Prop :=
  conflicts_from 0 (zip_fill G eoi states gotos) = [] /\ existsb f_clash (zip_fill G eoi states gotos) = false.
