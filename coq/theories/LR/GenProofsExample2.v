(* LR/GenProofsExample2.v -- the hypotheses of generate_correct / generate_error_not_early are satisfiable by a
   non-trivial instance (the grammar of LR/GenProofsExample.v: S -> N T e; T -> A B; A -> ; B -> ; N -> n,
   input `n n` rejected at index 1), and all_productive rejects the grammar S -> a S of
   Examples.error_not_early_refuted.  Evaluated by vm_compute. *)
From Coq Require Import Arith NArith List Bool Lia.
Require Import EmbossV.LR.Driver EmbossV.LR.Complete EmbossV.LR.Gen EmbossV.LR.GenCert EmbossV.LR.GenCert2
               EmbossV.LR.GenProofsExample.
Import ListNotations.
Open Scope N_scope.

Lemma generate_correct_nonvacuous :
  exists G eoi sp ff cf sf r fuel toks c i tok st e,
    is_nonterminal G eoi = false /\ all_productive G = true /\
    generate G eoi sp ff cf sf = GenOk r /\ gen_clean r = true /\
    run (g_tables r) fuel toks = Rejected c i tok st e /\ (0 < i)%nat /\ (3 <= length (g_states r))%nat.
Proof.
  destruct ex_result as [r|] eqn:E; [|vm_compute in E; discriminate].
  exists ex_grammar, 0, 9, (first_fuel ex_grammar), 100%nat, 100%nat, r, 100%nat, [7; 7].
  unfold ex_result in E.
  destruct (generate ex_grammar 0 9 (first_fuel ex_grammar) 100 100) as [r'|] eqn:Eg; [|discriminate].
  inversion E. subst r'. clear E.
  assert (Hr : GenOk r = generate ex_grammar 0 9 (first_fuel ex_grammar) 100 100) by (symmetry; exact Eg).
  vm_compute in Hr. inversion Hr. subst r. clear Hr Eg.
  eexists _, 1%nat, _, _, _.
  split; [reflexivity|]. split; [vm_compute; reflexivity|]. split; [vm_compute; reflexivity|].
  split; [vm_compute; reflexivity|]. split; [vm_compute; reflexivity|]. split; [lia|vm_compute; lia].
Qed.

(* S -> a S  (S = 1, a = 2): no nonterminal is productive *)
Lemma all_productive_rejects_cyclic :
  all_productive {| g_start := 1; g_prods := [(1, [2; 1])] |} = false.
Proof. vm_compute. reflexivity. Qed.

(* ranks: S -> N T e is marked in round 3 (T in round 2, after A and B in round 1) *)
Lemma prod_marks_example : prod_marks ex_grammar = [(5, 1); (6, 1); (2, 1); (3, 2); (1, 3)].
Proof. vm_compute. reflexivity. Qed.

(* WHICH kind of "not clean" is reported does depend on the order of the items inside a state (only the verdict
   clean / not clean is order independent, GenProofsFill.generate_verdict_order_independent_partial):
   S -> A | a; A -> S  (S = 1, A = 2, a = 3, $ = 0), accepting state {[S' -> S ., $], [A -> S ., $]}:
   Accept first, then the Reduce: a Conflict on $;  Reduce first, then Accept: the Accept clash (lr1.py's
   AssertionError), no Conflict.  This is finding lr1-assert-accept-reduce-clash / F11 in the model. *)
Lemma not_clean_kind_order_dependent :
  exists G eoi grow it1 it2,
    f_conf (fill_state G eoi grow [it1; it2]) <> [] /\ f_clash (fill_state G eoi grow [it1; it2]) = false /\
    f_conf (fill_state G eoi grow [it2; it1]) = [] /\ f_clash (fill_state G eoi grow [it2; it1]) = true.
Proof.
  exists {| g_start := 1; g_prods := [(1, [2]); (1, [3]); (2, [1])] |}, 0, [], (mk_item None 1 0), (mk_item (Some 2) 1 0).
  vm_compute. repeat split; try reflexivity. discriminate.
Qed.
