(* LR/GenProofsExample.v -- the hypotheses of the generator theorems are satisfiable by a
   non-trivial instance: the regression grammar corpus/C08/nullable_chain_after_nonterminal.json
   (S -> N T e; T -> A B; A -> ; B -> ; N -> n), evaluated by vm_compute. *)
From Coq Require Import Arith NArith List Bool Lia.
Require Import EmbossV.LR.Driver EmbossV.LR.Complete EmbossV.LR.Gen EmbossV.LR.GenCert.
Import ListNotations.
Open Scope N_scope.

(* symbols: $ = 0, S = 1, N = 2, T = 3, e = 4, A = 5, B = 6, n = 7, S' = 9 *)
Definition ex_grammar : grammar :=
  {| g_start := 1; g_prods := [(1, [2; 3; 4]); (3, [5; 6]); (5, []); (6, []); (2, [7])] |}.

Definition ex_result : option gen_result :=
  match generate ex_grammar 0 9 (first_fuel ex_grammar) 100 100 with GenOk r => Some r | GenOutOfFuel _ => None end.

Lemma generate_nonvacuous :
  exists G eoi sp ff cf sf r t toks,
    is_nonterminal G eoi = false /\ generate G eoi sp ff cf sf = GenOk r /\ gen_clean r = true /\
    (2 <= length (g_states r))%nat /\ derives G (g_start G) t 0%nat toks /\ toks <> [] /\
    run (g_tables r) 100 toks = Accepted t.
Proof.
  destruct ex_result as [r|] eqn:E; [|vm_compute in E; discriminate].
  exists ex_grammar, 0, 9, (first_fuel ex_grammar), 100%nat, 100%nat, r.
  exists (PNode 1 [2; 3; 4] [PNode 2 [7] [PLeaf 7 0]; PNode 3 [5; 6] [PNode 5 [] []; PNode 6 [] []]; PLeaf 4 1]), [7; 4].
  unfold ex_result in E.
  destruct (generate ex_grammar 0 9 (first_fuel ex_grammar) 100 100) as [r'|] eqn:Eg; [|discriminate].
  inversion E. subst r'. clear E.
  split; [reflexivity|]. split; [reflexivity|].
  assert (Hr : GenOk r = generate ex_grammar 0 9 (first_fuel ex_grammar) 100 100) by (symmetry; exact Eg).
  vm_compute in Hr. inversion Hr. subst r. clear Hr Eg.
  split; [vm_compute; reflexivity|]. split; [vm_compute; lia|]. split.
  - apply D_node; [simpl; auto|].
    apply (DL_cons ex_grammar 2 [3; 4] _ _ 0%nat [7] [4]).
    + apply D_node; [simpl; auto 10|]. apply (DL_cons ex_grammar 7 [] _ _ 0%nat [7] []); [apply D_leaf; reflexivity|constructor].
    + apply (DL_cons ex_grammar 3 [4] _ _ 1%nat [] [4]).
      * apply D_node; [simpl; auto 10|].
        apply (DL_cons ex_grammar 5 [6] _ _ 1%nat [] []); [apply D_node; [simpl; auto 10|constructor]|].
        apply (DL_cons ex_grammar 6 [] _ _ 1%nat [] []); [apply D_node; [simpl; auto 10|constructor]|constructor].
      * apply (DL_cons ex_grammar 4 [] _ _ 1%nat [4] []); [apply D_leaf; reflexivity|constructor].
  - split; [discriminate|]. vm_compute. reflexivity.
Qed.
