(* LR/GenProofsFuel.v -- proofs about the model generator LR/Gen.v, part 4:
   a closure fuel that always suffices (closure_fuel_enough), so that for closure_item and goto
   the out-of-fuel outcome is unreachable with that fuel. *)
From Coq Require Import Arith NArith PArith List Bool Lia.
Require Import EmbossV.LR.Driver EmbossV.LR.Sound EmbossV.LR.Complete EmbossV.LR.Gen EmbossV.LR.GenProofs.
Import ListNotations.
Open Scope N_scope.

Definition la_universe (G : grammar) (a : N) : list N := a :: all_syms G.

Definition item_universe (G : grammar) (root : litem) : list litem :=
  root :: map (fun qu => mk_item (Some (fst qu)) 0 (snd qu))
              (list_prod (map N.of_nat (seq 0 (length (g_prods G)))) (la_universe G (it_a root))).

Lemma item_universe_length : forall G root,
  length (item_universe G root) = S (length (g_prods G) * S (length (all_syms G))).
Proof.
  intros. unfold item_universe, la_universe. simpl. rewrite map_length, prod_length, map_length, seq_length. reflexivity.
Qed.

Lemma first_seq_universe2 : forall G tab a, incl tab (first_universe G) ->
  forall l, (forall Y, In Y l -> In Y (la_universe G a)) ->
  forall t, In (Some t) (first_seq G tab l) -> In t (la_universe G a).
Proof.
  intros G tab a Hu. induction l as [|X r IH]; intros Hl t Ho.
  - simpl in Ho. destruct Ho as [Ho|[]]. discriminate.
  - apply first_seq_cons_some in Ho. destruct Ho as [Ho|[_ Ho]].
    + apply firsts_of_In in Ho. destruct Ho as [[_ Ho]|[_ Ho]].
      * apply Hu in Ho. unfold first_universe in Ho. apply in_prod_iff in Ho. destruct Ho as [_ [Ho|Ho]]; [discriminate|].
        apply in_map_iff in Ho. destruct Ho as [t' [E Ht']]. inversion E. subst. right. exact Ht'.
      * inversion Ho. subst. apply Hl. left. reflexivity.
    + apply IH; [|exact Ho]. intros Y HY. apply Hl. right. exact HY.
Qed.

Lemma In_skipn_In : forall (A : Type) n (l : list A) x, In x (skipn n l) -> In x l.
Proof. intros A n l x H. rewrite <- (firstn_skipn n l). apply in_or_app. right. exact H. Qed.

Lemma prod_rhs_syms : forall G po d Y, In Y (skipn (S d) (prod_rhs G po)) -> In Y (all_syms G).
Proof.
  intros G po d Y H. unfold prod_rhs in H. destruct po as [p|].
  - destruct (nth_error (g_prods G) (N.to_nat p)) as [[lhs rhs]|] eqn:E.
    + cbn [snd] in H. apply nth_error_In in E. destruct (prod_syms _ _ _ E) as [_ Hr]. apply Hr.
      eapply In_skipn_In. exact H.
    + destruct d; simpl in H; destruct H.
  - destruct d; simpl in H; destruct H.
Qed.

Section Fuel.
  Variable G : grammar.
  Variable tab : list fentry.
  Hypothesis Hu : incl tab (first_universe G).
  Variable root : litem.

  Definition in_scope (it : litem) : Prop := In (it_a it) (la_universe G (it_a root)).

  Lemma single_level_universe : forall it new, in_scope it -> In new (single_level G tab it) ->
    In new (item_universe G root) /\ in_scope new.
  Proof.
    intros it new Hsc H. apply single_level_In in H. destruct H as [B [q [u [H1 [H2 [H3 H4]]]]]]. subst new.
    assert (Hu' : In u (la_universe G (it_a root))).
    { unfold item_las in H3. apply somes_In in H3. eapply first_seq_universe2; [exact Hu| |exact H3].
      intros Y HY. apply in_app_iff in HY. destruct HY as [HY|[HY|[]]].
      - right. eapply prod_rhs_syms. exact HY.
      - subst Y. exact Hsc. }
    split; [|exact Hu']. unfold item_universe. right. apply in_map_iff. exists (q, u). split; [reflexivity|].
    apply in_prod_iff. split; [|exact Hu']. apply prods_of_In in H2. destruct H2 as [gamma H2].
    apply in_map_iff. exists (N.to_nat q). split; [apply N2Nat.id|]. apply in_seq.
    assert (Hq : (N.to_nat q < length (g_prods G))%nat) by (apply nth_error_Some; congruence). lia.
  Qed.

  Lemma closure_loop_enough : forall f todo acc,
    NoDup acc -> incl acc (item_universe G root) -> (forall it, In it acc -> in_scope it) ->
    (forall it, In it todo -> in_scope it) ->
    (2 * (length (item_universe G root) - length acc) + length todo < f)%nat ->
    closure_loop G tab f todo acc <> None.
  Proof.
    induction f as [|f IH]; intros todo acc Hnd Hin Hsc Hts Hlt; [lia|].
    simpl. destruct todo as [|it rest]; [discriminate|].
    remember (fresh litem_eqb acc (single_level G tab it)) as new eqn:Enew.
    assert (Hnew : forall x, In x new -> In x (item_universe G root) /\ in_scope x).
    { intros x Hx. rewrite Enew in Hx. apply (fresh_In _ litem_eqb_spec) in Hx. destruct Hx as [Hx _].
      eapply single_level_universe; [|exact Hx]. apply Hts. left. reflexivity. }
    assert (Hnd' : NoDup (acc ++ new)) by (rewrite Enew; apply (app_fresh_NoDup _ litem_eqb_spec); exact Hnd).
    assert (Hin' : incl (acc ++ new) (item_universe G root)).
    { intros x Hx. apply in_app_iff in Hx. destruct Hx as [Hx|Hx]; [auto|apply Hnew; exact Hx]. }
    pose proof (NoDup_incl_length Hnd' Hin') as Hle. rewrite app_length in Hle.
    apply IH; [exact Hnd'|exact Hin'| | |].
    - intros x Hx. apply in_app_iff in Hx. destruct Hx as [Hx|Hx]; [auto|apply Hnew; exact Hx].
    - intros x Hx. apply in_app_iff in Hx. destruct Hx as [Hx|Hx]; [apply Hts; right; exact Hx|apply Hnew; exact Hx].
    - rewrite !app_length. cbn [length] in Hlt. lia.
  Qed.

  Lemma closure_item_enough : closure_item G tab (closure_fuel G) root <> None.
  Proof.
    unfold closure_item. apply closure_loop_enough.
    - constructor; [intros []|constructor].
    - intros x [Hx|[]]. subst. left. reflexivity.
    - intros x [Hx|[]]. subst. left. reflexivity.
    - intros x [Hx|[]]. subst. left. reflexivity.
    - rewrite item_universe_length. unfold closure_fuel. simpl. lia.
  Qed.
End Fuel.

Lemma first_fix_universe : forall G f tab tab', incl tab (first_universe G) -> first_fix G f tab = Some tab' ->
  incl tab' (first_universe G).
Proof.
  intros G. induction f as [|f IH]; intros tab tab' Hu H; [discriminate|]. simpl in H.
  destruct (fresh fentry_eqb tab (first_round G tab)) as [|e new] eqn:E.
  - inversion H. subst. exact Hu.
  - eapply IH; [|exact H]. intros x Hx. apply in_app_iff in Hx. destruct Hx as [Hx|Hx]; [auto|].
    rewrite <- E in Hx. apply (fresh_In _ fentry_eqb_spec) in Hx. destruct Hx as [Hx _].
    eapply first_round_universe; eauto.
Qed.

(* with closure_fuel the closure of ANY item is computed (never out of fuel), for the table first_table returns *)
Theorem closure_fuel_enough : forall G ffuel tab root,
  first_table G ffuel = Some tab -> closure_item G tab (closure_fuel G) root <> None.
Proof.
  intros G ffuel tab root H. apply closure_item_enough. eapply first_fix_universe; [|exact H]. intros x [].
Qed.

Lemma union_closures_enough : forall G tab its acc,
  (forall root, closure_item G tab (closure_fuel G) root <> None) ->
  union_closures G tab (closure_fuel G) its acc <> None.
Proof.
  intros G tab. induction its as [|it its IH]; intros acc H; simpl; [discriminate|].
  destruct (closure_item G tab (closure_fuel G) it) eqn:E; [apply IH; exact H|]. exfalso. exact (H _ E).
Qed.

Theorem goto_fuel_enough : forall G ffuel tab I X,
  first_table G ffuel = Some tab -> goto G tab (closure_fuel G) I X <> None.
Proof.
  intros G ffuel tab I X H. unfold goto. apply union_closures_enough. intros root. eapply closure_fuel_enough; eauto.
Qed.
