(* LR/Examples.v -- non-vacuity: a concrete grammar (S -> a S b | <empty>), the
   tables lr1.py builds for it (dumped by harness/lr_tables.py: symbols $=0 S=1 a=2
   b=3 S'=4), once as a defaultdict-backed and once as a dict-backed copy. *)
From Coq Require Import Arith NArith PArith List Bool FMapPositive.
Require Import EmbossV.LR.Driver EmbossV.LR.Sound EmbossV.LR.Bisim EmbossV.LR.Complete EmbossV.LR.Early EmbossV.LR.Exec.
Import ListNotations.
Open Scope N_scope.

Definition ex_table_body : list (list N) :=
 [[3;0;0;1;0;2;0;2]; [3;1;0;2;0]; [3;2;2;0;4;3;1;0]; [3;3;3;0;5]; [3;4;2;0;4;3;1;0];
  [3;5;0;1;1]; [3;6;3;0;7]; [3;7;3;1;1];
  [4;0;1;1]; [4;2;1;3]; [4;4;1;6];
  [6;0;1;2];
  [7;0]; [7;1;1]; [7;2;2]; [7;3;1;2]; [7;4;2;2]; [7;5;3;1;2]; [7;6;1;2;2]; [7;7;3;1;2];
  [8]].

(* lr1.py's LR(1) item sets for the grammar [S -> a S b; S -> <empty>] (pcode 0 = S' -> S) *)
Definition ex_items : list (list N) :=
 [[20;0;0;0;0]; [20;0;1;0;0]; [20;0;2;0;0]; [20;1;0;1;0]; [20;2;1;0;3]; [20;2;1;1;0]; [20;2;2;0;3];
  [20;3;1;2;0]; [20;4;1;0;3]; [20;4;1;1;3]; [20;4;2;0;3]; [20;5;1;3;0]; [20;6;1;2;3]; [20;7;1;3;3]].

Definition ex_lines : list (list N) :=
  [[2;0;1]; [2;1;1;2;1;3]; [2;2;4;1]]
  ++ [[1;1;0;1]] ++ ex_items ++ ex_table_body   (* slot 1: action is a defaultdict; with LR(1) item sets *)
  ++ [[1;2;0;0]] ++ ex_table_body          (* slot 2: action is a plain dict   *)
  (* slot 3: in state 2 on b, reduce by S -> a S b instead of S -> <empty> *)
  ++ [[1;3;0;1]] ++ [[3;0;0;1;0;2;0;2]; [3;1;0;2;0]; [3;2;2;0;4;3;1;1]] ++ skipn 3 ex_table_body
  ++ [[9;1;1;1;0]]
  ++ [[11;0;0]; [11;1;1]; [11;2;2]; [11;3;3]; [11;4;4]; [11;5;5]; [11;6;6]; [11;7;7]]
  ++ [[21;1;1;2]].                         (* FIRST certificate: S nullable, FIRST(S) = {a} *)

Definition ex_state := final ex_lines.
Definition exG := slot_grammar ex_state 1.
Definition exT := slot_tables ex_state 1.
Definition exC := slot_cert ex_state 1.
Definition exT2 := slot_tables ex_state 2.
Definition exTbad := slot_tables ex_state 3.
Definition exR := x_rel ex_state.
Definition exI := slot_items ex_state 1.
Definition exF := x_first ex_state.

Example ex_check_sound : check_sound exG exT exC = true.
Proof. vm_compute. reflexivity. Qed.

Example ex_check_sound_rejects_bad : check_sound exG exTbad exC = false.
Proof. vm_compute. reflexivity. Qed.

Example ex_accepts :
  run exT 100 [2;2;3;3] =
  Accepted (PNode 1 [2;1;3] [PLeaf 2 0; PNode 1 [2;1;3] [PLeaf 2 1; PNode 1 [] []; PLeaf 3 2]; PLeaf 3 3]).
Proof. vm_compute. reflexivity. Qed.

Example ex_rejects : run exT 100 [2;3;3] = Rejected 0 2 3 5 [0].
Proof. vm_compute. reflexivity. Qed.

Example ex_out_of_fuel : run exT 3 [2;2;3;3] = OutOfFuel.
Proof. vm_compute. reflexivity. Qed.

Example ex_bisim : bisim_check exR exT2 exT = true.
Proof. vm_compute. reflexivity. Qed.

Example ex_bisim_rejects_bad : bisim_check exR exTbad exT = false.
Proof. vm_compute. reflexivity. Qed.

(* the hypotheses of run_sound are satisfiable, with an accepting run *)
Lemma check_sound_nonvacuous :
  exists G T C toks fuel t,
    check_sound G T C = true /\ ~ In (t_eoi T) toks /\ run T fuel toks = Accepted t /\ toks <> [].
Proof.
  exists exG, exT, exC, [2;2;3;3], 100%nat.
  eexists. split; [exact ex_check_sound|]. split.
  - vm_compute. intros [H|[H|[H|[H|[]]]]]; discriminate.
  - split; [exact ex_accepts|discriminate].
Qed.

(* the hypothesis of bisim_sound is satisfiable by two different table objects *)
Lemma bisim_check_nonvacuous :
  exists R A B, bisim_check R A B = true /\ t_dflt A <> t_dflt B /\
                exists toks fuel t, run A fuel toks = Accepted t.
Proof.
  exists exR, exT2, exT. split; [exact ex_bisim|]. split; [vm_compute; discriminate|].
  exists [2;2;3;3], 100%nat. eexists. vm_compute. reflexivity.
Qed.

(* the checker is not trivially true: a table it rejects really differs *)
Lemma bisim_check_discriminates :
  exists R A B toks fuel, bisim_check R A B = false /\ run A fuel toks <> run B fuel toks.
Proof.
  exists exR, exTbad, exT, [2;3], 100%nat. split; [exact ex_bisim_rejects_bad|].
  vm_compute. discriminate.
Qed.

Example ex_check_complete : check_complete exG exT exI exF = true.
Proof. vm_compute. reflexivity. Qed.

(* dropping one reduce action (state 2 on b) makes the tables incomplete, and the checker says so *)
Definition exTincomplete : tables :=
  set_action exT 2 [(2, Shift 4)].

Example ex_check_complete_rejects : check_complete exG exTincomplete exI exF = false.
Proof. vm_compute. reflexivity. Qed.

Example ex_incomplete_rejects_sentence : run exTincomplete 100 [2;3] = Rejected 0 1 3 2 [2].
Proof. vm_compute. reflexivity. Qed.

Lemma check_complete_nonvacuous :
  exists G T I F t toks, check_complete G T I F = true /\ derives G (g_start G) t 0%nat toks /\ toks <> [].
Proof.
  exists exG, exT, exI, exF.
  eexists. exists [2;2;3;3]. split; [exact ex_check_complete|]. split; [|discriminate].
  eapply run_sound; [exact ex_check_sound| |exact ex_accepts].
  vm_compute. intros [H|[H|[H|[H|[]]]]]; discriminate.
Qed.

(* ---- error_not_early: non-vacuity on the example grammar ---- *)

Definition exRank : pcert := nset nempty 1 1.      (* S has rank 1 via S -> <empty> *)

Example ex_check_early : check_early exG exT exI = true.
Proof. vm_compute. reflexivity. Qed.

Example ex_check_productive : check_productive exG exRank = true.
Proof. vm_compute. reflexivity. Qed.

Lemma error_not_early_nonvacuous :
  exists G T C I R fuel toks c i tok st e,
    check_sound G T C = true /\ check_early G T I = true /\ check_productive G R = true /\
    run T fuel toks = Rejected c i tok st e /\ (0 < i)%nat.
Proof.
  exists exG, exT, exC, exI, exRank, 100%nat, [2;3;3]. do 5 eexists.
  split; [exact ex_check_sound|]. split; [exact ex_check_early|]. split; [exact ex_check_productive|].
  split; [exact ex_rejects|]. repeat constructor.
Qed.

(* ---- error_not_early is false without productivity: the grammar S -> a S (symbols $=0 S=1 a=2),
   tables, item sets and FIRST sets as lr1.py builds them (no conflict is reported).  This is the
   unchanged-tree finding lr1-error-reported-late:unproductive-nonterminals. ---- *)

Definition rf_lines : list (list N) :=
 [[2;0;1;2;1]; [2;1;3;1]; [1;1;0;1];
  [20;0;0;0;0]; [20;0;1;0;0]; [20;1;0;1;0]; [20;2;1;0;0]; [20;2;1;1;0]; [20;3;1;2;0];
  [3;0;2;0;2]; [3;1;0;2;0]; [3;2;2;0;2]; [3;3;0;1;0]; [4;0;1;1]; [4;2;1;3]; [6;0;1];
  [7;0]; [7;1;1]; [7;2;2]; [7;3;1;2]; [8]; [9;1;1;0]; [21;1;0;2]].

Definition rf_state := final rf_lines.
Definition rfG : grammar := {| g_start := 1; g_prods := [(1, [2; 1])] |}.
Definition rfT := slot_tables rf_state 1.
Definition rfC := slot_cert rf_state 1.
Definition rfI := slot_items rf_state 1.
Definition rfF := x_first rf_state.

Example rf_grammar_is_dumped : slot_grammar rf_state 1 = rfG.
Proof. vm_compute. reflexivity. Qed.

Example rf_checks :
  check_sound rfG rfT rfC = true /\ check_complete rfG rfT rfI rfF = true /\ check_early rfG rfT rfI = true.
Proof. vm_compute. auto. Qed.

Example rf_run : run rfT 100 [2; 2; 2] = Rejected 0 3 0 2 [2].
Proof. vm_compute. reflexivity. Qed.

Lemma rf_unproductive : forall R, check_productive rfG R = false.
Proof.
  intros R. unfold check_productive, rfG. cbn [g_prods forallb existsb fst snd].
  rewrite N.eqb_refl. cbn [andb]. replace (is_nonterminal {| g_start := 1; g_prods := [(1, [2; 1])] |} 1) with true by reflexivity.
  cbn [negb orb]. rewrite N.ltb_irrefl. rewrite andb_false_r. reflexivity.
Qed.

Lemma rf_empty_language_aux :
  (forall X t i w, derives rfG X t i w -> X = 1 -> False) /\
  (forall Xs ts i w, derives_list rfG Xs ts i w -> In 1 Xs -> False).
Proof.
  apply (derives_mutind rfG (fun X _ _ _ _ => X = 1 -> False) (fun Xs _ _ _ _ => In 1 Xs -> False)).
  - intros a i Hn Ha. subst a. vm_compute in Hn. discriminate.
  - intros lhs rhs cs i w Hin Hd IH _. destruct Hin as [Hin|[]]. inversion Hin. subst. apply IH. right. left. reflexivity.
  - intros i [].
  - intros X Xs t ts i w1 w2 Hd IH1 Hl IH2 [HX|HX]; [apply IH1; exact HX|apply IH2; exact HX].
Qed.

(* every check of the development passes except productivity, the parser shifts three tokens
   and reports the error at index 3, but no sentence exists at all *)
Lemma error_not_early_refuted :
  exists G T C I F fuel toks c i tok st e,
    check_sound G T C = true /\ check_complete G T I F = true /\ check_early G T I = true /\
    (forall R, check_productive G R = false) /\
    run T fuel toks = Rejected c i tok st e /\
    ~ exists suffix t, derives G (g_start G) t 0%nat (firstn i toks ++ suffix).
Proof.
  exists rfG, rfT, rfC, rfI, rfF, 100%nat, [2;2;2]. do 5 eexists.
  destruct rf_checks as [H1 [H2 H3]].
  split; [exact H1|]. split; [exact H2|]. split; [exact H3|]. split; [exact rf_unproductive|].
  split; [exact rf_run|]. intros [suffix [t Hd]].
  exact (proj1 rf_empty_language_aux _ _ _ _ Hd eq_refl).
Qed.

(* check_early is not trivially true: an edge into a state whose kernel does not stem from the
   source state is rejected (state 0 --a--> 6, whose kernel is [S -> a S . b]) *)
Example ex_check_early_rejects : check_early exG (set_action exT 0 [(2, Shift 6)]) exI = false.
Proof. vm_compute. reflexivity. Qed.
