(* LR/Examples.v -- non-vacuity: a concrete grammar (S -> a S b | <empty>), the
   tables lr1.py builds for it (dumped by harness/lr_tables.py: symbols $=0 S=1 a=2
   b=3 S'=4), once as a defaultdict-backed and once as a dict-backed copy. *)
From Coq Require Import Arith NArith PArith List Bool FMapPositive.
Require Import EmbossV.LR.Driver EmbossV.LR.Sound EmbossV.LR.Bisim EmbossV.LR.Complete EmbossV.LR.Exec.
Import ListNotations.
Open Scope N_scope.

Definition ex_table_body : list (list N) :=
 [[3;0;0;1;0;2;0;2]; [3;1;0;2;0]; [3;2;2;0;4;3;1;0]; [3;3;3;0;5]; [3;4;2;0;4;3;1;0];
  [3;5;0;1;1]; [3;6;3;0;7]; [3;7;3;1;1];
  [4;0;1;1]; [4;2;1;3]; [4;4;1;6];
  [6;0;1;2];
  [7;0]; [7;1;1]; [7;2;2]; [7;3;1;2]; [7;4;2;2]; [7;5;3;1;2]; [7;6;1;2;2]; [7;7;3;1;2];
  [8]].

(* lr1.py's LR(1) item sets for the grammar [S -> a S b; S -> <empty>] (pcode 0 = S' -> S) *)
Definition ex_items : list (list N) :=
 [[20;0;0;0;0]; [20;0;1;0;0]; [20;0;2;0;0]; [20;1;0;1;0]; [20;2;1;0;3]; [20;2;1;1;0]; [20;2;2;0;3];
  [20;3;1;2;0]; [20;4;1;0;3]; [20;4;1;1;3]; [20;4;2;0;3]; [20;5;1;3;0]; [20;6;1;2;3]; [20;7;1;3;3]].

Definition ex_lines : list (list N) :=
  [[2;0;1]; [2;1;1;2;1;3]; [2;2;4;1]]
  ++ [[1;1;0;1]] ++ ex_items ++ ex_table_body   (* slot 1: action is a defaultdict; with LR(1) item sets *)
  ++ [[1;2;0;0]] ++ ex_table_body          (* slot 2: action is a plain dict   *)
  (* slot 3: in state 2 on b, reduce by S -> a S b instead of S -> <empty> *)
  ++ [[1;3;0;1]] ++ [[3;0;0;1;0;2;0;2]; [3;1;0;2;0]; [3;2;2;0;4;3;1;1]] ++ skipn 3 ex_table_body
  ++ [[9;1;1;1;0]]
  ++ [[11;0;0]; [11;1;1]; [11;2;2]; [11;3;3]; [11;4;4]; [11;5;5]; [11;6;6]; [11;7;7]]
  ++ [[21;1;1;2]].                         (* FIRST certificate: S nullable, FIRST(S) = {a} *)

Definition ex_state := final ex_lines.
Definition exG := slot_grammar ex_state 1.
Definition exT := slot_tables ex_state 1.
Definition exC := slot_cert ex_state 1.
Definition exT2 := slot_tables ex_state 2.
Definition exTbad := slot_tables ex_state 3.
Definition exR := x_rel ex_state.
Definition exI := slot_items ex_state 1.
Definition exF := x_first ex_state.

Example ex_check_sound : check_sound exG exT exC = true.
Proof. vm_compute. reflexivity. Qed.

Example ex_check_sound_rejects_bad : check_sound exG exTbad exC = false.
Proof. vm_compute. reflexivity. Qed.

Example ex_accepts :
  run exT 100 [2;2;3;3] =
  Accepted (PNode 1 [2;1;3] [PLeaf 2 0; PNode 1 [2;1;3] [PLeaf 2 1; PNode 1 [] []; PLeaf 3 2]; PLeaf 3 3]).
Proof. vm_compute. reflexivity. Qed.

Example ex_rejects : run exT 100 [2;3;3] = Rejected 0 2 3 5 [0].
Proof. vm_compute. reflexivity. Qed.

Example ex_out_of_fuel : run exT 3 [2;2;3;3] = OutOfFuel.
Proof. vm_compute. reflexivity. Qed.

Example ex_bisim : bisim_check exR exT2 exT = true.
Proof. vm_compute. reflexivity. Qed.

Example ex_bisim_rejects_bad : bisim_check exR exTbad exT = false.
Proof. vm_compute. reflexivity. Qed.

(* the hypotheses of run_sound are satisfiable, with an accepting run *)
Lemma check_sound_nonvacuous :
  exists G T C toks fuel t,
    check_sound G T C = true /\ ~ In (t_eoi T) toks /\ run T fuel toks = Accepted t /\ toks <> [].
Proof.
  exists exG, exT, exC, [2;2;3;3], 100%nat.
  eexists. split; [exact ex_check_sound|]. split.
  - vm_compute. intros [H|[H|[H|[H|[]]]]]; discriminate.
  - split; [exact ex_accepts|discriminate].
Qed.

(* the hypothesis of bisim_sound is satisfiable by two different table objects *)
Lemma bisim_check_nonvacuous :
  exists R A B, bisim_check R A B = true /\ t_dflt A <> t_dflt B /\
                exists toks fuel t, run A fuel toks = Accepted t.
Proof.
  exists exR, exT2, exT. split; [exact ex_bisim|]. split; [vm_compute; discriminate|].
  exists [2;2;3;3], 100%nat. eexists. vm_compute. reflexivity.
Qed.

(* the checker is not trivially true: a table it rejects really differs *)
Lemma bisim_check_discriminates :
  exists R A B toks fuel, bisim_check R A B = false /\ run A fuel toks <> run B fuel toks.
Proof.
  exists exR, exTbad, exT, [2;3], 100%nat. split; [exact ex_bisim_rejects_bad|].
  vm_compute. discriminate.
Qed.

Example ex_check_complete : check_complete exG exT exI exF = true.
Proof. vm_compute. reflexivity. Qed.

(* dropping one reduce action (state 2 on b) makes the tables incomplete, and the checker says so *)
Definition exTincomplete : tables :=
  set_action exT 2 [(2, Shift 4)].

Example ex_check_complete_rejects : check_complete exG exTincomplete exI exF = false.
Proof. vm_compute. reflexivity. Qed.

Example ex_incomplete_rejects_sentence : run exTincomplete 100 [2;3] = Rejected 0 1 3 2 [2].
Proof. vm_compute. reflexivity. Qed.

Lemma check_complete_nonvacuous :
  exists G T I F t toks, check_complete G T I F = true /\ derives G (g_start G) t 0%nat toks /\ toks <> [].
Proof.
  exists exG, exT, exI, exF.
  eexists. exists [2;2;3;3]. split; [exact ex_check_complete|]. split; [|discriminate].
  eapply run_sound; [exact ex_check_sound| |exact ex_accepts].
  vm_compute. intros [H|[H|[H|[H|[]]]]]; discriminate.
Qed.
