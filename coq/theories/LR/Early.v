(* LR/Early.v -- "no token is shifted unless some sentence continues":
   if `run` reports an error at token index i, the tokens before it form a viable
   prefix of the grammar (`error_not_early`).  Together with LR/Complete.error_not_late
   this pins the error position exactly (`error_position_exact`).

   Hypotheses it genuinely needs, both as checkable certificates:
     check_productive G R   every nonterminal derives some terminal string: R assigns a rank to
                            each nonterminal and each nonterminal has a production whose
                            nonterminals all have a smaller rank;
     check_early G T I      the item cores I(s) of each state are VALID: state 0 has no kernel
                            core but the seed [S' -> . start]; along every Shift/goto edge
                            s --X--> s' (s' <> 0, I(s') non-empty) each kernel core
                            [A -> alpha X . beta] of I(s') stems from [A -> alpha . X beta] in
                            I(s); inside a state every closure core [B -> . delta] is reachable
                            from a kernel core through leftmost nonterminals (a least fixed
                            point computed by the checker, no order imposed on the certificate);
     check_sound G T C      (LR/Sound.v) supplies that a Reduce pops exactly its right-hand side.
   Without productivity the statement is false: `error_not_early_refuted` (grammar S -> a S,
   the unchanged-tree finding lr1-error-reported-late:unproductive-nonterminals).
   No gap: error_not_early is closed under the global context. *)
From Coq Require Import Arith NArith PArith List Bool Lia FMapPositive.
Require Import EmbossV.LR.Driver EmbossV.LR.Sound EmbossV.LR.Complete.
Import ListNotations.
Open Scope N_scope.

(* ---------------------------------------------------------------- index-free derivations *)

Inductive gen (G : grammar) : N -> list N -> Prop :=
| G_term : forall a, is_nonterminal G a = false -> gen G a [a]
| G_prod : forall lhs rhs w, In (lhs, rhs) (g_prods G) -> gen_list G rhs w -> gen G lhs w
with gen_list (G : grammar) : list N -> list N -> Prop :=
| GL_nil : gen_list G [] []
| GL_cons : forall X Xs w1 w2, gen G X w1 -> gen_list G Xs w2 -> gen_list G (X :: Xs) (w1 ++ w2).

Scheme gen_ind2 := Induction for gen Sort Prop
  with gen_list_ind2 := Induction for gen_list Sort Prop.
Combined Scheme gen_mutind from gen_ind2, gen_list_ind2.

Lemma derives_gen : forall G,
  (forall X t i w, derives G X t i w -> gen G X w) /\
  (forall Xs ts i w, derives_list G Xs ts i w -> gen_list G Xs w).
Proof.
  intros G. apply derives_mutind; intros.
  - constructor. assumption.
  - eapply G_prod; eauto.
  - constructor.
  - constructor; assumption.
Qed.

Lemma gen_derives : forall G,
  (forall X w, gen G X w -> forall i, exists t, derives G X t i w) /\
  (forall Xs w, gen_list G Xs w -> forall i, exists ts, derives_list G Xs ts i w).
Proof.
  intros G. apply gen_mutind.
  - intros a Ha i. exists (PLeaf a i). constructor. exact Ha.
  - intros lhs rhs w Hin Hl IH i. destruct (IH i) as [ts Hts]. exists (PNode lhs rhs ts). constructor; assumption.
  - intros i. exists []. constructor.
  - intros X Xs w1 w2 H1 IH1 H2 IH2 i. destruct (IH1 i) as [t Ht].
    destruct (IH2 (i + length w1)%nat) as [ts Hts]. exists (t :: ts). constructor; assumption.
Qed.

Lemma gen_list_app : forall G A w1, gen_list G A w1 -> forall B w2, gen_list G B w2 ->
  gen_list G (A ++ B) (w1 ++ w2).
Proof.
  induction 1 as [|X Xs wa wb HX HXs IH]; intros B w2 HB; simpl; [exact HB|].
  rewrite <- app_assoc. constructor; [exact HX|]. apply IH. exact HB.
Qed.

Lemma gen_list_single : forall G X w, gen G X w -> gen_list G [X] w.
Proof. intros. replace w with (w ++ []) by apply app_nil_r. constructor; [assumption|constructor]. Qed.

Lemma firstn_S_nth : forall (A : Type) d (l : list A) x, nth_error l d = Some x ->
  firstn (S d) l = firstn d l ++ [x].
Proof.
  induction d as [|d IH]; intros l x H; destruct l as [|y l]; try discriminate.
  - simpl in H. inversion H. reflexivity.
  - simpl in H. simpl. f_equal. apply IH. exact H.
Qed.

Lemma skipn_nth : forall (A : Type) d (l : list A) x, nth_error l d = Some x ->
  skipn d l = x :: skipn (S d) l.
Proof.
  induction d as [|d IH]; intros l x H; destruct l as [|y l]; try discriminate.
  - simpl in H. inversion H. reflexivity.
  - simpl in H. apply IH in H. exact H.
Qed.

(* ---------------------------------------------------------------- productivity certificate *)

Definition pcert := nmap N.

Definition rank (R : pcert) (X : N) : N := match nget R X with Some r => r | None => 0 end.

Definition check_productive (G : grammar) (R : pcert) : bool :=
  forallb (fun pr =>
    existsb (fun pr2 =>
      N.eqb (fst pr2) (fst pr)
      && forallb (fun Y => negb (is_nonterminal G Y) || N.ltb (rank R Y) (rank R (fst pr))) (snd pr2))
      (g_prods G)) (g_prods G).

Lemma productive_sym : forall G R, check_productive G R = true ->
  forall n X, (N.to_nat (rank R X) < n)%nat -> exists w, gen G X w.
Proof.
  intros G R Hc. unfold check_productive in Hc. rewrite forallb_forall in Hc.
  induction n as [|n IH]; intros X Hlt; [lia|].
  destruct (is_nonterminal G X) eqn:Hnt.
  - unfold is_nonterminal in Hnt. apply existsb_exists in Hnt. destruct Hnt as [pr [Hin Hpr]].
    apply N.eqb_eq in Hpr. specialize (Hc _ Hin). apply existsb_exists in Hc.
    destruct Hc as [[lhs rhs] [Hin2 H2]]. simpl in H2. apply andb_true_iff in H2. destruct H2 as [Hl Hall].
    apply N.eqb_eq in Hl. rewrite Hpr in *. subst lhs. rewrite forallb_forall in Hall.
    assert (Hrhs : forall l, (forall Y, In Y l -> In Y rhs) -> exists w, gen_list G l w).
    { induction l as [|Y l IHl]; intros Hsub; [exists []; constructor|].
      destruct IHl as [w2 Hw2]; [intros; apply Hsub; right; assumption|].
      specialize (Hall Y (Hsub Y (or_introl eq_refl))). apply orb_true_iff in Hall.
      assert (HY : exists w1, gen G Y w1).
      { destruct Hall as [Ht|Hr].
        - apply negb_true_iff in Ht. exists [Y]. constructor. exact Ht.
        - apply N.ltb_lt in Hr. apply IH. lia. }
      destruct HY as [w1 Hw1]. exists (w1 ++ w2). constructor; assumption. }
    destruct (Hrhs rhs (fun Y H => H)) as [w Hw]. exists w. eapply G_prod; eauto.
  - exists [X]. constructor. exact Hnt.
Qed.

Lemma productive_list : forall G R, check_productive G R = true -> forall l, exists w, gen_list G l w.
Proof.
  intros G R Hc. induction l as [|X l [w2 IH]]; [exists []; constructor|].
  destruct (productive_sym G R Hc (S (N.to_nat (rank R X))) X) as [w1 H1]; [lia|].
  exists (w1 ++ w2). constructor; assumption.
Qed.

(* ---------------------------------------------------------------- validity of item cores *)

Definition is_kernel (c : core) : bool :=
  match fst c with None => true | Some _ => negb (Nat.eqb (snd c) 0) end.

Definition after_dot (G : grammar) (c : core) : option N :=
  match rhs_of G (fst c) with Some rhs => nth_error rhs (snd c) | None => None end.

Definition lhs_of (G : grammar) (po : option N) : option N :=
  match po with
  | Some p => option_map fst (nth_error (g_prods G) (N.to_nat p))
  | None => None
  end.

Definition memN (x : N) (l : list N) : bool := existsb (N.eqb x) l.

(* (kernel?, lhs, symbol after the dot) of each item, computed once per state *)
Definition pre_item (G : grammar) (it : item) : bool * option N * option N :=
  (is_kernel (fst it), lhs_of G (fst (fst it)), after_dot G (fst it)).

Definition reach_pass (pl : list (bool * option N * option N)) (reach : list N) : list N :=
  fold_left (fun acc e =>
    match e with
    | (false, Some A, Some Z) => if memN A acc then (if memN Z acc then acc else Z :: acc) else acc
    | _ => acc
    end) pl reach.

Fixpoint reach_iter (pl : list (bool * option N * option N)) (n : nat) (reach : list N) : list N :=
  match n with
  | O => reach
  | S k => let r' := reach_pass pl reach in
           if Nat.eqb (length r') (length reach) then reach else reach_iter pl k r'
  end.

Definition kernel_syms (pl : list (bool * option N * option N)) : list N :=
  flat_map (fun e => match e with (true, _, Some X) => [X] | _ => [] end) pl.

Definition check_closure (G : grammar) (l : list item) : bool :=
  let pl := map (pre_item G) l in
  let reach := reach_iter pl (length l) (kernel_syms pl) in
  forallb (fun e => match e with
                    | (true, _, _) => true
                    | (false, Some A, _) => memN A reach
                    | (false, None, _) => false
                    end) pl.

Definition items_of (I : icert) (s : N) : list item :=
  match nget I s with Some l => l | None => [] end.

Definition has_core (l : list item) (c : core) : bool := existsb (fun it => core_eqb c (fst it)) l.

Definition check_edge (G : grammar) (I : icert) (s X s' : N) : bool :=
  negb (N.eqb s' 0)
  && match items_of I s' with
     | [] => false
     | l' => forallb (fun it' =>
               if is_kernel (fst it') then
                 match snd (fst it') with
                 | O => false
                 | S d => has_core (items_of I s) (fst (fst it'), d)
                          && match after_dot G (fst (fst it'), d) with Some Y => N.eqb Y X | None => false end
                 end
               else true) l'
     end.

Definition shift_edges (row : list (N * act)) : list (N * N) :=
  flat_map (fun e => match snd e with Shift s' => [(fst e, s')] | _ => [] end) row.

Definition check_early (G : grammar) (T : tables) (I : icert) : bool :=
  match items_of I 0 with [] => false | _ => true end
  && forallb (fun it => negb (is_kernel (fst it)) || core_eqb (fst it) (None, O)) (items_of I 0)
  && forallb (fun kl => check_closure G (snd kl)) (PositiveMap.elements I)
  && forallb (fun kr => forallb (fun e => check_edge G I (Pos.pred_N (fst kr)) (fst e) (snd e)) (shift_edges (snd kr)))
       (PositiveMap.elements (t_action T))
  && forallb (fun kr => forallb (fun e => check_edge G I (Pos.pred_N (fst kr)) (fst e) (snd e)) (snd kr))
       (PositiveMap.elements (t_goto T)).

Lemma memN_In : forall x l, memN x l = true -> In x l.
Proof.
  unfold memN. intros x l H. apply existsb_exists in H. destruct H as [y [Hin Hy]].
  apply N.eqb_eq in Hy. subst. exact Hin.
Qed.

Lemma core_eqb_eq : forall a b, core_eqb a b = true -> a = b.
Proof.
  intros [a1 a2] [b1 b2] H. unfold core_eqb in H. simpl in H. apply andb_true_iff in H. destruct H as [H1 H2].
  apply opt_N_eqb_eq in H1. apply Nat.eqb_eq in H2. subst. reflexivity.
Qed.

Section Early.
  Variable G : grammar.
  Variable R : pcert.
  Hypothesis Hprod : check_productive G R = true.

  (* core c is valid for the token string u: u = u0 ua, the part before the dot generates ua,
     and whatever the part after the dot generates is completed to a sentence by a fixed tail w *)
  Definition Valid (u : list N) (c : core) : Prop :=
    exists rhs u0 ua w,
      rhs_of G (fst c) = Some rhs /\ u = u0 ++ ua /\ gen_list G (firstn (snd c) rhs) ua /\
      forall z, gen_list G (skipn (snd c) rhs) z -> gen G (g_start G) (u0 ++ ua ++ z ++ w).

  (* u [B] w is a sentential context *)
  Definition Cx (u : list N) (B : N) : Prop :=
    exists w, forall z, gen G B z -> gen G (g_start G) (u ++ z ++ w).

  Lemma valid_seed : Valid [] (None, O).
  Proof.
    exists [g_start G], [], [], []. simpl. repeat split; try constructor.
    intros z Hz. inversion Hz as [|X Xs w1 w2 H1 H2]; subst. inversion H2. subst.
    rewrite app_nil_r. rewrite app_nil_r. exact H1.
  Qed.

  Lemma valid_cx : forall u c B, Valid u c -> after_dot G c = Some B -> Cx u B.
  Proof.
    intros u c B [rhs [u0 [ua [w [Hr [Hu [Hg Hall]]]]]]] Ha. unfold after_dot in Ha. rewrite Hr in Ha.
    destruct (productive_list G R Hprod (skipn (S (snd c)) rhs)) as [zb Hzb].
    exists (zb ++ w). intros z Hz.
    assert (Hl : gen_list G (skipn (snd c) rhs) (z ++ zb)).
    { rewrite (skipn_nth _ _ _ _ Ha). constructor; assumption. }
    specialize (Hall _ Hl). subst u. repeat rewrite <- app_assoc in *. exact Hall.
  Qed.

  Lemma cx_valid : forall u p A delta, Cx u A ->
    nth_error (g_prods G) (N.to_nat p) = Some (A, delta) -> Valid u (Some p, O).
  Proof.
    intros u p A delta [w Hw] Hn. exists delta, u, [], w. simpl.
    split; [unfold production in *; rewrite Hn; reflexivity|].
    split; [symmetry; apply app_nil_r|]. split; [constructor|].
    intros z Hz. apply Hw. eapply G_prod; [eapply nth_error_In; exact Hn|exact Hz].
  Qed.

  Lemma valid_step : forall u po d X x, Valid u (po, d) -> after_dot G (po, d) = Some X -> gen G X x ->
    Valid (u ++ x) (po, S d).
  Proof.
    intros u po d X x [rhs [u0 [ua [w [Hr [Hu [Hg Hall]]]]]]] Ha HX. simpl in *.
    unfold after_dot in Ha. simpl in Ha. rewrite Hr in Ha.
    exists rhs, u0, (ua ++ x), w. cbn [fst snd]. split; [exact Hr|]. split; [subst; symmetry; apply app_assoc|].
    split.
    - rewrite (firstn_S_nth _ _ _ _ Ha). apply gen_list_app; [exact Hg|]. apply gen_list_single. exact HX.
    - intros z Hz.
      assert (Hl : gen_list G (skipn d rhs) (x ++ z)) by (rewrite (skipn_nth _ _ _ _ Ha); constructor; assumption).
      specialize (Hall _ Hl). repeat rewrite <- app_assoc in *. exact Hall.
  Qed.

  (* ---- closure inside a state ---- *)

  Definition good (u : list N) (reach : list N) : Prop := forall B, In B reach -> Cx u B.

  Lemma pre_item_kernel : forall it, fst (fst (pre_item G it)) = is_kernel (fst it).
  Proof. reflexivity. Qed.

  Lemma closure_core : forall c A, is_kernel c = false -> lhs_of G (fst c) = Some A ->
    exists p delta, c = (Some p, O) /\ nth_error (g_prods G) (N.to_nat p) = Some (A, delta).
  Proof.
    intros [po d] A Hk Hl. unfold is_kernel in Hk. simpl in *. destruct po as [p|]; [|discriminate].
    apply negb_false_iff in Hk. apply Nat.eqb_eq in Hk. subst d. simpl in Hl.
    destruct (nth_error (g_prods G) (N.to_nat p)) as [[A' delta]|] eqn:E; [|discriminate].
    simpl in Hl. inversion Hl. subst. exists p, delta. split; [reflexivity|exact E].
  Qed.

  Lemma reach_pass_good : forall u l, forall pl, (forall e, In e pl -> exists it, In it l /\ e = pre_item G it) ->
    forall reach, good u reach -> good u (reach_pass pl reach).
  Proof.
    intros u l. unfold reach_pass. induction pl as [|e pl IH]; intros Hsrc reach Hg; [exact Hg|].
    simpl. apply IH; [intros; apply Hsrc; right; assumption|].
    destruct e as [[k oa] oz]. destruct k; [exact Hg|]. destruct oa as [A|]; [|exact Hg].
    destruct oz as [Z|]; [|exact Hg]. destruct (memN A reach) eqn:EA; [|exact Hg].
    destruct (memN Z reach) eqn:EZ; [exact Hg|].
    intros B [HB|HB]; [|apply Hg; exact HB]. subst B.
    destruct (Hsrc _ (or_introl eq_refl)) as [it [Hin He]]. unfold pre_item in He. inversion He as [[Hk Hl Ha]].
    symmetry in Hk, Hl, Ha.
    destruct (closure_core _ _ Hk Hl) as [p [delta [Hc Hn]]].
    apply (valid_cx u (fst it)); [|exact Ha]. rewrite Hc.
    eapply cx_valid; [|exact Hn]. apply Hg. apply memN_In. exact EA.
  Qed.

  Lemma reach_iter_good : forall u l pl, (forall e, In e pl -> exists it, In it l /\ e = pre_item G it) ->
    forall n reach, good u reach -> good u (reach_iter pl n reach).
  Proof.
    intros u l pl Hsrc. induction n as [|n IH]; intros reach Hg; [exact Hg|].
    simpl. destruct (Nat.eqb _ _); [exact Hg|]. apply IH. eapply reach_pass_good; eauto.
  Qed.

  Lemma closure_valid : forall u l, check_closure G l = true ->
    (forall it, In it l -> is_kernel (fst it) = true -> Valid u (fst it)) ->
    forall it, In it l -> Valid u (fst it).
  Proof.
    intros u l Hc Hker it Hin. destruct (is_kernel (fst it)) eqn:Hk; [apply Hker; assumption|].
    unfold check_closure in Hc. rewrite forallb_forall in Hc.
    specialize (Hc (pre_item G it) (in_map _ _ _ Hin)). unfold pre_item in Hc. rewrite Hk in Hc.
    destruct (lhs_of G (fst (fst it))) as [A|] eqn:El; [|discriminate].
    destruct (closure_core _ _ Hk El) as [p [delta [Hcore Hn]]]. rewrite Hcore.
    eapply cx_valid; [|exact Hn].
    assert (Hsrc : forall e, In e (map (pre_item G) l) -> exists it0, In it0 l /\ e = pre_item G it0).
    { intros e He. apply in_map_iff in He. destruct He as [it0 [He Hi]]. exists it0. split; auto. }
    refine (reach_iter_good u l _ Hsrc _ _ _ A (memN_In _ _ Hc)).
    intros B HB. unfold kernel_syms in HB. apply in_flat_map in HB. destruct HB as [e [He HB]].
    destruct (Hsrc _ He) as [it0 [Hi0 He0]]. subst e. unfold pre_item in HB.
    destruct (is_kernel (fst it0)) eqn:Hk0; [|destruct HB].
    destruct (after_dot G (fst it0)) as [X|] eqn:Ea; [|destruct HB].
    destruct HB as [HB|[]]. subst X. eapply valid_cx; [apply Hker; eassumption|exact Ea].
  Qed.

  (* ---- the parser invariant ---- *)

  Variable T : tables.
  Variable C : cert.
  Variable I : icert.
  Hypothesis Hsound : check_sound G T C = true.
  Hypothesis Hearly : check_early G T I = true.

  Definition all_valid (s : N) (u : list N) : Prop :=
    items_of I s <> [] /\ forall it, In it (items_of I s) -> Valid u (fst it).

  Lemma e_parts :
    items_of I 0 <> [] /\
    (forall it, In it (items_of I 0) -> is_kernel (fst it) = true -> fst it = (None, O)) /\
    (forall s, check_closure G (items_of I s) = true) /\
    (forall s r a s', nget (t_action T) s = Some r -> In (a, Shift s') r -> check_edge G I s a s' = true) /\
    (forall s r X s', nget (t_goto T) s = Some r -> In (X, s') r -> check_edge G I s X s' = true).
  Proof.
    unfold check_early in Hearly.
    apply andb_true_iff in Hearly. destruct Hearly as [H Hg].
    apply andb_true_iff in H. destruct H as [H Ha].
    apply andb_true_iff in H. destruct H as [H Hc].
    apply andb_true_iff in H. destruct H as [H0 Hk].
    split; [|split; [|split; [|split]]].
    - intros E. rewrite E in H0. discriminate.
    - intros it Hin Hker. rewrite forallb_forall in Hk. specialize (Hk _ Hin). rewrite Hker in Hk. simpl in Hk.
      apply core_eqb_eq. exact Hk.
    - intros s. unfold items_of. destruct (nget I s) as [l|] eqn:E; [|reflexivity].
      rewrite forallb_forall in Hc. exact (Hc _ (nget_elements _ _ _ _ E)).
    - intros s r a s' Hr Hin. rewrite forallb_forall in Ha. specialize (Ha _ (nget_elements _ _ _ _ Hr)).
      simpl in Ha. rewrite N.pos_pred_succ in Ha. rewrite forallb_forall in Ha.
      apply (Ha (a, s')). unfold shift_edges. apply in_flat_map. exists (a, Shift s'). split; [exact Hin|]. simpl. auto.
    - intros s r X s' Hr Hin. rewrite forallb_forall in Hg. specialize (Hg _ (nget_elements _ _ _ _ Hr)).
      simpl in Hg. rewrite N.pos_pred_succ in Hg. rewrite forallb_forall in Hg. exact (Hg _ Hin).
  Qed.

  Lemma init_valid : all_valid 0 [].
  Proof.
    destruct e_parts as [H0 [Hk [Hc _]]]. split; [exact H0|].
    apply closure_valid; [apply Hc|]. intros it Hin Hker. rewrite (Hk _ Hin Hker). apply valid_seed.
  Qed.

  Lemma edge_valid : forall s X s' u x, check_edge G I s X s' = true -> gen G X x ->
    (forall it, In it (items_of I s) -> Valid u (fst it)) -> all_valid s' (u ++ x).
  Proof.
    intros s X s' u x He HX Hs. destruct e_parts as [_ [_ [Hc _]]].
    unfold check_edge in He. apply andb_true_iff in He. destruct He as [_ He].
    unfold all_valid.
    destruct (items_of I s') as [|i0 l0] eqn:El; [discriminate|]. split; [discriminate|].
    rewrite <- El in He. rewrite <- El. apply closure_valid; [apply Hc|].
    intros it Hin Hker. rewrite forallb_forall in He. specialize (He _ Hin). rewrite Hker in He.
    destruct (fst it) as [po d'] eqn:Ec. simpl in He. destruct d' as [|d]; [discriminate|].
    apply andb_true_iff in He. destruct He as [Hh Ha].
    unfold has_core in Hh. apply existsb_exists in Hh. destruct Hh as [it0 [Hin0 Hc0]].
    apply core_eqb_eq in Hc0.
    destruct (after_dot G (po, d)) as [Y|] eqn:Ead; [|discriminate]. apply N.eqb_eq in Ha. subst Y.
    eapply valid_step; [|exact Ead|exact HX]. rewrite Hc0. apply Hs. exact Hin0.
  Qed.

  Inductive cstack : stack -> nat -> list N -> Prop :=
  | CS_nil : cstack [] 0%nat []
  | CS_cons : forall s t stk i w wt ks,
      cstack stk i w -> derives G (root t) t i wt ->
      nget C s = Some ks -> is_prefix ks (root t :: roots stk) = true ->
      all_valid s (w ++ wt) ->
      cstack ((s, t) :: stk) (i + length wt)%nat (w ++ wt).

  Lemma cstack_ok : forall stk i w, cstack stk i w -> stack_ok G C stk i w.
  Proof. induction 1; econstructor; eauto. Qed.

  Lemma cstack_len : forall stk i w, cstack stk i w -> i = length w.
  Proof. induction 1; [reflexivity|]. rewrite app_length. lia. Qed.

  Lemma top_valid : forall stk i w, cstack stk i w -> all_valid (top_state stk) w.
  Proof. intros stk i w H. destruct H; [apply init_valid|assumption]. Qed.

  Lemma cstack_split : forall n stk i w, cstack stk i w -> (n <= length stk)%nat ->
    exists i0 w0 wn,
      cstack (skipn n stk) i0 w0 /\
      derives_list G (rev (firstn n (roots stk))) (rev (map snd (firstn n stk))) i0 wn /\
      i = (i0 + length wn)%nat /\ w = w0 ++ wn.
  Proof.
    induction n as [|n IH]; intros stk i w Hok Hlen.
    - exists i, w, []. simpl. repeat split; auto.
      + constructor.
      + symmetry. apply app_nil_r.
    - destruct Hok as [|s t stk i w wt ks Hok Hd Hk Hp Hv]; [simpl in Hlen; lia|].
      simpl in Hlen. assert (Hl : (n <= length stk)%nat) by lia.
      destruct (IH _ _ _ Hok Hl) as [i0 [w0 [wn [H1 [H2 [H3 H4]]]]]].
      exists i0, w0, (wn ++ wt). simpl. repeat split.
      + exact H1.
      + apply derives_list_snoc; [exact H2|]. rewrite <- H3. exact Hd.
      + rewrite app_length. lia.
      + rewrite H4. rewrite app_assoc. reflexivity.
  Qed.

  Definition viable (u : list N) : Prop := exists z, gen G (g_start G) (u ++ z).

  Lemma valid_viable : forall s u, all_valid s u -> viable u.
  Proof.
    intros s u [Hne Hall]. destruct (items_of I s) as [|it l] eqn:E; [contradiction|].
    destruct (Hall it (or_introl eq_refl)) as [rhs [u0 [ua [w [Hr [Hu [Hg Hz]]]]]]].
    destruct (productive_list G R Hprod (skipn (snd (fst it)) rhs)) as [z Hgz].
    exists (z ++ w). specialize (Hz _ Hgz). subst u. repeat rewrite <- app_assoc in *. exact Hz.
  Qed.

  Lemma loop_early : forall fuel stk rest idx w c i tok st e,
    cstack stk idx w -> loop T fuel stk rest idx = Rejected c i tok st e ->
    exists u r, length u = i /\ w ++ rest = u ++ tok :: r /\ viable u.
  Proof.
    induction fuel as [|f IH]; intros stk rest idx w c i tok st e Hcs Hrun; [discriminate|].
    simpl in Hrun. destruct rest as [|a rest']; [discriminate|].
    pose proof (cstack_ok _ _ _ Hcs) as Hok.
    destruct (next_action T (top_state stk) a) as [s'|lhs rhs| |c0] eqn:Hact.
    - (* Shift *)
      destruct (next_action_inv _ _ _ _ Hact eq_refl) as [r [Hr Hin]].
      destruct (check_rows_get _ _ _ _ _ _ (c_actions G T C Hsound) Hr) as [ks [Hks Hall]].
      specialize (Hall _ Hin). unfold check_act in Hall. simpl in Hall.
      apply andb_true_iff in Hall. destruct Hall as [Hterm Htgt]. apply negb_true_iff in Hterm.
      destruct (transition_ok G T C Hsound _ _ _ _ _ _ Hok Hks Htgt) as [ks' [Hks' Hp']].
      destruct e_parts as [_ [_ [_ [Hsh _]]]].
      pose proof (Hsh _ _ _ _ Hr Hin) as Hedge.
      destruct (top_valid _ _ _ Hcs) as [_ Htv].
      pose proof (edge_valid _ _ _ w [a] Hedge (G_term G a Hterm) Htv) as Hv'.
      assert (Hcs' : cstack ((s', PLeaf a idx) :: stk) (idx + length [a])%nat (w ++ [a])).
      { eapply CS_cons; eauto. simpl. constructor. exact Hterm. }
      simpl in Hcs'. rewrite Nat.add_1_r in Hcs'.
      destruct (IH _ _ _ _ _ _ _ _ _ Hcs' Hrun) as [u [r0 [H1 [H2 H3]]]].
      exists u, r0. split; [exact H1|]. split; [|exact H3]. rewrite <- app_assoc in H2. exact H2.
    - (* Reduce *)
      destruct (next_action_inv _ _ _ _ Hact eq_refl) as [r [Hr Hin]].
      destruct (check_rows_get _ _ _ _ _ _ (c_actions G T C Hsound) Hr) as [ks [Hks Hall]].
      specialize (Hall _ Hin). unfold check_act in Hall. simpl in Hall.
      apply andb_true_iff in Hall. destruct Hall as [Hmem Hpre]. apply mem_prod_In in Hmem.
      destruct (known_top G T C Hsound _ _ _ Hok) as [ks0 [Hk0 Hp0]]. rewrite Hks in Hk0. inversion Hk0. subst ks0.
      pose proof (is_prefix_trans _ _ _ Hpre Hp0) as Hpr.
      apply is_prefix_app in Hpr. destruct Hpr as [rr Hrr].
      assert (Hlen : (length rhs <= length stk)%nat).
      { assert (length (roots stk) = length stk) by (unfold roots; apply map_length).
        rewrite <- H. rewrite Hrr. rewrite app_length, rev_length. lia. }
      unfold pop_count in Hrun. apply Nat.leb_le in Hlen. rewrite Hlen in Hrun. apply Nat.leb_le in Hlen.
      destruct (cstack_split _ _ _ _ Hcs Hlen) as [i0 [w0 [wn [Hs1 [Hs2 [Hs3 Hs4]]]]]].
      assert (Hfirst : rev (firstn (length rhs) (roots stk)) = rhs).
      { rewrite Hrr. rewrite <- (rev_length rhs) at 1. rewrite firstn_app.
        rewrite Nat.sub_diag. simpl. rewrite app_nil_r. rewrite firstn_all. apply rev_involutive. }
      rewrite Hfirst in Hs2.
      destruct (goto_of T (top_state (skipn (length rhs) stk)) lhs) as [s'|] eqn:Hgoto; [|discriminate].
      unfold goto_of in Hgoto.
      destruct (nget (t_goto T) (top_state (skipn (length rhs) stk))) as [grow|] eqn:Hgrow; [|discriminate].
      destruct (check_rows_get _ _ _ _ _ _ (c_gotos G T C Hsound) Hgrow) as [ksg [Hksg Hallg]].
      pose proof (assoc_In _ _ _ _ Hgoto) as Hing.
      specialize (Hallg _ Hing). unfold check_goto in Hallg. simpl in Hallg.
      destruct (transition_ok G T C Hsound _ _ _ _ _ _ (cstack_ok _ _ _ Hs1) Hksg Hallg) as [ks' [Hks' Hp']].
      destruct e_parts as [_ [_ [_ [_ Hgo]]]].
      pose proof (Hgo _ _ _ _ Hgrow Hing) as Hedge.
      destruct (top_valid _ _ _ Hs1) as [_ Htv].
      assert (Hgen : gen G lhs wn).
      { eapply G_prod; [exact Hmem|]. exact (proj2 (derives_gen G) _ _ _ _ Hs2). }
      pose proof (edge_valid _ _ _ w0 wn Hedge Hgen Htv) as Hv'.
      set (node := PNode lhs rhs (rev (map snd (firstn (length rhs) stk)))) in *.
      assert (Hcs' : cstack ((s', node) :: skipn (length rhs) stk) (i0 + length wn)%nat (w0 ++ wn)).
      { eapply CS_cons; eauto. simpl. constructor; assumption. }
      rewrite <- Hs3, <- Hs4 in Hcs'.
      exact (IH _ _ _ _ _ _ _ _ _ Hcs' Hrun).
    - (* Accept *)
      destruct stk as [|[s0 t0] [|e0 stk]]; try discriminate.
      destruct (N.eqb a (t_eoi T)); discriminate.
    - (* Err *)
      assert (Hrej : i = idx /\ tok = a).
      { destruct (nget (t_action T) (top_state stk)).
        - inversion Hrun. auto.
        - destruct (t_dflt T); [|discriminate]. inversion Hrun. auto. }
      destruct Hrej as [Hi Ht]. subst i tok.
      exists w, rest'. split; [symmetry; eapply cstack_len; eauto|]. split; [reflexivity|].
      eapply valid_viable. eapply top_valid. eauto.
  Qed.
End Early.

Lemma prefix_of_app : forall (toks u : list N) (x tok : N) r,
  toks ++ [x] = u ++ tok :: r -> firstn (length u) toks = u.
Proof.
  induction toks as [|a toks IH]; intros u x tok r H.
  - destruct u as [|b u]; [reflexivity|]. simpl in H. inversion H. destruct u; discriminate.
  - destruct u as [|b u]; [reflexivity|]. simpl in H. inversion H. subst. simpl. f_equal. eapply IH; eauto.
Qed.

(* An error at token index i: the tokens before it are the beginning of some sentence. *)
Theorem error_not_early : forall G T C I R fuel toks c i tok st e,
  check_sound G T C = true -> check_early G T I = true -> check_productive G R = true ->
  run T fuel toks = Rejected c i tok st e ->
  exists suffix t, derives G (g_start G) t 0%nat (firstn i toks ++ suffix).
Proof.
  intros G T C I R fuel toks c i tok st e Hs He Hp Hr. unfold run in Hr.
  pose proof (loop_early G R Hp T C I Hs He fuel [] (toks ++ [t_eoi T]) 0%nat [] c i tok st e) as HL.
  destruct HL as [u [r [H1 [H2 [z H3]]]]]; [constructor|exact Hr|].
  simpl in H2. pose proof (prefix_of_app _ _ _ _ _ H2) as Hf. rewrite H1 in Hf. rewrite Hf.
  destruct (proj1 (gen_derives G) _ _ H3 0%nat) as [t Ht]. exists z, t. exact Ht.
Qed.

(* The exact error position: tokens 0..i-1 start a sentence, tokens 0..i do not. *)
Theorem error_position_exact : forall G T C I F R fuel toks c i tok st e,
  check_sound G T C = true -> check_complete G T I F = true ->
  check_early G T I = true -> check_productive G R = true ->
  run T fuel toks = Rejected c i tok st e ->
  (exists suffix t, derives G (g_start G) t 0%nat (firstn i toks ++ suffix)) /\
  (forall toks' t, firstn (S i) toks' = firstn (S i) toks -> ~ derives G (g_start G) t 0%nat toks').
Proof.
  intros. split.
  - eapply error_not_early; eauto.
  - eapply error_not_late; eauto.
Qed.
